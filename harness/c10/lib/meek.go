package lib

import (
	"bufio"
	"bytes"
	"fmt"
	"io"
	"net"
	"net/http"
	"runtime/debug"
	"strings"
	"sync"
	"time"

	pt "gitlab.torproject.org/tpo/anti-censorship/pluggable-transports/goptlib"

	"gitlab.com/yawning/obfs4.git/transports"
	"gitlab.com/yawning/obfs4.git/transports/meeklite"

	"verif/harness/vlib"
)

// meekResp is one scripted answer of the harness's HTTP peer.
type meekResp struct {
	Raw   []byte
	After string // "" | eof | reset | stall (nothing more is sent, the connection stays open)
}

// meekPeer plays the HTTP server on the in-memory conns the transport dials: whenever a
// complete request has been written it feeds the next scripted response.
type meekPeer struct {
	mu       sync.Mutex
	script   []meekResp
	idle     []byte // response once the script is exhausted (nil: stay silent)
	conns    []*Conn
	acc      map[*Conn][]byte
	Requests int
	ReqBytes int
	down     bool
}

func (p *meekPeer) dial(string, string) (net.Conn, error) {
	p.mu.Lock()
	defer p.mu.Unlock()
	if p.down {
		return nil, fmt.Errorf("connection refused (case is over)")
	}
	c := NewConn()
	p.conns = append(p.conns, c)
	c.ScriptConn.OnWrite = func(b []byte) { p.onWrite(c, b) }
	return c, nil
}

func (p *meekPeer) onWrite(c *Conn, b []byte) {
	p.mu.Lock()
	defer p.mu.Unlock()
	if p.acc == nil {
		p.acc = map[*Conn][]byte{}
	}
	p.acc[c] = append(p.acc[c], b...)
	for {
		rd := bufio.NewReader(bytes.NewReader(p.acc[c]))
		req, err := http.ReadRequest(rd)
		if err != nil {
			return // incomplete
		}
		body, err := io.ReadAll(req.Body)
		if err != nil {
			return // body incomplete
		}
		p.Requests++
		p.ReqBytes += len(body)
		rest, _ := io.ReadAll(rd)
		p.acc[c] = rest
		var r meekResp
		if len(p.script) > 0 {
			r, p.script = p.script[0], p.script[1:]
		} else if p.idle != nil {
			r = meekResp{Raw: p.idle}
		} else {
			return
		}
		c.FeedAll(r.Raw, nil)
		switch r.After {
		case "eof":
			c.FeedEOF()
		case "reset":
			c.FeedErr(ErrReset)
		}
		if len(rest) == 0 {
			return
		}
	}
}

// shutdown cuts every connection and refuses new ones.
func (p *meekPeer) shutdown() {
	p.mu.Lock()
	p.down = true
	conns := append([]*Conn(nil), p.conns...)
	p.mu.Unlock()
	for _, c := range conns {
		c.FeedEOF()
	}
}

func httpOK(body []byte) []byte {
	return append([]byte(fmt.Sprintf("HTTP/1.1 200 OK\r\nContent-Type: application/octet-stream\r\nContent-Length: %d\r\n\r\n", len(body))), body...)
}

// MeekGens: generators for the meek_lite client.
var MeekGens = []string{"valid", "body-over-limit", "chunked-huge", "garbage", "bad-status-line", "big-header", "cut-at", "status-error",
	"stall-headers", "stall-body", "backlog", "no-content-length", "negative-length", "length-mismatch", "mut:flip", "mut:trunc", "mut:insert", "mut:splice-rand", "mut:zero", "mut:drop"}

// meekLeft: goroutines of the meek_lite package still alive, ignoring workers sleeping in
// roundTrip's bounded retry delay (maxRetries × retryDelay, local policy, not a leak).
func meekLeft(settle time.Duration) (left []string, sleeping int) {
	deadline := time.Now().Add(settle)
	for {
		left, sleeping = nil, 0
		for _, g := range TransportGoroutines() {
			if strings.Contains(g, "meekConn).roundTrip") && strings.Contains(g, "time.Sleep") {
				sleeping++
				continue
			}
			left = append(left, g)
		}
		if len(left) == 0 || time.Now().After(deadline) {
			return
		}
		time.Sleep(5 * time.Millisecond)
	}
}

type rdResult struct {
	maxRead int
	n       int
	err     error
	panic   interface{}
	stack   string
}

// RunMeek runs one meek_lite case.  The transport is inherently timing-driven (polling), so
// the oracle is restricted to what no schedule may violate: no panic in any call, every Read
// whose answer the script guarantees returns (generous limit), buffered bytes within the
// bound, and after Close + cut of every connection all goroutines of the package end.
func RunMeek(x *Ctx) {
	c := x.Case
	if c.Gen == "oversized" {
		runMeekOversized(x)
		return
	}
	if c.Gen == "blocked-write-cut" {
		runMeekBlockedWrite(x)
		return
	}
	rng := vlib.NewRng(c.Seed)
	t := transports.Get("meek_lite")
	if t == nil {
		panic("meek_lite not registered")
	}
	cf, _ := t.ClientFactory("")
	args := &pt.Args{}
	args.Add("url", "http://meek.invalid/")
	ca, err := cf.ParseArgs(args)
	if err != nil {
		panic(err)
	}
	peer := &meekPeer{idle: httpOK(nil)}
	body := rng.Bytes([]int{1, 100, 5000, 65535, 65536}[rng.Intn(5)])
	valid := httpOK(body)
	expectData, expectErr := false, false
	desc := c.Gen
	switch {
	case c.Gen == "valid":
		peer.script = []meekResp{{Raw: valid}}
		expectData = true
	case c.Gen == "body-over-limit":
		big := rng.Bytes(65537 + rng.Intn(200000))
		peer.script = []meekResp{{Raw: httpOK(big)}}
		expectData = true
	case c.Gen == "chunked-huge":
		var b bytes.Buffer
		b.WriteString("HTTP/1.1 200 OK\r\nTransfer-Encoding: chunked\r\n\r\n")
		for i := 0; i < 40; i++ {
			ch := rng.Bytes(1 + rng.Intn(30000))
			fmt.Fprintf(&b, "%x\r\n", len(ch))
			b.Write(ch)
			b.WriteString("\r\n")
		}
		if c.A%2 == 0 {
			b.WriteString("0\r\n\r\n")
		} else {
			b.WriteString("zz\r\n") // malformed chunk header at the end
		}
		peer.script = []meekResp{{Raw: b.Bytes()}}
		expectData = true
	case c.Gen == "garbage":
		lens := LengthClasses(4096, 17, 65536)
		peer.script = []meekResp{{Raw: rng.Bytes(1 + lens[((c.A%len(lens))+len(lens))%len(lens)]), After: "eof"}}
		expectErr = true
	case c.Gen == "bad-status-line":
		lines := []string{"HTTP/1.1 2000 OK\r\n\r\n", "HTTP/9.9 200 OK\r\n\r\n", "HTTP/1.1 abc OK\r\n\r\n", "ICY 200 OK\r\n\r\n", "HTTP/1.1 200\r\n\r\n", "\r\n\r\n", "HTTP/1.1 -1 X\r\n\r\n"}
		peer.script = []meekResp{{Raw: []byte(lines[c.A%len(lines)]), After: "eof"}}
	case c.Gen == "big-header":
		h := "HTTP/1.1 200 OK\r\nX-Pad: " + strings.Repeat("a", 100000+rng.Intn(200000)) + "\r\nContent-Length: 3\r\n\r\nabc"
		peer.script = []meekResp{{Raw: []byte(h)}}
		expectData = true
	case c.Gen == "cut-at":
		p := ((c.A % len(valid)) + len(valid)) % len(valid)
		after := c.Cut
		if after == "" {
			after = "eof"
		}
		peer.script = []meekResp{{Raw: valid[:p], After: after}}
		desc = fmt.Sprintf("valid response[:%d] of %d then %s", p, len(valid), after)
		expectErr = true
	case c.Gen == "status-error":
		codes := []int{100, 204, 301, 404, 500, 503}
		peer.script = []meekResp{{Raw: []byte(fmt.Sprintf("HTTP/1.1 %d X\r\nContent-Length: 0\r\n\r\n", codes[c.A%len(codes)]))}}
	case c.Gen == "stall-headers":
		peer.script = []meekResp{{Raw: []byte("HTTP/1.1 200 OK\r\nContent-Le"), After: "stall"}}
	case c.Gen == "stall-body":
		peer.script = []meekResp{{Raw: valid[:len(valid)-1], After: "stall"}}
	case c.Gen == "backlog":
		peer.idle = httpOK(rng.Bytes(1 + rng.Intn(65536)))
	case c.Gen == "no-content-length":
		peer.script = []meekResp{{Raw: append([]byte("HTTP/1.1 200 OK\r\n\r\n"), body...), After: "eof"}}
		expectData = true
	case c.Gen == "negative-length":
		peer.script = []meekResp{{Raw: append([]byte("HTTP/1.1 200 OK\r\nContent-Length: -5\r\n\r\n"), body...), After: "eof"}}
	case c.Gen == "length-mismatch":
		peer.script = []meekResp{{Raw: append([]byte(fmt.Sprintf("HTTP/1.1 200 OK\r\nContent-Length: %d\r\n\r\n", len(body)+10)), body...), After: "eof"}}
	case strings.HasPrefix(c.Gen, "mut:"):
		hdrEnd := bytes.Index(valid, []byte("\r\n\r\n")) + 4
		regions := []Region{{"status-line", 0, 17}, {"headers", 17, hdrEnd - 17}, {"content-length-value", hdrEnd - 4 - len(fmt.Sprint(len(body))), len(fmt.Sprint(len(body)))}, {"body", hdrEnd, len(body)}}
		m, d := Mutate(rng, c.Gen[4:], valid, regions, c.A, c.B)
		desc = d
		peer.script = []meekResp{{Raw: m, After: "eof"}}
	default:
		panic("unknown generator " + c.Gen)
	}
	c.Input = ""
	if len(peer.script) > 0 {
		c.Input = hexTrunc(peer.script[0].Raw, 4096)
	}
	conn, err := cf.Dial("tcp", "", peer.dial, ca)
	if err != nil {
		x.Outcome = "dial-err:" + ErrClass(err)
		x.R.Count(c.Prefix()+"/outcome", x.Outcome)
		return
	}
	protect := func(name string, f func()) (ok bool) {
		defer func() {
			if p := recover(); p != nil {
				site, class := PanicSite(p, string(debug.Stack()))
				x.Violate("panic-"+site+"-"+class, fmt.Sprintf("%s panicked: %v\n%s", name, p, trimStack(string(debug.Stack()), 1500)))
			}
		}()
		f()
		return true
	}
	protect("Write", func() { conn.Write(rng.Bytes(1 + rng.Intn(3000))) })
	checkBuf := func(when string) {
		n, ok := meeklite.VerifC10Buffered(conn)
		if !ok {
			x.Violate("hook-type", "VerifC10Buffered does not recognise the connection type")
			return
		}
		if n > B("meek") {
			x.Violate("buffer-unbounded", fmt.Sprintf("%d bytes of responses queued (%s), bound %d", n, when, B("meek")))
		}
		if co, lim, ok := meeklite.VerifC10CarryOver(conn); ok && co > lim {
			x.Violate("response-over-limit", fmt.Sprintf("%d bytes of one response body kept between Read calls (%s), per-response limit %d", co, when, lim))
		}
	}
	outcome := ""
	switch {
	case c.Gen == "backlog":
		// the peer answers every poll with data and the application never reads: the worker must
		// stop polling once its queue is full (bounded backlog)
		deadline := time.Now().Add(20 * time.Second)
		last, lastChange := -1, time.Now()
		for time.Now().Before(deadline) {
			rd, _, _ := meeklite.VerifC10Backlog(conn)
			peer.mu.Lock()
			nreq := peer.Requests
			peer.mu.Unlock()
			if nreq != last {
				last, lastChange = nreq, time.Now()
			}
			if rd >= 16 && time.Since(lastChange) > 300*time.Millisecond {
				break
			}
			time.Sleep(5 * time.Millisecond)
		}
		checkBuf("backlog full")
		rd, _, _ := meeklite.VerifC10Backlog(conn)
		outcome = fmt.Sprintf("backlog-%d-requests-%s", rd, SizeClass(last))
		if last > 16+2 {
			x.Violate("backlog-unbounded", fmt.Sprintf("the worker issued %d requests although nothing was read (queue capacity 16)", last))
		}
		x.Nontrivial = true
	case strings.HasPrefix(c.Gen, "stall"), c.Gen == "status-error":
		// give the worker time to get into the request, then the application closes
		deadline := time.Now().Add(10 * time.Second)
		for time.Now().Before(deadline) {
			peer.mu.Lock()
			n := peer.Requests
			peer.mu.Unlock()
			if n > 0 {
				break
			}
			time.Sleep(2 * time.Millisecond)
		}
		outcome = "stalled"
		if c.Gen == "status-error" {
			// the worker now sits in roundTrip's retry delay (bounded: maxRetries × retryDelay)
			outcome = "status-error-seen"
			time.Sleep(20 * time.Millisecond)
		}
		x.Nontrivial = true
	default:
		// read until the answer the script guarantees (data or error) arrives
		resc := make(chan rdResult, 1)
		go func() {
			var r rdResult
			defer func() {
				if p := recover(); p != nil {
					r.panic, r.stack = p, string(debug.Stack())
				}
				resc <- r
			}()
			buf := make([]byte, 1+rng.Intn(70000))
			total := 0
			for {
				n, err := conn.Read(buf)
				total += n
				if n > r.maxRead {
					r.maxRead = n
				}
				if err != nil || total >= 65536 || (n > 0 && !expectErr) {
					r.n, r.err = total, err
					return
				}
			}
		}()
		limit := 30 * time.Second
		if !expectData && !expectErr {
			limit = 1500 * time.Millisecond // the script guarantees nothing: just observe for a moment
		}
		select {
		case r := <-resc:
			if r.panic != nil {
				site, class := PanicSite(r.panic, r.stack)
				x.Violate("panic-"+site+"-"+class, fmt.Sprintf("Read panicked: %v\n%s", r.panic, trimStack(r.stack, 1500)))
			}
			if r.maxRead > 65536 {
				x.Violate("response-over-limit", fmt.Sprintf("one Read returned %d bytes: a single response body larger than the 65536-byte limit was taken in whole", r.maxRead))
			}
			outcome = fmt.Sprintf("read:%s;err:%s", SizeClass(r.n), ErrClass(r.err))
			x.Nontrivial = true
		case <-time.After(limit):
			if expectData || expectErr {
				x.Violate("read-wedged", fmt.Sprintf("Read returned neither data nor an error within %v although the peer's answer (%s) was complete; stacks:\n%s", limit, desc, TransportStacks(3000)))
			}
			outcome = "read-pending"
		}
		checkBuf("after read")
	}
	// teardown: the application closes, every connection is cut, new dials fail
	protect("Close", func() { conn.Close() })
	if strings.HasPrefix(c.Gen, "stall") {
		// observation only (outside the oracle): does Close() abort the round trip in flight while
		// the peer merely stalls?  meek_lite has no deadline on a request.
		if left, _ := meekLeft(500 * time.Millisecond); len(left) > 0 {
			x.R.Count(c.Prefix()+"/note", "close-does-not-abort-inflight-request-while-peer-stalls")
		} else {
			x.R.Count(c.Prefix()+"/note", "close-aborts-inflight-request")
		}
	}
	peer.shutdown()
	// (not when the worker sits in its bounded retry sleep: Read then legitimately waits for it;
	// and not in the backlog scenario: the application has stopped reading for good)
	if c.Gen != "status-error" && c.Gen != "backlog" {
		x.meekReadAfterClose(conn)
	}
	protect("Write-after-close", func() { conn.Write([]byte("x")) })
	left, sleeping := meekLeft(5 * time.Second)
	if len(left) > 0 {
		left, sleeping = meekLeft(15 * time.Second)
	}
	if len(left) > 0 {
		x.Violate("goroutine-leak-"+leakSite(left[0]), fmt.Sprintf("%d goroutine(s) of the transport still running after Close and cut of every connection (%s):\n%s", len(left), outcome, trimStack(left[0], 2500)))
		MarkLeaked(left)
	}
	if sleeping > 0 {
		x.R.Count(c.Prefix()+"/note", "worker-in-bounded-retry-sleep")
	}
	x.Outcome = outcome
	x.R.Count(c.Prefix()+"/outcome", x.Outcome)
	x.R.Sample(3, map[string]interface{}{"case": c.Key(), "input": desc, "outcome": x.Outcome, "requests": peer.Requests})
}

func (x *Ctx) meekReadAfterClose(conn net.Conn) {
	done := make(chan struct{})
	go func() {
		defer func() { recover(); close(done) }()
		buf := make([]byte, 100)
		for i := 0; i < 40; i++ {
			if _, err := conn.Read(buf); err != nil {
				return
			}
		}
	}()
	select {
	case <-done:
	case <-time.After(30 * time.Second):
		x.Violate("read-after-close-wedged", "Read after Close (and cut of all connections) did not return within 30 s; stacks:\n"+TransportStacks(3000))
	}
}

// leakSite names where a leaked goroutine is parked: function and blocking operation.
func leakSite(stack string) string {
	lines := strings.Split(stack, "\n")
	op := "running"
	if len(lines) > 0 {
		if i, j := strings.Index(lines[0], "["), strings.Index(lines[0], "]"); i >= 0 && j > i {
			// "chan send", "sleep", "select, 2 minutes", "sync.Cond.Wait" ...
			state := lines[0][i+1 : j]
			if k := strings.Index(state, ","); k >= 0 {
				state = state[:k]
			}
			op = strings.ReplaceAll(strings.TrimSpace(state), " ", "-")
		}
	}
	fn := "unknown"
	if m := reFrame.FindStringSubmatch(stack); m != nil {
		fn = m[1]
		if i := strings.LastIndex(fn, "."); i >= 0 {
			fn = fn[i+1:]
		}
	}
	return fn + "-" + op
}

// oversized responses: body size × framing
var meekOverSizes = []int{65537, 1 << 20, 8 << 20}
var meekOverFraming = []string{"content-length", "chunked", "until-eof"}

// MeekOversizedCombos is the number of (size, framing) combinations of the generator "oversized".
const MeekOversizedCombos = 9

// runMeekOversized: one 200 response whose body exceeds maxPayloadLength (64 KiB + 1, 1 MiB,
// 8 MiB; with Content-Length, chunked, or delimited by EOF).  The client must not hold more than
// the stated meek bound: measured by the hooks (queue × limit + carry-over), by the size of what
// a single Read can return (one response body, at most the limit), and — as a cross-check that
// does not rely on the package's own invariant — by the Go heap after GC, minus what the
// harness itself still holds for the transport to read.
func runMeekOversized(x *Ctx) {
	c := x.Case
	rng := vlib.NewRng(c.Seed)
	size := meekOverSizes[(c.A/3)%3]
	framing := meekOverFraming[c.A%3]
	desc := fmt.Sprintf("200 response, body %d bytes, %s", size, framing)
	t := transports.Get("meek_lite")
	cf, _ := t.ClientFactory("")
	args := &pt.Args{}
	args.Add("url", "http://meek.invalid/")
	ca, err := cf.ParseArgs(args)
	if err != nil {
		panic(err)
	}
	before := heapNow()
	var raw []byte
	{
		body := rng.Bytes(size)
		switch framing {
		case "content-length":
			raw = httpOK(body)
		case "chunked":
			var b bytes.Buffer
			b.WriteString("HTTP/1.1 200 OK\r\nTransfer-Encoding: chunked\r\n\r\n")
			for off := 0; off < len(body); {
				n := 1 + rng.Intn(60000)
				if off+n > len(body) {
					n = len(body) - off
				}
				fmt.Fprintf(&b, "%x\r\n", n)
				b.Write(body[off : off+n])
				b.WriteString("\r\n")
				off += n
			}
			b.WriteString("0\r\n\r\n")
			raw = b.Bytes()
		default:
			raw = append([]byte("HTTP/1.1 200 OK\r\n\r\n"), body...)
		}
	}
	after := ""
	if framing == "until-eof" {
		after = "eof"
	}
	peer := &meekPeer{idle: httpOK(nil), script: []meekResp{{Raw: raw, After: after}}}
	raw = nil
	c.Input = ""
	conn, err := cf.Dial("tcp", "", peer.dial, ca)
	if err != nil {
		x.Outcome = "dial-err:" + ErrClass(err)
		return
	}
	x.Nontrivial = true
	conn.Write([]byte("x"))
	// wait until the worker has taken the response and moved on (it polls again at once after
	// data: a second request), or has queued something
	deadline := time.Now().Add(30 * time.Second)
	for time.Now().Before(deadline) {
		rd, _, _ := meeklite.VerifC10Backlog(conn)
		peer.mu.Lock()
		nreq := peer.Requests
		peer.mu.Unlock()
		if rd >= 1 && nreq >= 2 {
			break
		}
		time.Sleep(2 * time.Millisecond)
	}
	// what the client holds now, nothing having been read by the application
	peer.mu.Lock()
	peer.script = nil
	held := 0
	for _, pc := range peer.conns {
		held += pc.Pending() // still queued inside the harness conn: not the client's
	}
	peer.mu.Unlock()
	heap := int64(heapNow()) - int64(before) - int64(held)
	if n, ok := meeklite.VerifC10Buffered(conn); ok && n > B("meek") {
		x.Violate("buffer-unbounded", fmt.Sprintf("%s: hook reports %d bytes queued, bound %d", desc, n, B("meek")))
	}
	slack := int64(3 << 20) // net/http buffers, goroutine stacks, GC noise
	if heap > int64(B("meek"))+slack {
		x.Violate("memory-retained", fmt.Sprintf("%s: with nothing read by the application the heap grew by %d bytes (harness-held %d already subtracted); the connection may hold %d (bound) + %d (slack)", desc, heap, held, B("meek"), slack))
	}
	x.R.Count(c.Prefix()+"/oversized-heap-delta", SizeClass(int(max64(heap, 0))))
	// what Read then delivers: at most one body of at most the limit per call
	buf := make([]byte, 16<<20)
	delivered, maxRead := 0, 0
	type rr struct {
		n   int
		err error
	}
	for {
		ch := make(chan rr, 1)
		go func() {
			defer func() {
				if p := recover(); p != nil {
					ch <- rr{-1, fmt.Errorf("panic: %v", p)}
				}
			}()
			n, err := conn.Read(buf)
			ch <- rr{n, err}
		}()
		var r rr
		select {
		case r = <-ch:
		case <-time.After(400 * time.Millisecond):
			// nothing more is coming (the peer answers further polls with empty bodies): stop
			conn.Close()
			peer.shutdown()
			r = <-ch
			r.n, r.err = 0, io.EOF
		}
		if r.n < 0 {
			x.Violate("panic-Read-explicit", fmt.Sprintf("%s: %v", desc, r.err))
			break
		}
		delivered += r.n
		if r.n > maxRead {
			maxRead = r.n
		}
		if co, lim, ok := meeklite.VerifC10CarryOver(conn); ok && co > lim {
			x.Violate("response-over-limit", fmt.Sprintf("%s: %d bytes of one response body kept between Read calls, limit %d", desc, co, lim))
		}
		if r.err != nil {
			break
		}
	}
	buf = nil
	if maxRead > 65536 {
		x.Violate("response-over-limit", fmt.Sprintf("%s: one Read returned %d bytes: a response body larger than the 65536-byte limit was taken in whole", desc, maxRead))
	}
	rest := "all-delivered"
	switch {
	case delivered == 65536:
		rest = "first-64KiB-delivered-rest-dropped-silently"
	case delivered < size:
		rest = "partly-delivered"
	}
	x.Outcome = fmt.Sprintf("oversized-%s-%s:%s", SizeClass(size), framing, rest)
	conn.Close()
	peer.shutdown()
	left, _ := meekLeft(5 * time.Second)
	if len(left) > 0 {
		left, _ = meekLeft(15 * time.Second)
	}
	if len(left) > 0 {
		x.Violate("goroutine-leak-"+leakSite(left[0]), fmt.Sprintf("%s: %d goroutine(s) still running after Close and cut:\n%s", desc, len(left), trimStack(left[0], 2000)))
		MarkLeaked(left)
	}
	x.R.Count(c.Prefix()+"/outcome", x.Outcome)
	x.R.Sample(3, map[string]interface{}{"case": c.Key(), "input": desc, "outcome": x.Outcome, "delivered": delivered, "max_single_read": maxRead, "heap_delta_client": heap})
}

// MeekBlockedWriteCombos: how the link fails in the generator "blocked-write-cut".
var MeekBlockedWriteFaults = []string{"reset", "eof", "garbage-then-eof", "reset-during-body"}

// runMeekBlockedWrite: the HTTP round trip in flight stalls (the peer took the request and
// does not answer), the application keeps writing until the 16-slot write queue is full and one
// more Write is blocked, and THEN the link fails (reset / EOF / a broken answer) — not a Close by
// the user.  Oracle: no call panics (the blocked Write runs in the caller's goroutine: a panic
// there takes the whole proxy down), the blocked Write and every later Write return an error,
// Read returns an error, and every goroutine of the transport ends.
func runMeekBlockedWrite(x *Ctx) {
	c := x.Case
	rng := vlib.NewRng(c.Seed)
	fault := MeekBlockedWriteFaults[((c.A%len(MeekBlockedWriteFaults))+len(MeekBlockedWriteFaults))%len(MeekBlockedWriteFaults)]
	t := transports.Get("meek_lite")
	cf, _ := t.ClientFactory("")
	args := &pt.Args{}
	args.Add("url", "http://meek.invalid/")
	ca, err := cf.ParseArgs(args)
	if err != nil {
		panic(err)
	}
	peer := &meekPeer{} // no script, no idle answer: every request stalls
	conn, err := cf.Dial("tcp", "", peer.dial, ca)
	if err != nil {
		x.Outcome = "dial-err:" + ErrClass(err)
		return
	}
	x.Nontrivial = true
	type wres struct {
		err   error
		panic interface{}
		stack string
	}
	// the worker may coalesce up to 17 already queued writes into the request in flight, so the
	// writer keeps going well beyond 1 + 16 + 1 until it is actually blocked
	const nWrites = 64
	results := make(chan wres, nWrites)
	var done int32
	var mu sync.Mutex
	go func() {
		for i := 0; i < nWrites; i++ {
			var r wres
			func() {
				defer func() {
					if p := recover(); p != nil {
						r.panic, r.stack = p, string(debug.Stack())
					}
				}()
				_, r.err = conn.Write(rng.Bytes(1 + rng.Intn(2000)))
			}()
			mu.Lock()
			done++
			mu.Unlock()
			results <- r
			if r.panic != nil {
				break
			}
		}
		close(results)
	}()
	// wait until the write queue is full and the writer has stopped making progress: one Write is
	// blocked inside enqueueWrite (first write in flight + 16 queued + 1 blocked)
	deadline := time.Now().Add(20 * time.Second)
	last, lastChange := int32(-1), time.Now()
	blocked := false
	for time.Now().Before(deadline) {
		_, wr, _ := meeklite.VerifC10Backlog(conn)
		mu.Lock()
		d := done
		mu.Unlock()
		if d != last {
			last, lastChange = d, time.Now()
		}
		if wr >= 16 && d < nWrites && time.Since(lastChange) > 200*time.Millisecond {
			blocked = true // queue full, writer not finished and not progressing: it sits in enqueueWrite
			break
		}
		if d >= nWrites {
			break
		}
		time.Sleep(2 * time.Millisecond)
	}
	// the link fails
	peer.mu.Lock()
	conns := append([]*Conn(nil), peer.conns...)
	peer.down = true
	peer.mu.Unlock()
	for _, pc := range conns {
		switch fault {
		case "reset":
			pc.FeedErr(ErrReset)
		case "eof":
			pc.FeedEOF()
		case "garbage-then-eof":
			pc.FeedAll(rng.Bytes(1+rng.Intn(200)), nil)
			pc.FeedEOF()
		case "reset-during-body":
			pc.FeedAll([]byte("HTTP/1.1 200 OK\r\nContent-Length: 1000\r\n\r\nabc"), nil)
			pc.FeedErr(ErrReset)
		}
	}
	// every Write must come back: with an error once the worker is gone, never with a panic
	okWrites, errWrites := 0, 0
	timeout := time.After(30 * time.Second)
collect:
	for {
		select {
		case r, more := <-results:
			if !more {
				break collect
			}
			if r.panic != nil {
				site, class := PanicSite(r.panic, r.stack)
				x.Violate("panic-"+site+"-"+class, fmt.Sprintf("Write panicked in the caller's goroutine when the link failed (%s) while it was blocked on the full write queue: %v\n%s", fault, r.panic, trimStack(r.stack, 1500)))
			} else if r.err != nil {
				errWrites++
			} else {
				okWrites++
			}
		case <-timeout:
			x.Violate("write-wedged", fmt.Sprintf("a Write blocked on the full queue did not return within 30 s after the link failed (%s); stacks:\n%s", fault, TransportStacks(3000)))
			break collect
		}
	}
	if blocked && errWrites == 0 && !x.Violated() {
		x.Violate("write-error-swallowed", fmt.Sprintf("the link failed (%s) with a Write blocked on the full queue, yet all %d writes returned nil", fault, okWrites))
	}
	// Read reports the failure too
	rdone := make(chan error, 1)
	go func() {
		defer func() {
			if p := recover(); p != nil {
				rdone <- fmt.Errorf("panic: %v", p)
			}
		}()
		buf := make([]byte, 100)
		for i := 0; i < 40; i++ {
			if _, err := conn.Read(buf); err != nil {
				rdone <- err
				return
			}
		}
		rdone <- nil
	}()
	select {
	case err := <-rdone:
		if err == nil {
			x.Violate("read-no-error-after-link-failure", "Read kept succeeding after the link had failed")
		} else if strings.HasPrefix(err.Error(), "panic:") {
			x.Violate("panic-Read-explicit", err.Error())
		}
	case <-time.After(30 * time.Second):
		x.Violate("read-wedged", "Read did not return within 30 s after the link failed; stacks:\n"+TransportStacks(3000))
	}
	func() {
		defer func() { recover() }()
		conn.Close()
	}()
	peer.shutdown()
	left, _ := meekLeft(5 * time.Second)
	if len(left) > 0 {
		left, _ = meekLeft(15 * time.Second)
	}
	if len(left) > 0 {
		x.Violate("goroutine-leak-"+leakSite(left[0]), fmt.Sprintf("%d goroutine(s) still running after the link failed and Close:\n%s", len(left), trimStack(left[0], 2000)))
		MarkLeaked(left)
	}
	x.Outcome = fmt.Sprintf("blocked-write-cut-%s:blocked=%v,ok=%s,err>0=%v", fault, blocked, SizeClass(okWrites), errWrites > 0)
	x.R.Count(c.Prefix()+"/outcome", x.Outcome)
	x.R.Sample(3, map[string]interface{}{"case": c.Key(), "input": "stalled round trip, writes until one blocks, link fails: " + fault, "outcome": x.Outcome, "ok_writes": okWrites, "err_writes": errWrites})
}
