package lib

import (
	"crypto/aes"
	"crypto/cipher"
	"crypto/sha256"
	"encoding/binary"
	"fmt"
	"net"
	"strings"

	pt "gitlab.torproject.org/tpo/anti-censorship/pluggable-transports/goptlib"

	"gitlab.com/yawning/obfs4.git/transports"
	"gitlab.com/yawning/obfs4.git/transports/obfs2"
	"gitlab.com/yawning/obfs4.git/transports/obfs3"

	"verif/harness/vlib"
)

// startSym starts the endpoint of a symmetric transport (obfs2, obfs3) in the given role on c.
func (x *Ctx) startSym(t, role string, c *Conn) *Call {
	tr := transports.Get(t)
	if tr == nil {
		panic("transport not registered: " + t)
	}
	if role == "client" {
		cf, err := tr.ClientFactory("")
		if err != nil {
			panic(err)
		}
		args, err := cf.ParseArgs(&pt.Args{})
		if err != nil {
			panic(err)
		}
		return x.Go(c, t+" Dial", func() (interface{}, error) {
			ep, err := cf.Dial("tcp", "192.0.2.1:443", dialTo(c), args)
			if err != nil {
				return nil, err
			}
			return ep, nil
		})
	}
	sf, err := tr.ServerFactory("", &pt.Args{})
	if err != nil {
		panic(err)
	}
	return x.Go(c, t+" WrapConn", func() (interface{}, error) {
		ep, err := sf.WrapConn(c)
		if err != nil {
			return nil, err
		}
		return ep, nil
	})
}

func otherRole(r string) string {
	if r == "client" {
		return "server"
	}
	return "client"
}

func symBuffered(t string, ep net.Conn) func() (int, bool) {
	if t == "obfs2" {
		return func() (int, bool) { return obfs2.VerifC10Buffered(ep) }
	}
	return func() (int, bool) { return obfs3.VerifC10Buffered(ep) }
}

func symBound(t string) int {
	if t == "obfs2" {
		return 0
	}
	return B("obfs3")
}

func symHsBound(t string) int {
	if t == "obfs2" {
		return B("obfs2-hs-consumed")
	}
	return B("obfs3-hs-consumed")
}

// SymHsGens: generators of the obfs2/obfs3 handshake stage.
var SymHsGens = []string{"valid", "raw-random", "cut-at", "splice-two",
	"mut:flip", "mut:trunc", "mut:extend", "mut:dup", "mut:splice-rand", "mut:insert", "mut:zero", "mut:ones", "mut:swap", "mut:dup-whole", "mut:drop"}

// Obfs2CraftGens: a peer that knows the (public) obfs2 pad-key derivation sets the header fields.
var Obfs2CraftGens = []string{"craft:padlen", "craft:bad-magic"}

var obfs2PadLens = []uint32{0, 1, 2, 8191, 8192, 8193, 8194, 65535, 65536, 1 << 24, 1<<31 - 1, 1 << 31, 1<<32 - 1}

// Obfs3KeyGens: degenerate UniformDH public keys.
var Obfs3KeyGens = []string{"key:zero", "key:one", "key:ones", "key:p", "key:p-1", "key:p+1"}

var obfs3P = func() []byte {
	// RFC 3526 1536-bit MODP group prime
	const hexP = "FFFFFFFFFFFFFFFFC90FDAA22168C234C4C6628B80DC1CD129024E088A67CC74020BBEA63B139B22514A08798E3404DD" +
		"EF9519B3CD3A431B302B0A6DF25F14374FE1356D6D51C245E485B576625E7EC6F44C42E9A637ED6B0BFF5CB6F406B7ED" +
		"EE386BFB5A899FA5AE9F24117C4B1FE649286651ECE45B3DC2007CB8A163BF0598DA48361C55D39A69163FA8FD24CF5F" +
		"83655D23DCA3AD961C62F356208552BB9ED529077096966D670C354E4ABC9804F1746C08CA237327FFFFFFFFFFFFFFFF"
	return vlib.UnHex(strings.ToLower(hexP))
}()

func obfs2Mac(s, xx []byte) []byte {
	h := sha256.New()
	h.Write(s)
	h.Write(xx)
	h.Write(s)
	return h.Sum(nil)
}

// obfs2Blob builds SEED | E(PAD_KEY, magic | padLen) | pad as the peer of `role` would.
func obfs2Blob(rng *vlib.Rng, peerRole string, magic, padLen uint32, actualPad int) []byte {
	seed := rng.Bytes(16)
	padString := "Initiator obfuscation padding"
	if peerRole == "server" {
		padString = "Responder obfuscation padding"
	}
	m := obfs2Mac([]byte(padString), seed)
	blk, _ := aes.NewCipher(m[:16])
	s := cipher.NewCTR(blk, m[16:])
	hdr := make([]byte, 8)
	binary.BigEndian.PutUint32(hdr[0:], magic)
	binary.BigEndian.PutUint32(hdr[4:], padLen)
	s.XORKeyStream(hdr, hdr)
	out := append(seed, hdr...)
	return append(out, rng.Bytes(actualPad)...)
}

// RunSymHs runs one obfs2/obfs3 handshake-stage case.
func RunSymHs(x *Ctx) {
	c := x.Case
	rng := vlib.NewRng(c.Seed)
	peer := otherRole(c.Role)
	// the genuine first flight of the peer, from the real peer endpoint
	pc := NewConn()
	pcall := x.startSym(c.T, peer, pc)
	defer func() { x.abandon(pc, pcall); closeIf(pcall.Res) }()
	if st := x.Await(pc, pcall); st != Blocked {
		return
	}
	valid := pc.TakeWritten()
	var regions []Region
	hsLen := 192
	if c.T == "obfs2" {
		regions = []Region{{"seed", 0, 16}, {"hdr-magic", 16, 4}, {"hdr-padlen", 20, 4}, {"pad", 24, len(valid) - 24}}
		hsLen = len(valid)
	} else {
		regions = []Region{{"pubkey", 0, 192}, {"pad", 192, len(valid) - 192}}
	}
	var in []byte
	var desc string
	isValid := false
	maxLen := 8192 + 24
	if c.T == "obfs3" {
		maxLen = 8194 + 32
	}
	switch {
	case c.Gen == "craft:padlen":
		pl := obfs2PadLens[((c.A%len(obfs2PadLens))+len(obfs2PadLens))%len(obfs2PadLens)]
		actual := int(pl)
		if pl > 20000 {
			actual = 20000
		}
		if c.B%2 == 1 && actual > 0 {
			actual-- // one byte short: the endpoint must wait, then fail on the cut
		}
		in = obfs2Blob(rng, peer, 0x2bf5ca7e, pl, actual)
		desc = fmt.Sprintf("header padLen=%d, %d pad bytes sent", pl, actual)
	case c.Gen == "craft:bad-magic":
		in = obfs2Blob(rng, peer, 0x2bf5ca7e^uint32(1<<uint(c.A%32)), uint32(rng.Intn(8193)), rng.Intn(8193))
		desc = "header with one magic bit flipped"
	case strings.HasPrefix(c.Gen, "key:"):
		k := make([]byte, 192)
		switch c.Gen[4:] {
		case "one":
			k[191] = 1
		case "ones":
			for i := range k {
				k[i] = 0xff
			}
		case "p":
			copy(k, obfs3P)
		case "p-1":
			copy(k, obfs3P)
			k[191]--
		case "p+1":
			copy(k, obfs3P)
			k[191] = 0 // p ends in ...FF: p+1 carries; use p with the last byte cleared +  carry
			for i := 190; i >= 0; i-- {
				k[i]++
				if k[i] != 0 {
					break
				}
			}
		}
		in = append(k, rng.Bytes(rng.Intn(9000))...)
		desc = c.Gen
	default:
		var other []byte
		if c.Gen == "splice-two" {
			oc := NewConn()
			ocall := x.startSym(c.T, peer, oc)
			if st := x.Await(oc, ocall); st == Blocked {
				other = oc.TakeWritten()
			}
			defer func() { x.abandon(oc, ocall); closeIf(ocall.Res) }()
		}
		lens := LengthClasses(maxLen, 16, 24, 192, hsLen)
		in, desc, isValid = hsInput(x, rng, valid, other, regions, 16, lens, maxLen)
	}
	ec := NewConn()
	x.feed(ec, rng, in)
	ecall := x.startSym(c.T, c.Role, ec)
	good := x.FinishHandshake(ec, ecall, HsOpts{ConsumedBound: symHsBound(c.T), ClosesOnFail: c.Role == "client", Kind: "plain",
		ExpectSuccess: isValid && c.Cut != "reset"})
	x.R.Count(c.Prefix()+"/outcome", x.Outcome)
	x.R.Sample(3, map[string]interface{}{"case": c.Key(), "input": desc, "outcome": x.Outcome, "log": LogSummary(ec.Log())})
	if !good {
		return
	}
	// established: whatever follows is read by Read (obfs3: the magic scan over the rest of the input)
	ep := ecall.Res.(net.Conn)
	ec.ScriptConn.FireDeadlines = true
	hsOutcome := x.Outcome
	res := x.ReadLoop(ec, ep, DataOpts{Buffered: symBuffered(c.T, ep), Bound: symBound(c.T), ReadSize: 1024, MaxReads: 100000})
	x.symScanBound(ec, res)
	x.R.Count(c.Prefix()+"/after-hs", x.Outcome)
	x.Outcome = hsOutcome
	ep.Close()
}

// symScanBound: obfs3's first Read scans for the magic; when it gives up, it must have consumed
// no more than handshake + the scan bound.
func (x *Ctx) symScanBound(c *Conn, res DataResult) {
	if x.Case.T != "obfs3" || res.Err == nil || res.Delivered > 0 {
		return
	}
	cls := ErrClass(res.Err)
	if strings.HasPrefix(cls, "failed-to-find") || strings.HasPrefix(cls, "peer-sent-too") {
		if got, max := c.Consumed(), B("obfs3-hs-consumed")+B("obfs3"); got > max {
			x.Violate("scan-consumed-unbounded", fmt.Sprintf("the magic scan consumed %d bytes in total before giving up, bound %d", got, max))
		}
	}
}

// SymDataGens: generators of the obfs2/obfs3 data stage (two real endpoints, tamper in the middle).
var SymDataGens = []string{"valid", "raw-random", "cut-at", "magic-pos", "write-fail", "big-valid",
	"mut:flip", "mut:trunc", "mut:extend", "mut:dup", "mut:splice-rand", "mut:insert", "mut:zero", "mut:ones", "mut:swap", "mut:drop"}

var obfs3MagicShifts = []int{-2, -1, 0, 1, 2, 31, 32, 33, 100}

// RunSymData runs one obfs2/obfs3 data-stage case.
func RunSymData(x *Ctx) {
	c := x.Case
	rng := vlib.NewRng(c.Seed)
	peer := otherRole(c.Role)
	ec, pc := NewConn(), NewConn()
	ecall := x.startSym(c.T, c.Role, ec)
	if st := x.Await(ec, ecall); st != Blocked {
		x.abandon(ec, ecall)
		return
	}
	eblob := ec.TakeWritten()
	pcall := x.startSym(c.T, peer, pc)
	if st := x.Await(pc, pcall); st != Blocked {
		x.abandon(pc, pcall)
		x.abandon(ec, ecall)
		return
	}
	pblob := pc.TakeWritten()
	hs := 192
	if c.T == "obfs2" {
		hs = len(pblob)
	}
	// complete both handshakes; for obfs3 the peer's padding stays in front of the data
	pc.FeedAll(eblob, nil)
	if st := x.Await(pc, pcall); st != Finished || pcall.Err != nil {
		x.abandon(pc, pcall)
		x.abandon(ec, ecall)
		x.R.Count(c.Prefix()+"/anomaly", "peer-handshake-failed")
		return
	}
	ec.FeedAll(pblob[:hs], nil)
	if st := x.Await(ec, ecall); st != Finished || ecall.Err != nil {
		x.abandon(ec, ecall)
		closeIf(pcall.Res)
		x.R.Count(c.Prefix()+"/anomaly", "handshake-failed")
		return
	}
	ep, pp := ecall.Res.(net.Conn), pcall.Res.(net.Conn)
	defer func() { ep.Close(); pp.Close() }()
	ec.ScriptConn.FireDeadlines = true
	pc.ScriptConn.FireDeadlines = true
	// the peer drains our padding (obfs3) so that its own state is in the data phase too — not needed for writing
	payload := rng.Bytes([]int{1, 100, 1448, 5000, 20000}[rng.Intn(5)])
	if c.Gen == "big-valid" {
		payload = rng.Bytes(100000 + rng.Intn(100000))
	}
	first, _ := x.send(pc, pp, payload)
	stream := append(append([]byte(nil), pblob[hs:]...), first...)
	regions := []Region{{"all", 0, len(stream)}}
	magicOff := -1
	if c.T == "obfs3" {
		magicOff = len(stream) - len(payload) - 32
		regions = []Region{{"hs-pad", 0, len(pblob) - hs}, {"write-pad", len(pblob) - hs, magicOff - (len(pblob) - hs)},
			{"magic", magicOff, 32}, {"data", magicOff + 32, len(payload)}}
	}
	opts := DataOpts{Buffered: symBuffered(c.T, ep), Bound: symBound(c.T), ReadSize: []int{1, 16, 512, 4096, 65536}[rng.Intn(5)], MaxReads: 300000}
	if opts.ReadSize == 1 && len(stream) > 30000 {
		opts.ReadSize = 512
	}
	var in []byte
	desc := c.Gen
	expect := -1
	switch {
	case c.Gen == "valid", c.Gen == "big-valid":
		in = stream
		expect = len(payload)
	case c.Gen == "write-fail":
		werr, ok := x.WriteProbe(ec, ep, payload, ErrReset)
		if ok {
			x.R.Count(c.Prefix()+"/write-fail", "write-err:"+ErrClass(werr))
		}
		in = stream
	case c.Gen == "raw-random":
		lens := LengthClasses(8226, 32, 8194)
		n := lens[((c.A%len(lens))+len(lens))%len(lens)]
		in = rng.Bytes(n)
		desc = fmt.Sprintf("random[%d]", n)
	case c.Gen == "cut-at":
		x.ValidLen = len(stream)
		x.Boundaries = Boundaries(regions, len(stream))
		p := x.CutPos(len(stream))
		in = stream[:p]
		desc = fmt.Sprintf("stream[:%d] of %d then cut=%q", p, len(stream), c.Cut)
	case c.Gen == "magic-pos":
		if c.T != "obfs3" {
			in = stream
			break
		}
		// stretch the padding so that the magic starts at maxPadding+shift
		target := 8194 + obfs3MagicShifts[((c.A%len(obfs3MagicShifts))+len(obfs3MagicShifts))%len(obfs3MagicShifts)]
		if target < magicOff {
			in = stream
			desc = "magic-pos n/a"
			break
		}
		in = append(rng.Bytes(target-magicOff), stream...)
		desc = fmt.Sprintf("magic at %d (maxPadding 8194)", target)
	case strings.HasPrefix(c.Gen, "mut:"):
		in, desc = Mutate(rng, c.Gen[4:], stream, regions, c.A, c.B)
	default:
		panic("unknown generator " + c.Gen)
	}
	x.feed(ec, rng, in)
	res := x.ReadLoop(ec, ep, opts)
	x.symScanBound(ec, res)
	if expect >= 0 && res.Delivered != expect && !x.Violated() {
		x.R.Count(c.Prefix()+"/anomaly", "valid-stream-not-fully-delivered")
	}
	x.R.Count(c.Prefix()+"/outcome", x.Outcome)
	x.R.Count(c.Prefix()+"/max-buffered", SizeClass(res.MaxBuf))
	x.R.Sample(2, map[string]interface{}{"case": c.Key(), "input": desc, "outcome": x.Outcome, "delivered": res.Delivered, "max_buffered": res.MaxBuf})
}
