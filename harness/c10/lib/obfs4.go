package lib

import (
	"encoding/hex"
	"fmt"
	"net"
	"os"
	"strconv"
	"strings"

	pt "gitlab.torproject.org/tpo/anti-censorship/pluggable-transports/goptlib"

	"gitlab.com/yawning/obfs4.git/transports"
	"gitlab.com/yawning/obfs4.git/transports/base"
	"gitlab.com/yawning/obfs4.git/transports/obfs4"
	"gitlab.com/yawning/obfs4.git/transports/obfs4/framing"

	"verif/harness/vlib"
)

// F2Seed is a drbg-seed whose length table contains 0 (DESIGN §5 F2).
const F2Seed = "7ef48387434acfdfad39600095080bec6908f8757e299b8d"

// SingleValueSeed is a drbg-seed whose length table is the single value 93: in iat-mode=2 the
// burst can then never be padded to end on a sampled length (93 − (1469 mod 93) = 19 ≤
// headerLength forces the two-frame padding, which adds 1469+19 bytes, forever).
const SingleValueSeed = "671f06a84128d4f8897d9f12d036333613cebb7a978e577e"

var stateDir string

// StateDir returns a per-process scratch directory for the factories' state files.
func StateDir() string {
	if stateDir == "" {
		d, err := os.MkdirTemp("", "c10-state-")
		if err != nil {
			panic(err)
		}
		stateDir = d
	}
	return stateDir
}

func CleanupState() {
	if stateDir != "" {
		os.RemoveAll(stateDir)
	}
}

// O4World is one obfs4 bridge (server factory) and one client configuration for it, created
// through the public factories.
type O4World struct {
	SF    base.ServerFactory
	CF    base.ClientFactory
	CArgs interface{}
}

// NewO4World creates a bridge with identity and seed derived from rng.
func NewO4World(rng *vlib.Rng, iat int, drbgSeedHex string) (*O4World, error) {
	t := transports.Get("obfs4")
	if t == nil {
		return nil, fmt.Errorf("obfs4 transport not registered")
	}
	if drbgSeedHex == "" {
		drbgSeedHex = hex.EncodeToString(rng.Bytes(24))
	}
	args := &pt.Args{}
	args.Add("node-id", hex.EncodeToString(rng.Bytes(20)))
	args.Add("private-key", hex.EncodeToString(rng.Bytes(32)))
	args.Add("drbg-seed", drbgSeedHex)
	args.Add("iat-mode", strconv.Itoa(iat))
	sf, err := t.ServerFactory(StateDir(), args)
	if err != nil {
		return nil, err
	}
	cf, err := t.ClientFactory(StateDir())
	if err != nil {
		return nil, err
	}
	ca, err := cf.ParseArgs(sf.Args())
	if err != nil {
		return nil, err
	}
	return &O4World{SF: sf, CF: cf, CArgs: ca}, nil
}

// NewClientArgs re-parses the bridge line: a fresh client session key.
func (w *O4World) NewClientArgs() {
	ca, err := w.CF.ParseArgs(w.SF.Args())
	if err != nil {
		panic(err)
	}
	w.CArgs = ca
}

func dialTo(c *Conn) base.DialFunc {
	return func(string, string) (net.Conn, error) { return c, nil }
}

// StartClient starts Dial on a fresh conn and returns the client handshake it wrote.
func (x *Ctx) o4StartClient(w *O4World) (cc *Conn, call *Call, blob []byte, ok bool) {
	cc = NewConn()
	call = x.Go(cc, "obfs4 Dial", func() (interface{}, error) {
		c, err := w.CF.Dial("tcp", "192.0.2.1:443", dialTo(cc), w.CArgs)
		if err != nil {
			return nil, err // do not wrap a nil *obfs4Conn in a net.Conn
		}
		return c, nil
	})
	st := x.Await(cc, call)
	if st != Blocked {
		if st == Finished && call.Panic == nil {
			x.Violate("client-no-read", fmt.Sprintf("Dial returned (%v) before reading any response", call.Err))
		}
		return cc, call, nil, false
	}
	return cc, call, cc.TakeWritten(), true
}

func (x *Ctx) o4StartServer(w *O4World, sc *Conn) *Call {
	return x.Go(sc, "obfs4 WrapConn", func() (interface{}, error) {
		c, err := w.SF.WrapConn(sc)
		if err != nil {
			return nil, err
		}
		return c, nil
	})
}

// finish lets a leftover handshake call end: the peer disappears.
func (x *Ctx) abandon(c *Conn, call *Call) {
	if call == nil || call.Op.Done() {
		return
	}
	c.FeedEOF()
	c.ScriptConn.FireDeadlines = true
	if st := x.Await(c, call); st == Blocked {
		c.ScriptConn.Close()
		x.Await(c, call)
	}
}

func closeIf(v interface{}) {
	if c, ok := v.(net.Conn); ok && c != nil {
		c.Close()
	}
}

func o4BlobRegions(n int) []Region {
	return []Region{{"repr", 0, 32}, {"pad", 32, n - 64}, {"mark", n - 32, 16}, {"mac", n - 16, 16}}
}

func o4RespRegions(n int) []Region {
	l := n - 45 // the inline seed frame follows the response proper
	return []Region{{"repr", 0, 32}, {"auth", 32, 32}, {"pad", 64, l - 96}, {"mark", l - 32, 16}, {"mac", l - 16, 16},
		{"seedframe-len", l, 2}, {"seedframe-tag", l + 2, 16}, {"seedframe-body", l + 18, 27}}
}

// O4HsGens are the generators of the obfs4 handshake stage (both roles).
var O4HsGens = []string{"valid", "raw-random", "valid-prefix+garbage", "cut-at", "mark-at-boundary", "splice-two",
	"mut:flip", "mut:trunc", "mut:extend", "mut:dup", "mut:splice-rand", "mut:insert", "mut:zero", "mut:ones", "mut:swap", "mut:dup-whole", "mut:drop"}

var o4HsLens = LengthClasses(8192, 64, 96, 141, 8192-32)

// hsInput builds the malformed (or valid) handshake message of the case from a recorded
// valid one.  other: a second valid message for splicing (may be nil).
func hsInput(x *Ctx, rng *vlib.Rng, valid, other []byte, regions []Region, keepPrefix int, lens []int, maxLen int) (in []byte, desc string, isValid bool) {
	c := x.Case
	x.ValidLen = len(valid)
	x.Boundaries = Boundaries(regions, len(valid))
	switch {
	case c.Gen == "valid":
		return valid, "valid", true
	case c.Gen == "raw":
		// the exact bytes of the replay file (fuzz crashers)
		in = RawInput(c)
		return in, fmt.Sprintf("raw[%d]", len(in)), false
	case c.Gen == "raw-random":
		n := lens[((c.A%len(lens))+len(lens))%len(lens)]
		return rng.Bytes(n), fmt.Sprintf("random[%d]", n), false
	case c.Gen == "valid-prefix+garbage":
		n := lens[((c.A%len(lens))+len(lens))%len(lens)]
		if n < keepPrefix {
			n = keepPrefix
		}
		in = append(append([]byte(nil), valid[:keepPrefix]...), rng.Bytes(n-keepPrefix)...)
		return in, fmt.Sprintf("valid[:%d]+random → %d", keepPrefix, n), false
	case c.Gen == "cut-at":
		p := x.CutPos(len(valid))
		return valid[:p], fmt.Sprintf("valid[:%d] of %d then cut=%q", p, len(valid), c.Cut), p == len(valid)
	case c.Gen == "mark-at-boundary":
		// stretch the padding so that the mark sits at maxLen-32+d: the MAC then straddles / passes
		// the maximum handshake length
		var markOff, padOff int
		for _, r := range regions {
			if r.Name == "mark" {
				markOff = r.Off
			}
			if r.Name == "pad" {
				padOff = r.Off
			}
		}
		deltas := []int{-48, -33, -32, -31, -17, -16, -15, -1, 0, 1, 15, 16, 17, 31, 32, 33, 100}
		d := deltas[((c.A%len(deltas))+len(deltas))%len(deltas)]
		target := maxLen - 32 + d
		if target < markOff {
			return valid, "mark-at-boundary(n/a: already beyond)", true
		}
		ins := rng.Bytes(target - markOff)
		in = append(append(append([]byte(nil), valid[:padOff]...), ins...), valid[padOff:]...)
		return in, fmt.Sprintf("mark moved to %d (max %d, d=%d)", target, maxLen, d), false
	case c.Gen == "splice-two":
		if other == nil {
			other = rng.Bytes(len(valid))
		}
		p := 0
		if len(valid) > 0 {
			p = ((c.A % len(valid)) + len(valid)) % len(valid)
		}
		if p > len(other) {
			p = len(other)
		}
		in = append(append([]byte(nil), valid[:p]...), other[p:]...)
		return in, fmt.Sprintf("valid1[:%d]+valid2[%d:]", p, p), false
	case strings.HasPrefix(c.Gen, "mut:"):
		in, desc = Mutate(rng, c.Gen[4:], valid, regions, c.A, c.B)
		return in, desc, false
	}
	panic("unknown generator " + c.Gen)
}

// RawInput decodes the authoritative input of a Gen == "raw" case.
func RawInput(c *Case) []byte {
	h := c.Input
	if i := strings.Index(h, "…"); i >= 0 {
		h = h[:i]
	}
	return vlib.UnHex(h)
}

// feed queues the input as the case's chunker says and applies the cut.
func (x *Ctx) feed(c *Conn, rng *vlib.Rng, in []byte) {
	spec := x.ResolveChunk(rng, len(in))
	if len(in) > 40000 && (spec == "one" || strings.HasPrefix(spec, "maxread:")) {
		spec = "mss" // tiny reads over a long stream only cost time
		x.Case.Chunk = spec
	}
	sizes, maxRead := ChunkSizes(rng, spec, len(in))
	c.ScriptConn.MaxRead = maxRead
	c.FeedAll(in, sizes)
	x.ApplyCut(c)
	if x.Case.Gen != "raw" {
		x.Case.Input = hexTrunc(in, 1<<15)
	}
	x.R.Count(x.Case.Prefix()+"/input-size", SizeClass(len(in)))
}

// RunO4Hs runs one obfs4 handshake-stage case (role = the endpoint under test).
func RunO4Hs(x *Ctx) {
	c := x.Case
	rng := vlib.NewRng(c.Seed)
	w, err := NewO4World(rng, c.Iat, "")
	if err != nil {
		panic(err)
	}
	cc, ccall, blob, ok := x.o4StartClient(w)
	defer func() { x.abandon(cc, ccall); closeIf(ccall.Res) }()
	if !ok {
		return
	}
	if c.Role == "server" {
		var other []byte
		if c.Gen == "splice-two" {
			w.NewClientArgs()
			oc, ocall, ob, ok2 := x.o4StartClient(w)
			defer func() { x.abandon(oc, ocall) }()
			if ok2 {
				other = ob
			}
		}
		in, desc, isValid := hsInput(x, rng, blob, other, o4BlobRegions(len(blob)), 32, o4HsLens, 8192)
		sc := NewConn()
		x.feed(sc, rng, in)
		scall := x.o4StartServer(w, sc)
		good := x.FinishHandshake(sc, scall, HsOpts{ConsumedBound: B("obfs4-hs"), ClosesOnFail: true, DiscardsOnFail: true, Kind: "obfs4srv",
			ExpectSuccess: isValid && c.Cut != "reset"})
		x.R.Count(c.Prefix()+"/outcome", x.Outcome)
		x.R.Sample(3, map[string]interface{}{"case": c.Key(), "input": desc, "outcome": x.Outcome, "log": LogSummary(sc.Log())})
		if good {
			x.o4Established(sc, scall.Res.(net.Conn), true)
		}
		return
	}
	// client under test: obtain the genuine response from the real server
	sc := NewConn()
	sc.FeedAll(blob, nil)
	scall := x.o4StartServer(w, sc)
	if st := x.Await(sc, scall); st != Finished || scall.Err != nil {
		if st == Finished && scall.Panic == nil {
			x.R.Count(c.Prefix()+"/anomaly", "server-rejected-valid-client:"+ErrClass(scall.Err))
		}
		x.abandon(sc, scall)
		return
	}
	defer closeIf(scall.Res)
	resp := sc.TakeWritten()
	var other []byte
	in, desc, isValid := hsInput(x, rng, resp, other, o4RespRegions(len(resp)), 64, o4HsLens, 8192)
	x.feed(cc, rng, in)
	good := x.FinishHandshake(cc, ccall, HsOpts{ConsumedBound: B("obfs4-hs"), ClosesOnFail: true, Kind: "plain", ExpectSuccess: isValid && c.Cut != "reset"})
	x.R.Count(c.Prefix()+"/outcome", x.Outcome)
	x.R.Sample(3, map[string]interface{}{"case": c.Key(), "input": desc, "outcome": x.Outcome, "log": LogSummary(cc.Log())})
	if good {
		x.o4Established(cc, ccall.Res.(net.Conn), false)
	}
}

func o4Bound(isServer bool) int {
	if isServer {
		return B("obfs4-data")
	}
	return B("obfs4-client-data")
}

// o4Established probes a connection whose handshake just succeeded: virtual time jumps far
// beyond every handshake deadline; reading must block (no stale deadline), buffers are
// bounded, the Read returns an error once the connection is cut/closed.
func (x *Ctx) o4Established(c *Conn, ep net.Conn, isServer bool) {
	c.ScriptConn.FireDeadlines = true
	x.ReadLoop(c, ep, DataOpts{Buffered: func() (int, bool) { return obfs4.VerifC10Buffered(ep) }, Bound: o4Bound(isServer), ReadSize: 512, MaxReads: 2000})
	ep.Close()
}

// O4Pair is an established client/server pair.
type O4Pair struct {
	W              *O4World
	CC, SC         *Conn
	Client, Server net.Conn
}

// o4Handshake runs a genuine handshake between two real endpoints. extra is appended to the
// server's response in the same segment (the client's handshake surplus).
func (x *Ctx) o4Handshake(w *O4World) (*O4Pair, bool) {
	cc, ccall, blob, ok := x.o4StartClient(w)
	if !ok {
		x.abandon(cc, ccall)
		return nil, false
	}
	sc := NewConn()
	sc.FeedAll(blob, nil)
	scall := x.o4StartServer(w, sc)
	if st := x.Await(sc, scall); st != Finished || scall.Err != nil {
		x.abandon(sc, scall)
		x.abandon(cc, ccall)
		return nil, false
	}
	cc.FeedAll(sc.TakeWritten(), nil)
	if st := x.Await(cc, ccall); st != Finished || ccall.Err != nil {
		x.abandon(cc, ccall)
		closeIf(scall.Res)
		return nil, false
	}
	cc.ScriptConn.FireDeadlines = true
	sc.ScriptConn.FireDeadlines = true
	return &O4Pair{W: w, CC: cc, SC: sc, Client: ccall.Res.(net.Conn), Server: scall.Res.(net.Conn)}, true
}

// O4DataGens are the generators of the obfs4 data stage.
var O4DataGens = []string{"valid", "raw-random", "cut-at", "len-extreme", "big-valid", "write-fail", "hs-surplus",
	"craft:short-0", "craft:short-1", "craft:short-2", "craft:paylen+1", "craft:paylen-max", "craft:type-unknown",
	"craft:seed-23", "craft:seed-24", "craft:seed-25", "craft:empty-payload", "craft:max-payload", "craft:random-plaintext",
	"mut:flip", "mut:trunc", "mut:extend", "mut:dup", "mut:splice-rand", "mut:insert", "mut:zero", "mut:ones", "mut:swap", "mut:dup-whole", "mut:drop"}

var o4LenExtremes = []int{0, 1, 15, 16, 17, 18, 19, 21, 1445, 1446, 1447, 1448, 32767, 32768, 65535}

var o4PayloadSizes = []int{1, 2, 100, 1426, 1427, 1428, 2853, 2854, 2855, 5000}

// send makes `from` write payload and returns what it put on the wire, as one burst.
func (x *Ctx) send(c *Conn, from net.Conn, payload []byte) ([]byte, bool) {
	c.TakeWrites()
	_, ok := x.WriteProbe(c, from, payload, nil)
	return c.TakeWritten(), ok
}

// CraftPlain returns the packet plaintext of a craft:<kind> generator.
func CraftPlain(rng *vlib.Rng, kind string) []byte {
	switch kind {
	case "short-0":
		return []byte{}
	case "short-1":
		return []byte{0}
	case "short-2":
		return []byte{0, 0}
	case "paylen+1":
		n := rng.Intn(40)
		p := make([]byte, 3+n)
		p[1], p[2] = byte((n+1)>>8), byte(n+1)
		return p
	case "paylen-max":
		n := rng.Intn(1400)
		p := make([]byte, 3+n)
		p[1], p[2] = 0xff, 0xff
		return p
	case "type-unknown":
		n := rng.Intn(100)
		p := append([]byte{byte(2 + rng.Intn(254)), byte(n >> 8), byte(n)}, rng.Bytes(n+rng.Intn(20))...)
		return p
	case "seed-23", "seed-24", "seed-25":
		n, _ := strconv.Atoi(kind[5:])
		return append([]byte{1, 0, byte(n)}, rng.Bytes(n+rng.Intn(5))...)
	case "empty-payload":
		return append([]byte{0, 0, 0}, make([]byte, rng.Intn(50))...)
	case "max-payload":
		return append([]byte{0, 1427 >> 8, 1427 & 0xff}, rng.Bytes(1427)...)
	case "random-plaintext":
		return rng.Bytes(rng.Intn(1431))
	}
	panic("unknown craft kind " + kind)
}

// RunO4Data runs one obfs4 data-stage case: a genuine handshake between two real endpoints,
// then the endpoint under test (role) receives a tampered / crafted / cut stream.
func RunO4Data(x *Ctx, model func(isServer bool, pkt []byte) string) {
	c := x.Case
	rng := vlib.NewRng(c.Seed)
	seed := ""
	if c.Gen == "iat2-known-seed" {
		seed = F2Seed
	}
	if c.Gen == "iat2-single-value-seed" {
		seed = SingleValueSeed
	}
	w, err := NewO4World(rng, c.Iat, seed)
	if err != nil {
		panic(err)
	}
	var p *O4Pair
	var ok bool
	if c.Gen == "hs-surplus" && c.Role == "client" {
		p, ok = x.o4HandshakeSurplus(w, rng)
	} else {
		p, ok = x.o4Handshake(w)
	}
	if !ok {
		x.R.Count(c.Prefix()+"/anomaly", "handshake-failed")
		return
	}
	rxC, rx, txC, tx := p.SC, p.Server, p.CC, p.Client
	isServer := true
	if c.Role == "client" {
		rxC, rx, txC, tx = p.CC, p.Client, p.SC, p.Server
		isServer = false
	}
	defer func() { rx.Close(); tx.Close() }()
	opts := DataOpts{Buffered: func() (int, bool) { return obfs4.VerifC10Buffered(rx) }, Bound: o4Bound(isServer),
		ReadSize: []int{1, 16, 512, 4096, 65536}[rng.Intn(5)]}

	payload := rng.Bytes(o4PayloadSizes[rng.Intn(len(o4PayloadSizes))])
	var in []byte
	desc := c.Gen
	expectDelivered := -1
	switch {
	case c.Gen == "iat2-known-seed", c.Gen == "iat2-single-value-seed":
		// paranoid-mode writes of the endpoint under test with the seed whose table contains 0
		// (a client adopts the bridge's seed when it reads the server's first frames)
		if !isServer {
			if burst, ok := x.send(txC, tx, rng.Bytes(100)); ok {
				rxC.FeedAll(burst, nil)
				buf := make([]byte, 4096)
				call := x.Go(rxC, "Read", func() (interface{}, error) { n, err := rx.Read(buf); return n, err })
				x.Await(rxC, call)
			}
		}
		for i := 0; i < 300 && !x.Violated(); i++ {
			if _, ok := x.WriteProbe(rxC, rx, rng.Bytes(1+rng.Intn(3000)), nil); !ok {
				break
			}
			rxC.TakeWrites()
		}
		x.Outcome = "writes-done"
		x.Nontrivial = true
		x.R.Count(c.Prefix()+"/outcome", x.Outcome)
		return
	case c.Gen == "write-fail":
		// the network fails while the endpoint under test writes
		werr, ok := x.WriteProbe(rxC, rx, payload, ErrReset)
		if ok {
			x.Outcome = "write-err:" + ErrClass(werr)
			x.Nontrivial = true
		}
		x.R.Count(c.Prefix()+"/outcome", x.Outcome)
		// and the connection can still be read until it is cut
		in, _ = x.send(txC, tx, payload)
	case c.Gen == "valid", c.Gen == "hs-surplus":
		in, ok = x.send(txC, tx, payload)
		expectDelivered = len(payload)
		if c.Gen == "hs-surplus" {
			expectDelivered = -1
		}
	case c.Gen == "big-valid":
		payload = rng.Bytes(60000 + rng.Intn(40000))
		in, ok = x.send(txC, tx, payload)
		expectDelivered = len(payload)
		opts.ReadSize = []int{1, 7, 65536}[rng.Intn(3)]
		if opts.ReadSize < 100 {
			opts.MaxReads = 3000 // leaves most of the decoded data buffered: the maximum is what is measured
			expectDelivered = -1
		}
	case c.Gen == "raw-random":
		lens := LengthClasses(23168, 1448, 2*1448)
		n := lens[((c.A%len(lens))+len(lens))%len(lens)]
		in = rng.Bytes(n)
		desc = fmt.Sprintf("random[%d]", n)
	case c.Gen == "cut-at":
		v, _ := x.send(txC, tx, payload)
		x.ValidLen = len(v)
		x.Boundaries = o4BurstBoundaries(len(payload), len(v))
		pz := x.CutPos(len(v))
		in = v[:pz]
		desc = fmt.Sprintf("valid burst[:%d] of %d then cut=%q", pz, len(v), c.Cut)
	case c.Gen == "len-extreme":
		v, _ := x.send(txC, tx, payload)
		first := len(payload)
		if first > 1427 {
			first = 1427
		}
		honest := first + 3 + 16 // frame length field of the first frame: packet + tag
		want := o4LenExtremes[((c.A%len(o4LenExtremes))+len(o4LenExtremes))%len(o4LenExtremes)]
		in = append([]byte(nil), v...)
		if len(in) >= 2 {
			in[0] ^= byte(honest>>8) ^ byte(want>>8)
			in[1] ^= byte(honest) ^ byte(want)
		}
		// keep the stream coming so that a wrong length is always satisfied
		more, _ := x.send(txC, tx, rng.Bytes(3000))
		in = append(in, more...)
		desc = fmt.Sprintf("first frame length %d→%d", honest, want)
	case strings.HasPrefix(c.Gen, "craft:"):
		enc := obfs4.VerifC10Encoder(tx)
		plain := CraftPlain(rng, c.Gen[6:])
		var frame [framing.MaximumSegmentLength]byte
		n, err := enc.Encode(frame[:], plain)
		if err != nil {
			panic(err)
		}
		in = append([]byte(nil), frame[:n]...)
		// a genuine write follows: a non-fatal crafted packet must not disturb it
		more, _ := x.send(txC, tx, payload)
		in = append(in, more...)
		desc = fmt.Sprintf("sealed malformed plaintext %s then a genuine write of %d", hexTrunc(plain, 24), len(payload))
		if model != nil {
			x.feed(rxC, rng, in)
			res := x.ReadLoop(rxC, rx, opts)
			x.o4CompareModel(model, isServer, plain, payload, res)
			x.R.Count(c.Prefix()+"/outcome", x.Outcome)
			x.R.Sample(2, map[string]interface{}{"case": c.Key(), "input": desc, "outcome": x.Outcome})
			return
		}
	case strings.HasPrefix(c.Gen, "mut:"):
		v, _ := x.send(txC, tx, payload)
		first := len(payload)
		if first > 1427 {
			first = 1427
		}
		f0 := first + 21
		regions := []Region{{"f0-len", 0, 2}, {"f0-tag", 2, 16}, {"f0-type", 18, 1}, {"f0-paylen", 19, 2}, {"f0-payload", 21, first}}
		if len(v) > f0+2 {
			regions = append(regions, Region{"f1-len", f0, 2}, Region{"rest", f0 + 2, len(v) - f0 - 2})
		}
		in, desc = Mutate(rng, c.Gen[4:], v, regions, c.A, c.B)
		more, _ := x.send(txC, tx, rng.Bytes(2000))
		in = append(in, more...)
	default:
		panic("unknown generator " + c.Gen)
	}
	_ = ok
	x.feed(rxC, rng, in)
	res := x.ReadLoop(rxC, rx, opts)
	if expectDelivered >= 0 && res.Delivered != expectDelivered && !x.Violated() {
		x.R.Count(c.Prefix()+"/anomaly", "valid-stream-not-fully-delivered")
	}
	x.R.Count(c.Prefix()+"/outcome", x.Outcome)
	x.R.Count(c.Prefix()+"/max-buffered", SizeClass(res.MaxBuf))
	x.R.Sample(2, map[string]interface{}{"case": c.Key(), "input": desc, "outcome": x.Outcome, "delivered": res.Delivered, "max_buffered": res.MaxBuf})
}

// o4BurstBoundaries: frame structure offsets of a burst whose first frame carries the payload.
func o4BurstBoundaries(payloadLen, total int) []int {
	first := payloadLen
	if first > 1427 {
		first = 1427
	}
	f0 := first + 21
	return Boundaries([]Region{{"f0-len", 0, 2}, {"f0-tag", 2, 16}, {"f0-hdr", 18, 3}, {"f0-payload", 21, first}, {"f1-len", f0, 2}, {"f1-tag", f0 + 2, 16}}, total)
}

// o4HandshakeSurplus: the server's response, its seed frame and a large burst of genuine data
// reach the client in the same segments: the client's handshake buffer hands a large surplus
// over to the data phase.
func (x *Ctx) o4HandshakeSurplus(w *O4World, rng *vlib.Rng) (*O4Pair, bool) {
	cc, ccall, blob, ok := x.o4StartClient(w)
	if !ok {
		x.abandon(cc, ccall)
		return nil, false
	}
	sc := NewConn()
	sc.FeedAll(blob, nil)
	scall := x.o4StartServer(w, sc)
	if st := x.Await(sc, scall); st != Finished || scall.Err != nil {
		x.abandon(sc, scall)
		x.abandon(cc, ccall)
		return nil, false
	}
	resp := sc.TakeWritten()
	srv := scall.Res.(net.Conn)
	sc.ScriptConn.FireDeadlines = true
	burst, _ := x.send(sc, srv, rng.Bytes(20000+rng.Intn(30000)))
	all := append(resp, burst...)
	// the response arrives in small pieces up to just before its end, the rest in one big segment
	cut := len(resp) - 1 - rng.Intn(16)
	cc.FeedAll(all, []int{cut})
	if st := x.Await(cc, ccall); st != Finished || ccall.Err != nil {
		x.abandon(cc, ccall)
		srv.Close()
		return nil, false
	}
	cc.ScriptConn.FireDeadlines = true
	return &O4Pair{W: w, CC: cc, SC: sc, Client: ccall.Res.(net.Conn), Server: srv}, true
}

// o4CompareModel ties the packet parser's range checks to the Lean model: what the model's
// `parsePacket` says about the crafted plaintext against what the endpoint did with it.
func (x *Ctx) o4CompareModel(model func(bool, []byte) string, isServer bool, plain, payload []byte, res DataResult) {
	want := model(isServer, plain)
	x.R.Validated(1)
	got := ""
	cls := ErrClass(res.Err)
	f := strings.Fields(want)
	switch {
	case len(f) == 0:
		got = "?"
	case f[0] == "payload":
		exp := len(vlib.UnHex(f[1])) + len(payload)
		if res.Delivered == exp {
			got = want
		} else {
			got = fmt.Sprintf("delivered %d, model expects %d", res.Delivered, exp)
		}
	case f[0] == "seed" || f[0] == "ignored":
		if res.Delivered == len(payload) {
			got = want
		} else {
			got = fmt.Sprintf("delivered %d (err %s), model expects the crafted packet to be skipped and %d delivered", res.Delivered, cls, len(payload))
		}
	case f[0] == "bad":
		if res.Delivered == 0 && ((f[1] == "pktlen" && strings.HasPrefix(cls, "packet-invalid-packet-length")) ||
			(f[1] == "paylen" && strings.HasPrefix(cls, "packet-invalid-payload-length"))) {
			got = want
		} else {
			got = fmt.Sprintf("delivered %d, err %s", res.Delivered, cls)
		}
	}
	x.R.Count(x.Case.Prefix()+"/model-verdict", f[0])
	if got != want && !x.Violated() {
		x.R.Violate(x.Case.Prefix()+"-parsePacket-model-impl-disagree", "correspondence",
			fmt.Sprintf("%s: plaintext %s: Lean parsePacket says %q, implementation: %s", x.Case.Key(), hexTrunc(plain, 32), want, got), x.Case)
	}
}
