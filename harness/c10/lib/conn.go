// Package lib: the implementation-side machinery of the C10 check (no peer input or network
// fault can crash, wedge or bloat an endpoint): an instrumented in-memory conn, a runner for
// endpoint calls that observes panics / blocking / spinning structurally, generators of
// malformed streams per transport, role and stage, and the oracles written from the property
// text.  Used by harness/c10 (package main) and by the fuzz targets in harness/c10/fuzz.
package lib

import (
	"errors"
	"io"
	"sync"
	"time"

	"verif/harness/vlib"
)

// Ev is one entry of the unified event log of a Conn: everything the endpoint did on its
// net.Conn, in order.
type Ev struct {
	Kind  string // "readcall" | "read" | "readerr" | "write" | "writeerr" | "deadline" | "rdeadline" | "wdeadline" | "close"
	N     int    // bytes for read/write
	Armed bool   // deadline kinds: true = set to a time, false = cleared (time.Time{})
	Err   string // error class for readerr/writeerr
}

// Conn wraps a vlib.ScriptConn and logs reads as well (the ScriptConn logs only writes,
// deadlines and closes), so that "a deadline is armed before the first Read" and "bytes
// consumed before the endpoint gave up" can be read off the log.
type Conn struct {
	*vlib.ScriptConn
	mu       sync.Mutex
	log      []Ev
	consumed int
	fed      int
	curErr   error // what the harness last fed as the read error (nil = none)
	rArmed   bool  // read half of the deadline armed (SetDeadline arms both halves)
	wArmed   bool  // write half of the deadline armed
}

// Halves reports which halves of the conn's deadline are currently armed.
func (c *Conn) Halves() (read, write bool) {
	c.mu.Lock()
	defer c.mu.Unlock()
	return c.rArmed, c.wArmed
}

func NewConn() *Conn { return &Conn{ScriptConn: vlib.NewScriptConn()} }

func (c *Conn) add(e Ev) {
	c.mu.Lock()
	c.log = append(c.log, e)
	c.mu.Unlock()
}

// errWake is a sentinel fed to wake a blocked Read so that it re-evaluates the (virtual)
// deadline; it never reaches the endpoint.  (A plain FeedErr(nil) would also wake it, but
// until the woken goroutine has run, ScriptConn.Wait would still report "blocked".)
var errWake = errors.New("c10: wake")

func (c *Conn) Read(b []byte) (int, error) {
	c.add(Ev{Kind: "readcall", N: len(b)})
	n, err := c.ScriptConn.Read(b)
	for err == errWake {
		c.FeedErr(nil)
		n, err = c.ScriptConn.Read(b)
	}
	c.mu.Lock()
	c.consumed += n
	if err != nil {
		c.log = append(c.log, Ev{Kind: "readerr", N: n, Err: ErrClass(err)})
	} else {
		c.log = append(c.log, Ev{Kind: "read", N: n})
	}
	c.mu.Unlock()
	return n, err
}

func (c *Conn) Write(b []byte) (int, error) {
	// virtual time: once it is beyond every deadline, a write half that is still armed fails
	// the write (the ScriptConn itself does not enforce write deadlines)
	c.mu.Lock()
	stale := c.wArmed && c.ScriptConn.FireDeadlines
	c.mu.Unlock()
	if stale {
		c.add(Ev{Kind: "writeerr", Err: "timeout"})
		return 0, vlib.TimeoutError{}
	}
	n, err := c.ScriptConn.Write(b)
	if err != nil {
		c.add(Ev{Kind: "writeerr", N: n, Err: ErrClass(err)})
	} else {
		c.add(Ev{Kind: "write", N: n})
	}
	return n, err
}

func (c *Conn) Close() error {
	c.add(Ev{Kind: "close"})
	return c.ScriptConn.Close()
}

func (c *Conn) SetDeadline(t time.Time) error {
	c.mu.Lock()
	c.rArmed, c.wArmed = !t.IsZero(), !t.IsZero()
	c.mu.Unlock()
	c.add(Ev{Kind: "deadline", Armed: !t.IsZero()})
	return c.ScriptConn.SetDeadline(t)
}

func (c *Conn) SetReadDeadline(t time.Time) error {
	c.mu.Lock()
	c.rArmed = !t.IsZero()
	c.mu.Unlock()
	c.add(Ev{Kind: "rdeadline", Armed: !t.IsZero()})
	return c.ScriptConn.SetReadDeadline(t)
}

func (c *Conn) SetWriteDeadline(t time.Time) error {
	c.mu.Lock()
	c.wArmed = !t.IsZero()
	c.mu.Unlock()
	c.add(Ev{Kind: "wdeadline", Armed: !t.IsZero()})
	return c.ScriptConn.SetWriteDeadline(t)
}

// Log returns a copy of the event log.
func (c *Conn) Log() []Ev {
	c.mu.Lock()
	defer c.mu.Unlock()
	return append([]Ev(nil), c.log...)
}

// Consumed returns the number of bytes the endpoint has read so far.
func (c *Conn) Consumed() int {
	c.mu.Lock()
	defer c.mu.Unlock()
	return c.consumed
}

// FeedAll queues data split at the given sizes and counts it.
func (c *Conn) FeedAll(data []byte, sizes []int) {
	c.mu.Lock()
	c.fed += len(data)
	c.mu.Unlock()
	c.ScriptConn.FeedChunks(data, sizes)
}

// Fed returns the number of bytes queued so far.
func (c *Conn) Fed() int {
	c.mu.Lock()
	defer c.mu.Unlock()
	return c.fed
}

// ElapseDeadlines makes virtual time pass beyond every armed deadline: from now on a Read
// that would block while a read deadline is armed returns a timeout at once.  Must only be
// called while the endpoint is blocked in Read (c.Wait returned false) or not running.
func (c *Conn) ElapseDeadlines() {
	c.ScriptConn.FireDeadlines = true
	c.FeedErr(errWake) // wakes a blocked Read so that it re-evaluates
}

// FeedErr / FeedEOF shadow the ScriptConn's so that the current value is known to Nudge.
func (c *Conn) FeedErr(err error) {
	c.mu.Lock()
	c.curErr = err
	c.ScriptConn.FeedErr(err)
	c.mu.Unlock()
}

func (c *Conn) FeedEOF() { c.FeedErr(io.EOF) }

// Nudge wakes everybody waiting on the conn without changing its state.  ScriptConn.WaitT
// arms a timer and computes its deadline slightly later; when the timer's wake-up arrives
// before that deadline the waiter goes back to sleep with no further wake-up coming, and
// would only return when the endpoint call ends — which a wedged call never does.  Await
// therefore nudges periodically while it waits.
func (c *Conn) Nudge() {
	c.mu.Lock()
	c.ScriptConn.FeedErr(c.curErr)
	c.mu.Unlock()
}

// LogSummary renders the log compactly (runs of reads are merged) for violation reports.
func LogSummary(log []Ev) string {
	out := ""
	i := 0
	for i < len(log) && len(out) < 600 {
		e := log[i]
		switch e.Kind {
		case "readcall":
			i++
			continue
		case "read":
			n, k := 0, 0
			for i < len(log) && (log[i].Kind == "read" || log[i].Kind == "readcall") {
				if log[i].Kind == "read" {
					n += log[i].N
					k++
				}
				i++
			}
			out += itoa("read×", k) + itoa("=", n) + " "
			continue
		case "readerr":
			out += "readerr(" + e.Err + ") "
		case "write":
			out += itoa("write(", e.N) + ") "
		case "writeerr":
			out += "writeerr(" + e.Err + ") "
		case "close":
			out += "close "
		default:
			if e.Armed {
				out += e.Kind + "(set) "
			} else {
				out += e.Kind + "(clear) "
			}
		}
		i++
	}
	return out
}

func itoa(p string, n int) string {
	s := ""
	if n == 0 {
		s = "0"
	}
	neg := n < 0
	if neg {
		n = -n
	}
	for n > 0 {
		s = string(rune('0'+n%10)) + s
		n /= 10
	}
	if neg {
		s = "-" + s
	}
	return p + s
}
