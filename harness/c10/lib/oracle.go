package lib

import (
	"fmt"
	"net"
	"time"
)

// Bounds are the per-connection buffer/consumption bounds, read from the Lean driver
// (`O4.C10.table`): the harness measures against the very expressions the theorems are about.
var Bounds = map[string]int{}

func B(name string) int {
	v, ok := Bounds[name]
	if !ok {
		panic("bound " + name + " not loaded from the Lean driver")
	}
	return v
}

// HsOpts describes the handshake call under test.
type HsOpts struct {
	ConsumedBound  int    // bytes the endpoint may consume while it is still *parsing*
	ClosesOnFail   bool   // the endpoint itself closes the conn when the handshake fails
	DiscardsOnFail bool   // obfs4 server: after failing it keeps reading and discarding until the close deadline
	ExpectSuccess  bool   // the exchange is unmodified: the handshake must succeed
	Kind           string // deadline-discipline model of the wrapper: plain | socks | obfs4srv
}

// OpTrace renders the conn operations of a log in the alphabet of O4/Model/C10Deadline.lean
// (runs of Read calls collapsed).
func OpTrace(log []Ev) string {
	var b []byte
	for _, e := range log {
		var ch byte
		switch e.Kind {
		case "deadline":
			ch = 'c'
			if e.Armed {
				ch = 'a'
			}
		case "rdeadline":
			ch = 'e'
			if e.Armed {
				ch = 'r'
			}
		case "wdeadline":
			ch = 'v'
			if e.Armed {
				ch = 'w'
			}
		case "close":
			ch = 'x'
		case "readcall":
			ch = 'R'
			if len(b) > 0 && b[len(b)-1] == 'R' {
				continue
			}
		case "write", "writeerr":
			ch = 'W'
		default:
			continue
		}
		b = append(b, ch)
	}
	if len(b) == 0 {
		return "-"
	}
	return string(b)
}

// FinishHandshake drives a handshake call (Dial / WrapConn / socks5.Handshake), whose input
// has already been queued on c, to its end and applies the S oracle of the property:
//   - no panic; the call returns (an error or a connection) — when the peer is silent the
//     armed deadline (virtual time) must end it;
//   - a deadline is armed before the first Read; on success the last deadline event is a clear;
//   - on failure the endpoint that owns the conn closes it;
//   - while parsing, the endpoint consumed at most ConsumedBound bytes.
func (x *Ctx) FinishHandshake(c *Conn, call *Call, o HsOpts) (ok bool) {
	st := x.Await(c, call)
	timedOut := false
	timedOutNoDeadline := false
	if st == Blocked {
		// the peer is silent: let the handshake deadline expire
		c.ElapseDeadlines()
		timedOut = true
		st = x.Await(c, call)
		if st == Blocked {
			x.Violate("no-deadline", fmt.Sprintf("%s is blocked in Read with no deadline armed: an unresponsive peer is never dropped; log: %s", call.Name, LogSummary(c.Log())))
			timedOutNoDeadline = true
			c.FeedEOF()
			st = x.Await(c, call)
		}
	}
	if st != Finished {
		return false
	}
	if call.Panic != nil {
		return false
	}
	log := c.Log()
	// deadline armed before the first Read
	armed := false
	for _, e := range log {
		if (e.Kind == "deadline" || e.Kind == "rdeadline") && e.Armed {
			armed = true
		}
		if e.Kind == "readcall" {
			if !armed {
				x.Violate("read-before-deadline", fmt.Sprintf("%s read from the network before arming a deadline; log: %s", call.Name, LogSummary(log)))
			}
			break
		}
	}
	if call.Err == nil {
		x.Outcome = "ok"
		last := -1
		for i, e := range log {
			if e.Kind == "deadline" || e.Kind == "rdeadline" {
				last = i
			}
		}
		if last >= 0 && log[last].Armed {
			x.Violate("deadline-not-cleared", fmt.Sprintf("%s succeeded but the last deadline event is not a clear; log: %s", call.Name, LogSummary(log)))
		} else if ra, wa := c.Halves(); ra || wa {
			// SetDeadline arms the read and the write half; both must be removed on success
			x.Violate("deadline-left-armed-after-handshake", fmt.Sprintf("%s succeeded but the conn's deadline is still armed (read half %v, write half %v): an established connection would be killed by the stale handshake timer; conn operations %s", call.Name, ra, wa, OpTrace(log)))
		}
	} else {
		x.Outcome = "err:" + ErrClass(call.Err)
		if timedOut && ErrClass(call.Err) == "timeout" {
			x.Outcome = "err:deadline-expired"
		}
		if o.ExpectSuccess && !timedOut {
			// not a C10 violation by itself, but the generators rely on valid exchanges being accepted
			x.R.Count(x.Case.Prefix()+"/anomaly", "valid-exchange-rejected:"+ErrClass(call.Err))
		}
		if o.ClosesOnFail && !c.Closed() {
			x.Violate("not-closed-on-failure", fmt.Sprintf("%s failed (%s) but left the connection open; log: %s", call.Name, ErrClass(call.Err), LogSummary(log)))
		}
	}
	// the same trace judged by the Lean verdict function of this wrapper kind (model tie): the
	// theorems say the modelled wrappers / the obfs4 server machine only produce traces with
	// verdict 1
	if x.DD != nil && o.Kind != "" && !timedOutNoDeadline {
		okb := "0"
		if call.Err == nil {
			okb = "1"
		}
		tr := OpTrace(log)
		rep := x.DD(o.Kind, okb, tr)
		x.R.Validated(1)
		x.R.Count(x.Case.Prefix()+"/deadline-verdict", o.Kind+":"+rep)
		if rep != "1" && !x.viol {
			x.R.Violate(x.Case.Prefix()+"-deadline-model-impl-disagree", "correspondence",
				fmt.Sprintf("%s: %s returned ok=%s with conn operations %s: the Lean deadline-discipline verdict for wrapper kind %q is %s", x.Case.Key(), call.Name, okb, tr, o.Kind, rep), x.Case)
		}
	}
	// consumption while parsing
	consumed := 0
	for _, e := range log {
		if o.DiscardsOnFail && e.Kind == "rdeadline" {
			break // closeAfterDelay: from here on the server only discards
		}
		if e.Kind == "read" || e.Kind == "readerr" {
			consumed += e.N
		}
	}
	if consumed > o.ConsumedBound {
		x.Violate("hs-consumed-unbounded", fmt.Sprintf("%s consumed %d bytes while parsing the handshake, bound %d (fed %d); log: %s", call.Name, consumed, o.ConsumedBound, c.Fed(), LogSummary(log)))
	}
	if consumed > 0 {
		x.Nontrivial = true
	}
	return call.Err == nil
}

// DataOpts describes the data-phase probing of an established connection.
type DataOpts struct {
	Buffered func() (int, bool) // hook VerifC10Buffered of the transport, bound to the endpoint
	Bound    int                // bound on the buffered bytes at every quiescent point
	ReadSize int
	MaxReads int
}

type DataResult struct {
	Delivered int
	Err       error
	Reads     int
	MaxBuf    int
}

// ReadLoop calls ep.Read repeatedly on an established endpoint whose input has been queued
// on c (the harness never arms a deadline, and virtual time is far beyond every deadline the
// handshake armed).  Oracle: no panic; every Read returns data, returns an error, or blocks
// waiting for input; buffered bytes ≤ Bound whenever the endpoint is quiescent; no timeout
// (a timeout means a stale handshake deadline); after the cut / close the Read returns an
// error; a further Read after the error does not panic or hang either.
func (x *Ctx) ReadLoop(c *Conn, ep net.Conn, o DataOpts) (res DataResult) {
	if o.ReadSize <= 0 {
		o.ReadSize = 4096
	}
	if o.MaxReads <= 0 {
		o.MaxReads = 100000
	}
	buf := make([]byte, o.ReadSize)
	checkBuf := func(when string) {
		if o.Buffered == nil {
			return
		}
		n, ok := o.Buffered()
		if !ok {
			x.Violate("hook-type", "VerifC10Buffered does not recognise the connection type")
			return
		}
		if n > res.MaxBuf {
			res.MaxBuf = n
		}
		if n > o.Bound {
			x.Violate("buffer-unbounded", fmt.Sprintf("%d bytes buffered (%s, after %d reads, %d bytes consumed of %d fed), bound %d", n, when, res.Reads, c.Consumed(), c.Fed(), o.Bound))
		}
	}
	cutApplied := false
	zero := 0
	for res.Reads < o.MaxReads {
		call := x.Go(c, "Read", func() (interface{}, error) {
			n, err := ep.Read(buf)
			return n, err
		})
		st := x.Await(c, call)
		if st == Blocked {
			checkBuf("blocked in Read")
			if cutApplied {
				x.Violate("read-blocks-after-cut", "Read is blocked although the connection was cut/closed")
				return
			}
			cutApplied = true
			if x.Case.Cut == "" {
				// the peer stays silent: the application gives up and closes
				ep.Close()
			} else {
				x.ApplyCut(c)
			}
			st = x.Await(c, call)
			if st == Blocked {
				x.Violate("read-blocks-after-cut", fmt.Sprintf("Read still blocked after cut=%q/close; log: %s", x.Case.Cut, LogSummary(c.Log())))
				c.ScriptConn.Close()
				x.Await(c, call)
				return
			}
		}
		if st != Finished || call.Panic != nil {
			return
		}
		res.Reads++
		n, _ := call.Res.(int)
		res.Delivered += n
		if n > 0 || call.Err != nil {
			x.Nontrivial = true
		}
		if call.Err != nil {
			res.Err = call.Err
			if ErrClass(call.Err) == "timeout" {
				x.Violate("stale-deadline", fmt.Sprintf("Read on the established connection timed out although only the handshake ever armed a deadline; log: %s", LogSummary(c.Log())))
			}
			break
		}
		checkBuf("Read returned")
		if n == 0 {
			zero++
			if zero > 3 {
				x.Violate("read-zero-nil", "Read keeps returning (0, nil)")
				break
			}
		}
	}
	x.Outcome = "delivered;err:" + ErrClass(res.Err)
	if res.Delivered == 0 {
		x.Outcome = "nothing;err:" + ErrClass(res.Err)
	}
	// a further Read after the error must not panic or hang (input is over)
	if res.Err != nil {
		if !cutApplied && x.Case.Cut == "" {
			c.FeedEOF()
		} else if !cutApplied {
			x.ApplyCut(c)
		}
		call := x.Go(c, "Read-after-error", func() (interface{}, error) {
			n, err := ep.Read(buf)
			return n, err
		})
		st := x.Await(c, call)
		if st == Blocked {
			// legitimate only if the first error was not an end-of-input (e.g. a framing error with input left)
			ep.Close()
			st = x.Await(c, call)
		}
		_ = st
	}
	return
}

// WriteProbe writes on an established endpoint while the network fails (WriteErr) or works,
// with recover(): the call must return (n, err) — never panic.
func (x *Ctx) WriteProbe(c *Conn, ep net.Conn, payload []byte, failWith error) (err error, ok bool) {
	c.ScriptConn.WriteErr = failWith
	call := x.Go(c, "Write", func() (interface{}, error) {
		n, err := ep.Write(payload)
		return n, err
	})
	st := x.Await(c, call)
	c.ScriptConn.WriteErr = nil
	if st != Finished || call.Panic != nil {
		return nil, false
	}
	if failWith == nil && call.Err != nil && ErrClass(call.Err) == "timeout" {
		x.Violate("stale-deadline-write", fmt.Sprintf("Write on the established connection timed out although only the handshake ever armed a deadline (write half left armed); conn operations %s", OpTrace(c.Log())))
	}
	if failWith != nil && call.Err == nil && len(payload) > 0 {
		x.Violate("write-error-swallowed", "Write returned nil although the network write failed")
	}
	return call.Err, true
}

// EndCase checks that nothing of the endpoint is still running after the connection was
// closed and the input exhausted.
func (x *Ctx) EndCase() {
	left := NoGoroutinesLeft(3 * time.Second)
	if len(left) > 0 {
		// retry once, generously, before reporting
		left = NoGoroutinesLeft(10 * time.Second)
	}
	if len(left) > 0 {
		x.Violate("goroutine-leak", fmt.Sprintf("%d goroutine(s) still running code of the tree after close/EOF:\n%s", len(left), trimStack(left[0], 2500)))
		MarkLeaked(left)
	}
}
