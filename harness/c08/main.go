// C08 — ntor: agreement, transcript binding, degenerate keys, KDF.
//
//	C  the exported ntor API (KeypairFromHex, NewKeypair on a recorded tape, NewPublicKey, NewNodeID,
//	   ServerHandshake, ClientHandshake, CompareAuth, Kdf) against the Lean model (driver ntor), byte for byte;
//	S  the property's clauses on implementation outputs: both sides agree and equal an independent
//	   computation of the deployed variant (crypto/hmac + the raw ladder, written here); a one-bit change of
//	   ID, B, X or Y changes KEY_SEED and AUTH; every low-order / non-canonical peer key makes the side
//	   that computes the all-zero DH result report failure; Kdf is deterministic, prefix-consistent and
//	   equals a hand-written HKDF; CompareAuth accepts exactly the equal string.
package main

import (
	"bytes"
	"crypto/hmac"
	"crypto/rand"
	"crypto/sha256"
	"encoding/hex"
	"fmt"
	"math/big"
	"sync"

	"gitlab.com/yawning/obfs4.git/common/csrand"
	"gitlab.com/yawning/obfs4.git/common/ntor"
	"golang.org/x/crypto/curve25519"

	"verif/harness/vlib"
)

type ncase struct {
	Kind string `json:"kind"` // handshake | kdf | api
	// handshake
	TapeX string `json:"tape_x,omitempty"` // random tape for the client's NewKeypair
	TapeY string `json:"tape_y,omitempty"` // random tape for the server's NewKeypair
	EllX  bool   `json:"ell_x,omitempty"`
	EllY  bool   `json:"ell_y,omitempty"`
	BPriv string `json:"b_priv,omitempty"`
	ID    string `json:"id,omitempty"`
	// what each side is handed by the network (empty = the honest value)
	SrvX string `json:"srv_x,omitempty"` // clientPublic given to the server
	CliY string `json:"cli_y,omitempty"` // serverPublic given to the client
	CliB string `json:"cli_b,omitempty"` // idPublic given to the client
	CliI string `json:"cli_id,omitempty"`
	// kdf
	Seed string `json:"seed,omitempty"`
	N    int    `json:"n,omitempty"`
	M    int    `json:"m,omitempty"`
	// api
	Raw string `json:"raw,omitempty"`
	Op  string `json:"op,omitempty"`
	// sequence: one client keypair (TapeX) and one server keypair (TapeY) reused over all steps
	Steps []step `json:"steps,omitempty"`
	Tag   string `json:"tag"`
}

// step is one pair of calls (ClientHandshake, ServerHandshake) inside a sequence.
type step struct {
	BPriv string `json:"b_priv"`          // identity key of this step (KeypairFromHex on the server side)
	ID    string `json:"id"`              // node ID of this step
	CliB  string `json:"cli_b,omitempty"` // idPublic handed to the client (empty = the honest B)
	CliY  string `json:"cli_y,omitempty"` // serverPublic handed to the client (empty = the reused server key)
	SrvX  string `json:"srv_x,omitempty"` // clientPublic handed to the server (empty = the reused client key)
	Kind  string `json:"kind"`
}

const protoID = "ntor-curve25519-sha256-1"

func mac(key string, msg []byte) []byte {
	h := hmac.New(sha256.New, []byte(key))
	h.Write(msg)
	return h.Sum(nil)
}

func cat(parts ...[]byte) []byte {
	var o []byte
	for _, p := range parts {
		o = append(o, p...)
	}
	return o
}

func rawDH(k, u []byte) []byte {
	var dst, kk, uu [32]byte
	copy(kk[:], k)
	copy(uu[:], u)
	curve25519.ScalarMult(&dst, &kk, &uu) //nolint:staticcheck
	return dst[:]
}

func arr32(b []byte) *[32]byte {
	var a [32]byte
	copy(a[:], b)
	return &a
}

func allZero(b []byte) bool {
	for _, v := range b {
		if v != 0 {
			return false
		}
	}
	return true
}

// independent computation of the deployed variant from the two DH results and the public values
func ntorIndep(e1, e2, id, B, X, Y []byte) (ok bool, keySeed, auth []byte) {
	suffix := cat(B, B, X, Y, []byte(protoID), id)
	secret := cat(e1, e2, suffix)
	keySeed = mac(protoID+":key_extract", secret)
	verify := mac(protoID+":key_verify", secret)
	auth = mac(protoID+":mac", cat(verify, suffix, []byte("Server")))
	return !allZero(e1) && !allZero(e2), keySeed, auth
}

// hand-written HKDF-SHA256 (RFC 5869)
func hkdfIndep(secret, salt, info []byte, n int) []byte {
	h := hmac.New(sha256.New, salt)
	h.Write(secret)
	prk := h.Sum(nil)
	var out, t []byte
	for i := 1; len(out) < n; i++ {
		h := hmac.New(sha256.New, prk)
		h.Write(t)
		h.Write(info)
		h.Write([]byte{byte(i)})
		t = h.Sum(nil)
		out = append(out, t...)
	}
	return out[:n]
}

type tapeReader struct {
	b   []byte
	pos int
}

func (t *tapeReader) Read(p []byte) (int, error) {
	n := copy(p, t.b[t.pos:])
	t.pos += n
	if n < len(p) {
		return n, fmt.Errorf("tape exhausted")
	}
	return n, nil
}

var tapeMu sync.Mutex

func keypairFromTape(tape []byte, ell bool) *ntor.Keypair {
	tapeMu.Lock()
	defer tapeMu.Unlock()
	tr := &tapeReader{b: tape}
	oldR, oldC := rand.Reader, csrand.Reader
	rand.Reader, csrand.Reader = tr, tr
	kp, err := ntor.NewKeypair(ell)
	rand.Reader, csrand.Reader = oldR, oldC
	if err != nil {
		panic(err)
	}
	return kp
}

func pk(b []byte) *ntor.PublicKey {
	k, err := ntor.NewPublicKey(b)
	if err != nil {
		panic(err)
	}
	return k
}

func or(s string, def []byte) []byte {
	if s == "" {
		return def
	}
	return vlib.UnHex(s)
}

func fmtRes(ok bool, ks, auth []byte) string {
	b := "0"
	if ok {
		b = "1"
	}
	return b + " " + vlib.Hex(ks) + " " + vlib.Hex(auth)
}

// ---------------------------------------------------------------- cases

func runHandshake(r *vlib.Run, d *vlib.Driver, c ncase) {
	kx := keypairFromTape(vlib.UnHex(c.TapeX), c.EllX)
	ky := keypairFromTape(vlib.UnHex(c.TapeY), c.EllY)
	kb, err := ntor.KeypairFromHex(c.BPriv)
	if err != nil {
		panic(err)
	}
	idb := vlib.UnHex(c.ID)
	id, err := ntor.NewNodeID(idb)
	if err != nil {
		panic(err)
	}
	X, Y, B := kx.Public().Bytes()[:], ky.Public().Bytes()[:], kb.Public().Bytes()[:]
	x, y, b := kx.Private().Bytes()[:], ky.Private().Bytes()[:], kb.Private().Bytes()[:]
	srvX := or(c.SrvX, X)
	cliY := or(c.CliY, Y)
	cliB := or(c.CliB, B)
	cliID := or(c.CliI, idb)
	cid, _ := ntor.NewNodeID(cliID)
	honest := c.SrvX == "" && c.CliY == "" && c.CliB == "" && c.CliI == ""

	sok, sks, sauth := ntor.ServerHandshake(pk(srvX), ky, kb, id)
	cok, cks, cauth := ntor.ClientHandshake(kx, pk(cliY), pk(cliB), cid)
	key := fmt.Sprintf("hs %s %s %v %v %s %s|%s %s %s %s", c.TapeX[:16], c.TapeY[:16], c.EllX, c.EllY, c.BPriv, c.ID, c.SrvX, c.CliY, c.CliB, c.CliI)
	r.Case(key, true)
	r.Count("handshake", c.Tag)
	r.Count("keys", fmt.Sprintf("ellX=%v ellY=%v", c.EllX, c.EllY))
	r.Count("status", fmt.Sprintf("server=%v client=%v", sok, cok))

	// C: the model on the same inputs
	sImpl := fmtRes(sok, sks[:], sauth[:])
	cImpl := fmtRes(cok, cks[:], cauth[:])
	sModel := d.Call("srv %s %s %s %s %s %s", vlib.Hex(srvX), vlib.Hex(y), vlib.Hex(Y), vlib.Hex(b), vlib.Hex(B), c.ID)
	cModel := d.Call("cli %s %s %s %s %s", vlib.Hex(x), vlib.Hex(X), vlib.Hex(cliY), vlib.Hex(cliB), vlib.Hex(cliID))
	r.Validated(2)
	r.Sample(4, map[string]interface{}{"op": "srv/cli " + c.Tag, "impl_server": sImpl, "model_server": sModel})
	if sModel != sImpl {
		r.Violate("model-impl-disagree-server", "correspondence",
			fmt.Sprintf("ServerHandshake(X=%x, y=%x, b=%x, id=%s): implementation %q, Lean model %q", srvX, y, b, c.ID, sImpl, sModel), c)
	}
	if cModel != cImpl {
		r.Violate("model-impl-disagree-client", "correspondence",
			fmt.Sprintf("ClientHandshake(x=%x, Y=%x, B=%x, id=%x): implementation %q, Lean model %q", x, cliY, cliB, cliID, cImpl, cModel), c)
	}

	// S: each side equals the independent computation of the deployed variant
	iok, iks, iauth := ntorIndep(rawDH(y, srvX), rawDH(b, srvX), idb, B, srvX, Y)
	if fmtRes(iok, iks, iauth) != sImpl {
		r.Violate("server-differs-from-independent-ntor", "impl-oracle",
			fmt.Sprintf("ServerHandshake(X=%x, y=%x, b=%x, id=%s) = %q, independent computation %q", srvX, y, b, c.ID, sImpl, fmtRes(iok, iks, iauth)), c)
	}
	jok, jks, jauth := ntorIndep(rawDH(x, cliY), rawDH(x, cliB), cliID, cliB, X, cliY)
	if fmtRes(jok, jks, jauth) != cImpl {
		r.Violate("client-differs-from-independent-ntor", "impl-oracle",
			fmt.Sprintf("ClientHandshake(x=%x, Y=%x, B=%x, id=%x) = %q, independent computation %q", x, cliY, cliB, cliID, cImpl, fmtRes(jok, jks, jauth)), c)
	}

	switch {
	case honest:
		// S: agreement
		if !sok || !cok || *sks != *cks || *sauth != *cauth {
			r.Violate("honest-handshake-disagrees", "impl-oracle",
				fmt.Sprintf("honest run (x=%x y=%x b=%x id=%s): server %q, client %q", x, y, b, c.ID, sImpl, cImpl), c)
		}
		if !ntor.CompareAuth(cauth, sauth.Bytes()[:]) {
			r.Violate("compareauth-rejects-equal", "impl-oracle", "CompareAuth(client AUTH, server AUTH) = false on an honest run", c)
		}
	case c.Tag == "low-order-client-key":
		if sok {
			r.Violate("server-accepts-zero-dh", "impl-oracle",
				fmt.Sprintf("ServerHandshake with clientPublic %x (EXP = %x, %x) reports success", srvX, rawDH(y, srvX), rawDH(b, srvX)), c)
		}
	case c.Tag == "low-order-server-key" || c.Tag == "low-order-identity-key":
		if cok {
			r.Violate("client-accepts-zero-dh", "impl-oracle",
				fmt.Sprintf("ClientHandshake with serverPublic %x idPublic %x (EXP = %x, %x) reports success", cliY, cliB, rawDH(x, cliY), rawDH(x, cliB)), c)
		}
	default:
		// S: a changed ID / B / X / Y changes both outputs (the two sides now hold different transcripts)
		if *sks == *cks || *sauth == *cauth {
			r.Violate("perturbation-does-not-change-outputs", "impl-oracle",
				fmt.Sprintf("%s: server %q, client %q — KEY_SEED or AUTH unchanged", c.Tag, sImpl, cImpl), c)
		}
		if ntor.CompareAuth(cauth, sauth.Bytes()[:]) {
			r.Violate("compareauth-accepts-different", "impl-oracle", c.Tag+": CompareAuth accepted the server AUTH of a different transcript", c)
		}
	}
	// S (always): status is false exactly when a DH result the side computes is all-zero
	if sok == (allZero(rawDH(y, srvX)) || allZero(rawDH(b, srvX))) {
		r.Violate("server-status-vs-zero-dh", "impl-oracle", fmt.Sprintf("server status %v with EXP %x %x", sok, rawDH(y, srvX), rawDH(b, srvX)), c)
	}
	if cok == (allZero(rawDH(x, cliY)) || allZero(rawDH(x, cliB))) {
		r.Violate("client-status-vs-zero-dh", "impl-oracle", fmt.Sprintf("client status %v with EXP %x %x", cok, rawDH(x, cliY), rawDH(x, cliB)), c)
	}
}

// runSequence: the SAME client Keypair and the SAME server Keypair objects are used for every step;
// each call must be a function of that call's arguments only (compared with the Lean model, the
// independent computation, the zero-DH verdict, and the same call made with freshly built keypairs).
func runSequence(r *vlib.Run, d *vlib.Driver, c ncase) {
	kx := keypairFromTape(vlib.UnHex(c.TapeX), c.EllX)
	ky := keypairFromTape(vlib.UnHex(c.TapeY), c.EllY)
	X, Y := append([]byte(nil), kx.Public().Bytes()[:]...), append([]byte(nil), ky.Public().Bytes()[:]...)
	x, y := append([]byte(nil), kx.Private().Bytes()[:]...), append([]byte(nil), ky.Private().Bytes()[:]...)
	kbs := map[string]*ntor.Keypair{} // identity keypairs are reused as well when a step names the same key again
	r.Case(fmt.Sprintf("seq %s %s %v", c.TapeX[:16], c.TapeY[:16], c.Steps), true)
	r.Count("sequence-length", fmt.Sprint(len(c.Steps)))
	for i, st := range c.Steps {
		kb := kbs[st.BPriv]
		if kb == nil {
			var err error
			if kb, err = ntor.KeypairFromHex(st.BPriv); err != nil {
				panic(err)
			}
			kbs[st.BPriv] = kb
		}
		B, b := kb.Public().Bytes()[:], kb.Private().Bytes()[:]
		idb := vlib.UnHex(st.ID)
		id, _ := ntor.NewNodeID(idb)
		srvX, cliY, cliB := or(st.SrvX, X), or(st.CliY, Y), or(st.CliB, B)
		r.Count("sequence-step", st.Kind)
		where := fmt.Sprintf("step %d/%d (%s) of a sequence on one reused keypair", i+1, len(c.Steps), st.Kind)

		cok, cks, cauth := ntor.ClientHandshake(kx, pk(cliY), pk(cliB), id)
		sok, sks, sauth := ntor.ServerHandshake(pk(srvX), ky, kb, id)
		cImpl, sImpl := fmtRes(cok, cks[:], cauth[:]), fmtRes(sok, sks[:], sauth[:])

		// S: no history dependence — the same calls with freshly built keypairs
		fx, fy := keypairFromTape(vlib.UnHex(c.TapeX), c.EllX), keypairFromTape(vlib.UnHex(c.TapeY), c.EllY)
		fb, _ := ntor.KeypairFromHex(st.BPriv)
		fok, fks, fauth := ntor.ClientHandshake(fx, pk(cliY), pk(cliB), id)
		if f := fmtRes(fok, fks[:], fauth[:]); f != cImpl {
			r.Violate("client-handshake-history-dependent", "impl-oracle",
				fmt.Sprintf("%s: ClientHandshake(x=%x, Y=%x, B=%x, id=%s) on the reused keypair = %q, on a fresh keypair with the same key = %q", where, x, cliY, cliB, st.ID, cImpl, f), c)
		}
		gok, gks, gauth := ntor.ServerHandshake(pk(srvX), fy, fb, id)
		if g := fmtRes(gok, gks[:], gauth[:]); g != sImpl {
			r.Violate("server-handshake-history-dependent", "impl-oracle",
				fmt.Sprintf("%s: ServerHandshake(X=%x, y=%x, b=%x, id=%s) on the reused keypairs = %q, on fresh ones = %q", where, srvX, y, b, st.ID, sImpl, g), c)
		}
		// S: independent computation and zero-DH verdict, from this call's arguments only
		jok, jks, jauth := ntorIndep(rawDH(x, cliY), rawDH(x, cliB), idb, cliB, X, cliY)
		if j := fmtRes(jok, jks, jauth); j != cImpl {
			r.Violate("client-differs-from-independent-ntor", "impl-oracle",
				fmt.Sprintf("%s: ClientHandshake(x=%x, Y=%x, B=%x, id=%s) = %q, independent computation %q", where, x, cliY, cliB, st.ID, cImpl, j), c)
		}
		iok, iks, iauth := ntorIndep(rawDH(y, srvX), rawDH(b, srvX), idb, B, srvX, Y)
		if j := fmtRes(iok, iks, iauth); j != sImpl {
			r.Violate("server-differs-from-independent-ntor", "impl-oracle",
				fmt.Sprintf("%s: ServerHandshake(X=%x, y=%x, b=%x, id=%s) = %q, independent computation %q", where, srvX, y, b, st.ID, sImpl, j), c)
		}
		if cok == (allZero(rawDH(x, cliY)) || allZero(rawDH(x, cliB))) {
			r.Violate("client-status-vs-zero-dh", "impl-oracle", fmt.Sprintf("%s: client status %v with EXP %x %x", where, cok, rawDH(x, cliY), rawDH(x, cliB)), c)
		}
		if sok == (allZero(rawDH(y, srvX)) || allZero(rawDH(b, srvX))) {
			r.Violate("server-status-vs-zero-dh", "impl-oracle", fmt.Sprintf("%s: server status %v with EXP %x %x", where, sok, rawDH(y, srvX), rawDH(b, srvX)), c)
		}
		if st.Kind == "honest" || st.Kind == "other-identity" || st.Kind == "other-id" {
			if !cok || !sok || *cks != *sks || *cauth != *sauth {
				r.Violate("honest-handshake-disagrees", "impl-oracle", fmt.Sprintf("%s: server %q, client %q", where, sImpl, cImpl), c)
			}
		}
		// the keypair objects still hold the same keys
		if !bytes.Equal(kx.Public().Bytes()[:], X) || !bytes.Equal(kx.Private().Bytes()[:], x) || !bytes.Equal(ky.Public().Bytes()[:], Y) || !bytes.Equal(ky.Private().Bytes()[:], y) {
			r.Violate("handshake-modifies-keypair", "impl-oracle", where+": a Keypair's key material changed", c)
		}
		// C: the model, call by call
		cModel := d.Call("cli %s %s %s %s %s", vlib.Hex(x), vlib.Hex(X), vlib.Hex(cliY), vlib.Hex(cliB), st.ID)
		sModel := d.Call("srv %s %s %s %s %s %s", vlib.Hex(srvX), vlib.Hex(y), vlib.Hex(Y), vlib.Hex(b), vlib.Hex(B), st.ID)
		r.Validated(2)
		if cModel != cImpl {
			r.Violate("model-impl-disagree-client", "correspondence", fmt.Sprintf("%s: ClientHandshake implementation %q, Lean model %q", where, cImpl, cModel), c)
		}
		if sModel != sImpl {
			r.Violate("model-impl-disagree-server", "correspondence", fmt.Sprintf("%s: ServerHandshake implementation %q, Lean model %q", where, sImpl, sModel), c)
		}
	}
}

// runAlias: every object handed to the handshake is built through an exported constructor from a
// scratch buffer that is scribbled over and refilled with the NEXT value right after the constructor
// returns (the next connection's key, the next bridge line). S: the object still holds the value it
// was built from, and every handshake equals the independent computation on the ORIGINAL values.
// Accessor results are used the way in-tree callers use them (read, append to, clone, pass on).
func runAlias(r *vlib.Run, d *vlib.Driver, c ncase) {
	kx := keypairFromTape(vlib.UnHex(c.TapeX), c.EllX)
	ky := keypairFromTape(vlib.UnHex(c.TapeY), c.EllY)
	X, Y := append([]byte(nil), kx.Public().Bytes()[:]...), append([]byte(nil), ky.Public().Bytes()[:]...)
	x, y := append([]byte(nil), kx.Private().Bytes()[:]...), append([]byte(nil), ky.Private().Bytes()[:]...)
	r.Case(fmt.Sprintf("alias %s %s %v", c.TapeX[:16], c.TapeY[:16], c.Steps), true)
	r.Count("alias-steps", fmt.Sprint(len(c.Steps)))

	type objs struct {
		b, B, id   []byte // original values
		kb         *ntor.Keypair
		pX, pY, pB *ntor.PublicKey
		nid        *ntor.NodeID
		how        string
	}
	// one scratch area laid out like a bridge certificate (node ID ‖ public key) plus key buffers, all reused
	cert := make([]byte, 20+32)
	bufX, bufY := make([]byte, 32), make([]byte, 32)
	var built []objs
	for i, st := range c.Steps {
		raw, _ := hex.DecodeString(st.BPriv)
		var pub [32]byte
		curve25519.ScalarBaseMult(&pub, arr32(raw))
		o := objs{b: raw, B: pub[:], id: vlib.UnHex(st.ID)}
		var err error
		switch i % 3 {
		case 0: // raw-slice constructors on sub-slices of one buffer, as statefile.go does with cert.raw
			o.how = "NewNodeID/NewPublicKey on a reused buffer"
			copy(cert[:20], o.id)
			copy(cert[20:], o.B)
			o.nid, err = ntor.NewNodeID(cert[:20])
			if err == nil {
				o.pB, err = ntor.NewPublicKey(cert[20:])
			}
			copy(bufX, X)
			copy(bufY, Y)
			if err == nil {
				o.pX, err = ntor.NewPublicKey(bufX)
			}
			if err == nil {
				o.pY, err = ntor.NewPublicKey(bufY)
			}
		case 1: // hex constructors
			o.how = "NodeIDFromHex/PublicKeyFromHex"
			o.nid, err = ntor.NodeIDFromHex(hex.EncodeToString(o.id))
			if err == nil {
				o.pB, err = ntor.PublicKeyFromHex(hex.EncodeToString(o.B))
			}
			if err == nil {
				o.pX, err = ntor.PublicKeyFromHex(hex.EncodeToString(X))
			}
			if err == nil {
				o.pY, err = ntor.PublicKeyFromHex(hex.EncodeToString(Y))
			}
		case 2: // the peer keys come out of Representative.ToPublic on a Representative that is then reused
			o.how = "NewNodeID/NewPublicKey on fresh slices that are overwritten afterwards"
			idb, Bb, Xb, Yb := append([]byte(nil), o.id...), append([]byte(nil), o.B...), append([]byte(nil), X...), append([]byte(nil), Y...)
			o.nid, err = ntor.NewNodeID(idb)
			if err == nil {
				o.pB, err = ntor.NewPublicKey(Bb)
			}
			if err == nil {
				o.pX, err = ntor.NewPublicKey(Xb)
			}
			if err == nil {
				o.pY, err = ntor.NewPublicKey(Yb)
			}
			for _, s := range [][]byte{idb, Bb, Xb, Yb} {
				for j := range s {
					s[j] ^= 0xff
				}
			}
		}
		if err != nil {
			panic(err)
		}
		if o.kb, err = ntor.KeypairFromHex(st.BPriv); err != nil {
			panic(err)
		}
		// the caller moves on: scribble over every buffer the constructors saw
		for _, s := range [][]byte{cert, bufX, bufY} {
			for j := range s {
				s[j] = 0xa5 ^ byte(i)
			}
		}
		built = append(built, o)
	}
	check := func(when string) bool {
		for i, o := range built {
			for _, f := range []struct {
				name      string
				got, want []byte
			}{{"NodeID", o.nid.Bytes()[:], o.id}, {"identity PublicKey", o.pB.Bytes()[:], o.B}, {"client PublicKey", o.pX.Bytes()[:], X},
				{"server PublicKey", o.pY.Bytes()[:], Y}, {"Keypair.Private", o.kb.Private().Bytes()[:], o.b}, {"Keypair.Public", o.kb.Public().Bytes()[:], o.B}} {
				if !bytes.Equal(f.got, f.want) {
					r.Violate("constructor-aliases-caller-buffer", "impl-oracle",
						fmt.Sprintf("%s: the %s built for step %d (%s) was constructed from %x but now holds %x — it shares memory with the caller's buffer or with another object", when, f.name, i+1, o.how, f.want, f.got), c)
					return false
				}
			}
		}
		return true
	}
	intact := check("after the caller reused its buffers")
	var prev []string
	for i, o := range built {
		where := fmt.Sprintf("step %d/%d (objects from %s)", i+1, len(built), o.how)
		sok, sks, sauth := ntor.ServerHandshake(o.pX, ky, o.kb, o.nid)
		cok, cks, cauth := ntor.ClientHandshake(kx, o.pY, o.pB, o.nid)
		sImpl, cImpl := fmtRes(sok, sks[:], sauth[:]), fmtRes(cok, cks[:], cauth[:])
		// use the accessor results the way in-tree callers do
		macKey := append(o.pB.Bytes()[:], o.nid.Bytes()[:]...) // handshake_ntor.go: hmac key B ‖ NODEID
		_ = append(bytes.Clone(o.nid.Bytes()[:]), o.kb.Public().Bytes()[:]...)
		okm, _ := kdfCall(sks.Bytes()[:], 72)
		if !bytes.Equal(macKey, cat(o.B, o.id)) || !ntor.CompareAuth(cauth, sauth.Bytes()[:]) != (cImpl != sImpl) || len(okm) != 72 {
			r.Violate("accessor-use-unsafe", "impl-oracle", where+": B ‖ NODEID built from the accessors, CompareAuth on Auth.Bytes() or Kdf on KeySeed.Bytes() misbehave", c)
		}
		iok, iks, iauth := ntorIndep(rawDH(y, X), rawDH(o.b, X), o.id, o.B, X, Y)
		ind := fmtRes(iok, iks, iauth)
		if sImpl != ind || cImpl != ind {
			r.Violate("handshake-differs-from-independent-ntor-on-original-values", "impl-oracle",
				fmt.Sprintf("%s: server %q, client %q, independent computation on the values the objects were built from %q", where, sImpl, cImpl, ind), c)
		}
		for j, p := range prev {
			if p == sImpl && (!bytes.Equal(built[j].id, o.id) || !bytes.Equal(built[j].B, o.B)) {
				r.Violate("different-transcripts-same-outputs", "impl-oracle",
					fmt.Sprintf("%s: same KEY_SEED/AUTH as step %d although node ID / identity key differ (%x/%x vs %x/%x)", where, j+1, built[j].id, built[j].B, o.id, o.B), c)
			}
		}
		prev = append(prev, sImpl)
		sModel := d.Call("srv %s %s %s %s %s %s", vlib.Hex(X), vlib.Hex(y), vlib.Hex(Y), vlib.Hex(o.b), vlib.Hex(o.B), vlib.Hex(o.id))
		cModel := d.Call("cli %s %s %s %s %s", vlib.Hex(x), vlib.Hex(X), vlib.Hex(Y), vlib.Hex(o.B), vlib.Hex(o.id))
		r.Validated(2)
		if sModel != sImpl || cModel != cImpl {
			r.Violate("model-impl-disagree-aliased-objects", "correspondence",
				fmt.Sprintf("%s: implementation server %q client %q, Lean model on the original values server %q client %q", where, sImpl, cImpl, sModel, cModel), c)
		}
	}
	if intact {
		check("after the handshakes and the accessor uses")
	}
	// Representative.ToPublic: the result must not depend on what the Representative holds later
	rep := new(ntor.Representative)
	copy(rep.Bytes()[:], X)
	var fresh ntor.Representative
	copy(fresh[:], X)
	want := *fresh.ToPublic()
	p1 := rep.ToPublic()
	copy(rep.Bytes()[:], Y) // next connection's representative, as handshake_ntor.go does
	p2 := rep.ToPublic()
	if *p1 != want || p1 == p2 {
		r.Violate("constructor-aliases-caller-buffer", "impl-oracle",
			fmt.Sprintf("Representative(%x).ToPublic() = %x changed to %x after the Representative was refilled", X, want, *p1), c)
	}
}

// runKdfSeq: Kdf called repeatedly on the SAME seed slice with varying lengths.
func runKdfSeq(r *vlib.Run, d *vlib.Driver, c ncase) {
	seed := vlib.UnHex(c.Seed)
	orig := append([]byte(nil), seed...)
	r.Case("kdfseq "+c.Seed+c.Raw, true)
	r.Count("kdf", "repeated-on-one-slice")
	for i, nb := range vlib.UnHex(c.Raw) {
		n := int(nb) * 3
		out, p := kdfCall(seed, n)
		if p || !bytes.Equal(out, hkdfIndep(orig, []byte(protoID+":key_extract"), []byte(protoID+":key_expand"), n)) || !bytes.Equal(seed, orig) {
			r.Violate("kdf-history-dependent", "impl-oracle",
				fmt.Sprintf("call %d of Kdf(%s, %d) on one seed slice: panicked=%v, seed now %x, output differs from HKDF of the original seed", i+1, c.Seed, n, p, seed), c)
			return
		}
		if i%4 == 0 {
			r.Validated(1)
			if g := d.Call("kdf %s %d", c.Seed, n); g != vlib.Hex(out) {
				r.Violate("model-impl-disagree-kdf", "correspondence", fmt.Sprintf("Kdf(%s, %d) (repeated): Lean model differs", c.Seed, n), c)
			}
		}
	}
}

func kdfCall(seed []byte, n int) (out []byte, panicked bool) {
	defer func() {
		if recover() != nil {
			panicked = true
		}
	}()
	return ntor.Kdf(seed, n), false
}

func runKdf(r *vlib.Run, d *vlib.Driver, c ncase) {
	seed := vlib.UnHex(c.Seed)
	r.Case(fmt.Sprintf("kdf %s %d %d", c.Seed, c.N, c.M), true)
	r.Count("kdf", c.Tag)
	on, pn := kdfCall(seed, c.N)
	want := vlib.Hex(on)
	if pn {
		want = "panic"
	}
	got := d.Call("kdf %s %d", c.Seed, c.N)
	r.Validated(1)
	if got != want {
		r.Violate("model-impl-disagree-kdf", "correspondence",
			fmt.Sprintf("Kdf(%s, %d): implementation %.80s…, Lean model %.80s…", c.Seed, c.N, want, got), c)
	}
	if pn {
		if c.N <= 255*32 {
			r.Violate("kdf-panics", "impl-oracle", fmt.Sprintf("Kdf(%s, %d) panicked", c.Seed, c.N), c)
		}
		return
	}
	// S: deterministic, exact length, prefix-consistent, equal to a hand-written HKDF
	on2, _ := kdfCall(seed, c.N)
	if !bytes.Equal(on, on2) || len(on) != c.N {
		r.Violate("kdf-not-deterministic", "impl-oracle", fmt.Sprintf("Kdf(%s, %d) returned %d bytes, two calls equal: %v", c.Seed, c.N, len(on), bytes.Equal(on, on2)), c)
	}
	if c.M >= c.N && c.M <= 255*32 {
		om, _ := kdfCall(seed, c.M)
		if len(om) < c.N || !bytes.Equal(om[:c.N], on) {
			r.Violate("kdf-not-prefix-consistent", "impl-oracle", fmt.Sprintf("Kdf(%s, %d) is not a prefix of Kdf(·, %d)", c.Seed, c.N, c.M), c)
		}
	}
	if ind := hkdfIndep(seed, []byte(protoID+":key_extract"), []byte(protoID+":key_expand"), c.N); !bytes.Equal(ind, on) {
		r.Violate("kdf-differs-from-independent-hkdf", "impl-oracle",
			fmt.Sprintf("Kdf(%s, %d) = %.64x…, HKDF-SHA256(salt t_key, info m_expand) = %.64x…", c.Seed, c.N, on, ind), c)
	}
}

func runAPI(r *vlib.Run, d *vlib.Driver, c ncase) {
	raw := vlib.UnHex(c.Raw)
	r.Case("api "+c.Op+" "+c.Raw+" "+c.Seed, true)
	r.Count("api", c.Op+"/"+c.Tag)
	var want string
	switch c.Op {
	case "pubkey":
		k, err := ntor.NewPublicKey(raw)
		want = "err"
		if err == nil {
			want = vlib.Hex(k.Bytes()[:])
		}
	case "nodeid":
		k, err := ntor.NewNodeID(raw)
		want = "err"
		if err == nil {
			want = vlib.Hex(k.Bytes()[:])
		}
	case "keypair":
		k, err := ntor.KeypairFromHex(hex.EncodeToString(raw))
		want = "err"
		if err == nil {
			want = vlib.Hex(k.Private().Bytes()[:]) + " " + vlib.Hex(k.Public().Bytes()[:])
			var p [32]byte
			curve25519.ScalarBaseMult(&p, k.Private().Bytes())
			if p != *k.Public().Bytes() || k.HasElligator() {
				r.Violate("keypairfromhex-wrong-public", "impl-oracle", fmt.Sprintf("KeypairFromHex(%x): public %x", raw, k.Public().Bytes()[:]), c)
			}
		}
	case "cmpauth":
		var a ntor.Auth
		copy(a[:], raw)
		other := vlib.UnHex(c.Seed)
		res := ntor.CompareAuth(&a, other)
		want = "0"
		if res {
			want = "1"
		}
		if res != bytes.Equal(a[:], other) {
			r.Violate("compareauth-not-equality", "impl-oracle", fmt.Sprintf("CompareAuth(%x, %x) = %v", a[:], other, res), c)
		}
		got := d.Call("cmpauth %s %s", vlib.Hex(a[:]), vlib.Hex(other))
		r.Validated(1)
		if got != want {
			r.Violate("model-impl-disagree-api", "correspondence", fmt.Sprintf("cmpauth: implementation %s, model %s", want, got), c)
		}
		return
	}
	got := d.Call("%s %s", c.Op, vlib.Hex(raw))
	r.Validated(1)
	if got != want {
		r.Violate("model-impl-disagree-api", "correspondence", fmt.Sprintf("%s %x: implementation %q, Lean model %q", c.Op, raw, want, got), c)
	}
}

func runCase(r *vlib.Run, d *vlib.Driver, c ncase) {
	switch c.Kind {
	case "handshake":
		runHandshake(r, d, c)
	case "kdf":
		runKdf(r, d, c)
	case "api":
		runAPI(r, d, c)
	case "sequence":
		runSequence(r, d, c)
	case "kdfseq":
		runKdfSeq(r, d, c)
	case "alias":
		runAlias(r, d, c)
	}
}

// ---------------------------------------------------------------- generators

func le32(n *big.Int) []byte {
	m := new(big.Int).Mod(n, new(big.Int).Lsh(big.NewInt(1), 256))
	b := m.FillBytes(make([]byte, 32))
	for i, j := 0, 31; i < j; i, j = i+1, j-1 {
		b[i], b[j] = b[j], b[i]
	}
	return b
}

// every low-order u-coordinate of the curve and its twist, canonical and non-canonical, with and
// without bit 255: all of them give an all-zero X25519 output for every scalar.
func lowOrder() [][]byte {
	p := new(big.Int).Sub(new(big.Int).Lsh(big.NewInt(1), 255), big.NewInt(19))
	bi := func(s string) *big.Int { n, _ := new(big.Int).SetString(s, 10); return n }
	two255 := new(big.Int).Lsh(big.NewInt(1), 255)
	var out [][]byte
	for _, l := range []*big.Int{big.NewInt(0), big.NewInt(1),
		bi("325606250916557431795983626356110631294008115727848805560023387167927233504"),
		bi("39382357235489614581723060781553021112529911719440698176882885853963445705823"),
		new(big.Int).Sub(p, big.NewInt(1)), p, new(big.Int).Add(p, big.NewInt(1))} {
		out = append(out, le32(l), le32(new(big.Int).Add(l, two255)))
	}
	return out
}

func flip(b []byte, bit int) []byte {
	o := append([]byte(nil), b...)
	o[bit/8] ^= 1 << uint(bit%8)
	return o
}

// kx0: the public key of the sequence's client keypair
func kx0(c ncase) []byte {
	return append([]byte(nil), keypairFromTape(vlib.UnHex(c.TapeX), c.EllX).Public().Bytes()[:]...)
}

func generate(r *vlib.Run) []ncase {
	rng := vlib.NewRng(r.Seed)
	h := vlib.Hex
	var cs []ncase
	low := lowOrder()
	nh := r.Scale(600, 6000)
	for i := 0; i < nh; i++ {
		base := ncase{Kind: "handshake", TapeX: h(rng.Bytes(32 * 40)), TapeY: h(rng.Bytes(32 * 40)),
			EllX: i%4 != 3, EllY: i%4 != 2, BPriv: hex.EncodeToString(rng.Bytes(32)), ID: h(rng.Bytes(20)), Tag: "honest"}
		cs = append(cs, base)
		// the honest public values, needed to build perturbed ones
		kx := keypairFromTape(vlib.UnHex(base.TapeX), base.EllX)
		ky := keypairFromTape(vlib.UnHex(base.TapeY), base.EllY)
		kb, _ := ntor.KeypairFromHex(base.BPriv)
		X, Y, B := kx.Public().Bytes()[:], ky.Public().Bytes()[:], kb.Public().Bytes()[:]
		// one-bit perturbations of each transcript field (avoid bit 255 of a key: X25519 ignores it, the transcript does not)
		c := base
		c.Tag, c.CliI = "perturbed-id", h(flip(vlib.UnHex(base.ID), rng.Intn(160)))
		cs = append(cs, c)
		c = base
		c.Tag, c.CliB = "perturbed-B", h(flip(B, rng.Intn(256)))
		cs = append(cs, c)
		c = base
		c.Tag, c.CliY = "perturbed-Y", h(flip(Y, rng.Intn(256)))
		cs = append(cs, c)
		c = base
		c.Tag, c.SrvX = "perturbed-X", h(flip(X, rng.Intn(256)))
		cs = append(cs, c)
		if i%8 == 0 {
			// bit 255 specifically: same DH results, different transcript
			c = base
			c.Tag, c.SrvX = "perturbed-X-bit255", h(flip(X, 255))
			cs = append(cs, c)
			c = base
			c.Tag, c.CliY = "perturbed-Y-bit255", h(flip(Y, 255))
			cs = append(cs, c)
			c = base
			c.Tag, c.CliB = "perturbed-B-bit255", h(flip(B, 255))
			cs = append(cs, c)
		}
		if i < 3*len(low) {
			l := low[i%len(low)]
			c = base
			switch i / len(low) {
			case 0:
				c.Tag, c.SrvX = "low-order-client-key", h(l)
			case 1:
				c.Tag, c.CliY = "low-order-server-key", h(l)
			case 2:
				c.Tag, c.CliB = "low-order-identity-key", h(l)
			}
			cs = append(cs, c)
		}
	}
	// structured private keys for the identity key (clamping bits)
	for _, bp := range [][]byte{make([]byte, 32), bytes.Repeat([]byte{0xff}, 32), le32(big.NewInt(1)), le32(new(big.Int).Lsh(big.NewInt(1), 255))} {
		cs = append(cs, ncase{Kind: "handshake", TapeX: h(rng.Bytes(32 * 40)), TapeY: h(rng.Bytes(32 * 40)), EllX: true, EllY: true,
			BPriv: hex.EncodeToString(bp), ID: h(make([]byte, 20)), Tag: "honest"})
	}

	// sequences on ONE reused client keypair and ONE reused server keypair: identity keys, node IDs and
	// peer ephemerals vary from call to call (honest, a different honest key, low-order, non-canonical)
	for i := 0; i < r.Scale(80, 1200); i++ {
		c := ncase{Kind: "sequence", TapeX: h(rng.Bytes(32 * 40)), TapeY: h(rng.Bytes(32 * 40)), EllX: i%3 != 2, EllY: i%3 != 1, Tag: "sequence"}
		b1, b2 := hex.EncodeToString(rng.Bytes(32)), hex.EncodeToString(rng.Bytes(32))
		id1, id2 := h(rng.Bytes(20)), h(rng.Bytes(20))
		kb1, _ := ntor.KeypairFromHex(b1)
		B1 := kb1.Public().Bytes()[:]
		other := keypairFromTape(rng.Bytes(32*40), true)
		menu := []step{
			{BPriv: b1, ID: id1, Kind: "honest"},
			{BPriv: b2, ID: id1, Kind: "other-identity"},
			{BPriv: b1, ID: id2, Kind: "other-id"},
			{BPriv: b1, ID: id1, CliB: h(low[rng.Intn(len(low))]), Kind: "low-order-identity-key"},
			{BPriv: b1, ID: id1, CliB: h(flip(B1, 255)), Kind: "identity-key-bit255"},
			{BPriv: b1, ID: id1, CliB: h(flip(B1, rng.Intn(255))), Kind: "perturbed-identity-key"},
			{BPriv: b2, ID: id2, CliY: h(low[rng.Intn(len(low))]), Kind: "low-order-server-key"},
			{BPriv: b1, ID: id1, CliY: h(other.Public().Bytes()[:]), Kind: "other-server-key"},
			{BPriv: b1, ID: id1, SrvX: h(low[rng.Intn(len(low))]), Kind: "low-order-client-key"},
			{BPriv: b2, ID: id1, SrvX: h(other.Public().Bytes()[:]), Kind: "other-client-key"},
			{BPriv: b1, ID: id1, SrvX: h(flip(kx0(c), 255)), Kind: "client-key-bit255"},
		}
		n := rng.Range(3, 8)
		// always start half of the sequences honestly (state set by a good call), the others with a bad call
		if i%2 == 0 {
			c.Steps = append(c.Steps, menu[0])
		} else {
			c.Steps = append(c.Steps, menu[3+rng.Intn(len(menu)-3)])
		}
		for len(c.Steps) < n {
			c.Steps = append(c.Steps, menu[rng.Intn(len(menu))])
		}
		c.Steps = append(c.Steps, menu[0]) // and end with the honest call again
		cs = append(cs, c)
	}
	// objects built from caller buffers that are overwritten afterwards
	for i := 0; i < r.Scale(60, 800); i++ {
		c := ncase{Kind: "alias", TapeX: h(rng.Bytes(32 * 40)), TapeY: h(rng.Bytes(32 * 40)), EllX: i%2 == 0, EllY: i%3 != 0, Tag: "alias"}
		for j, n := 0, rng.Range(3, 6); j < n; j++ {
			c.Steps = append(c.Steps, step{BPriv: hex.EncodeToString(rng.Bytes(32)), ID: h(rng.Bytes(20)), Kind: "alias"})
		}
		cs = append(cs, c)
	}
	for i := 0; i < r.Scale(40, 400); i++ {
		cs = append(cs, ncase{Kind: "kdfseq", Seed: h(rng.Bytes(32)), Raw: h(rng.Bytes(12)), Tag: "kdfseq"})
	}

	// Kdf
	lens := []int{0, 1, 16, 31, 32, 33, 63, 64, 65, 72, 144, 255, 256, 1000, 255*32 - 1, 255 * 32}
	for i := 0; i < r.Scale(400, 4000); i++ {
		seed := rng.Bytes(32)
		switch i % 10 {
		case 0:
			seed = rng.Bytes(rng.Range(0, 100))
		case 1:
			seed = make([]byte, 32)
		}
		n := lens[rng.Intn(len(lens))]
		if i%3 == 0 {
			n = rng.Range(0, 400)
		}
		m := n + rng.Range(0, 300)
		if i%7 == 0 {
			m = 255 * 32
		}
		if m > 255*32 {
			m = 255 * 32
		}
		cs = append(cs, ncase{Kind: "kdf", Seed: h(seed), N: n, M: m, Tag: "random"})
	}
	for _, n := range []int{255*32 + 1, 255*32 + 32, 20000} {
		cs = append(cs, ncase{Kind: "kdf", Seed: h(rng.Bytes(32)), N: n, Tag: "past-the-limit"})
	}

	// API
	for _, n := range []int{0, 1, 31, 32, 33, 64} {
		cs = append(cs, ncase{Kind: "api", Op: "pubkey", Raw: h(rng.Bytes(n)), Tag: fmt.Sprint("len", n)})
		cs = append(cs, ncase{Kind: "api", Op: "keypair", Raw: h(rng.Bytes(n)), Tag: fmt.Sprint("len", n)})
	}
	for _, l := range low {
		cs = append(cs, ncase{Kind: "api", Op: "pubkey", Raw: h(l), Tag: "low-order"})
	}
	for _, n := range []int{0, 19, 20, 21, 32} {
		cs = append(cs, ncase{Kind: "api", Op: "nodeid", Raw: h(rng.Bytes(n)), Tag: fmt.Sprint("len", n)})
	}
	for i := 0; i < r.Scale(40, 400); i++ {
		cs = append(cs, ncase{Kind: "api", Op: "keypair", Raw: h(rng.Bytes(32)), Tag: "random"})
	}
	a := rng.Bytes(32)
	cs = append(cs, ncase{Kind: "api", Op: "cmpauth", Raw: h(a), Seed: h(a), Tag: "equal"})
	for bit := 0; bit < 256; bit++ {
		cs = append(cs, ncase{Kind: "api", Op: "cmpauth", Raw: h(a), Seed: h(flip(a, bit)), Tag: "one-bit"})
	}
	for _, n := range []int{0, 1, 16, 31, 33} {
		o := append(append([]byte(nil), a...), 0)[:n]
		cs = append(cs, ncase{Kind: "api", Op: "cmpauth", Raw: h(a), Seed: h(o), Tag: "other-length"})
	}
	return cs
}

func main() {
	r := vlib.NewRun("C08")
	r.Rule = "cases: handshake (client/server ephemeral keys from NewKeypair on a recorded tape, with and without Elligator; identity key; node ID; optionally one public value replaced by a one-bit perturbation or by a low-order / non-canonical u-coordinate), alias (3-6 handshakes whose PublicKey/NodeID objects were built by NewPublicKey/NewNodeID/…FromHex from buffers the caller overwrites afterwards), sequence (3-9 such handshakes on ONE reused client Keypair and ONE reused server Keypair with identity keys, node IDs and peer keys varying from call to call), kdf (seed, n, m), api (constructor inputs, CompareAuth pairs); every case is non-trivial; distinct by canonical case text"
	r.Assumptions = []string{
		"DhComm for the real X25519 (the two DH computations commute, also for Elligator-dirty public keys) is a hypothesis of the agreement theorem; sampled here on every honest run",
		"collision infeasibility of HMAC-SHA256 (the binding theorems exhibit the colliding strings)"}
	nw := 8
	drivers := make([]*vlib.Driver, nw)
	for i := range drivers {
		drivers[i] = r.Driver("ntor")
		defer drivers[i].Close()
	}
	var cases []ncase
	if r.ReplayIn != "" {
		var c ncase
		if err := r.LoadReplay(&c); err != nil {
			panic(err)
		}
		cases = []ncase{c}
	} else {
		cases = generate(r)
	}
	next := make(chan int, len(cases))
	for i := range cases {
		next <- i
	}
	close(next)
	var wg sync.WaitGroup
	for _, d := range drivers {
		wg.Add(1)
		go func(d *vlib.Driver) {
			defer wg.Done()
			for i := range next {
				runCase(r, d, cases[i])
			}
		}(d)
	}
	wg.Wait()
	r.Finish()
}
