// C14 — obfs2: the real transport (transports.Get("obfs2"): Dial / WrapConn over an in-memory
// conn) against the Lean endpoint model (driver `obfs2`), which acts
//   - as a *shadow* of every real endpoint (same randomness via the recorded tape, same input
//     segmentation): handshake bytes, handshake outcome, ciphertext and delivered bytes must be
//     identical (correspondence), and
//   - as an independent obfs2 *peer* in both roles (interoperation, from the property text).
//
// Implementation-level oracle (from the property text, not from the model): what one side writes
// the other side reads, in order, both directions, for every segmentation; the real endpoint
// interoperates with the reference peer in both roles; a header whose (known) plaintext has a
// wrong magic or a padding length > 8192 makes the real endpoint fail.
package main

import (
	"bytes"
	"encoding/binary"
	"encoding/json"
	"errors"
	"fmt"
	"io"
	"net"
	"os"
	"strconv"
	"strings"
	"time"

	pt "gitlab.torproject.org/tpo/anti-censorship/pluggable-transports/goptlib"

	"gitlab.com/yawning/obfs4.git/common/csrand"
	"gitlab.com/yawning/obfs4.git/transports"
	"gitlab.com/yawning/obfs4.git/transports/base"

	"verif/harness/obfskit"
	"verif/harness/vlib"
)

const (
	maxPadding = 8192 // the specification's MAX_PADDING (the oracle's own constant)
	magic      = 0x2bf5ca7e
)

type sideSpec struct {
	Real     bool   `json:"real"`
	Seed     string `json:"seed"`                // 16 bytes, hex
	Pad      int    `json:"pad"`                 // padding length the endpoint draws
	Reject   int    `json:"reject"`              // rejected IntRange draws before the accepted one
	PadBytes string `json:"pad_bytes,omitempty"` // Lean peer: its padding bytes (real side: from the tape)
	HdrPad   int64  `json:"hdr_pad"`             // -1 honest; else the padlen a crafted Lean peer announces
}

type scase struct {
	Kind     string   `json:"kind"` // session | corrupt | padlen | cut
	TapeSeed uint64   `json:"tape_seed"`
	I        sideSpec `json:"i"`
	R        sideSpec `json:"r"`
	First    string   `json:"first"`    // side that receives the peer's handshake first
	Coalesce bool     `json:"coalesce"` // that side's first write travels coalesced with its handshake
	ToI      []int    `json:"to_i"`     // segmentation of what I receives during the handshake
	ToR      []int    `json:"to_r"`
	WritesI  []string `json:"writes_i"` // data writes (hex)
	WritesR  []string `json:"writes_r"`
	DataToI  []int    `json:"data_to_i"` // segmentation of the (remaining) data stream towards I
	DataToR  []int    `json:"data_to_r"`
	ReadMax  int      `json:"read_max"`
	FlipBit  int      `json:"flip_bit"` // corrupt: bit (0..63, MSB first) of the 8 header bytes sent to the real side
	CutAt    int      `json:"cut_at"`   // cut: deliver only this many handshake bytes to the real side, then EOF
	Chunker  string   `json:"chunker"`  // informational
	End      string   `json:"end"`      // "" | eof | reset: both directions end with a final chunk handed out together with that error
	TailI    int      `json:"tail_i"`   // bytes of the stream towards I that come in the same Read as the error
	TailR    int      `json:"tail_r"`
	Timeouts bool     `json:"timeouts"` // read-deadline timeouts (peer silent) in between, the stream must go on afterwards
	Batches  int      `json:"batches,omitempty"` // concurrent family
	Pairs    int      `json:"pairs,omitempty"`
}

var (
	r    *vlib.Run
	d    *vlib.Driver
	tape *vlib.RandTape
	cf   base.ClientFactory
	sf   base.ServerFactory
	nSes int
)

type ep struct {
	role  string
	spec  sideSpec
	real  bool
	sc    *vlib.ScriptConn
	op    *vlib.Op
	conn  net.Conn
	err   error
	rd    *obfskit.Reader
	sess  string // Lean session (peer, or shadow of the real endpoint)
	hs    []byte // handshake bytes this side sent
	got   []byte // Lean: plaintext delivered so far
	state string // last handshake outcome: need | done | fail:<class> | panic
	fatal string // set when the case cannot continue
	lerr  string // Lean: error class a read reported
	due   []byte // plaintext whose ciphertext has been handed to this side's socket in full
}

func classify(err error) string {
	switch {
	case err == nil:
		return "done"
	case errors.Is(err, io.EOF), errors.Is(err, io.ErrUnexpectedEOF):
		return "fail:eof"
	case errors.Is(err, obfskit.ErrReset):
		return "fail:reset"
	case strings.Contains(err.Error(), "invalid magic value"):
		return "fail:badmagic"
	case strings.Contains(err.Error(), "padlen too long"):
		return "fail:padtoolong"
	default:
		return "fail:other(" + err.Error() + ")"
	}
}

func leanState(rep string) string {
	f := obfskit.Fields(rep)
	if len(f) == 0 {
		return "driver:" + rep
	}
	if strings.HasPrefix(f[0], "need-") {
		return "need"
	}
	return f[0]
}

func (c *scase) violate(sig, kind, desc string) { r.Violate(sig, kind, desc, c) }

func be32(v uint32) []byte {
	b := make([]byte, 4)
	binary.BigEndian.PutUint32(b, v)
	return b
}

// start runs the first half of the handshake (generate, send) of one side.
func (c *scase) start(e *ep) {
	nSes++
	e.sess = fmt.Sprintf("s%d%s", nSes, e.role)
	seed := vlib.UnHex(e.spec.Seed)
	var draws []byte
	for i := 0; i < e.spec.Reject; i++ {
		draws = append(draws, obfskit.RejectedDraw(nil)...)
	}
	draws = append(draws, obfskit.Draw(e.spec.Pad, nil)...)
	if !e.real {
		var rep string
		if e.spec.HdrPad >= 0 {
			rep = d.Call("startwith %s %s %s %d %s", e.sess, e.role, e.spec.Seed, e.spec.HdrPad, e.spec.PadBytes)
		} else {
			t := append(append(append([]byte{}, seed...), draws...), vlib.UnHex(e.spec.PadBytes)...)
			rep = d.Call("start %s %s %s", e.sess, e.role, vlib.Hex(t))
		}
		f := obfskit.Fields(rep)
		if len(f) < 3 || f[0] != "ok" {
			e.fatal = "lean peer start: " + rep
			return
		}
		e.hs = append(vlib.UnHex(f[1]), vlib.UnHex(f[2])...)
		e.state = "need"
		return
	}
	tape.Steer = append(append([]byte{}, seed...), draws...)
	mark := tape.Mark()
	e.sc = vlib.NewScriptConn()
	if e.role == "i" {
		e.op = e.sc.Start(func() {
			e.conn, e.err = cf.Dial("tcp", "192.0.2.1:1", func(string, string) (net.Conn, error) { return e.sc, nil }, nil)
		})
	} else {
		e.op = e.sc.Start(func() { e.conn, e.err = sf.WrapConn(e.sc) })
	}
	if e.sc.Wait(e.op) {
		e.fatal = fmt.Sprintf("real %s handshake returned before receiving anything: err=%v panic=%v", e.role, e.err, e.op.Panic)
		c.violate("handshake-returns-early", "impl-oracle", e.fatal)
		return
	}
	used := tape.Since(mark)
	e.hs = e.sc.TakeWritten()
	e.state = "need"
	// deadline discipline (recorded, C10 judges it): armed before the first write
	ev := e.sc.EventsCopy()
	if len(ev) > 0 && ev[0].Kind == "deadline" && ev[0].Off > 0 {
		r.Count("deadline", fmt.Sprintf("armed-first(+%.0fs)", ev[0].Off.Seconds()))
	} else {
		r.Count("deadline", "not-armed-first")
	}
	// shadow: the model with the same randomness must have sent the same bytes
	rep := d.Call("start %s %s %s", e.sess, e.role, vlib.Hex(used))
	f := obfskit.Fields(rep)
	if len(f) != 5 || f[0] != "ok" {
		e.fatal = "shadow start: " + rep
		c.violate("model-cannot-follow-tape", "correspondence",
			fmt.Sprintf("real %s drew %d tape bytes, model replied %q", e.role, len(used), rep))
		return
	}
	mhs := append(vlib.UnHex(f[1]), vlib.UnHex(f[2])...)
	r.Validated(1)
	if f[3] != strconv.Itoa(len(used)) {
		c.violate("tape-consumption-differs", "correspondence",
			fmt.Sprintf("real %s consumed %d random bytes, model %s", e.role, len(used), f[3]))
	}
	if string(mhs) != string(e.hs) {
		e.fatal = "handshake bytes differ"
		c.violate("handshake-bytes-differ", "correspondence",
			fmt.Sprintf("role %s seed %s pad %d: real sent %d bytes %s…, model %d bytes %s…", e.role, e.spec.Seed,
				e.spec.Pad, len(e.hs), vlib.Hex(head(e.hs, 32)), len(mhs), vlib.Hex(head(mhs, 32))))
	}
	// the spec's shape, independent of the model: seed in clear, 8 + padlen further bytes
	if len(e.hs) != 16+8+e.spec.Pad || string(e.hs[:16]) != string(seed) {
		c.violate("handshake-shape", "impl-oracle",
			fmt.Sprintf("role %s: expected seed ‖ 8+%d bytes, real sent %d bytes", e.role, e.spec.Pad, len(e.hs)))
	}
}

func safeWrite(conn net.Conn, data []byte) (n int, err error, pv interface{}) {
	defer func() { pv = recover() }()
	n, err = conn.Write(data)
	return
}

func head(b []byte, n int) []byte {
	if len(b) > n {
		return b[:n]
	}
	return b
}

// deliverHS gives handshake-phase bytes to a side; eofAfter ends its input if it still waits.
func (c *scase) deliverHS(e *ep, data []byte, sizes []int, eofAfter bool) {
	rep := d.Call("feed %s %s%s", e.sess, vlib.Hex(data), obfskit.SizesArg(sizes))
	ms := leanState(rep)
	if eofAfter && ms == "need" {
		ms = leanState(d.Call("eof %s", e.sess))
	}
	if !e.real {
		e.state = ms
		return
	}
	e.sc.FeedChunks(data, sizes)
	fin := e.sc.Wait(e.op)
	if !fin && eofAfter {
		e.sc.FeedEOF()
		fin = e.sc.Wait(e.op)
	}
	switch {
	case !fin:
		e.state = "need"
	case e.op.Panic != nil:
		e.state = "panic"
		c.violate("handshake-panics", "impl-oracle", fmt.Sprintf("real %s handshake panicked: %v", e.role, e.op.Panic))
	default:
		e.state = classify(e.err)
	}
	r.Validated(1)
	r.Count("handshake-outcome", e.state)
	if e.state != ms {
		c.violate("handshake-outcome-differs", "correspondence",
			fmt.Sprintf("role %s after %d bytes (eof=%v): real %s, model %s", e.role, len(data), eofAfter, e.state, ms))
	}
	if e.state == "done" {
		// from now on virtual time: a Read that would block while ANY read deadline is armed times out at
		// once ("the peer stays silent for longer than every deadline"); the transport must not have one armed
		e.sc.FireDeadlines = true
		e.rd = &obfskit.Reader{SC: e.sc, Conn: e.conn, Max: c.ReadMax}
		ev := e.sc.EventsCopy()
		last := ""
		for _, x := range ev {
			if x.Kind == "deadline" {
				last = x.String()
			}
		}
		r.Count("deadline", "after-success:"+last)
		// the constructor has returned: no handshake deadline may stay armed, in either direction
		// (a conn that honours deadlines would fail a Read/Write 30 s after the connection was made)
		if rdl, wdl := obfskit.DeadlineState(e.sc.EventsCopy()); rdl != 0 || wdl != 0 {
			half := "read"
			if rdl == 0 {
				half = "write"
			} else if wdl != 0 {
				half = "read and write"
			}
			c.violate("deadline-left-armed-after-handshake", "impl-oracle",
				fmt.Sprintf("real %s %s: the handshake succeeded and the constructor returned, but the %s deadline of the conn is still armed (read +%.0fs, write +%.0fs): later I/O in that direction times out", "obfs2", e.role, half, rdl.Seconds(), wdl.Seconds()))
		}
	}
}

func (c *scase) write(e *ep, data []byte) []byte {
	rep := d.Call("write %s %s", e.sess, vlib.Hex(data))
	f := obfskit.Fields(rep)
	if len(f) != 2 || f[0] != "ok" {
		e.fatal = "lean write: " + rep
		return nil
	}
	mw := vlib.UnHex(f[1])
	if !e.real {
		return mw
	}
	// the in-memory conn never blocks a Write, so the call is made synchronously
	n, err, pv := safeWrite(e.conn, data)
	if pv != nil || err != nil || n != len(data) {
		c.violate("write-fails", "impl-oracle", fmt.Sprintf("real %s Write(%d bytes): n=%d err=%v panic=%v", e.role, len(data), n, err, pv))
		e.fatal = "write failed"
		return nil
	}
	w := e.sc.TakeWritten()
	r.Validated(1)
	if string(w) != string(mw) {
		c.violate("ciphertext-differs", "correspondence",
			fmt.Sprintf("role %s Write(%d bytes): real wire %s…, model %s…", e.role, len(data), vlib.Hex(head(w, 24)), vlib.Hex(head(mw, 24))))
	}
	return w
}

// deliverData gives stream bytes to a side and collects what its Read calls deliver.
func (c *scase) deliverData(e *ep, wire []byte, sizes []int) {
	d.Call("feed %s %s%s", e.sess, vlib.Hex(wire), obfskit.SizesArg(sizes))
	c.drain(e)
}

func (c *scase) drain(e *ep) {
	for e.lerr == "" {
		rep := d.Call("read %s %d", e.sess, c.ReadMax)
		f := obfskit.Fields(rep)
		switch {
		case len(f) == 2 && f[0] == "ok":
			e.got = append(e.got, vlib.UnHex(f[1])...)
			continue
		case len(f) == 3 && f[0] == "okerr":
			e.got = append(e.got, vlib.UnHex(f[1])...)
			e.lerr = "fail:" + f[2]
		case len(f) == 2 && f[0] == "fail":
			e.lerr = "fail:" + f[1]
		case rep != "block":
			e.fatal = "lean read: " + rep
		}
		break
	}
}

// deliverFinal hands a side the end of its input: `front` as an ordinary chunk, then the last
// `tail` bytes in the same Read as the error (n > 0 together with err, which io.Reader permits).
// Towards a reference peer the bytes are delivered plainly (there is no real code to examine).
func (c *scase) deliverFinal(e *ep, wire []byte, tail int) {
	if !e.real {
		c.deliverData(e, wire, nil)
		return
	}
	if tail > len(wire) {
		tail = len(wire)
	}
	front, last := wire[:len(wire)-tail], wire[len(wire)-tail:]
	d.Call("feed %s %s", e.sess, vlib.Hex(front))
	d.Call("feedlast %s %s %s", e.sess, vlib.Hex(last), c.End)
	c.drain(e)
	err := io.EOF
	if c.End == "reset" {
		err = obfskit.ErrReset
	}
	e.sc.Feed(front)
	e.sc.FeedWithErr(last, err)
	e.rd.Pump()
	if e.rd.Panic != nil {
		c.violate("read-panics", "impl-oracle", fmt.Sprintf("real %s Read panicked: %v", e.role, e.rd.Panic))
	}
	r.Count("end-of-stream", fmt.Sprintf("%s tail=%s", c.End, obfskit.SizeClass(tail)))
}

func (c *scase) deliverDataReal(e *ep, wire []byte, sizes []int) {
	e.sc.FeedChunks(wire, sizes)
	e.rd.Pump()
	if e.rd.Panic != nil {
		c.violate("read-panics", "impl-oracle", fmt.Sprintf("real %s Read panicked: %v", e.role, e.rd.Panic))
	}
}

// checkDue is the liveness half of stream integrity: obfs2 is a plain stream cipher after the
// handshake, so every byte the peer wrote and the network delivered must be readable *now*,
// without any further traffic. Blocked in Read while such bytes are outstanding = stall.
func (c *scase) checkDue(to, from *ep, coalesced bool) {
	if !to.real || to.rd == nil {
		return
	}
	r.Validated(1)
	if to.rd.Err != nil || to.rd.Panic != nil || len(to.rd.Got) >= len(to.due) || string(to.due[:len(to.rd.Got)]) != string(to.rd.Got) {
		return // errors and corrupted bytes are judged at the end of the case
	}
	sig := "stall-delivered-bytes-not-readable"
	how := "its segmentation"
	if coalesced {
		sig = "stall-data-coalesced-with-handshake"
		how = "one flight with its handshake (seed ‖ E(magic ‖ padlen ‖ padding) ‖ data)"
	}
	c.violate(sig, "impl-oracle",
		fmt.Sprintf("%s %s wrote %d bytes which reached real %s's socket in %s; real %s is blocked in Read with only %d bytes delivered (%d bytes still queued on the socket) and the peer sends nothing more",
			kindOf(from), from.role, len(to.due), to.role, how, to.role, len(to.rd.Got), to.sc.Pending()))
}

// timeoutRecovery: the user of the connection arms a read deadline, the peer stays silent, the
// blocked Read expires (nothing was read, no keystream consumed); the deadline is then cleared
// (or first extended), the peer writes `msg`, and Read must deliver exactly those bytes: a timeout
// that consumed nothing must not poison the connection. The model's state does not change on a
// timeout, so the shadow simply sees `msg` arrive.
func (c *scase) timeoutRecovery(e, peer *ep, msg []byte, extend bool, send func(from, to *ep, ws [][]byte)) {
	if !e.real || e.rd == nil || e.rd.Err != nil || e.fatal != "" || peer.fatal != "" {
		send(peer, e, [][]byte{msg})
		return
	}
	before := len(e.rd.Got)
	expire := func(stage string) bool {
		e.sc.FeedErr(nil) // wake the blocked Read so that it notices the deadline
		e.rd.PumpReturn(5 * time.Second)
		err := e.rd.TakeErr()
		var ne net.Error
		if err == nil || !errors.As(err, &ne) || !ne.Timeout() {
			c.violate("read-deadline-not-honoured", "impl-oracle",
				fmt.Sprintf("real obfs2 %s: read deadline armed, peer silent (%s): Read returned err=%v instead of a timeout", e.role, stage, err))
			return false
		}
		return true
	}
	e.conn.SetReadDeadline(time.Now().Add(5 * time.Second))
	if !expire("first expiry") {
		return
	}
	if len(e.rd.Got) != before {
		c.violate("timeout-delivers-bytes", "impl-oracle", "a Read that timed out with nothing on the wire returned bytes")
	}
	r.Count("timeout-recovery", fmt.Sprintf("extend=%v", extend))
	if extend {
		e.conn.SetReadDeadline(time.Now().Add(time.Hour))
	} else {
		e.conn.SetReadDeadline(time.Time{})
	}
	send(peer, e, [][]byte{msg})
	got := e.rd.Got[before:]
	err := e.rd.TakeErr()
	if extend {
		// after delivering, the next blocked Read runs into the (virtual) extended deadline: expected
		e.conn.SetReadDeadline(time.Time{})
	}
	if !bytes.HasSuffix(e.rd.Got, msg) {
		c.violate("read-timeout-not-recoverable", "impl-oracle",
			fmt.Sprintf("real obfs2 %s: a Read timed out while the peer was silent (nothing read), the deadline was %s, then the peer wrote %d bytes: Read delivered %d bytes, err=%v — the harmless timeout poisoned the connection",
				e.role, map[bool]string{true: "extended", false: "cleared"}[extend], len(msg), len(got), err))
	}
}

func (e *ep) close() {
	if e.real && e.sc != nil && !e.sc.Closed() {
		e.sc.Close()
	}
	if e.sess != "" {
		d.Call("del %s", e.sess)
	}
}

func unhexAll(xs []string) (out [][]byte, cat []byte) {
	for _, x := range xs {
		b := vlib.UnHex(x)
		out = append(out, b)
		cat = append(cat, b...)
	}
	return
}

func runCase(c *scase) {
	if os.Getenv("C14_TIMING") != "" {
		t0 := time.Now()
		defer func() {
			if dt := time.Since(t0); dt > 300*time.Millisecond {
				fmt.Fprintf(os.Stderr, "slow case %.1fs: %s %s pads %d/%d readmax %d\n", dt.Seconds(), c.Kind, c.Chunker, c.I.Pad, c.R.Pad, c.ReadMax)
			}
		}()
	}
	tape = vlib.InstallRandTape(c.TapeSeed)
	csrand.Reader = tape
	key, _ := json.Marshal(c)
	I := &ep{role: "i", spec: c.I, real: c.I.Real}
	R := &ep{role: "r", spec: c.R, real: c.R.Real}
	defer I.close()
	defer R.close()
	c.start(I)
	c.start(R)
	nontrivial := false
	defer func() {
		r.Case(string(key), nontrivial)
		r.Count("kind", c.Kind)
		r.Count("chunker", c.Chunker)
		r.Count("pad-i", obfskit.SizeClass(c.I.Pad))
		r.Count("pad-r", obfskit.SizeClass(c.R.Pad))
		r.Count("endpoints", fmt.Sprintf("I-real=%v,R-real=%v", c.I.Real, c.R.Real))
	}()
	if I.fatal != "" || R.fatal != "" {
		if !strings.Contains(I.fatal+R.fatal, "differ") && !strings.Contains(I.fatal+R.fatal, "early") {
			c.violate("harness-cannot-start", "correspondence", I.fatal+" "+R.fatal)
		}
		return
	}
	if c.Kind != "session" {
		nontrivial = c.malformed(I, R)
		return
	}
	wI, catI := unhexAll(c.WritesI)
	wR, catR := unhexAll(c.WritesR)
	first, second := I, R
	wFirst, wSecond := wI, wR
	toFirst, toSecond := c.ToI, c.ToR
	if c.First == "r" {
		first, second = R, I
		wFirst, wSecond = wR, wI
		toFirst, toSecond = c.ToR, c.ToI
	}
	// the first side gets the peer's handshake and completes
	c.deliverHS(first, second.hs, toFirst, false)
	if first.state != "done" {
		if first.real {
			c.violate("honest-handshake-fails", "impl-oracle",
				fmt.Sprintf("real %s does not complete on the %s peer's handshake (pad %d): %s", first.role, kindOf(second), second.spec.Pad, first.state))
		} else {
			c.violate("reference-peer-rejects-real-handshake", "impl-oracle",
				fmt.Sprintf("the reference peer (%s) does not accept the real %s handshake: %s", first.role, second.role, first.state))
		}
		return
	}
	// optionally it writes at once: the data reaches the other side coalesced with the handshake
	payload := append([]byte{}, first.hs...)
	var sentFirst [][]byte
	if c.Coalesce && len(wFirst) > 0 {
		w := c.write(first, wFirst[0])
		if first.fatal != "" {
			return
		}
		payload = append(payload, w...)
		sentFirst = append(sentFirst, wFirst[0])
		wFirst = wFirst[1:]
	}
	c.deliverHS(second, payload, toSecond, false)
	if second.state != "done" {
		if second.real {
			c.violate("honest-handshake-fails", "impl-oracle",
				fmt.Sprintf("real %s does not complete on the %s peer's handshake (pad %d): %s", second.role, kindOf(first), first.spec.Pad, second.state))
		} else {
			c.violate("reference-peer-rejects-real-handshake", "impl-oracle",
				fmt.Sprintf("the reference peer (%s) does not accept the real %s handshake: %s", second.role, first.role, second.state))
		}
		return
	}
	// data left over from the coalesced delivery: nothing more is on its way, all of it must come out
	c.drain(second)
	if second.real {
		for _, w := range sentFirst {
			second.due = append(second.due, w...)
		}
		c.deliverDataReal(second, nil, nil)
		c.checkDue(second, first, true)
	}
	// remaining writes, each direction delivered in its own segmentation
	send := func(from, to *ep, ws [][]byte, sizes []int) {
		var wire []byte
		for _, w := range ws {
			wire = append(wire, c.write(from, w)...)
			if from.fatal != "" {
				return
			}
			to.due = append(to.due, w...)
		}
		if len(ws) == 0 {
			return
		}
		c.deliverData(to, wire, sizes)
		if to.real {
			c.deliverDataReal(to, wire, sizes)
			c.checkDue(to, from, false)
		}
	}
	dataToSecond, dataToFirst := c.DataToR, c.DataToI
	if c.First == "r" {
		dataToSecond, dataToFirst = c.DataToI, c.DataToR
	}
	var lastFirst, lastSecond []byte
	if c.End != "" && len(wFirst) > 0 && len(wSecond) > 0 {
		lastFirst, wFirst = wFirst[len(wFirst)-1], wFirst[:len(wFirst)-1]
		lastSecond, wSecond = wSecond[len(wSecond)-1], wSecond[:len(wSecond)-1]
	}
	extra := map[*ep][]byte{}
	sendX := func(from, to *ep, ws [][]byte) {
		for _, w := range ws {
			extra[from] = append(extra[from], w...)
		}
		send(from, to, ws, nil)
	}
	recover2 := c.Timeouts && c.End == ""
	x := vlib.NewRng(c.TapeSeed ^ 0x7117)
	send(first, second, wFirst, dataToSecond)
	if recover2 {
		c.timeoutRecovery(second, first, x.Bytes(1+x.Intn(300)), x.Intn(2) == 0, sendX)
	}
	send(second, first, wSecond, dataToFirst)
	if recover2 {
		c.timeoutRecovery(first, second, x.Bytes(1+x.Intn(300)), x.Intn(2) == 0, sendX)
		// ordinary traffic goes on in both directions, then once more a timeout on each side
		sendX(first, second, [][]byte{x.Bytes(1 + x.Intn(2000))})
		sendX(second, first, [][]byte{x.Bytes(1 + x.Intn(2000))})
		c.timeoutRecovery(second, first, x.Bytes(1+x.Intn(50)), x.Intn(2) == 0, sendX)
		c.timeoutRecovery(first, second, x.Bytes(1+x.Intn(50)), x.Intn(2) == 0, sendX)
	}
	if lastFirst != nil {
		// both sides write once more, then each input ends: the last bytes arrive with the error
		w1 := c.write(first, lastFirst)
		w2 := c.write(second, lastSecond)
		if first.fatal != "" || second.fatal != "" {
			return
		}
		tailSecond, tailFirst := c.TailR, c.TailI
		if c.First == "r" {
			tailSecond, tailFirst = c.TailI, c.TailR
		}
		c.deliverFinal(second, w1, tailSecond)
		c.deliverFinal(first, w2, tailFirst)
	}
	_ = sentFirst
	// --- judge
	check := func(to *ep, from *ep, want []byte) {
		if to.real {
			r.Validated(1)
			rc := ""
			if to.rd.Err != nil {
				rc = classify(to.rd.Err)
			}
			if string(to.rd.Got) != string(to.got) || rc != to.lerr {
				c.violate("delivered-differs-from-model", "correspondence",
					fmt.Sprintf("real %s delivered %d bytes (err %q), its model shadow %d bytes (err %q) (first difference at %d)", to.role, len(to.rd.Got), rc, len(to.got), to.lerr, firstDiff(to.rd.Got, to.got)))
			}
			if c.End == "" && to.rd.Err != nil {
				c.violate("read-fails", "impl-oracle", fmt.Sprintf("real %s Read: %v", to.role, to.rd.Err))
			}
			if string(to.rd.Got) != string(want) {
				sig := "stream-not-delivered-intact"
				if !from.real {
					sig = "no-interop-with-reference-peer"
				}
				if c.End != "" && to.rd.Err != nil && len(to.rd.Got) < len(want) && string(want[:len(to.rd.Got)]) == string(to.rd.Got) {
					// every byte the peer wrote must be delivered before the error is reported
					sig = "tail-lost-data-delivered-with-error"
				}
				c.violate(sig, "impl-oracle",
					fmt.Sprintf("%s %s wrote %d bytes, real %s read %d bytes, first difference at %d (blocked=%v)", kindOf(from), from.role, len(want), to.role, len(to.rd.Got), firstDiff(to.rd.Got, want), to.rd.Err == nil))
			}
		} else if string(to.got) != string(want) {
			c.violate("no-interop-with-reference-peer", "impl-oracle",
				fmt.Sprintf("real %s wrote %d bytes, the reference peer (%s) decrypts %d bytes, first difference at %d", from.role, len(want), to.role, len(to.got), firstDiff(to.got, want)))
		}
	}
	check(R, I, append(catI, extra[I]...))
	check(I, R, append(catR, extra[R]...))
	nontrivial = len(catI) > 0 && len(catR) > 0 && (len(c.ToI)+len(c.ToR)+len(c.DataToI)+len(c.DataToR) > 0)
	r.Count("data-i", obfskit.SizeClass(len(catI)))
	r.Count("data-r", obfskit.SizeClass(len(catR)))
	r.Count("read-max", strconv.Itoa(c.ReadMax))
	r.Count("coalesced", strconv.FormatBool(c.Coalesce))
	r.Sample(5, map[string]interface{}{"kind": c.Kind, "chunker": c.Chunker, "pad_i": c.I.Pad, "pad_r": c.R.Pad,
		"i_real": c.I.Real, "r_real": c.R.Real, "bytes_i_to_r": len(catI), "bytes_r_to_i": len(catR),
		"to_i_chunks": len(c.ToI) + 1, "to_r_chunks": len(c.ToR) + 1, "result": "streams equal both ways"})
}

func kindOf(e *ep) string {
	if e.real {
		return "real"
	}
	return "reference"
}

func firstDiff(a, b []byte) int {
	n := len(a)
	if len(b) < n {
		n = len(b)
	}
	for i := 0; i < n; i++ {
		if a[i] != b[i] {
			return i
		}
	}
	if len(a) != len(b) {
		return n
	}
	return -1
}

// malformed: one real endpoint X receives a (mutated / crafted / truncated) handshake of the
// reference peer Y, then EOF.
func (c *scase) malformed(I, R *ep) bool {
	X, Y := I, R
	if !X.real {
		X, Y = R, I
	}
	to := c.ToI
	if X == R {
		to = c.ToR
	}
	msg := append([]byte{}, Y.hs...)
	// the plaintext header the peer sent (known to the harness: it chose it)
	hdrMagic := uint32(magic)
	hdrPad := uint32(Y.spec.Pad)
	if Y.spec.HdrPad >= 0 {
		hdrPad = uint32(Y.spec.HdrPad)
	}
	if c.FlipBit >= 0 {
		msg[16+c.FlipBit/8] ^= 0x80 >> uint(c.FlipBit%8)
		// CTR: the same bit of the plaintext flips
		if c.FlipBit < 32 {
			hdrMagic ^= 1 << uint(31-c.FlipBit)
		} else {
			hdrPad ^= 1 << uint(63-c.FlipBit)
		}
	}
	if c.CutAt >= 0 && c.CutAt < len(msg) {
		msg = msg[:c.CutAt]
	}
	c.deliverHS(X, msg, to, true)
	reached := len(msg) >= 24
	mustReject := reached && (hdrMagic != magic || hdrPad > maxPadding)
	r.Count("malformed", fmt.Sprintf("%s:%s", c.Kind, X.state))
	if mustReject && X.state == "done" {
		what := fmt.Sprintf("padding length %d > %d", hdrPad, maxPadding)
		if hdrMagic != magic {
			what = fmt.Sprintf("magic %08x", hdrMagic)
		}
		c.violate("accepts-bad-header", "impl-oracle",
			fmt.Sprintf("real %s completed the handshake on a header with %s", X.role, what))
	}
	if !mustReject && reached && len(msg) >= 24+int(hdrPad) && X.state != "done" {
		c.violate("rejects-valid-header", "impl-oracle",
			fmt.Sprintf("real %s fails (%s) on a complete handshake with the right magic and padding length %d ≤ %d", X.role, X.state, hdrPad, maxPadding))
	}
	r.Sample(8, map[string]interface{}{"kind": c.Kind, "real_role": X.role, "flip_bit": c.FlipBit, "cut_at": c.CutAt,
		"header_magic": fmt.Sprintf("%08x", hdrMagic), "header_padlen": hdrPad, "outcome": X.state})
	// an unmodified, accepted handshake (padlen kind with a legal length): finish the session
	if X.state == "done" && c.FlipBit < 0 && c.CutAt < 0 && int64(hdrPad) == int64(len(vlib.UnHex(Y.spec.PadBytes))) {
		c.deliverHS(Y, X.hs, nil, false)
		if Y.state != "done" {
			c.violate("reference-peer-rejects-real-handshake", "impl-oracle", "reference peer: "+Y.state)
			return true
		}
		msgXY := []byte("through the boundary")
		w := c.write(X, msgXY)
		c.deliverData(Y, w, nil)
		if string(Y.got) != string(msgXY) {
			c.violate("no-interop-with-reference-peer", "impl-oracle", "after a handshake with maximal padding the reference peer cannot decrypt")
		}
	}
	return reached || c.Kind == "cut"
}

// ---------------------------------------------------------------- concurrency (S oracle only)

// runConcurrent: `batches` × `pairs` real client↔server pairs over buffered in-memory pipes, all
// handshakes of a batch released at the same instant on separate goroutines. Sequential
// connections cannot reveal state shared between connections (a package-level hash or cipher
// instance, a shared scratch buffer); overlapping ones do. Every pair must complete and carry its
// payloads intact; nothing is compared with the model here (scheduling is not reproducible).
func runConcurrent(c *scase) {
	tape = vlib.InstallRandTape(c.TapeSeed)
	csrand.Reader = tape
	g := vlib.NewRng(c.TapeSeed ^ 0x5eed)
	dial := func(raw net.Conn) (net.Conn, error) {
		return cf.Dial("tcp", "192.0.2.1:1", func(string, string) (net.Conn, error) { return raw, nil }, nil)
	}
	bad := 0
	for b := 0; b < c.Batches; b++ {
		pl := make([][2][]byte, c.Pairs)
		for i := range pl {
			pl[i] = [2][]byte{g.Bytes(1 + g.Intn(3000)), g.Bytes(1 + g.Intn(3000))}
		}
		res := obfskit.RunPairs(c.Pairs, func(i int) ([]byte, []byte) { return pl[i][0], pl[i][1] }, dial, sf.WrapConn, 10*time.Second)
		for i, x := range res {
			r.Case(fmt.Sprintf("concurrent %d batch %d pair %d", c.TapeSeed, b, i), true)
			r.Count("kind", "concurrent-real-real")
			if x.Err == "" {
				continue
			}
			bad++
			sig := "stream-garbled-under-concurrency"
			if x.Panic || strings.Contains(x.Err, "handshake") || strings.Contains(x.Err, "in time") || strings.Contains(x.Err, "read:") {
				sig = "handshake-fails-under-concurrency"
			}
			c.violate(sig, "impl-oracle",
				fmt.Sprintf("batch %d of %d simultaneous obfs2 client/server pairs in one process, pair %d: %s (the same pair run alone completes)", b, c.Pairs, i, x.Err))
		}
		if bad > 0 {
			break // one failing batch is the finding; further batches would only repeat it (and may each run into the time limit)
		}
	}
	r.Count("concurrent-outcome", fmt.Sprintf("failed-pairs=%d", bad))
}

// runConcurrentLean: real endpoints (alternating roles) whose handshakes run simultaneously, each
// against its own reference peer; afterwards every pair must interoperate byte for byte.
func runConcurrentLean(c *scase) {
	tape = vlib.InstallRandTape(c.TapeSeed)
	csrand.Reader = tape
	g := vlib.NewRng(c.TapeSeed ^ 0x1ea4)
	type pr struct {
		real *ep
		lean *ep
	}
	ps := make([]pr, c.Pairs)
	gate := make(chan struct{})
	for i := range ps {
		roleReal, roleLean := "i", "r"
		if i%2 == 1 {
			roleReal, roleLean = "r", "i"
		}
		pad := g.Intn(maxPadding + 1)
		if i%4 == 0 {
			pad = g.Intn(40)
		}
		L := &ep{role: roleLean, spec: sideSpec{Seed: randHex(g, 16), Pad: pad, PadBytes: randHex(g, pad), HdrPad: -1}}
		c.start(L)
		R := &ep{role: roleReal, real: true}
		R.sc = vlib.NewScriptConn()
		nSes++
		if roleReal == "i" {
			R.op = R.sc.Start(func() {
				<-gate
				R.conn, R.err = cf.Dial("tcp", "192.0.2.1:1", func(string, string) (net.Conn, error) { return R.sc, nil }, nil)
			})
		} else {
			R.op = R.sc.Start(func() { <-gate; R.conn, R.err = sf.WrapConn(R.sc) })
		}
		ps[i] = pr{R, L}
	}
	defer func() {
		for _, p := range ps {
			p.real.close()
			p.lean.close()
		}
	}()
	close(gate) // all handshakes start now
	for _, p := range ps {
		p.real.sc.Wait(p.real.op) // blocked waiting for the peer's seed (or failed early)
	}
	for _, p := range ps {
		if p.lean.fatal == "" {
			p.real.sc.Feed(p.lean.hs) // … and complete now, overlapping
		}
	}
	for i, p := range ps {
		r.Case(fmt.Sprintf("concurrent-lean %d pair %d", c.TapeSeed, i), true)
		r.Count("kind", "concurrent-real-reference")
		fail := func(msg string) {
			c.violate("no-interop-with-reference-peer-under-concurrency", "impl-oracle",
				fmt.Sprintf("%d real obfs2 endpoints handshaking simultaneously, each with its own reference peer; endpoint %d (%s): %s", c.Pairs, i, p.real.role, msg))
		}
		if p.lean.fatal != "" {
			fail("reference peer: " + p.lean.fatal)
			continue
		}
		fin := p.real.sc.Wait(p.real.op)
		if !fin || p.real.op.Panic != nil || p.real.err != nil {
			fail(fmt.Sprintf("handshake finished=%v err=%v panic=%v", fin, p.real.err, p.real.op.Panic))
			continue
		}
		hs := p.real.sc.TakeWritten()
		if st := leanState(d.Call("feed %s %s", p.lean.sess, vlib.Hex(hs))); st != "done" {
			fail("the reference peer does not accept its handshake: " + st)
			continue
		}
		msg := g.Bytes(1 + g.Intn(500))
		n, err, pv := safeWrite(p.real.conn, msg)
		if pv != nil || err != nil || n != len(msg) {
			fail(fmt.Sprintf("Write: %v %v", err, pv))
			continue
		}
		c.ReadMax = 4096
		d.Call("feed %s %s", p.lean.sess, vlib.Hex(p.real.sc.TakeWritten()))
		c.drain(p.lean)
		if string(p.lean.got) != string(msg) {
			fail("the reference peer decrypts garbage (wrong session keys)")
			continue
		}
		back := g.Bytes(1 + g.Intn(500))
		f := obfskit.Fields(d.Call("write %s %s", p.lean.sess, vlib.Hex(back)))
		if len(f) != 2 {
			fail("reference write")
			continue
		}
		rd := &obfskit.Reader{SC: p.real.sc, Conn: p.real.conn, Max: 4096}
		p.real.sc.Feed(vlib.UnHex(f[1]))
		rd.Pump()
		if string(rd.Got) != string(back) {
			fail("the real endpoint decrypts garbage (wrong session keys)")
		}
	}
}

// ---------------------------------------------------------------- generators

func randHex(g *vlib.Rng, n int) string { return vlib.Hex(g.Bytes(n)) }

func genSide(g *vlib.Rng, real bool, pad int) sideSpec {
	s := sideSpec{Real: real, Seed: randHex(g, 16), Pad: pad, HdrPad: -1}
	if g.Intn(10) == 0 {
		s.Reject = 1 + g.Intn(2)
	}
	if !real {
		s.PadBytes = randHex(g, pad)
	}
	return s
}

var padExtremes = []int{0, 1, 2, 15, 16, 17, 8191, 8192}

func genPad(g *vlib.Rng, i int, small bool) int {
	if small {
		return []int{0, 1, 2, 17, 300}[i%5]
	}
	if i%3 != 2 {
		return padExtremes[(i/3*2+i%3)%len(padExtremes)]
	}
	return g.Intn(maxPadding + 1)
}

func genWrites(g *vlib.Rng, small bool, big bool) []string {
	n := 1 + g.Intn(4)
	var ws []string
	for i := 0; i < n; i++ {
		var sz int
		switch g.Intn(6) {
		case 0:
			sz = g.Intn(2) // 0 or 1
		case 1, 2:
			sz = 1 + g.Intn(100)
		case 3:
			sz = 1400 + g.Intn(100)
		case 4:
			sz = 1 + g.Intn(5000)
		default:
			sz = 16*g.Intn(20) + g.Intn(3) - 1
			if sz < 0 {
				sz = 0
			}
		}
		if small && sz > 200 {
			sz = sz % 200
		}
		if big && i == 0 {
			sz = 65536 + g.Intn(3) - 1
		}
		ws = append(ws, randHex(g, sz))
	}
	// never an all-empty direction
	ws = append(ws, randHex(g, 1+g.Intn(40)))
	return ws
}

func total(ws []string) int {
	n := 0
	for _, w := range ws {
		n += len(vlib.UnHex(w))
	}
	return n
}

func genSession(g *vlib.Rng, i int, chunker string, iReal, rReal bool) *scase {
	small := chunker == "one" && i%16 != 0 // byte-wise delivery of 8 KiB paddings only now and then
	c := &scase{Kind: "session", TapeSeed: g.U64(), Chunker: chunker, FlipBit: -1, CutAt: -1}
	c.I = genSide(g, iReal, genPad(g, i, small))
	c.R = genSide(g, rReal, genPad(g, i/2+3, small))
	c.First = vlib.Pick(g, []string{"i", "r"})
	c.Coalesce = g.Intn(3) > 0
	c.ReadMax = vlib.Pick(g, []int{1, 7, 1500, 32768})
	tiny := c.ReadMax == 1 || chunker == "one"
	c.WritesI = genWrites(g, tiny, r.Thorough() && i%40 == 7 && !tiny)
	c.WritesR = genWrites(g, tiny, false)
	hsI, hsR := 24+c.I.Pad, 24+c.R.Pad
	firstW := 0
	if c.Coalesce {
		if c.First == "i" {
			firstW = len(vlib.UnHex(c.WritesI[0]))
		} else {
			firstW = len(vlib.UnHex(c.WritesR[0]))
		}
	}
	// what I receives: R's handshake (+ R's first write if R finished first)
	extraI, extraR := 0, 0
	if c.First == "r" {
		extraI = firstW
	} else {
		extraR = firstW
	}
	c.ToI = obfskit.Sizes(g, chunker, hsR+extraI, []int{16, 24, hsR})
	c.ToR = obfskit.Sizes(g, chunker, hsI+extraR, []int{16, 24, hsI})
	restI, restR := total(c.WritesI), total(c.WritesR)
	if c.Coalesce {
		if c.First == "i" {
			restI -= firstW
		} else {
			restR -= firstW
		}
	}
	bI, bR := bounds(c.WritesI), bounds(c.WritesR)
	c.DataToR = obfskit.Sizes(g, chunker, restI, bI)
	c.DataToI = obfskit.Sizes(g, chunker, restR, bR)
	if i%3 == 1 {
		// the connection ends in both directions: the last bytes come in the same Read as the error
		c.End = vlib.Pick(g, []string{"eof", "eof", "reset"})
		tail := func(ws []string) int {
			n := len(vlib.UnHex(ws[len(ws)-1]))
			if n > c.ReadMax {
				n = c.ReadMax
			}
			return 1 + g.Intn(n)
		}
		c.TailR, c.TailI = tail(c.WritesI), tail(c.WritesR)
	}
	c.Timeouts = i%3 == 2
	return c
}

func bounds(ws []string) []int {
	var b []int
	p := 0
	for _, w := range ws {
		p += len(vlib.UnHex(w))
		b = append(b, p)
	}
	return b
}

// genFlight: the peer (`firstRole`, real or reference) finishes its handshake first and writes at
// once: its whole flight seed ‖ E(header ‖ padding) ‖ data reaches the other (real) side in ONE
// segment (cut < 0) or in two segments cut at `cut`, and then it sends nothing more until answered.
func genFlight(g *vlib.Rng, firstRole string, firstReal bool, pad, dlen, cut int) *scase {
	c := &scase{Kind: "session", TapeSeed: g.U64(), Chunker: "flight-one-segment", FlipBit: -1, CutAt: -1, First: firstRole,
		Coalesce: true, ReadMax: vlib.Pick(g, []int{7, 1500, 32768})}
	c.I = genSide(g, firstRole != "i" || firstReal, g.Intn(60))
	c.R = genSide(g, firstRole != "r" || firstReal, g.Intn(60))
	x := &c.I
	if firstRole == "r" {
		x = &c.R
	}
	x.Pad, x.Reject = pad, 0
	if !x.Real {
		x.PadBytes = randHex(g, pad)
	}
	wf := []string{randHex(g, dlen)}
	ws := genWrites(g, true, false)
	var to []int
	if cut > 0 {
		to = []int{cut}
		c.Chunker = "flight-two-segments"
	}
	if firstRole == "i" {
		c.WritesI, c.WritesR, c.ToR = wf, ws, to
	} else {
		c.WritesR, c.WritesI, c.ToI = wf, ws, to
	}
	return c
}

func flightCuts(pad, dlen int) []int {
	total := 24 + pad + dlen
	seen := map[int]bool{}
	var cuts []int
	for _, b := range []int{16, 20, 24, 24 + pad, total} {
		for d := -1; d <= 1; d++ {
			if x := b + d; x > 0 && x < total && !seen[x] {
				seen[x] = true
				cuts = append(cuts, x)
			}
		}
	}
	return cuts
}

func genMalformed(g *vlib.Rng, kind string, realRole string, pad int, hdrPad int64, padBytes int, flip, cut int, chunker string) *scase {
	c := &scase{Kind: kind, TapeSeed: g.U64(), Chunker: chunker, FlipBit: flip, CutAt: cut, ReadMax: 1500, First: "i"}
	c.I = genSide(g, realRole == "i", g.Intn(40))
	c.R = genSide(g, realRole == "r", g.Intn(40))
	y := &c.R
	if realRole == "r" {
		y = &c.I
	}
	y.Pad = pad
	y.Reject = 0
	y.PadBytes = randHex(g, pad)
	if hdrPad >= 0 {
		y.HdrPad = hdrPad
		y.PadBytes = randHex(g, padBytes)
	}
	n := 24 + len(vlib.UnHex(y.PadBytes))
	if cut >= 0 && cut < n {
		n = cut
	}
	sizes := obfskit.Sizes(g, chunker, n, []int{16, 24})
	if realRole == "i" {
		c.ToI = sizes
	} else {
		c.ToR = sizes
	}
	return c
}

func main() {
	r = vlib.NewRun("C14")
	r.Rule = "session: the handshake completes on both sides and at least one byte flows in each direction under a segmentation with at least one cut; malformed: the (corrupted / crafted) header reaches the real endpoint's check, or the stream is cut inside the handshake"
	if err := transports.Init(); err != nil {
		panic(err)
	}
	t := transports.Get("obfs2")
	if t == nil {
		panic("obfs2 transport not registered")
	}
	var err error
	if cf, err = t.ClientFactory(""); err != nil {
		panic(err)
	}
	if sf, err = t.ServerFactory("", &pt.Args{}); err != nil {
		panic(err)
	}
	d = r.Driver("obfs2")
	defer d.Close()

	if r.ReplayIn != "" {
		var c scase
		if err := r.LoadReplay(&c); err != nil {
			fmt.Println("cannot load replay:", err)
			r.Finish()
		}
		switch c.Kind {
		case "concurrent":
			c.Batches *= 10 // scheduling is not reproducible: replay the family, harder
			runConcurrent(&c)
		case "concurrent-lean":
			for i := 0; i < 10; i++ {
				runConcurrentLean(&c)
			}
		default:
			runCase(&c)
		}
		r.Finish()
	}

	g := vlib.NewRng(r.Seed)
	// overlapping connections first (r.Scale triples the counts in search mode)
	runConcurrent(&scase{Kind: "concurrent", TapeSeed: g.U64(), Batches: r.Scale(300, 3000), Pairs: 16})
	for i := 0; i < r.Scale(3, 20); i++ {
		runConcurrentLean(&scase{Kind: "concurrent-lean", TapeSeed: g.U64(), Pairs: 16})
	}
	reps := r.Scale(10, 330)
	configs := [][2]bool{{true, true}, {true, false}, {false, true}}
	i := 0
	for rep := 0; rep < reps; rep++ {
		for _, ch := range obfskit.Chunkers {
			for _, cfg := range configs {
				runCase(genSession(g.Fork(), i, ch, cfg[0], cfg[1]))
				i++
			}
		}
	}
	// every bit of the 8 header bytes, towards both roles
	flipRounds := r.Scale(1, 8)
	for round := 0; round < flipRounds; round++ {
		for _, role := range []string{"i", "r"} {
			for bit := 0; bit < 64; bit++ {
				pad := []int{0, 5, 100, 8192, 4096, 1, 8191, 33}[(round+bit)%8]
				ch := obfskit.Chunkers[(bit+round)%len(obfskit.Chunkers)]
				if ch == "one" && pad > 300 {
					ch = "bound-1"
				}
				runCase(genMalformed(g.Fork(), "corrupt", role, pad, -1, 0, bit, -1, ch))
			}
		}
	}
	// announced padding length around the limit and far beyond (crafted peer)
	for _, role := range []string{"i", "r"} {
		for _, hp := range []int64{0, 1, 8191, 8192, 8193, 8194, 16384, 65536, 1 << 24, 1<<31 - 1, 1 << 31, 1<<32 - 1} {
			nb := int(hp)
			if hp > 8200 {
				nb = 8200 + g.Intn(100)
			}
			for _, ch := range []string{"whole", "bound-1", "random"} {
				runCase(genMalformed(g.Fork(), "padlen", role, 0, hp, nb, -1, -1, ch))
			}
		}
	}
	// the stream ends inside the handshake
	cutRounds := r.Scale(1, 6)
	for round := 0; round < cutRounds; round++ {
		for _, role := range []string{"i", "r"} {
			pad := []int{0, 1, 40, 700, 8192, 3}[round%6]
			for _, cut := range []int{0, 1, 15, 16, 17, 23, 24, 25, 24 + pad - 1, 24 + pad/2} {
				if cut < 0 || cut >= 24+pad {
					continue
				}
				ch := vlib.Pick(g, []string{"whole", "two", "random", "bound-1"})
				runCase(genMalformed(g.Fork(), "cut", role, pad, -1, 0, -1, cut, ch))
			}
		}
	}
	// the peer's whole flight (handshake ‖ first data) in one segment, and in two segments cut at
	// every phase boundary ±1, after which the peer waits for an answer
	type fl struct{ pad, d int }
	flights := []fl{{0, 1}, {1, 100}, {17, 1400}, {300, 64}, {511, 2}, {512, 700}, {513, 5000}, {4096, 33}, {8192, 3000}}
	for round := 0; round < r.Scale(1, 5); round++ {
		for fi, f := range flights {
			for _, role := range []string{"i", "r"} {
				for _, firstReal := range []bool{false, true} {
					if round > 0 {
						f = fl{g.Intn(maxPadding + 1), 1 + g.Intn(4000)}
						if g.Intn(2) == 0 {
							f = fl{g.Intn(1100), 1 + g.Intn(600)}
						}
					}
					runCase(genFlight(g.Fork(), role, firstReal, f.pad, f.d, -1))
					cuts := flightCuts(f.pad, f.d)
					if !r.Thorough() && fi%3 != round%3 {
						cuts = []int{vlib.Pick(g, cuts), vlib.Pick(g, cuts)}
					}
					for _, cut := range cuts {
						runCase(genFlight(g.Fork(), role, firstReal, f.pad, f.d, cut))
					}
				}
			}
		}
	}
	r.Notes["lean_driver_calls"] = d.Calls
	r.Assumptions = append(r.Assumptions,
		"the in-memory conn returns at most one fed chunk per Read (never coalesces), like a TCP socket read right after each segment arrives")
	r.Finish()
}
