// C09 — obfs4 traffic shaping: the real padBurst / Write / seed adoption vs the Lean model
// (drivers `shaping`, `dist`), plus an implementation-level oracle written from the property text:
// burst ends on a sampled target (+21 when the needed padding is not larger than a header), no
// frame and no IAT-mode write above 1448, paranoid writes are each a non-zero sampled length,
// no panic, termination, and the client's tables equal the server's after the seed packet.
package main

import (
	cryptRand "crypto/rand"
	"crypto/sha256"
	"encoding/binary"
	"encoding/hex"
	"encoding/json"
	"flag"
	"fmt"
	"math"
	"net"
	"os"
	"path/filepath"
	"sort"
	"strconv"
	"strings"
	"sync"
	"sync/atomic"
	"time"

	pt "gitlab.torproject.org/tpo/anti-censorship/pluggable-transports/goptlib"

	"gitlab.com/yawning/obfs4.git/common/csrand"
	"gitlab.com/yawning/obfs4.git/common/drbg"
	"gitlab.com/yawning/obfs4.git/common/probdist"
	"gitlab.com/yawning/obfs4.git/transports"
	"gitlab.com/yawning/obfs4.git/transports/base"
	"gitlab.com/yawning/obfs4.git/transports/obfs4"
	"gitlab.com/yawning/obfs4.git/transports/obfs4/framing"

	"verif/harness/vlib"
)

const (
	mss       = 1448
	hdr       = 21
	maxPay    = 1427
	sampleCap = 6000             // samples a single Write may draw before the harness aborts it
	writeWall = 60 * time.Second // wall-clock budget of a single Write (IAT sleeps included)
)

// ---------------------------------------------------------------- rand reader with an abort limit

type abortSentinel struct{ consumed int }

// limitReader wraps the rand tape: when armed it panics (inside the endpoint's goroutine) once
// more than `limit` bytes were drawn, so that a Write that never terminates can be observed
// and abandoned without hanging the harness.
type limitReader struct {
	inner *vlib.RandTape
	mu    sync.Mutex
	armed bool
	left  int
	total int
	until time.Time
}

func (l *limitReader) Read(p []byte) (int, error) {
	l.mu.Lock()
	if l.armed {
		l.total += len(p)
		if l.left -= len(p); l.left < 0 || time.Now().After(l.until) {
			t := l.total
			l.mu.Unlock()
			panic(abortSentinel{t})
		}
	}
	l.mu.Unlock()
	return l.inner.Read(p)
}

func (l *limitReader) arm(limit int) {
	l.mu.Lock()
	l.armed, l.left, l.total, l.until = true, limit, 0, time.Now().Add(writeWall)
	l.mu.Unlock()
}

func (l *limitReader) disarm() {
	l.mu.Lock()
	l.armed = false
	l.mu.Unlock()
}

var (
	tape   *vlib.RandTape
	reader *limitReader
	// Writes abandoned for not returning, outside the recorded finding classes; each costs up to
	// writeWall, so the run stops generating connections after a few (it has failed anyway)
	abortedUnknown int
)

// ---------------------------------------------------------------- small helpers

func joinInts(xs []int) string {
	if len(xs) == 0 {
		return "-"
	}
	s := make([]string, len(xs))
	for i, x := range xs {
		s[i] = strconv.Itoa(x)
	}
	return strings.Join(s, ",")
}

func clip(s string, n int) string {
	if len(s) > n {
		return s[:n] + "…"
	}
	return s
}

func b2i(b bool) int {
	if b {
		return 1
	}
	return 0
}

func mod(a, m int) int { return ((a % m) + m) % m }

// ---------------------------------------------------------------- padBurst

type padCase struct {
	Op     string `json:"op"` // "pad"
	Tail   int    `json:"tail"`
	Target int    `json:"target"`
}

// padOracle: the property on the implementation's result alone.
func padOracle(tail, target int, frames []int, total int, err error) (string, string) {
	if err != nil {
		return "padburst-panics-or-fails", fmt.Sprintf("padBurst(buffered %d, target %d): %v", tail, target, err)
	}
	if len(frames) > 2 {
		return "padburst-more-than-two-frames", fmt.Sprintf("padBurst(buffered %d, target %d) appended %d frames", tail, target, len(frames))
	}
	sum := 0
	for _, f := range frames {
		if f > mss || f < hdr {
			return "frame-exceeds-segment", fmt.Sprintf("padBurst(buffered %d, target %d) appended a %d byte frame", tail, target, f)
		}
		sum += f
	}
	if total != tail+sum {
		return "padburst-length-accounting", fmt.Sprintf("buffer %d + frames %v != %d", tail, frames, total)
	}
	need := mod(target-tail, mss) // padding needed to end the burst on the target
	want := mod(target, mss)
	if need > 0 && need <= hdr {
		want = mod(target+hdr, mss)
	}
	// a needed padding of exactly one header: the property text ("smaller than a header") allows
	// the target itself, the code's branch (padLen <= headerLength) gives target + 21 — both accepted
	if mod(total, mss) != want && !(need == hdr && mod(total, mss) == mod(target, mss)) {
		return "burst-does-not-end-on-target", fmt.Sprintf("buffered %d, target %d (needed padding %d): burst ends at %d = %d mod %d, expected %d", tail, target, need, total, mod(total, mss), mss, want)
	}
	return "", ""
}

func parsePadReply(s string) string { return s }

func implPad(tail, target int) (string, []int, int, error) {
	frames, total, err := obfs4.VerifPadBurst(tail, target)
	if err != nil {
		return "panic", frames, total, err
	}
	return fmt.Sprintf("ok %s %d", joinInts(frames), total), frames, total, nil
}

func checkPad(r *vlib.Run, d *vlib.Driver, c padCase, modelRep string) {
	impl, frames, total, err := implPad(c.Tail, c.Target)
	if modelRep == "" {
		modelRep = d.Call("padburst %d %d", c.Tail, c.Target)
	}
	need := mod(c.Target-c.Tail, mss)
	r.Case(fmt.Sprintf("pad|%d|%d", c.Tail, c.Target), need != 0)
	r.Validated(1)
	switch {
	case need == 0:
		r.Count("padding-needed", "0")
	case need <= hdr:
		r.Count("padding-needed", "1..21 (two frames)")
	case need == hdr+1:
		r.Count("padding-needed", "22 (empty frame)")
	default:
		r.Count("padding-needed", "23..1447 (one frame)")
	}
	if sig, txt := padOracle(c.Tail, c.Target, frames, total, err); sig != "" {
		r.Violate(sig, "impl-oracle", txt, c)
		return
	}
	if impl != modelRep {
		r.Violate("padburst-model-impl-disagree", "correspondence", fmt.Sprintf("padBurst(buffered %d, target %d): implementation %q, Lean model %q", c.Tail, c.Target, impl, modelRep), c)
	}
}

// ---------------------------------------------------------------- connections

type endpoint struct {
	conn net.Conn
	sc   *vlib.ScriptConn
}

type pair struct {
	cli, srv  endpoint
	seed      string // server's DRBG seed (hex)
	cliSeed   string // the client's own initial seed (hex), read off the rand tape
	srvIat    int
	cliIat    int
	biased    bool
	dir       string
	coalesced bool // seed frame delivered in the same segment as the handshake response
}

func (p *pair) close() {
	if p.cli.conn != nil {
		p.cli.conn.Close()
	}
	if p.srv.conn != nil {
		p.srv.conn.Close()
	}
	os.RemoveAll(p.dir)
}

var setBias sync.Mutex

// newPair performs a real obfs4 handshake in-process over two ScriptConns, strictly
// sequentially (client until blocked, then server, then client), so that the rand tape is
// consumed in a deterministic order.
// newPair: coalesce = the server's inline seed frame reaches the client in the same segment as
// the handshake response (the client then processes it when the handshake completes — the
// repair of F1 — and uses the server's distribution from its very first Write); otherwise
// the 45-byte seed frame is held back until the handshake has completed, so that the client
// processes it at its first Read and its earlier Writes use its own distribution.
func newPair(seedHex string, srvIat, cliIat int, biased bool, coalesce bool) (*pair, error) {
	return newPairCF(nil, seedHex, srvIat, cliIat, biased, coalesce)
}

// newPairCF is newPair with the client side dialled from a given ClientFactory (nil: a fresh
// one), so that several live connections can share one factory as they do in obfs4proxy.
func newPairCF(sharedCF base.ClientFactory, seedHex string, srvIat, cliIat int, biased bool, coalesce bool) (*pair, error) {
	if err := flag.Set("obfs4-distBias", strconv.FormatBool(biased)); err != nil {
		return nil, err
	}
	dir, err := os.MkdirTemp("", "c09-")
	if err != nil {
		return nil, err
	}
	p := &pair{seed: seedHex, srvIat: srvIat, cliIat: cliIat, biased: biased, dir: dir}
	tr := transports.Get("obfs4")
	args := &pt.Args{}
	args.Add("node-id", "0102030405060708090a0b0c0d0e0f1011121314")
	args.Add("private-key", "0101010101010101010101010101010101010101010101010101010101010101")
	args.Add("drbg-seed", seedHex)
	args.Add("iat-mode", strconv.Itoa(srvIat))
	sf, err := tr.ServerFactory(dir, args)
	if err != nil {
		return nil, fmt.Errorf("ServerFactory: %w", err)
	}
	cf := sharedCF
	if cf == nil {
		if cf, err = tr.ClientFactory(dir); err != nil {
			return nil, err
		}
	}
	cargs := &pt.Args{}
	cert, _ := sf.Args().Get("cert")
	cargs.Add("cert", cert)
	cargs.Add("iat-mode", strconv.Itoa(cliIat))
	ca, err := cf.ParseArgs(cargs)
	if err != nil {
		return nil, fmt.Errorf("ParseArgs: %w", err)
	}
	p.cli.sc, p.srv.sc = vlib.NewScriptConn(), vlib.NewScriptConn()

	var cerr, serr error
	mark := tape.Mark()
	cop := p.cli.sc.Start(func() {
		p.cli.conn, cerr = cf.Dial("tcp", "192.0.2.1:443", func(string, string) (net.Conn, error) { return p.cli.sc, nil }, ca)
	})
	if p.cli.sc.Wait(cop) {
		return nil, fmt.Errorf("client handshake ended early: %v %v", cerr, cop.Panic)
	}
	if used := tape.Since(mark); len(used) >= 24 {
		p.cliSeed = hex.EncodeToString(used[:24]) // newObfs4ClientConn draws its seed first
	}
	vlib.Move(p.cli.sc, p.srv.sc, nil)
	sop := p.srv.sc.Start(func() { p.srv.conn, serr = sf.WrapConn(p.srv.sc) })
	if !p.srv.sc.Wait(sop) || serr != nil || sop.Panic != nil {
		return nil, fmt.Errorf("server handshake: %v %v", serr, sop.Panic)
	}
	resp := p.srv.sc.TakeWritten()
	var held []byte
	const seedFrameLen = 45 // inlineSeedFrameLength
	if !coalesce && len(resp) > seedFrameLen {
		held = resp[len(resp)-seedFrameLen:]
		resp = resp[:len(resp)-seedFrameLen]
	}
	p.coalesced = held == nil
	p.cli.sc.Feed(resp)
	if !p.cli.sc.Wait(cop) || cerr != nil || cop.Panic != nil {
		return nil, fmt.Errorf("client handshake: %v %v", cerr, cop.Panic)
	}
	p.cli.sc.Feed(held) // read by the client at its first Read
	return p, nil
}

type dist struct {
	values []int
	prob   []float64
	alias  []int
	str    string // canonical text, comparable with the `dist` driver's pd.new reply
}

func distOf(d *obfs4.VerifDist) *dist {
	if d == nil {
		return nil
	}
	w := make([]string, len(d.Weights))
	for i, x := range d.Weights {
		w[i] = fmt.Sprintf("%016x", math.Float64bits(x))
	}
	pr := make([]string, len(d.Prob))
	for i, x := range d.Prob {
		pr[i] = fmt.Sprintf("%016x", math.Float64bits(x))
	}
	vals := make([]int, len(d.Values))
	for i, v := range d.Values {
		vals[i] = d.Min + v
	}
	return &dist{values: vals, prob: d.Prob, alias: d.Alias,
		str: "ok " + joinInts(d.Values) + " " + strings.Join(w, ",") + " " + joinInts(d.Alias) + " " + strings.Join(pr, ",")}
}

func lenDist(c net.Conn) *dist {
	d, err := obfs4.VerifLenDist(c)
	if err != nil {
		panic(err)
	}
	return distOf(d)
}

func iatDist(c net.Conn) *dist {
	d, err := obfs4.VerifIatDist(c)
	if err != nil {
		panic(err)
	}
	return distOf(d)
}

func iatSeedOf(seedHex string) string {
	b, _ := hex.DecodeString(seedHex)
	h := sha256.Sum256(b)
	return hex.EncodeToString(h[:24])
}

// ---------------------------------------------------------------- steering

func int63Bytes(v uint64) []byte {
	var b [8]byte
	binary.BigEndian.PutUint64(b[:], v)
	return b[:]
}

func gcd(a, b int) int {
	for b != 0 {
		a, b = b, a%b
	}
	return a
}

// unit returns 16 tape bytes (die, coin = 0 → heads) that make lenDist.Sample return
// values[i] — and, should the bytes be consumed by iatDist.Sample instead (the order of the
// two depends on the control flow of Write), select an IAT entry with a small delay.
func unit(ld, id *dist, i int) []byte {
	v := i
	if id != nil {
		nl, ni := len(ld.values), len(id.values)
		g := gcd(nl, ni)
		best, bestDelay := -1, 1<<30
		for j := 0; j < ni; j++ {
			if j%g == i%g && id.values[j] < bestDelay {
				best, bestDelay = j, id.values[j]
			}
		}
		// smallest v with v ≡ i (mod nl), v ≡ best (mod ni)
		for v = i; v%ni != best; v += nl {
		}
	}
	return append(int63Bytes(uint64(v)<<32), int63Bytes(0)...)
}

func indexOf(xs []int, x int) int {
	for i, v := range xs {
		if v == x {
			return i
		}
	}
	return -1
}

// ---------------------------------------------------------------- one Write

type writeCase struct {
	Op      string `json:"op"` // "write"
	Seed    string `json:"seed"`
	SrvIat  int    `json:"srv_iat"`
	CliIat  int    `json:"cli_iat"`
	Biased  bool   `json:"biased"`
	Side    string `json:"side"` // "server" | "client" (after adoption) | "client-pre" (own seed)
	N       int    `json:"n"`
	Indices []int  `json:"indices"` // steering: table indices of the successive (potential) length samples
}

type writeResult struct {
	sizes    []int
	panicked string
	aborted  bool // exceeded the sample cap without returning
	n        int
	err      error
	used     []byte
}

// doWrite runs conn.Write(data) with the rand tape steered, recovering panics.
func doWrite(e endpoint, data []byte, steer []byte, capSamples int) writeResult {
	var res writeResult
	before := len(e.sc.EventsCopy())
	tape.Steer = steer
	mark := tape.Mark()
	reader.arm(capSamples * 16)
	op := e.sc.Start(func() { res.n, res.err = e.conn.Write(data) })
	finished, _ := e.sc.WaitT(op, 120*time.Second)
	reader.disarm()
	tape.Steer = nil
	res.used = tape.Since(mark)
	for _, ev := range e.sc.EventsCopy()[before:] {
		if ev.Kind == "write" {
			res.sizes = append(res.sizes, ev.N)
		}
	}
	if !finished {
		res.aborted = true
		return res
	}
	if op.Panic != nil {
		if _, ok := op.Panic.(abortSentinel); ok {
			res.aborted = true
		} else {
			res.panicked = fmt.Sprint(op.Panic)
		}
	}
	return res
}

func dataFramesLen(n int) int { return n + hdr*((n+maxPay-1)/maxPay) }

// writeOracle judges one Write from the property text, using only the implementation's
// observable behaviour, its table (hook) and the samples the harness fed it.
func writeOracle(mode int, n int, ld *dist, fed []int, res writeResult) (string, string) {
	if res.panicked != "" {
		if strings.Contains(res.panicked, "iat length was 0") {
			return "paranoid-sample-zero-panics", "Write panicked: " + res.panicked
		}
		return "write-panics", "Write panicked: " + res.panicked
	}
	if res.aborted {
		sig := "write-does-not-terminate"
		switch tableClass(ld.values) {
		case "only-zero":
			sig = "paranoid-table-is-only-zero"
		case "single-length":
			sig = "paranoid-single-value-table-pads-forever"
		}
		return sig, fmt.Sprintf("Write(%d bytes) drew more than %d samples without returning (wrote %d segments so far)", n, len(res.used)/16, len(res.sizes))
	}
	if res.err != nil || res.n != n {
		return "write-fails", fmt.Sprintf("Write(%d bytes) returned (%d, %v)", n, res.n, res.err)
	}
	total := 0
	for _, s := range res.sizes {
		total += s
	}
	inTable := map[int]bool{}
	for _, v := range ld.values {
		inTable[v] = true
	}
	switch mode {
	case 0, 1:
		if mode == 0 && len(res.sizes) != 1 {
			return "burst-not-one-write", fmt.Sprintf("iat-mode 0: %d Conn.Write calls", len(res.sizes))
		}
		if mode == 1 {
			for _, s := range res.sizes {
				if s > mss || s == 0 {
					return "iat-write-exceeds-segment", fmt.Sprintf("iat-mode 1: Conn.Write of %d bytes", s)
				}
			}
		}
		t := fed[0]
		need := mod(t-dataFramesLen(n), mss)
		want := mod(t, mss)
		if need > 0 && need <= hdr {
			want = mod(t+hdr, mss)
		}
		if mod(total, mss) != want && !(need == hdr && mod(total, mss) == mod(t, mss)) {
			return "burst-does-not-end-on-sampled-target", fmt.Sprintf("Write(%d bytes), sampled target %d (needed padding %d): burst of %d bytes ends at %d mod %d, expected %d", n, t, need, total, mod(total, mss), mss, want)
		}
	case 2:
		k := 0
		for _, s := range res.sizes {
			if s == 0 || s > mss {
				return "paranoid-write-zero-or-oversize", fmt.Sprintf("iat-mode 2: Conn.Write of %d bytes", s)
			}
			if !inTable[s] {
				return "paranoid-write-not-a-sampled-length", fmt.Sprintf("iat-mode 2: Conn.Write of %d bytes, which is not in the length table", s)
			}
			for k < len(fed) && fed[k] != s {
				k++
			}
			if k == len(fed) && len(res.used) > 16*len(fed) {
				break // the steered samples ran out; later samples came from the PRNG and are not known here
			}
			if k == len(fed) {
				return "paranoid-write-not-a-sampled-length", fmt.Sprintf("iat-mode 2: write sizes %s are not a subsequence of the samples fed %s", clip(joinInts(res.sizes), 120), clip(joinInts(fed), 120))
			}
			k++
		}
		if total < dataFramesLen(n) {
			return "paranoid-lost-bytes", fmt.Sprintf("wrote %d bytes for %d bytes of frames", total, dataFramesLen(n))
		}
	}
	return "", ""
}

func modeName(m int) string { return []string{"none", "enabled", "paranoid"}[m] }

// runWrite performs one steered Write on endpoint e and compares with the model and the oracle.
func runWrite(r *vlib.Run, d *vlib.Driver, p *pair, side string, n int, indices []int, sc scenarioCase) bool {
	e, mode, lenSeed := p.srv, p.srvIat, p.seed
	switch side {
	case "client":
		e, mode = p.cli, p.cliIat
	case "client-pre":
		e, mode, lenSeed = p.cli, p.cliIat, p.cliSeed
	}
	ld, id := lenDist(e.conn), iatDist(e.conn)
	var steer []byte
	var fed []int
	for _, i := range indices {
		i = i % len(ld.values)
		steer = append(steer, unit(ld, id, i)...)
		fed = append(fed, ld.values[i])
	}
	data := make([]byte, n)
	capS := sampleCap
	if len(indices)+1000 > capS {
		capS = len(indices) + 1000
	}
	if sc.Cap > 0 {
		capS = sc.Cap
	}
	res := doWrite(e, data, steer, capS)
	// replay: a fresh connection with the same seed/modes and just this Write
	keep := len(res.used)/16 + 2
	if keep > len(indices) {
		keep = len(indices)
	}
	c := scenarioCase{Op: "write1", Seed: sc.Seed, SrvIat: sc.SrvIat, CliIat: sc.CliIat, Biased: sc.Biased, RngKey: sc.RngKey,
		Side: side, N: n, Indices: indices[:keep], Cap: sc.Cap}
	key := fmt.Sprintf("write|%s|%d|%d|%v|%s|%d|%s", p.seed, p.srvIat, p.cliIat, p.biased, side, n, joinInts(indices))
	hasZero := indexOf(ld.values, 0) >= 0
	r.Case(key, n > 0 && (mode != 2 || len(res.sizes) >= 2))
	r.Validated(1)
	r.Count("write-mode", modeName(mode)+"/"+side)
	r.Count("write-size", sizeClass(n))
	if hasZero {
		r.Count("length-table", "contains-0")
	} else {
		r.Count("length-table", "no-0")
	}
	zeroFed := false
	for _, f := range fed {
		if f == 0 {
			zeroFed = true
		}
	}
	if zeroFed && mode == 2 {
		r.Count("paranoid", "zero-length-sampled")
	}
	// --- S: the property on the implementation alone
	sig, txt := writeOracle(mode, n, ld, fed, res)
	if sig != "" {
		r.Violate(sig, "impl-oracle", fmt.Sprintf("seed %s iat-mode %d (%s) biased %v, Write(%d bytes), length samples fed %s: %s", lenSeed, mode, side, p.biased, n, clip(joinInts(fed), 60), txt), c)
	}
	if res.aborted {
		if sig == "write-does-not-terminate" {
			abortedUnknown++
		}
		return false
	}
	// --- C: the Lean model on the same seed and the same random bytes
	implStatus := "ok"
	switch {
	case strings.Contains(res.panicked, "iat length was 0"):
		implStatus = "panic-iat"
	case strings.Contains(res.panicked, "chopping length was 0"):
		implStatus = "panic-chop"
	case strings.Contains(res.panicked, "makePacket"):
		implStatus = "panic-makepacket"
	case res.panicked != "":
		implStatus = "panic-other"
	}
	iatSeed := "-"
	if id != nil {
		iatSeed = iatSeedOf(lenSeed)
	}
	rep := d.Call("write %s %s %d %d %d %s", lenSeed, iatSeed, b2i(p.biased), mode, n, vlib.Hex(res.used))
	f := strings.Fields(rep)
	want := fmt.Sprintf("%s %s consumed=%d", implStatus, joinInts(res.sizes), len(res.used))
	got := rep
	if len(f) == 6 {
		got = fmt.Sprintf("%s %s consumed=%s", f[0], f[1], f[5])
	}
	r.Sample(6, map[string]interface{}{"side": side, "iat_mode": mode, "n": n, "seed": lenSeed, "length_samples_fed": clip(joinInts(fed), 80),
		"conn_writes": clip(joinInts(res.sizes), 80), "impl_status": implStatus, "model": clip(rep, 160)})
	if got != want {
		r.Violate("write-model-impl-disagree", "correspondence",
			fmt.Sprintf("seed %s iat-mode %d (%s) Write(%d): implementation %s, Lean model %s", lenSeed, mode, side, n, clip(want, 200), clip(got, 200)), c)
		return false
	}
	return sig == ""
}

func sizeClass(n int) string {
	switch {
	case n == 0:
		return "0"
	case n == 1:
		return "1"
	case n < 1426:
		return "2..1425"
	case n <= 1428:
		return "1426..1428"
	case n <= 1449:
		return "1429..1449"
	case n <= 2*1427+1:
		return "..2855"
	case n <= 6000:
		return "..6000"
	default:
		return ">6000"
	}
}

var writeSizes = []int{0, 1, 2, 100, 700, 1405, 1406, 1407, 1426, 1427, 1428, 1447, 1448, 1449, 2*1427 - 1, 2 * 1427, 2*1427 + 1, 5000}

// indicesFor chooses the steering for one Write: table indices for the successive (potential)
// length samples. Streams are randomised over all usable entries (a constant stream is an
// adversarial one: paranoid mode terminates almost surely, not surely).
func indicesFor(rng *vlib.Rng, ld *dist, mode, n int, policy string) []int {
	nv := len(ld.values)
	count := 8 + n/mss
	if mode == 2 {
		// enough steered samples for the worst case (every sample the smallest non-zero length,
		// a third of them zero, every drain followed by a two-frame padding), so that a Write on a
		// normal table never falls back to unsteered randomness
		m := mss
		for _, v := range ld.values {
			if v > 0 && v < m {
				m = v
			}
		}
		count = 5*(dataFramesLen(n)+3000)/m + 100
		if count > 40000 {
			count = 40000
		}
	}
	idx := make([]int, count)
	zero := indexOf(ld.values, 0)
	var big, nz []int
	for i, v := range ld.values {
		if v >= 200 {
			big = append(big, i)
		}
		if v > 0 {
			nz = append(nz, i)
		}
	}
	if len(big) < 2 {
		big = nz
	}
	pickBig := func() int {
		if len(big) == 0 {
			return 0
		}
		if len(nz) > 0 && rng.Intn(8) == 0 {
			return nz[rng.Intn(len(nz))]
		}
		return big[rng.Intn(len(big))]
	}
	for k := range idx {
		switch policy {
		case "zero-first":
			if k == 0 && zero >= 0 {
				idx[k] = zero
			} else {
				idx[k] = pickBig()
			}
		case "zero-often":
			if zero >= 0 && rng.Intn(3) == 0 {
				idx[k] = zero
			} else {
				idx[k] = pickBig()
			}
		case "any":
			if k < 40 {
				idx[k] = rng.Intn(nv)
			} else {
				idx[k] = pickBig()
			}
		default: // "big"
			idx[k] = pickBig()
		}
	}
	return idx
}

func nonZero(values []int) []int {
	var nz []int
	for _, v := range values {
		if v != 0 {
			nz = append(nz, v)
		}
	}
	return nz
}

// tableClass classifies a 0..1448 length table for the termination part of the property:
//
//	"only-zero":         no non-zero length exists (DESIGN §5 F2b): paranoid Write cannot write
//	"single-length":     exactly one non-zero length v: every sample stream is the constant one;
//	                     paranoid Write cycles forever for many (v, write size) (e.g. v = 10)
//	"small-values-only": all lengths <= 22: a needed padding never exceeds a header, termination
//	                     only by exact hits (depends on the samples; not probed)
func tableClass(values []int) string {
	nz := nonZero(values)
	max := 0
	for _, v := range nz {
		if v > max {
			max = v
		}
	}
	switch {
	case len(nz) == 0:
		return "only-zero"
	case len(nz) == 1:
		return "single-length"
	case max <= hdr+1:
		return "small-values-only"
	}
	return "normal"
}

// ---------------------------------------------------------------- scenario on one connection

var far = time.Now().Add(1000 * time.Hour)

// deliver moves what `from` wrote on its net.Conn into the peer's read queue.
func deliver(from, to endpoint) { vlib.Move(from.sc, to.sc, nil) }

// drain reads everything currently readable from an endpoint (the ScriptConn fires its
// virtual read deadline instead of blocking); returns the number of payload bytes and the
// panic / non-timeout error, if any.
func drain(e endpoint) (total int, problem string) {
	buf := make([]byte, 1<<16)
	for i := 0; i < 100000; i++ {
		var n int
		var err error
		pan := protect(func() { n, err = e.conn.Read(buf) })
		total += n
		if pan != "" {
			return total, "panic: " + pan
		}
		if err != nil {
			if ne, ok := err.(net.Error); ok && ne.Timeout() {
				return total, ""
			}
			return total, err.Error()
		}
	}
	return total, "Read keeps returning"
}

func protect(f func()) (pan string) {
	defer func() {
		if p := recover(); p != nil {
			pan = fmt.Sprint(p)
		}
	}()
	f()
	return ""
}

type scenarioCase struct {
	Op     string `json:"op"` // "conn": whole scenario; "write1": handshake (+ adoption plumbing) and ONE Write
	Seed   string `json:"seed"`
	SrvIat int    `json:"srv_iat"`
	CliIat int    `json:"cli_iat"`
	Biased bool   `json:"biased"`
	RngKey uint64 `json:"rng"` // seeds the rand tape and the choice of sizes / steering of this scenario
	// write1 only:
	Side    string `json:"side,omitempty"`    // "server" | "client" (after adoption) | "client-pre"
	N       int    `json:"n,omitempty"`       // application write size
	Indices []int  `json:"indices,omitempty"` // length-table indices the successive samples are steered to
	Cap     int    `json:"cap,omitempty"`     // abort the Write after this many samples (termination probes)
	// "foreign-seed": a validly sealed PRNG-seed packet with this seed is sent client -> server
	Foreign string `json:"foreign,omitempty"`
	// "reseed-race": the server streams Packets seed packets alternating SeedA (large table) and
	// SeedB (tiny table) while the client keeps writing from another goroutine
	// "multi-conn": one ClientFactory, one live connection per bridge seed
	Seeds   []string `json:"seeds,omitempty"`
	SeedA   string `json:"seed_a,omitempty"`
	SeedB   string `json:"seed_b,omitempty"`
	Packets int    `json:"packets,omitempty"`
}

func checkAdoption(r *vlib.Run, dd, ds *vlib.Driver, p *pair, c scenarioCase) bool {
	key := fmt.Sprintf("adopt|%s|%d|%d|%v", p.seed, p.srvIat, p.cliIat, p.biased)
	r.Case(key, true)
	r.Validated(1)
	r.Count("adoption", fmt.Sprintf("srv-iat=%d cli-iat=%d", p.srvIat, p.cliIat))
	cl, sl := lenDist(p.cli.conn), lenDist(p.srv.conn)
	ci, si := iatDist(p.cli.conn), iatDist(p.srv.conn)
	// S: the client's tables are the server's
	if cl.str != sl.str {
		r.Violate("client-does-not-adopt-server-length-distribution", "impl-oracle",
			fmt.Sprintf("seed %s: after processing the seed packet the client's length table (%s…) differs from the server's (%s…)", p.seed, clip(joinInts(cl.values), 60), clip(joinInts(sl.values), 60)), c)
		return false
	}
	if ci != nil && si != nil && ci.str != si.str {
		r.Violate("client-does-not-adopt-server-iat-distribution", "impl-oracle",
			fmt.Sprintf("seed %s: the client's IAT table differs from the server's after the seed packet", p.seed), c)
		return false
	}
	// C: the model's adoption step and tables
	seedB, _ := hex.DecodeString(p.seed)
	dg := sha256.Sum256(seedB)
	preIat := "-"
	if ci != nil {
		preIat = iatSeedOf(p.cliSeed)
	}
	rep := ds.Call("adopt 0 %s %s %s %s", p.cliSeed, preIat, p.seed, hex.EncodeToString(dg[:]))
	f := strings.Fields(rep)
	if len(f) != 2 {
		r.Violate("adopt-model-reply", "correspondence", "unexpected model reply "+rep, c)
		return false
	}
	mlen := dd.Call("pd.new %s 0 %d %d", f[0], mss, b2i(p.biased))
	if mlen != cl.str {
		r.Violate("adopted-length-table-model-impl-disagree", "correspondence", fmt.Sprintf("seed %s: client table after adoption differs from the model's table for seed %s", p.seed, f[0]), c)
		return false
	}
	if (f[1] == "-") != (ci == nil) {
		r.Violate("adopted-iat-table-model-impl-disagree", "correspondence", fmt.Sprintf("seed %s: model iat seed %s, client has IAT table: %v", p.seed, f[1], ci != nil), c)
		return false
	}
	if ci != nil {
		miat := dd.Call("pd.new %s 0 100 %d", f[1], b2i(p.biased))
		if miat != ci.str {
			r.Violate("adopted-iat-table-model-impl-disagree", "correspondence", fmt.Sprintf("seed %s: client IAT table after adoption differs from the model's", p.seed), c)
			return false
		}
	}
	return true
}

// seedFrame seals a PRNG-seed packet (type 1, no padding) with the given frame encoder — the
// real encoder of one of the two endpoints, so the frame is exactly what that endpoint's obfs4
// layer would put on the wire next and its nonce/length-mask state stays in step.
func seedFrame(enc *framing.Encoder, seed []byte) []byte {
	pkt := append([]byte{1, byte(len(seed) >> 8), byte(len(seed))}, seed...)
	var frame [framing.MaximumSegmentLength]byte
	n, err := enc.Encode(frame[:], pkt)
	if err != nil {
		panic(err)
	}
	return append([]byte(nil), frame[:n]...)
}

// ownDist builds the tables probdist gives for a seed, independently of any connection.
func ownDist(seedHex string, max int, biased bool) *dist {
	s, err := drbg.SeedFromHex(seedHex)
	if err != nil {
		panic(err)
	}
	w := probdist.New(s, 0, max, biased)
	d := &obfs4.VerifDist{}
	d.Min, d.Max, d.Biased = probdist.VerifBounds(w)
	d.Values, d.Weights, d.Alias, d.Prob = probdist.VerifTables(w)
	return distOf(d)
}

// foreignSeed: only the client adopts a PRNG seed. A peer holding the session keys (here: the
// real client's encoder) sends a well-formed seed packet to the BRIDGE; the bridge's
// distributions must stay those of its own configured seed and its bursts must keep following
// them.
func foreignSeed(r *vlib.Run, ds, dd *vlib.Driver, p *pair, c scenarioCase, rng *vlib.Rng) {
	key := fmt.Sprintf("foreign-seed|%s|%s|%d|%d|%v", c.Seed, c.Foreign, c.SrvIat, c.CliIat, c.Biased)
	r.Case(key, true)
	r.Validated(1)
	r.Count("foreign-seed-to-server", fmt.Sprintf("srv-iat=%d", c.SrvIat))
	own := ownDist(c.Seed, mss, c.Biased)
	var ownIat *dist
	if c.SrvIat != 0 {
		ownIat = ownDist(iatSeedOf(c.Seed), 100, c.Biased)
	}
	foreign, _ := hex.DecodeString(c.Foreign)
	enc := obfs4.VerifC10Encoder(p.cli.conn)
	if enc == nil {
		panic("no client encoder")
	}
	p.srv.sc.Feed(seedFrame(enc, foreign))
	if got, prob := drain(p.srv); got != 0 || prob != "" {
		r.Violate("server-rejects-seed-packet", "impl-oracle", fmt.Sprintf("a sealed PRNG-seed packet sent to the server: Read returned %d bytes, %s (it must be ignored silently)", got, prob), c)
		return
	}
	sl, si := lenDist(p.srv.conn), iatDist(p.srv.conn)
	if sl.str != own.str || (ownIat != nil && (si == nil || si.str != ownIat.str)) {
		r.Violate("server-adopts-foreign-seed", "impl-oracle",
			fmt.Sprintf("bridge seed %s: after a peer sent a PRNG-seed packet carrying %s the bridge's length table is %s… (its own seed gives %s…) — only the client may adopt a seed", c.Seed, c.Foreign, clip(joinInts(sl.values), 50), clip(joinInts(own.values), 50)), c)
		return
	}
	// C: the model's adoption step on the server side leaves the seeds alone
	dg := sha256.Sum256(foreign)
	iatS := "-"
	if c.SrvIat != 0 {
		iatS = iatSeedOf(c.Seed)
	}
	rep := ds.Call("adopt 1 %s %s %s %s", c.Seed, iatS, c.Foreign, hex.EncodeToString(dg[:]))
	if rep != c.Seed+" "+iatS {
		r.Violate("server-adopt-model-impl-disagree", "correspondence", fmt.Sprintf("model: server seeds after a foreign seed packet are %q, implementation keeps %s %s", rep, c.Seed, iatS), c)
		return
	}
	// the bridge's later bursts still follow its own table (oracle + model with its own seed)
	if tableClass(sl.values) != "normal" && p.srvIat == 2 {
		return
	}
	sent := 0
	for k := 0; k < 2; k++ {
		n := vlib.Pick(rng, writeSizes)
		if !runWrite(r, ds, p, "server", n, indicesFor(rng, own, p.srvIat, n, "big"), c) {
			return
		}
		sent += n
	}
	deliver(p.srv, p.cli)
	if got, prob := drain(p.cli); got != sent || prob != "" {
		r.Violate("client-does-not-receive-server-bytes", "impl-oracle", fmt.Sprintf("server wrote %d bytes, client read %d (%s)", sent, got, prob), c)
		return
	}
	// the injected frame was a regular frame of the client's stream: the client can go on
	res := doWrite(p.cli, []byte("after"), nil, sampleCap)
	deliver(p.cli, p.srv)
	if got, prob := drain(p.srv); res.panicked == "" && !res.aborted && (got != 5 || prob != "") {
		r.Violate("server-does-not-receive-client-bytes", "impl-oracle", fmt.Sprintf("after the seed packet the client wrote 5 bytes, server read %d (%s)", got, prob), c)
	}
}

// reseedRace: the bridge streams seed packets alternating a large and a tiny table while the
// client application keeps writing from another goroutine (Read and Write of a net.Conn may run
// concurrently; Reset and Sample meet on the distribution's mutex). Nothing may panic, every
// Write must succeed, and afterwards the client holds the table of the last seed.
func reseedRace(r *vlib.Run, p *pair, c scenarioCase) {
	key := fmt.Sprintf("reseed-race|%s|%s|%d|%d|%v", c.SeedA, c.SeedB, c.CliIat, c.Packets, c.Biased)
	r.Case(key, true)
	r.Count("reseed-race", fmt.Sprintf("cli-iat=%d packets=%d", c.CliIat, c.Packets))
	enc := obfs4.VerifC10Encoder(p.srv.conn)
	a, _ := hex.DecodeString(c.SeedA)
	b, _ := hex.DecodeString(c.SeedB)
	last := c.SeedA
	for k := 0; k < c.Packets; k++ {
		if k%2 == 0 {
			p.cli.sc.Feed(seedFrame(enc, a))
			last = c.SeedA
		} else {
			p.cli.sc.Feed(seedFrame(enc, b))
			last = c.SeedB
		}
	}
	var wg sync.WaitGroup
	var readProblem, writePanic string
	var writeErr error
	var done int32
	writes := 0
	wg.Add(2)
	go func() {
		defer wg.Done()
		defer atomic.StoreInt32(&done, 1)
		_, readProblem = drain(p.cli)
	}()
	go func() {
		defer wg.Done()
		data := make([]byte, 64)
		for atomic.LoadInt32(&done) == 0 || writes < 50 {
			var n int
			var err error
			if pan := protect(func() { n, err = p.cli.conn.Write(data[:1+writes%64]) }); pan != "" {
				writePanic = pan
				return
			}
			if err != nil || n != 1+writes%64 {
				writeErr = fmt.Errorf("Write returned (%d, %v)", n, err)
				return
			}
			writes++
			if writes > 2000000 {
				return
			}
		}
	}()
	wg.Wait()
	r.Validated(1)
	switch {
	case writePanic != "":
		r.Violate("write-panics-under-concurrent-reseed", "impl-oracle",
			fmt.Sprintf("client (iat-mode %d) writing while %d seed packets alternating a %d-value and a %d-value table arrive: Write panicked after %d writes: %s", c.CliIat, c.Packets, len(tableOfSeed(c.SeedA)), len(tableOfSeed(c.SeedB)), writes, writePanic), c)
		return
	case writeErr != nil:
		r.Violate("write-fails-under-concurrent-reseed", "impl-oracle", writeErr.Error(), c)
		return
	case readProblem != "":
		r.Violate("read-fails-under-concurrent-reseed", "impl-oracle", "client Read while seed packets stream in: "+readProblem, c)
		return
	}
	if got, want := lenDist(p.cli.conn), ownDist(last, mss, c.Biased); got.str != want.str {
		r.Violate("client-does-not-adopt-server-length-distribution", "impl-oracle",
			fmt.Sprintf("after %d streamed seed packets the client's length table is not that of the last seed %s", c.Packets, last), c)
	}
}

// multiConn: one ClientFactory dials several bridges with DIFFERENT seeds; the connections stay
// live together. Each connection must hold the distributions of its OWN bridge at every point
// (after every establishment / adoption and around every Write on any connection) and its bursts
// must follow them.
func multiConn(r *vlib.Run, ds, dd *vlib.Driver, c scenarioCase) {
	rng := vlib.NewRng(c.RngKey)
	key := fmt.Sprintf("multi-conn|%s|%d|%d|%v|%d", strings.Join(c.Seeds, ","), c.SrvIat, c.CliIat, c.Biased, c.RngKey)
	r.Case(key, len(c.Seeds) >= 2)
	r.Count("multi-conn", fmt.Sprintf("%d bridges cli-iat=%d", len(c.Seeds), c.CliIat))
	dir, err := os.MkdirTemp("", "c09-cf-")
	if err != nil {
		panic(err)
	}
	defer os.RemoveAll(dir)
	cf, err := transports.Get("obfs4").ClientFactory(dir)
	if err != nil {
		panic(err)
	}
	var pairs []*pair
	defer func() {
		for _, p := range pairs {
			p.close()
		}
	}()
	own := make([]*dist, len(c.Seeds))
	ownIat := make([]*dist, len(c.Seeds))
	// every live connection holds its own bridge's tables
	checkAll := func(when string) bool {
		for i, p := range pairs {
			cl, ci := lenDist(p.cli.conn), iatDist(p.cli.conn)
			if cl.str != own[i].str || (c.CliIat != 0 && (ci == nil || ci.str != ownIat[i].str)) {
				whose := "neither its own nor another live bridge's"
				for j := range pairs {
					if j != i && cl.str == own[j].str {
						whose = fmt.Sprintf("those of bridge %d (seed %s)", j, c.Seeds[j])
					}
				}
				r.Violate("connection-uses-another-bridges-distribution", "impl-oracle",
					fmt.Sprintf("%d live connections from one ClientFactory; %s: connection %d (bridge seed %s) holds length/IAT tables %s — %s… instead of %s…", len(pairs), when, i, c.Seeds[i], whose, clip(joinInts(cl.values), 40), clip(joinInts(own[i].values), 40)), c)
				return false
			}
		}
		return true
	}
	for i, seed := range c.Seeds {
		own[i] = ownDist(seed, mss, c.Biased)
		ownIat[i] = ownDist(iatSeedOf(seed), 100, c.Biased)
		if tableClass(own[i].values) != "normal" && c.CliIat == 2 {
			return
		}
		coalesce := (c.RngKey>>uint(i))&1 == 0
		p, err := newPairCF(cf, seed, c.SrvIat, c.CliIat, c.Biased, coalesce)
		if err != nil {
			r.Violate("handshake-fails", "impl-oracle", fmt.Sprintf("in-process obfs4 handshake failed: %v", err), c)
			return
		}
		pairs = append(pairs, p)
		for _, sc := range []*vlib.ScriptConn{p.cli.sc, p.srv.sc} {
			sc.FireDeadlines = true
			sc.SetReadDeadline(far)
		}
		if !p.coalesced {
			drain(p.cli) // the held seed frame: adopted at the first Read
		}
		if !checkAll(fmt.Sprintf("after connection %d was established and processed its seed packet", i)) {
			return
		}
	}
	// writes A, B, A, (C), ...: each burst follows the writer's own bridge
	sent := make([]int, len(pairs))
	for k := 0; k < 3*len(pairs); k++ {
		i := k % len(pairs)
		if k >= len(pairs) {
			i = rng.Intn(len(pairs))
		}
		p := pairs[i]
		pc := c
		pc.Seed = c.Seeds[i]
		n := vlib.Pick(rng, writeSizes)
		if !runWrite(r, ds, p, "client", n, indicesFor(rng, own[i], c.CliIat, n, "big"), pc) {
			return
		}
		sent[i] += n
		if !checkAll(fmt.Sprintf("after write %d (on connection %d)", k, i)) {
			return
		}
	}
	for i, p := range pairs {
		deliver(p.cli, p.srv)
		if got, prob := drain(p.srv); got != sent[i] || prob != "" {
			r.Violate("server-does-not-receive-client-bytes", "impl-oracle", fmt.Sprintf("connection %d: client wrote %d bytes, server read %d (%s)", i, sent[i], got, prob), c)
			return
		}
	}
}

// reseedInflight: the server's 45-byte seed frame arrives separately from the handshake
// response and is processed by Read() while a paranoid-mode Write of the client is in the middle
// of its burst (here: from inside the net.Conn's Write call of the burst's segment number
// `after`, i.e. while obfs4's Write is between two segments). From then on the client uses the
// bridge's distribution: every LATER segment of that same burst is a length of the bridge's table.
func reseedInflight(r *vlib.Run, p *pair, c scenarioCase) {
	key := fmt.Sprintf("reseed-inflight|%s|%d|%v|%d|%d", c.Seed, c.N, c.Biased, c.Packets, c.RngKey)
	own := ownDist(c.Seed, mss, c.Biased)
	pre := lenDist(p.cli.conn)
	if p.coalesced || tableClass(pre.values) != "normal" || tableClass(own.values) != "normal" || pre.str == own.str {
		r.Case(key, false)
		return
	}
	inOwn := map[int]bool{}
	for _, v := range own.values {
		inOwn[v] = true
	}
	after := c.Packets // process the seed during this segment's Conn.Write (1-based)
	seg, adoptedAt := 0, -1
	var readProblem string
	p.cli.sc.OnWrite = func([]byte) {
		seg++
		if seg == after {
			_, readProblem = drain(p.cli)
			if lenDist(p.cli.conn).str == own.str {
				adoptedAt = seg
			}
		}
	}
	res := doWrite(p.cli, make([]byte, c.N), nil, sampleCap)
	p.cli.sc.OnWrite = nil
	r.Case(key, adoptedAt > 0 && len(res.sizes) > adoptedAt+1)
	r.Validated(1)
	r.Count("reseed-inflight", fmt.Sprintf("segments-after-adoption=%s", sizeBucket(len(res.sizes)-after)))
	switch {
	case res.panicked != "":
		r.Violate("write-panics-under-concurrent-reseed", "impl-oracle", "Write panicked while the seed packet was processed mid-burst: "+res.panicked, c)
		return
	case res.aborted:
		return // the client's own random table made the burst too long; nothing to judge
	case readProblem != "":
		r.Violate("read-fails-under-concurrent-reseed", "impl-oracle", "client Read mid-burst: "+readProblem, c)
		return
	case len(res.sizes) >= after && adoptedAt < 0:
		r.Violate("client-does-not-adopt-server-length-distribution", "impl-oracle", fmt.Sprintf("seed %s: the seed frame was read during segment %d of a burst but the client's table is not the bridge's afterwards", c.Seed, after), c)
		return
	}
	for i := after; i < len(res.sizes); i++ { // segments written after the adoption
		if !inOwn[res.sizes[i]] || res.sizes[i] == 0 {
			r.Violate("inflight-burst-ignores-adopted-distribution", "impl-oracle",
				fmt.Sprintf("bridge seed %s, client iat-mode 2, Write(%d bytes): the seed packet was processed during segment %d of the burst (the connection's table is the bridge's from then on), but segment %d of the same burst is %d bytes, which is not a length of the bridge's table (segments %s…)", c.Seed, c.N, after, i+1, res.sizes[i], clip(joinInts(res.sizes), 100)), c)
			return
		}
	}
}

func sizeBucket(n int) string {
	switch {
	case n <= 0:
		return "0"
	case n < 5:
		return "1-4"
	default:
		return "5+"
	}
}

func scenario(r *vlib.Run, ds, dd *vlib.Driver, c scenarioCase) {
	defer func() {
		if p := recover(); p != nil {
			r.Violate("panic-in-scenario", "impl-oracle", fmt.Sprintf("scenario %+v panicked: %v", c, p), c)
		}
	}()
	rng := vlib.NewRng(c.RngKey)
	// every scenario starts from its own rand tape, so that it replays on its own
	tape = vlib.InstallRandTape(c.RngKey)
	reader.inner = tape
	cryptRand.Reader = reader
	csrand.Reader = reader
	if c.Op == "multi-conn" {
		multiConn(r, ds, dd, c)
		return
	}
	// a quarter of the adoption scenarios deliver the seed frame coalesced with the response
	coalesce := (c.Op != "write1" && c.RngKey%4 == 0) || c.Op == "foreign-seed" || c.Op == "reseed-race"
	p, err := newPair(c.Seed, c.SrvIat, c.CliIat, c.Biased, coalesce)
	if err != nil {
		r.Case(fmt.Sprintf("conn|%+v", c), false)
		r.Violate("handshake-fails", "impl-oracle", fmt.Sprintf("in-process obfs4 handshake failed: %v", err), c)
		return
	}
	defer p.close()
	r.Count("connection", fmt.Sprintf("srv-iat=%d cli-iat=%d biased=%v", c.SrvIat, c.CliIat, c.Biased))
	for _, sc := range []*vlib.ScriptConn{p.cli.sc, p.srv.sc} {
		sc.FireDeadlines = true
		sc.SetReadDeadline(far)
	}
	sl := lenDist(p.srv.conn)
	r.Count("server-table", tableClass(sl.values))

	switch c.Op {
	case "foreign-seed":
		foreignSeed(r, ds, dd, p, c, rng)
		return
	case "reseed-race":
		reseedRace(r, p, c)
		return
	case "reseed-inflight":
		reseedInflight(r, p, c)
		return
	}
	if c.Op == "write1" {
		switch c.Side {
		case "server", "client-pre":
			runWrite(r, ds, p, c.Side, c.N, c.Indices, c)
		case "client":
			// plumbing so that the client processes the seed packet, steered away from length 0
			pre := lenDist(p.cli.conn)
			plumb := c
			plumb.Cap = 0
			if (tableClass(pre.values) != "normal" && p.cliIat == 2) || !runWrite(r, ds, p, "client-pre", 1, indicesFor(rng, pre, p.cliIat, 1, "big"), plumb) {
				return
			}
			deliver(p.cli, p.srv)
			drain(p.srv)
			if !runWrite(r, ds, p, "server", 1, indicesFor(rng, sl, p.srvIat, 1, "big"), plumb) {
				return
			}
			deliver(p.srv, p.cli)
			drain(p.cli)
			runWrite(r, ds, p, "client", c.N, c.Indices, c)
		}
		return
	}

	if p.coalesced {
		// the seed frame arrived with the handshake response: the client has processed it by the
		// time Dial returns and must use the server's distribution from its first Write
		r.Count("adoption-point", "with-handshake")
		if !checkAdoption(r, dd, ds, p, c) {
			return
		}
		if tableClass(sl.values) != "normal" && (p.srvIat == 2 || p.cliIat == 2) {
			return
		}
		cl := lenDist(p.cli.conn)
		sent := 0
		for k := 0; k < 4; k++ {
			n := vlib.Pick(rng, writeSizes)
			policy := vlib.Pick(rng, []string{"big", "any"})
			if indexOf(sl.values, 0) >= 0 {
				policy = vlib.Pick(rng, []string{"zero-first", "zero-often", "any"})
			}
			if !runWrite(r, ds, p, "client", n, indicesFor(rng, cl, p.cliIat, n, policy), c) {
				return
			}
			sent += n
		}
		deliver(p.cli, p.srv)
		if got, prob := drain(p.srv); got != sent || prob != "" {
			r.Violate("server-does-not-receive-client-bytes", "impl-oracle", fmt.Sprintf("client wrote %d bytes, server read %d (%s)", sent, got, prob), c)
		}
		return
	}
	r.Count("adoption-point", "first-read-after-handshake")

	// 1. before adoption the client uses its own seed
	pre := lenDist(p.cli.conn)
	if m := dd.Call("pd.new %s 0 %d %d", p.cliSeed, mss, b2i(p.biased)); m != pre.str {
		r.Violate("client-initial-table-model-impl-disagree", "correspondence", fmt.Sprintf("client seed %s: initial length table differs from the model's", p.cliSeed), c)
		return
	}
	if tableClass(pre.values) != "normal" && p.cliIat == 2 {
		return // the client's own random table is degenerate (see the termination probes)
	}
	sent := 0
	n0 := vlib.Pick(rng, []int{1, 10, 500, 1427, 1428})
	if !runWrite(r, ds, p, "client-pre", n0, indicesFor(rng, pre, p.cliIat, n0, "big"), c) {
		return
	}
	sent += n0
	deliver(p.cli, p.srv)
	if got, prob := drain(p.srv); got != sent || prob != "" {
		r.Violate("server-does-not-receive-client-bytes", "impl-oracle", fmt.Sprintf("client wrote %d bytes, server read %d (%s)", sent, got, prob), c)
		return
	}

	// 2. server writes
	if tableClass(sl.values) != "normal" && (p.srvIat == 2 || p.cliIat == 2) {
		return // paranoid mode on a degenerate table: handled by the termination probes
	}
	hasZero := indexOf(sl.values, 0) >= 0
	sent = 0
	nw := 5
	for k := 0; k < nw; k++ {
		n := vlib.Pick(rng, writeSizes)
		policy := vlib.Pick(rng, []string{"big", "any", "big"})
		if hasZero {
			policy = vlib.Pick(rng, []string{"zero-first", "zero-often", "any", "big"})
			if k == 0 {
				policy = "zero-first"
			}
		}
		if !runWrite(r, ds, p, "server", n, indicesFor(rng, sl, p.srvIat, n, policy), c) {
			return
		}
		sent += n
	}
	deliver(p.srv, p.cli)
	if got, prob := drain(p.cli); got != sent || prob != "" {
		r.Violate("client-does-not-receive-server-bytes", "impl-oracle", fmt.Sprintf("server wrote %d bytes, client read %d (%s)", sent, got, prob), c)
		return
	}

	// 3. the client has now processed the seed packet
	if !checkAdoption(r, dd, ds, p, c) {
		return
	}

	// 4. client writes with the adopted distribution
	cl := lenDist(p.cli.conn)
	sent = 0
	for k := 0; k < 4; k++ {
		n := vlib.Pick(rng, writeSizes)
		policy := vlib.Pick(rng, []string{"big", "any"})
		if hasZero {
			policy = vlib.Pick(rng, []string{"zero-first", "zero-often", "any"})
		}
		if !runWrite(r, ds, p, "client", n, indicesFor(rng, cl, p.cliIat, n, policy), c) {
			return
		}
		sent += n
	}
	deliver(p.cli, p.srv)
	if got, prob := drain(p.srv); got != sent || prob != "" {
		r.Violate("server-does-not-receive-client-bytes", "impl-oracle", fmt.Sprintf("client wrote %d bytes, server read %d (%s)", sent, got, prob), c)
	}
}

// ---------------------------------------------------------------- seed search

func tableOfSeed(seedHex string) []int {
	s, err := drbg.SeedFromHex(seedHex)
	if err != nil {
		panic(err)
	}
	v, _, _, _ := probdist.VerifTables(probdist.New(s, 0, mss, false))
	return v
}

// findSeed draws seeds until pred(table) holds (at most budget tries).
func findSeed(rng *vlib.Rng, budget int, pred func([]int) bool) (string, int) {
	for i := 0; i < budget; i++ {
		h := hex.EncodeToString(rng.Bytes(24))
		if pred(tableOfSeed(h)) {
			return h, i + 1
		}
	}
	return "", budget
}

func containsZero(v []int) bool { return indexOf(v, 0) >= 0 }

func main() {
	r := vlib.NewRun("C09")
	r.Rule = "cases: (a) padBurst(buffered length, target) pairs — exhaustive 1448x1449 in the thorough tier, all boundary pairs + 20k random in quick; non-trivial = padding needed; (b) Write calls on real obfs4 connections (server side, client side before and after seed adoption, all three IAT modes on either side, both bias settings, server seeds searched to contain / not contain length 0) with the length samples steered through the rand tape; non-trivial = payload > 0 and, in paranoid mode, at least two Conn.Writes; (c) seed adoption per connection; distinct by canonical case text"
	r.Assumptions = []string{"time.Sleep durations (IAT delays) are drawn and recorded but not part of any theorem",
		"SHA-256 for the IAT seed is computed by the harness with crypto/sha256 and handed to the model"}
	if err := transports.Init(); err != nil {
		panic(err)
	}
	tape = vlib.InstallRandTape(r.Seed)
	reader = &limitReader{inner: tape}
	cryptRand.Reader = reader
	csrand.Reader = reader
	ds := r.Driver("shaping")
	defer ds.Close()
	dd := r.Driver("dist")
	defer dd.Close()
	r.Notes["model_is_post_fix"] = ds.Call("fixed")

	if r.ReplayIn != "" {
		var raw map[string]interface{}
		if err := r.LoadReplay(&raw); err != nil {
			panic(err)
		}
		switch raw["op"] {
		case "pad":
			var c padCase
			r.LoadReplay(&c)
			checkPad(r, ds, c, "")
		default:
			var c scenarioCase
			r.LoadReplay(&c)
			scenario(r, ds, dd, c)
		}
		r.Finish()
	}

	rng := vlib.NewRng(r.Seed)

	// ---- corpus: minimised past failures and the seeds of the recorded findings, first
	files, _ := filepath.Glob(filepath.Join(os.Getenv("VERIF_DIR"), "corpus", "C09", "*.json"))
	sort.Strings(files)
	for _, f := range files {
		b, err := os.ReadFile(f)
		if err != nil {
			continue
		}
		var doc struct {
			Case json.RawMessage `json:"case"`
		}
		var raw map[string]interface{}
		if json.Unmarshal(b, &doc) != nil || json.Unmarshal(doc.Case, &raw) != nil {
			continue
		}
		r.Count("corpus", filepath.Base(f))
		if raw["op"] == "pad" {
			var c padCase
			json.Unmarshal(doc.Case, &c)
			checkPad(r, ds, c, "")
		} else {
			var c scenarioCase
			json.Unmarshal(doc.Case, &c)
			scenario(r, ds, dd, c)
		}
	}

	// ---- (a) padBurst
	padAll(r, ds, rng.Fork())

	// ---- termination probes: paranoid Write on single-length tables found by a cheap search
	probeSingles(r, ds, dd, rng.Fork())

	// ---- (b), (c) connections
	srng := rng.Fork()
	nconn := r.Scale(108, 810)
	for i := 0; i < nconn; i++ {
		var seed string
		switch i % 3 {
		case 0:
			seed, _ = findSeed(srng, 5000, containsZero)
		case 1:
			seed, _ = findSeed(srng, 5000, func(v []int) bool { return !containsZero(v) && tableClass(v) == "normal" })
		default:
			seed = hex.EncodeToString(srng.Bytes(24))
		}
		if i == 0 {
			seed = "7ef48387434acfdfad39600095080bec6908f8757e299b8d" // the seed of DESIGN §5 F2
		}
		c := scenarioCase{Op: "conn", Seed: seed, SrvIat: (i / 3) % 3, CliIat: (i / 9) % 3, Biased: (i/27)%2 == 1, RngKey: srng.U64()}
		scenario(r, ds, dd, c)
		if abortedUnknown > 3 {
			r.Notes["stopped_early"] = "more than 3 Writes did not return; remaining connection scenarios skipped"
			break
		}
	}

	// ---- (d) a peer sends a PRNG-seed packet to the bridge: only the client adopts
	frng := rng.Fork()
	for i, n := 0, r.Scale(9, 60); i < n; i++ {
		seed, _ := findSeed(frng, 5000, func(v []int) bool { return tableClass(v) == "normal" })
		foreign, _ := findSeed(frng, 5000, func(v []int) bool { return tableClass(v) == "normal" })
		scenario(r, ds, dd, scenarioCase{Op: "foreign-seed", Seed: seed, Foreign: foreign, SrvIat: i % 3, CliIat: (i / 3) % 3, Biased: i%2 == 1, RngKey: frng.U64()})
	}

	// ---- (f) several live connections of one ClientFactory to bridges with different seeds
	mrng := rng.Fork()
	for i, n := 0, r.Scale(9, 54); i < n; i++ {
		k := 2 + i%2
		var seeds []string
		for j := 0; j < k; j++ {
			sd, _ := findSeed(mrng, 5000, func(v []int) bool { return tableClass(v) == "normal" })
			seeds = append(seeds, sd)
		}
		scenario(r, ds, dd, scenarioCase{Op: "multi-conn", Seeds: seeds, SrvIat: i % 3, CliIat: (i / 2) % 3, Biased: i%4 == 3, RngKey: mrng.U64()})
	}

	// ---- (g) the seed frame is processed while a paranoid burst of the client is in flight
	irng := rng.Fork()
	for i, n := 0, r.Scale(8, 60); i < n; i++ {
		seed, _ := findSeed(irng, 5000, func(v []int) bool { return tableClass(v) == "normal" && len(v) >= 10 })
		scenario(r, ds, dd, scenarioCase{Op: "reseed-inflight", Seed: seed, SrvIat: i % 3, CliIat: 2, Biased: i%2 == 1, RngKey: irng.U64() | 1,
			N: 6000 + 3000*(i%4), Packets: 1 + i%3})
	}

	// ---- (e) seed packets streaming in while the client writes (Reset vs Sample, truly concurrent)
	crng := rng.Fork()
	races, packets := 4, 300
	if r.Thorough() {
		races, packets = 12, 600
	}
	if r.Mode == "search" {
		races, packets = 40, 2000
	}
	seedA, _ := findSeed(crng, 5000, func(v []int) bool { return len(v) >= 80 })
	seedB, _ := findSeed(crng, 20000, func(v []int) bool { return len(v) <= 2 })
	for i := 0; i < races && seedA != "" && seedB != ""; i++ {
		mode := 0
		if (r.Thorough() || r.Mode == "search") && i%4 == 3 {
			mode = 1
		}
		seed, _ := findSeed(crng, 5000, func(v []int) bool { return tableClass(v) == "normal" })
		scenario(r, ds, dd, scenarioCase{Op: "reseed-race", Seed: seed, SeedA: seedA, SeedB: seedB, Packets: packets, SrvIat: 0, CliIat: mode, Biased: i%2 == 1, RngKey: crng.U64()})
		if r.NumViolations() > 0 && r.Mode != "search" {
			break
		}
	}
	r.Finish()
}

// probeSingles scans random seeds for length tables with a single non-zero length (1 % of
// seeds) and runs one capped paranoid Write on each: most terminate at once, some never do.
func probeSingles(r *vlib.Run, ds, dd *vlib.Driver, rng *vlib.Rng) {
	scan, maxProbes := r.Scale(600, 48000), r.Scale(6, 60)
	seeds := make([]string, scan)
	for i := range seeds {
		seeds[i] = hex.EncodeToString(rng.Bytes(24))
	}
	class := make([]string, scan)
	var wg sync.WaitGroup
	for w := 0; w < 16; w++ {
		wg.Add(1)
		go func(w int) {
			defer wg.Done()
			for i := w; i < scan; i += 16 {
				class[i] = tableClass(tableOfSeed(seeds[i]))
			}
		}(w)
	}
	wg.Wait()
	// order: tables predicted to cycle first (input selection only — the verdict is observed)
	type cand struct {
		i, n  int
		cycle bool
	}
	var cands []cand
	for i, cl := range class {
		r.Count("scanned-seed-table", cl)
		if cl != "single-length" && cl != "only-zero" {
			continue
		}
		c := cand{i: i, n: vlib.Pick(rng, []int{1, 2, 100, 1427, 3000})}
		if nz := nonZero(tableOfSeed(seeds[i])); len(nz) == 1 {
			v := nz[0]
			if rem := (mss + hdr) % v; rem != 0 && v-rem <= hdr {
				// a payload whose single frame leaves a remainder of v-1: the first padding needs two frames
				c.cycle, c.n = true, mod(v-1-hdr, v)
				if c.n == 0 {
					c.n = v
				}
			}
		}
		cands = append(cands, c)
	}
	sort.SliceStable(cands, func(a, b int) bool { return cands[a].cycle && !cands[b].cycle })
	for k, c := range cands {
		if k >= maxProbes {
			break
		}
		if c.cycle {
			r.Count("termination-probe", "single value predicted to cycle")
		} else {
			r.Count("termination-probe", "single value / only zero, other")
		}
		scenario(r, ds, dd, scenarioCase{Op: "write1", Seed: seeds[c.i], SrvIat: 2, CliIat: 0, RngKey: rng.U64(),
			Side: "server", N: c.n, Indices: make([]int, 50), Cap: 400})
	}
}

func padAll(r *vlib.Run, ds *vlib.Driver, rng *vlib.Rng) {
	if r.Thorough() {
		// all 1448 x 1449 pairs: implementation in parallel, model row by row
		type row struct {
			tail int
			impl []string
			fr   [][]int
			tot  []int
			errs []error
		}
		rows := make([]row, mss)
		var wg sync.WaitGroup
		sem := make(chan struct{}, 16)
		for tail := 0; tail < mss; tail++ {
			wg.Add(1)
			sem <- struct{}{}
			go func(tail int) {
				defer wg.Done()
				defer func() { <-sem }()
				rw := row{tail: tail}
				for t := 0; t <= mss; t++ {
					s, f, tot, err := implPad(tail, t)
					rw.impl = append(rw.impl, s)
					rw.fr = append(rw.fr, f)
					rw.tot = append(rw.tot, tot)
					rw.errs = append(rw.errs, err)
				}
				rows[tail] = rw
			}(tail)
		}
		wg.Wait()
		for tail := 0; tail < mss; tail++ {
			model := strings.Split(ds.Call("padrow %d", tail), ";")
			for t := 0; t <= mss; t++ {
				c := padCase{"pad", tail, t}
				need := mod(t-tail, mss)
				r.Case(fmt.Sprintf("pad|%d|%d", tail, t), need != 0)
				r.Validated(1)
				if sig, txt := padOracle(tail, t, rows[tail].fr[t], rows[tail].tot[t], rows[tail].errs[t]); sig != "" {
					r.Violate(sig, "impl-oracle", txt, c)
					continue
				}
				m := "missing"
				if t < len(model) {
					m = model[t]
				}
				if m != rows[tail].impl[t] {
					r.Violate("padburst-model-impl-disagree", "correspondence", fmt.Sprintf("padBurst(buffered %d, target %d): implementation %q, Lean model %q", tail, t, rows[tail].impl[t], m), c)
				}
			}
		}
		r.Exhaustive = true
		r.Notes["exhaustive_space"] = "padBurst: all (buffered tail 0..1447) x (target 0..1448) pairs"
		r.Count("padding-needed", "exhaustive 1448x1449")
	} else {
		// boundary pairs
		bt := []int{0, 1, 2, 20, 21, 22, 23, 42, 43, 100, 723, 724, 1404, 1405, 1406, 1407, 1425, 1426, 1427, 1428, 1446, 1447}
		bg := append(append([]int{}, bt...), 1448)
		for _, tail := range bt {
			for _, t := range bg {
				checkPad(r, ds, padCase{"pad", tail, t}, "")
			}
			// targets around the tail: needed padding -2..+24 and 1425..1447
			for dlt := -2; dlt <= 24; dlt++ {
				if t := tail + dlt; t >= 0 && t <= mss {
					checkPad(r, ds, padCase{"pad", tail, t}, "")
				}
				if t := mod(tail+dlt-24, mss); t <= mss {
					checkPad(r, ds, padCase{"pad", tail, t}, "")
				}
			}
		}
	}
	// random pairs, also with buffers longer than a segment
	for i, n := 0, r.Scale(20000, 60000); i < n; i++ {
		tail := rng.Intn(mss)
		switch rng.Intn(4) {
		case 0:
			tail = rng.Intn(70000)
		case 1:
			tail = mss*rng.Intn(4) + vlib.Pick(rng, []int{0, 1, 21, 22, 1427, 1447})
		}
		t := rng.Intn(mss + 1)
		if rng.Intn(3) == 0 {
			t = mod(tail+rng.Range(-3, 25), mss)
		}
		checkPad(r, ds, padCase{"pad", tail, t}, "")
	}
}
