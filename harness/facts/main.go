// facts: a small go/ast extractor. For every method of the listed package it emits
//   - whether the body is bracketed by `recv.Lock()` / `defer recv.Unlock()` (first two
//     statements, no other Unlock call), and
//   - the set of receiver fields it touches, transitively through calls to methods of the
//     same receiver,
//
// as Lean definitions (O4/Generated/Facts/<Mod>.lean). Theorems that rest on a structural
// assumption (mutex held across TestAndSet; reader and writer state disjoint) take the
// corresponding definition as a hypothesis discharged by `decide`, so a change of the
// source that breaks the assumption breaks the proof.
//
// usage: facts <package dir> <LeanModuleName>
package main

import (
	"fmt"
	"go/ast"
	"go/parser"
	"go/token"
	"os"
	"sort"
	"strings"
)

type method struct {
	callNames    map[string]bool // every call: "pkg.Func", "recv.method", "local.method", "func"
	recvType     string
	name         string
	locked       bool
	prelock      map[string]bool // fields touched before the Lock() statement
	prelockCalls map[string]bool // calls made in the statements before the Lock() statement
	fields       map[string]bool
	calls        map[string]bool
}

func recvInfo(fd *ast.FuncDecl) (ident, typ string) {
	if fd.Recv == nil || len(fd.Recv.List) == 0 {
		return "", ""
	}
	f := fd.Recv.List[0]
	if len(f.Names) > 0 {
		ident = f.Names[0].Name
	}
	t := f.Type
	if s, ok := t.(*ast.StarExpr); ok {
		t = s.X
	}
	if id, ok := t.(*ast.Ident); ok {
		typ = id.Name
	}
	return
}

func isCall(e ast.Expr, recv, name string) bool {
	c, ok := e.(*ast.CallExpr)
	if !ok {
		return false
	}
	s, ok := c.Fun.(*ast.SelectorExpr)
	if !ok || s.Sel.Name != name {
		return false
	}
	id, ok := s.X.(*ast.Ident)
	return ok && id.Name == recv
}

// collectCalls records the calls written below n as `f`, `x.f` / `pkg.F`, `sel.f`, `_.f`.
func collectCalls(n ast.Node, into map[string]bool) {
	ast.Inspect(n, func(n ast.Node) bool {
		if x, ok := n.(*ast.CallExpr); ok {
			switch f := x.Fun.(type) {
			case *ast.Ident:
				into[f.Name] = true
			case *ast.SelectorExpr:
				if id, ok := f.X.(*ast.Ident); ok {
					into[id.Name+"."+f.Sel.Name] = true
				} else if inner, ok := f.X.(*ast.SelectorExpr); ok {
					into[inner.Sel.Name+"."+f.Sel.Name] = true
				} else {
					into["_."+f.Sel.Name] = true
				}
			}
		}
		return true
	})
}

func main() {
	if len(os.Args) != 3 {
		fmt.Fprintln(os.Stderr, "usage: facts <package dir> <LeanModuleName>")
		os.Exit(2)
	}
	dir, mod := os.Args[1], os.Args[2]
	fset := token.NewFileSet()
	pkgs, err := parser.ParseDir(fset, dir, func(fi os.FileInfo) bool {
		return !strings.HasSuffix(fi.Name(), "_test.go") && !strings.HasPrefix(fi.Name(), "verif_hooks")
	}, 0)
	if err != nil {
		fmt.Fprintln(os.Stderr, err)
		os.Exit(1)
	}
	methods := map[string]*method{}
	for _, p := range pkgs {
		for _, f := range p.Files {
			for _, d := range f.Decls {
				fd, ok := d.(*ast.FuncDecl)
				if !ok || fd.Body == nil {
					continue
				}
				recv, typ := recvInfo(fd)
				if typ == "" {
					typ = "func" // plain function
				}
				m := &method{recvType: typ, name: fd.Name.Name, fields: map[string]bool{}, calls: map[string]bool{}, prelock: map[string]bool{}, callNames: map[string]bool{}, prelockCalls: map[string]bool{}}
				methods[typ+"."+fd.Name.Name] = m
				collectCalls(fd.Body, m.callNames)
				if recv == "" {
					continue
				}
				// lock bracket
				st := fd.Body.List
				for i := 0; i+1 < len(st); i++ {
					e0, ok0 := st[i].(*ast.ExprStmt)
					d1, ok1 := st[i+1].(*ast.DeferStmt)
					if ok0 && ok1 && isCall(e0.X, recv, "Lock") && isCall(d1.Call, recv, "Unlock") {
						m.locked = true
						for _, pre := range st[:i] {
							collectCalls(pre, m.prelockCalls)
							ast.Inspect(pre, func(n ast.Node) bool {
								if x, ok := n.(*ast.SelectorExpr); ok {
									if id, ok := x.X.(*ast.Ident); ok && id.Name == recv {
										m.prelock[x.Sel.Name] = true
									}
								}
								return true
							})
						}
						break
					}
				}
				unlocks := 0
				ast.Inspect(fd.Body, func(n ast.Node) bool {
					switch x := n.(type) {
					case *ast.CallExpr:
						if isCall(x, recv, "Unlock") {
							unlocks++
						}
						if s, ok := x.Fun.(*ast.SelectorExpr); ok {
							if id, ok := s.X.(*ast.Ident); ok && id.Name == recv {
								m.calls[s.Sel.Name] = true
							}
						}
					case *ast.SelectorExpr:
						if id, ok := x.X.(*ast.Ident); ok && id.Name == recv {
							m.fields[x.Sel.Name] = true
						}
					}
					return true
				})
				if unlocks != 1 {
					m.locked = false
				}
			}
		}
	}
	// package-level variables (file scope `var` declarations): shared mutable state candidates
	pkgVars := map[string]bool{}
	for _, pkg := range pkgs {
		for _, f := range pkg.Files {
			for _, d := range f.Decls {
				if gd, ok := d.(*ast.GenDecl); ok && gd.Tok == token.VAR {
					for _, sp := range gd.Specs {
						if vs, ok := sp.(*ast.ValueSpec); ok {
							for _, n := range vs.Names {
								if n.Name != "_" {
									pkgVars[n.Name] = true
								}
							}
						}
					}
				}
			}
		}
	}
	// transitive closure over same-receiver calls; selectors that are method names are not fields
	closure := func(m *method) []string {
		seen := map[string]bool{}
		out := map[string]bool{}
		var walk func(x *method)
		walk = func(x *method) {
			if seen[x.name] {
				return
			}
			seen[x.name] = true
			for f := range x.fields {
				if _, isMethod := methods[x.recvType+"."+f]; !isMethod && f != "Lock" && f != "Unlock" {
					out[f] = true
				}
			}
			for c := range x.calls {
				if y, ok := methods[x.recvType+"."+c]; ok {
					walk(y)
				}
			}
		}
		walk(m)
		var l []string
		for f := range out {
			l = append(l, f)
		}
		sort.Strings(l)
		return l
	}
	keys := make([]string, 0, len(methods))
	for k := range methods {
		keys = append(keys, k)
	}
	sort.Strings(keys)
	fmt.Printf("/-! GENERATED by /verif/check (harness/facts, go/ast) from %s. Do not edit. -/\n", dir[strings.LastIndex(dir, "/common/")+1:])
	fmt.Printf("namespace O4.Facts.%s\n\n", mod)
	for _, k := range keys {
		m := methods[k]
		id := m.recvType + "_" + m.name
		fmt.Printf("/-- `%s`: `recv.Lock(); defer recv.Unlock()` present, no other Unlock -/\ndef %s_locked : Bool := %v\n", k, id, m.locked)
		var pl []string
		for f := range m.prelock {
			pl = append(pl, fmt.Sprintf("%q", f))
		}
		sort.Strings(pl)
		fmt.Printf("/-- receiver fields `%s` touches before taking the lock -/\ndef %s_prelock : List String := [%s]\n", k, id, strings.Join(pl, ", "))
		var pc []string
		for c := range m.prelockCalls {
			pc = append(pc, fmt.Sprintf("%q", c))
		}
		sort.Strings(pc)
		fmt.Printf("/-- calls `%s` makes in the statements before it takes the lock -/\ndef %s_prelock_calls : List String := [%s]\n", k, id, strings.Join(pc, ", "))
		var q []string
		for _, f := range closure(m) {
			q = append(q, fmt.Sprintf("%q", f))
		}
		fmt.Printf("/-- receiver fields `%s` touches (transitively through its own methods) -/\ndef %s_fields : List String := [%s]\n", k, id, strings.Join(q, ", "))
		var cn []string
		for c := range m.callNames {
			cn = append(cn, fmt.Sprintf("%q", c))
		}
		sort.Strings(cn)
		fmt.Printf("/-- calls made directly in the body of `%s` (as written: `x.f`, `pkg.F`, `f`) -/\ndef %s_calls : List String := [%s]\n\n", k, id, strings.Join(cn, ", "))
	}
	var pv []string
	for v := range pkgVars {
		pv = append(pv, fmt.Sprintf("%q", v))
	}
	sort.Strings(pv)
	fmt.Printf("/-- package-level variables (file-scope `var` declarations of the non-test, non-hook files) -/\ndef pkg_vars : List String := [%s]\n\n", strings.Join(pv, ", "))
	fmt.Printf("end O4.Facts.%s\n", mod)
}
