// C07 — Elligator 2 key generation and decoding.
//
//	C  the Go code (x25519ell2 via the ntor hooks, Representative.ToPublic, curve25519, NewKeypair on a
//	   recorded random tape) against the Lean model (driver prim2), op by op;
//	S  the property's clauses evaluated directly on implementation outputs, with computations that do
//	   not come from the model: decode(repr) == pub; X25519(a, dirtyPub) == X25519(a, cleanPub) and the
//	   two-sided DH agreement; decoding ignores bits 254/255 and never panics; encoding copies them from
//	   the tweak; decoding equals a textbook Elligator 2 map written here with math/big; the generated
//	   keys hit all eight cosets (ℓ·EdwardsFlavor(repr) with filippo.io/edwards25519, as ntor_test does).
package main

import (
	"bytes"
	"crypto/rand"
	"crypto/sha512"
	"fmt"
	"math"
	"math/big"
	"strconv"
	"strings"
	"sync"

	"filippo.io/edwards25519"
	"filippo.io/edwards25519/field"
	"gitlab.com/yawning/edwards25519-extra/elligator2"
	"gitlab.com/yawning/obfs4.git/common/csrand"
	"gitlab.com/yawning/obfs4.git/common/ntor"
	"golang.org/x/crypto/curve25519"

	"verif/harness/vlib"
)

type kcase struct {
	Kind  string `json:"kind"` // keygen | decode | newkeypair
	Priv  string `json:"priv,omitempty"`
	Tweak int    `json:"tweak,omitempty"`
	Peer  string `json:"peer,omitempty"` // the other party's private key (keygen)
	Repr  string `json:"repr,omitempty"` // decode
	Tape  string `json:"tape,omitempty"` // newkeypair: the random bytes crypto/rand will deliver
	Ell   bool   `json:"ell,omitempty"`
	// outparam: a chain of key generations written into the SAME caller-supplied output arrays
	Fill  string  `json:"fill,omitempty"` // initial contents of the public-key and representative arrays (64 bytes hex)
	Chain []kstep `json:"chain,omitempty"`
	Tag   string  `json:"tag"`
}

type kstep struct {
	Priv  string `json:"priv"`
	Tweak int    `json:"tweak"`
}

var (
	p25519 = new(big.Int).Sub(new(big.Int).Lsh(big.NewInt(1), 255), big.NewInt(19))
	bigA   = big.NewInt(486662)
	two255 = new(big.Int).Lsh(big.NewInt(1), 255)
	two256 = new(big.Int).Lsh(big.NewInt(1), 256)
)

func bi(s string) *big.Int {
	n, ok := new(big.Int).SetString(s, 10)
	if !ok {
		panic(s)
	}
	return n
}

func le32(n *big.Int) []byte {
	m := new(big.Int).Mod(n, two256)
	b := m.FillBytes(make([]byte, 32))
	for i, j := 0, 31; i < j; i, j = i+1, j-1 {
		b[i], b[j] = b[j], b[i]
	}
	return b
}

func fromLE(b []byte) *big.Int {
	r := make([]byte, len(b))
	for i := range b {
		r[len(b)-1-i] = b[i]
	}
	return new(big.Int).SetBytes(r)
}

func arr32(b []byte) *[32]byte {
	var a [32]byte
	copy(a[:], b)
	return &a
}

// specMap: the Elligator 2 direct map for Curve25519 from the formula (non-square 2):
// w = −A/(1+2r²); u = w if w³+Aw²+w is a square, else −w−A.  r = the low 254 bits of the string.
func specMap(repr []byte) []byte {
	p := p25519
	r := fromLE(repr)
	r.Mod(r, new(big.Int).Lsh(big.NewInt(1), 254))
	den := new(big.Int).Mul(r, r)
	den.Lsh(den, 1).Add(den, big.NewInt(1)).Mod(den, p)
	w := new(big.Int).ModInverse(den, p)
	if w == nil { // 1+2r² = 0 cannot happen (−1/2 is a non-square); keep the oracle total
		w = big.NewInt(0)
	}
	w.Mul(w, bigA).Neg(w).Mod(w, p)
	f := new(big.Int).Mul(w, w)
	f.Mul(f, w)
	t := new(big.Int).Mul(w, w)
	t.Mul(t, bigA)
	f.Add(f, t).Add(f, w).Mod(f, p)
	if big.Jacobi(f, p) == -1 {
		w.Neg(w).Sub(w, bigA).Mod(w, p)
	}
	return le32(w)
}

var (
	scLm1   = mustScalar([]byte{236, 211, 245, 92, 26, 99, 18, 88, 214, 156, 247, 162, 222, 249, 222, 20, 0, 0, 0, 0, 0, 0, 0, 0, 0, 0, 0, 0, 0, 0, 0, 16})
	edIdent = edwards25519.NewIdentityPoint()
)

func mustScalar(b []byte) *edwards25519.Scalar {
	s, err := edwards25519.NewScalar().SetCanonicalBytes(b)
	if err != nil {
		panic(err)
	}
	return s
}

// cosetOf: ℓ·EdwardsFlavor(repr) as a compressed point (one of the eight 8-torsion points).
func cosetOf(repr []byte) string {
	cl := append([]byte(nil), repr...)
	cl[31] &= 63
	fe, err := new(field.Element).SetBytes(cl)
	if err != nil {
		panic(err)
	}
	ed := elligator2.EdwardsFlavor(fe)
	q := new(edwards25519.Point).ScalarMult(scLm1, ed)
	q.Add(q, ed)
	if new(edwards25519.Point).MultByCofactor(q).Equal(edIdent) != 1 {
		return "not-8-torsion"
	}
	return vlib.Hex(q.Bytes())
}

type cosets struct {
	mu   sync.Mutex
	seen map[string]int // all generated keys
	pop  map[string]int // keys from uniformly random private keys only (keygen "random"/"every-priv0", NewKeypair)
	// which of the two preimages the representative is: w = −A/(1+2r²) equal to the public key
	// (tweak bit 0 set) or not (clear); counted over NewKeypair outputs and random-tweak keygen cases
	branch map[string]int
}

func (c *cosets) add(k string, uniform bool) {
	c.mu.Lock()
	c.seen[k]++
	if uniform {
		c.pop[k]++
	}
	c.mu.Unlock()
}

// preimage tells which branch of the inverse map produced repr for pub.
func (c *cosets) preimage(pop string, pub, repr []byte) {
	p := p25519
	r := fromLE(repr)
	r.Mod(r, new(big.Int).Lsh(big.NewInt(1), 254))
	den := new(big.Int).Mul(r, r)
	den.Lsh(den, 1).Add(den, big.NewInt(1)).Mod(den, p)
	w := new(big.Int).ModInverse(den, p)
	if w == nil {
		return
	}
	w.Mul(w, bigA).Neg(w).Mod(w, p)
	k := pop + ":w!=u"
	if w.Cmp(new(big.Int).Mod(fromLE(pub), p)) == 0 {
		k = pop + ":w==u"
	}
	c.mu.Lock()
	c.branch[k]++
	c.mu.Unlock()
}

var tapeMu sync.Mutex // NewKeypair reads the process-wide crypto/rand.Reader

// ---------------------------------------------------------------- one case

func runKeygen(r *vlib.Run, d *vlib.Driver, c kcase, cs *cosets) {
	priv := vlib.UnHex(c.Priv)
	peer := vlib.UnHex(c.Peer)
	tweak := byte(c.Tweak)
	pub, repr, ok := ntor.VerifScalarBaseMult(arr32(priv), tweak)
	r.Case(fmt.Sprintf("keygen %s %d", c.Priv, c.Tweak), ok)
	r.Count("keygen", map[bool]string{true: "representative", false: "no-representative"}[ok])
	r.Count("keygen-low3", strconv.Itoa(int(priv[0]&7)))
	r.Count("keygen-class", c.Tag)

	// C: the model on the same input
	want := "none"
	if ok {
		want = vlib.Hex(pub[:]) + " " + vlib.Hex(repr[:])
	}
	got := d.Call("ell.sbm %s %d", c.Priv, c.Tweak)
	r.Validated(1)
	r.Sample(4, map[string]interface{}{"op": fmt.Sprintf("ell.sbm %s %d", c.Priv, c.Tweak), "impl": want, "model": got})
	if got != want {
		r.Violate("model-impl-disagree-keygen", "correspondence",
			fmt.Sprintf("ScalarBaseMult(%s, tweak %d): implementation %q, Lean model %q", c.Priv, c.Tweak, want, got), c)
	}
	if !ok {
		return
	}

	// S1: decoding the representative yields exactly the public key
	var rp ntor.Representative
	copy(rp[:], repr[:])
	dec := rp.ToPublic()
	if !bytes.Equal(dec[:], pub[:]) {
		r.Violate("roundtrip-decode-differs", "impl-oracle",
			fmt.Sprintf("priv %s tweak %d: public key %x but Representative(%x).ToPublic() = %x", c.Priv, c.Tweak, pub, repr, dec[:]), c)
	}
	// S2: DH with the dirty key agrees with standard X25519 on the clean key, and both sides agree
	var clean, peerPub, s1, s2, s3 [32]byte
	curve25519.ScalarBaseMult(&clean, arr32(priv))
	curve25519.ScalarBaseMult(&peerPub, arr32(peer))
	curve25519.ScalarMult(&s1, arr32(peer), &pub)     //nolint:staticcheck
	curve25519.ScalarMult(&s2, arr32(peer), &clean)   //nolint:staticcheck
	curve25519.ScalarMult(&s3, arr32(priv), &peerPub) //nolint:staticcheck
	if s1 != s2 || s1 != s3 {
		r.Violate("dh-differs-from-clean-key", "impl-oracle",
			fmt.Sprintf("priv %s peer %s: X25519(peer, dirtyPub)=%x, X25519(peer, cleanPub)=%x, X25519(priv, peerPub)=%x", c.Priv, c.Peer, s1, s2, s3), c)
	}
	if bytes.Equal(clean[:], pub[:]) {
		r.Count("keygen", "dirty-equals-clean")
	}
	// C for the ladder on the dirty key
	if g := d.Call("x25519 %s %s", c.Peer, vlib.Hex(pub[:])); g != vlib.Hex(s1[:]) {
		r.Violate("model-impl-disagree-x25519", "correspondence",
			fmt.Sprintf("x25519 %s %x: implementation %x, Lean model %s", c.Peer, pub, s1, g), c)
	}
	// S3: the two top bits of the representative are bits 6-7 of the tweak
	if repr[31]&0xc0 != tweak&0xc0 {
		r.Violate("encode-top-bits-not-from-tweak", "impl-oracle",
			fmt.Sprintf("priv %s tweak %#x: representative byte 31 = %#x", c.Priv, tweak, repr[31]), c)
	}
	// S4: the other value of tweak bit 0 selects the other preimage: a different representative of the same key
	pub2, repr2, ok2 := ntor.VerifScalarBaseMult(arr32(priv), tweak^1)
	if !ok2 || pub2 != pub {
		r.Violate("tweak-changes-public-key", "impl-oracle",
			fmt.Sprintf("priv %s: tweak %d gives %x, tweak %d gives ok=%v %x", c.Priv, tweak, pub, tweak^1, ok2, pub2), c)
	} else {
		a, b := repr, repr2
		a[31] &= 63
		b[31] &= 63
		if a == b {
			r.Violate("tweak-bit0-same-representative", "impl-oracle",
				fmt.Sprintf("priv %s: tweaks %d and %d give the same representative %x (only one of the two preimages is ever used)", c.Priv, tweak, tweak^1, a), c)
		}
		var rp2 ntor.Representative
		copy(rp2[:], repr2[:])
		if d2 := rp2.ToPublic(); !bytes.Equal(d2[:], pub[:]) {
			r.Violate("roundtrip-decode-differs", "impl-oracle",
				fmt.Sprintf("priv %s tweak %d: public key %x but Representative(%x).ToPublic() = %x", c.Priv, tweak^1, pub, repr2, d2[:]), c)
		}
	}
	// S5: coset of the generated key
	co := cosetOf(repr[:])
	uniform := c.Tag == "random" || c.Tag == "every-priv0"
	cs.add(co, uniform)
	if uniform {
		cs.preimage("keygen", pub[:], repr[:])
	}
	if co == "not-8-torsion" {
		r.Violate("generated-key-not-on-curve", "impl-oracle",
			fmt.Sprintf("priv %s: ℓ·EdwardsFlavor(%x) is not an 8-torsion point", c.Priv, repr), c)
	}
}

func runDecode(r *vlib.Run, d *vlib.Driver, c kcase) {
	repr := vlib.UnHex(c.Repr)
	r.Case("decode "+c.Repr, true)
	r.Count("decode-class", c.Tag)
	var outs [4][]byte
	for top := 0; top < 4; top++ {
		v := append([]byte(nil), repr...)
		v[31] = v[31]&63 | byte(top<<6)
		func() {
			defer func() {
				if e := recover(); e != nil {
					r.Violate("decode-panics", "impl-oracle", fmt.Sprintf("Representative(%x).ToPublic() panicked: %v", v, e), c)
				}
			}()
			var rp ntor.Representative
			copy(rp[:], v)
			outs[top] = append([]byte(nil), rp.ToPublic()[:]...)
		}()
	}
	// S: bits 254/255 are ignored
	for top := 1; top < 4; top++ {
		if !bytes.Equal(outs[top], outs[0]) {
			r.Violate("decode-depends-on-top-bits", "impl-oracle",
				fmt.Sprintf("representative %x: top bits 0 decode to %x, top bits %d decode to %x", repr, outs[0], top, outs[top]), c)
			break
		}
	}
	// S: equals the textbook map computed independently (math/big)
	var rp ntor.Representative
	copy(rp[:], repr)
	impl := rp.ToPublic()[:]
	if sp := specMap(repr); !bytes.Equal(sp, impl) {
		r.Violate("decode-differs-from-independent-elligator2", "impl-oracle",
			fmt.Sprintf("representative %x: ToPublic() = %x, textbook Elligator 2 = %x", repr, impl, sp), c)
	}
	// C: the model's transcription and the model's textbook map
	r.Validated(2)
	if g := d.Call("ell.r2p %s", c.Repr); g != vlib.Hex(impl) {
		r.Violate("model-impl-disagree-decode", "correspondence",
			fmt.Sprintf("ell.r2p %s: implementation %x, Lean model %s", c.Repr, impl, g), c)
	}
	if g := d.Call("ell.spec %s", c.Repr); g != vlib.Hex(impl) {
		r.Violate("model-spec-impl-disagree-decode", "correspondence",
			fmt.Sprintf("ell.spec %s: implementation %x, Lean textbook map %s", c.Repr, impl, g), c)
	}
	r.Sample(8, map[string]interface{}{"op": "ell.r2p " + c.Repr, "impl": vlib.Hex(impl)})
}

type tapeReader struct {
	b   []byte
	pos int
}

func (t *tapeReader) Read(p []byte) (int, error) {
	n := copy(p, t.b[t.pos:])
	t.pos += n
	if n < len(p) {
		return n, fmt.Errorf("tape exhausted")
	}
	return n, nil
}

func runNewKeypair(r *vlib.Run, d *vlib.Driver, c kcase, cs *cosets) {
	tape := vlib.UnHex(c.Tape)
	tapeMu.Lock()
	tr := &tapeReader{b: tape}
	oldR, oldC := rand.Reader, csrand.Reader
	rand.Reader, csrand.Reader = tr, tr
	kp, err := ntor.NewKeypair(c.Ell)
	rand.Reader, csrand.Reader = oldR, oldC
	tapeMu.Unlock()
	r.Case("newkeypair "+c.Tape[:16]+fmt.Sprint(c.Ell), true)
	r.Count("newkeypair", fmt.Sprintf("elligator=%v attempts=%d", c.Ell, tr.pos/32))
	if c.Tag != "tape" {
		r.Count("newkeypair-steered", c.Tag)
	}
	want := "exhausted"
	if err == nil {
		rs := "-"
		if kp.HasElligator() {
			rs = vlib.Hex(kp.Representative().Bytes()[:])
			// S: whatever the random stream delivered, a returned keypair is a genuine one: the public key
			// is the dirty base-mult of the returned private key (it has a representative), neither value
			// is all-zero, and DH with the returned public key agrees with the clean key of the private key
			priv := kp.Private().Bytes()
			dpub, _, dok := ntor.VerifScalarBaseMult(priv, kp.Representative().Bytes()[31])
			var clean, peer, peerPub, s1, s2, s3 [32]byte
			copy(peer[:], tape)
			peer[5] ^= 0x5a
			curve25519.ScalarBaseMult(&clean, priv)
			curve25519.ScalarBaseMult(&peerPub, &peer)
			curve25519.ScalarMult(&s1, &peer, kp.Public().Bytes()) //nolint:staticcheck
			curve25519.ScalarMult(&s2, &peer, &clean)              //nolint:staticcheck
			curve25519.ScalarMult(&s3, priv, &peerPub)             //nolint:staticcheck
			zero := [32]byte{}
			if !dok || dpub != *kp.Public().Bytes() || *kp.Public().Bytes() == zero || *kp.Representative().Bytes() == zero || s1 != s2 || s1 != s3 {
				r.Violate("newkeypair-returns-unusable-key", "impl-oracle",
					fmt.Sprintf("NewKeypair(true) after %d draws returned no error with private %x, public %x, representative %x: private key has a representative: %v, its dirty public key %x; X25519(peer, pub)=%x, X25519(peer, clean pub)=%x, X25519(priv, peer pub)=%x",
						tr.pos/32, priv[:], kp.Public().Bytes()[:], kp.Representative().Bytes()[:], dok, dpub, s1, s2, s3), c)
			}
			// S: the stored public key is the decoding of the stored representative
			if *kp.Representative().ToPublic() != *kp.Public() {
				r.Violate("newkeypair-repr-not-pub", "impl-oracle",
					fmt.Sprintf("NewKeypair(true) on tape %s: public %x, representative decodes to %x", c.Tape, kp.Public().Bytes()[:], kp.Representative().ToPublic().Bytes()[:]), c)
			}
			// S: the private key is the first half of SHA-512(random draw) and the two pad bits come
			// from the truncated-off half (digest byte 63), not from anything that is part of the key
			if tr.pos >= 32 {
				dg := sha512.Sum512(tape[tr.pos-32 : tr.pos])
				if !bytes.Equal(dg[:32], kp.Private().Bytes()[:]) || kp.Representative().Bytes()[31]&0xc0 != dg[63]&0xc0 {
					r.Violate("newkeypair-tweak-not-from-truncated-digest", "impl-oracle",
						fmt.Sprintf("NewKeypair(true): draw %x, SHA-512 = %x; private key %x, representative byte 31 = %#x (expected top bits %#x)",
							tape[tr.pos-32:tr.pos], dg, kp.Private().Bytes()[:], kp.Representative().Bytes()[31], dg[63]&0xc0), c)
				}
			}
			cs.add(cosetOf(kp.Representative().Bytes()[:]), c.Tag == "tape")
			if c.Tag == "tape" {
				cs.preimage("newkeypair", kp.Public().Bytes()[:], kp.Representative().Bytes()[:])
			}
		}
		want = fmt.Sprintf("%s %s %s %d", vlib.Hex(kp.Private().Bytes()[:]), vlib.Hex(kp.Public().Bytes()[:]), rs, tr.pos)
	}
	ell := "0"
	if c.Ell {
		ell = "1"
	}
	got := d.Call("ntor.newkeypair %s %s", ell, c.Tape)
	r.Validated(1)
	if got != want {
		r.Violate("model-impl-disagree-newkeypair", "correspondence",
			fmt.Sprintf("NewKeypair(%v) on tape %s…: implementation %q, Lean model %q", c.Ell, c.Tape[:32], want, got), c)
	}
}

// runOutParam — output independence of the out-parameter APIs. The Lean model's `scalarBaseMult` and
// `representativeToPublicKey` are pure functions of (private key, tweak) resp. the representative, so
// the model side needs nothing: whatever the caller's arrays held before the call, on success they must
// hold exactly the model's (public key, representative). For a candidate WITHOUT a representative the Go
// code returns false before writing anything (uToRepresentative returns early, ScalarBaseMult skips the
// copy of the public key): both arrays are left untouched — that is what is required here.
// The same is done for RepresentativeToPublicKey (also with publicKey aliasing representative) and for
// curve25519.ScalarMult into a reused array (ntor reuses one `exp` array for both DH results).
func runOutParam(r *vlib.Run, d *vlib.Driver, c kcase) {
	var pub, repr [32]byte
	fill := vlib.UnHex(c.Fill)
	copy(pub[:], fill[:32])
	copy(repr[:], fill[32:])
	r.Case(fmt.Sprintf("outparam %s %v", c.Fill, c.Chain), true)
	r.Count("outparam-fill", c.Tag)
	for i, st := range c.Chain {
		priv := arr32(vlib.UnHex(st.Priv))
		tweak := byte(st.Tweak)
		beforePub, beforeRepr := pub, repr
		ok := ntor.VerifScalarBaseMultInto(&pub, &repr, priv, tweak)
		where := fmt.Sprintf("call %d/%d of ScalarBaseMult(priv %s, tweak %d) into arrays holding pub=%x repr=%x", i+1, len(c.Chain), st.Priv, st.Tweak, beforePub, beforeRepr)
		model := d.Call("ell.sbm %s %d", st.Priv, st.Tweak)
		r.Validated(1)
		fpub, frepr, fok := ntor.VerifScalarBaseMult(priv, tweak) // fresh zeroed arrays
		r.Count("outparam-step", map[bool]string{true: "accepted", false: "rejected"}[ok])
		if ok != fok {
			r.Violate("keygen-depends-on-output-array", "impl-oracle", where+fmt.Sprintf(": returned %v, with fresh arrays %v", ok, fok), c)
			continue
		}
		if ok {
			got := vlib.Hex(pub[:]) + " " + vlib.Hex(repr[:])
			if pub != fpub || repr != frepr {
				r.Violate("keygen-depends-on-output-array", "impl-oracle",
					where+fmt.Sprintf(": result pub=%x repr=%x, with fresh zeroed arrays pub=%x repr=%x", pub, repr, fpub, frepr), c)
			}
			// S: the clauses of the property on what the caller now holds
			var rp ntor.Representative
			copy(rp[:], repr[:])
			if dec := rp.ToPublic(); *dec.Bytes() != pub {
				r.Violate("roundtrip-decode-differs", "impl-oracle", where+fmt.Sprintf(": public key %x but the representative %x decodes to %x", pub, repr, dec.Bytes()[:]), c)
			}
			if repr[31]&0xc0 != tweak&0xc0 {
				r.Violate("encode-top-bits-not-from-tweak", "impl-oracle", where+fmt.Sprintf(": representative byte 31 = %#x for tweak %#x", repr[31], tweak), c)
			}
			if model != got {
				r.Violate("model-impl-disagree-keygen", "correspondence", where+fmt.Sprintf(": implementation %q, Lean model %q", got, model), c)
			}
		} else {
			if model != "none" {
				r.Violate("model-impl-disagree-keygen", "correspondence", where+fmt.Sprintf(": implementation reports no representative, Lean model %q", model), c)
			}
			if pub != beforePub || repr != beforeRepr {
				r.Violate("rejected-candidate-modifies-output", "correspondence",
					where+fmt.Sprintf(": no representative, yet the arrays now hold pub=%x repr=%x (the code under test returns before writing)", pub, repr), c)
			}
		}
		// RepresentativeToPublicKey into a pre-filled array, and with publicKey aliasing representative
		src := repr
		if !ok {
			copy(src[:], vlib.UnHex(st.Priv)) // any string decodes
		}
		want := ntor.VerifRepresentativeToPublic(&src)
		out := beforeRepr // arbitrary prior contents
		srcCopy := src
		ntor.VerifRepresentativeToPublicInto(&out, &srcCopy)
		alias := src
		ntor.VerifRepresentativeToPublicInto(&alias, &alias)
		if out != want || alias != want || srcCopy != src {
			r.Violate("decode-depends-on-output-array", "impl-oracle",
				fmt.Sprintf("RepresentativeToPublicKey(%x): fresh array %x, pre-filled array %x, output aliasing the input %x, input afterwards %x", src, want, out, alias, srcCopy), c)
		}
		if m := d.Call("ell.r2p %s", vlib.Hex(src[:])); m != vlib.Hex(want[:]) {
			r.Violate("model-impl-disagree-decode", "correspondence", fmt.Sprintf("ell.r2p %x: implementation %x, Lean model %s", src, want, m), c)
		}
		// curve25519.ScalarMult / ScalarBaseMult into a reused destination
		dst := beforePub
		var fresh, fresh2 [32]byte
		curve25519.ScalarMult(&dst, priv, &src)   //nolint:staticcheck
		curve25519.ScalarMult(&fresh, priv, &src) //nolint:staticcheck
		dst2 := dst
		curve25519.ScalarBaseMult(&dst2, priv)
		curve25519.ScalarBaseMult(&fresh2, priv)
		if dst != fresh || dst2 != fresh2 {
			r.Violate("x25519-depends-on-output-array", "impl-oracle", fmt.Sprintf("curve25519.ScalarMult/ScalarBaseMult(%s, %x) into a reused array: %x/%x, fresh %x/%x", st.Priv, src, dst, dst2, fresh, fresh2), c)
		}
	}
}

func runCase(r *vlib.Run, d *vlib.Driver, c kcase, cs *cosets) {
	switch c.Kind {
	case "keygen":
		runKeygen(r, d, c, cs)
	case "decode":
		runDecode(r, d, c)
	case "newkeypair":
		runNewKeypair(r, d, c, cs)
	case "outparam":
		runOutParam(r, d, c)
	}
}

// ---------------------------------------------------------------- generators

func structured32() (vals [][]byte, tags []string) {
	add := func(n *big.Int, tag string) {
		vals = append(vals, le32(n))
		tags = append(tags, tag)
	}
	p := p25519
	sub := func(a *big.Int, k int64) *big.Int { return new(big.Int).Sub(a, big.NewInt(k)) }
	plus := func(a *big.Int, k int64) *big.Int { return new(big.Int).Add(a, big.NewInt(k)) }
	two254 := new(big.Int).Lsh(big.NewInt(1), 254)
	half := new(big.Int).Rsh(sub(p, 1), 1)
	for _, l := range []*big.Int{big.NewInt(0), big.NewInt(1),
		bi("325606250916557431795983626356110631294008115727848805560023387167927233504"),
		bi("39382357235489614581723060781553021112529911719440698176882885853963445705823"),
		sub(p, 1), p, plus(p, 1)} {
		add(l, "low-order-u")
		add(new(big.Int).Add(l, two255), "low-order-u|2^255")
	}
	for _, e := range []*big.Int{big.NewInt(2), big.NewInt(9), bigA, sub(p, 486662), sub(p, 2),
		sub(two254, 1), two254, plus(two254, 1), sub(two254, 19), sub(two254, 20), sub(two255, 1), two255, sub(two256, 1),
		half, plus(half, 1), sub(half, 1), new(big.Int).Add(half, two254), sub(two255, 20), sub(two255, 19)} {
		add(e, "edge")
	}
	for i := 0; i < 256; i++ {
		add(new(big.Int).Lsh(big.NewInt(1), uint(i)), "single-bit")
	}
	for i := 0; i < 256; i += 5 {
		add(new(big.Int).Sub(sub(two256, 1), new(big.Int).Lsh(big.NewInt(1), uint(i))), "single-zero-bit")
	}
	return
}

func perm(rng *vlib.Rng, n int) []int {
	p := make([]int, n)
	for i := range p {
		p[i] = i
	}
	for i := n - 1; i > 0; i-- {
		j := rng.Intn(i + 1)
		p[i], p[j] = p[j], p[i]
	}
	return p
}

func generate(r *vlib.Run) []kcase {
	rng := vlib.NewRng(r.Seed)
	var cs []kcase
	h := vlib.Hex
	svals, stags := structured32()

	// key generation: every tweak for keys that have a representative; every value of privateKey[0]
	// for several tails; structured keys; random keys × random tweaks
	nFixed := 0
	for nFixed < 2 {
		k := rng.Bytes(32)
		if _, _, ok := ntor.VerifScalarBaseMult(arr32(k), 0); !ok {
			continue
		}
		nFixed++
		peer := rng.Bytes(32)
		for t := 0; t < 256; t++ {
			cs = append(cs, kcase{Kind: "keygen", Priv: h(k), Tweak: t, Peer: h(peer), Tag: "every-tweak"})
		}
	}
	for j := 0; j < r.Scale(4, 60); j++ {
		tail := rng.Bytes(32)
		for b0 := 0; b0 < 256; b0++ {
			k := append([]byte(nil), tail...)
			k[0] = byte(b0)
			cs = append(cs, kcase{Kind: "keygen", Priv: h(k), Tweak: rng.Intn(256), Peer: h(rng.Bytes(32)), Tag: "every-priv0"})
		}
	}
	for i, k := range svals {
		cs = append(cs, kcase{Kind: "keygen", Priv: h(k), Tweak: rng.Intn(256), Peer: h(rng.Bytes(32)), Tag: "key-" + stags[i]})
	}
	for i := 0; i < r.Scale(2500, 50000); i++ {
		cs = append(cs, kcase{Kind: "keygen", Priv: h(rng.Bytes(32)), Tweak: rng.Intn(256), Peer: h(rng.Bytes(32)), Tag: "random"})
	}
	// peers with structured private keys (clamping) for one good key
	{
		var k []byte
		for {
			k = rng.Bytes(32)
			if _, _, ok := ntor.VerifScalarBaseMult(arr32(k), 7); ok {
				break
			}
		}
		for i := 0; i < len(svals); i += 3 {
			cs = append(cs, kcase{Kind: "keygen", Priv: h(k), Tweak: 7, Peer: h(svals[i]), Tag: "peer-" + stags[i]})
		}
	}

	// decoding: structured strings, random strings
	for i, v := range svals {
		cs = append(cs, kcase{Kind: "decode", Repr: h(v), Tag: stags[i]})
	}
	for i := 0; i < r.Scale(5000, 100000); i++ {
		cs = append(cs, kcase{Kind: "decode", Repr: h(rng.Bytes(32)), Tag: "random"})
	}

	// NewKeypair on recorded tapes
	for i := 0; i < r.Scale(300, 6000); i++ {
		cs = append(cs, kcase{Kind: "newkeypair", Tape: h(rng.Bytes(32 * 40)), Ell: i%5 != 0, Tag: "tape"})
	}
	cs = append(cs, kcase{Kind: "newkeypair", Tape: h(rng.Bytes(31)), Ell: true, Tag: "short-tape"})

	// output independence: chains of key generations (accepted and rejected candidates mixed) written into
	// the same caller-supplied arrays, which start out as 0x00 / 0xff / random / a previous output
	{
		var acc, rej []kstep
		for len(acc) < 120 || len(rej) < 120 {
			k, t := rng.Bytes(32), rng.Intn(256)
			if _, _, ok := ntor.VerifScalarBaseMult(arr32(k), byte(t)); ok {
				acc = append(acc, kstep{h(k), t})
			} else {
				rej = append(rej, kstep{h(k), t})
			}
		}
		for i := 0; i < r.Scale(160, 3000); i++ {
			c := kcase{Kind: "outparam"}
			switch i % 4 {
			case 0:
				c.Fill, c.Tag = h(make([]byte, 64)), "zero"
			case 1:
				c.Fill, c.Tag = h(bytes.Repeat([]byte{0xff}, 64)), "0xff"
			case 2:
				c.Fill, c.Tag = h(rng.Bytes(64)), "random"
			case 3:
				p, rp, _ := ntor.VerifScalarBaseMult(arr32(vlib.UnHex(acc[rng.Intn(len(acc))].Priv)), byte(rng.Intn(256)))
				c.Fill, c.Tag = h(append(p[:], rp[:]...)), "previous-output"
			}
			for j, n := 0, rng.Range(2, 6); j < n; j++ {
				if rng.Intn(3) == 0 {
					c.Chain = append(c.Chain, rej[rng.Intn(len(rej))])
				} else {
					st := acc[rng.Intn(len(acc))]
					st.Tweak = rng.Intn(256) // acceptance does not depend on the tweak; vary preimage choice and pad bits
					c.Chain = append(c.Chain, st)
				}
			}
			cs = append(cs, c)
		}
	}

	// steered tapes: k draws whose SHA-512-derived key has NO representative, then one that has — the
	// rejection loop must keep drawing however long the run of rejections is (judged with the real code)
	var rejected, accepted [][]byte
	for len(rejected) < 260 || len(accepted) < 40 {
		blk := rng.Bytes(32)
		dg := sha512.Sum512(blk)
		if _, _, ok := ntor.VerifScalarBaseMult(arr32(dg[:32]), dg[63]); ok {
			accepted = append(accepted, blk)
		} else {
			rejected = append(rejected, blk)
		}
	}
	for _, k := range []int{0, 1, 2, 5, 63, 64, 65, 100, 200} {
		for j := 0; j < r.Scale(3, 20); j++ {
			var tape []byte
			for _, ix := range perm(rng, len(rejected))[:k] {
				tape = append(tape, rejected[ix]...)
			}
			tape = append(tape, accepted[rng.Intn(len(accepted))]...)
			tape = append(tape, rng.Bytes(64)...)
			cs = append(cs, kcase{Kind: "newkeypair", Tape: h(tape), Ell: true, Tag: fmt.Sprintf("rejections=%d", k)})
		}
	}
	// only rejected draws: the tape runs out, NewKeypair must report the error, not a keypair
	{
		var tape []byte
		for _, ix := range perm(rng, len(rejected))[:70] {
			tape = append(tape, rejected[ix]...)
		}
		cs = append(cs, kcase{Kind: "newkeypair", Tape: h(tape), Ell: true, Tag: "rejections-only"})
	}
	return cs
}

func main() {
	r := vlib.NewRun("C07")
	r.Rule = "cases: keygen (private key, tweak, peer key), outparam (2-6 key generations, accepted and rejected, written into the same caller-supplied output arrays pre-filled with 0x00/0xff/random bytes/a previous output; also RepresentativeToPublicKey and curve25519 into reused arrays), decode (32-byte string, all four settings of bits 254/255), newkeypair (random tape); non-trivial = keygen that returns a representative (round trip, DH and top-bit clauses evaluated), every decode case, every NewKeypair run; distinct by canonical case text"
	r.Assumptions = []string{
		"the Edwards group law and the Montgomery ladder of the libraries are modelled, not verified (the generated u-coordinate being on the curve is a hypothesis of the round-trip theorem; sampled here)",
		"constant-time behaviour is out of scope"}
	nw := 8
	drivers := make([]*vlib.Driver, nw)
	for i := range drivers {
		drivers[i] = r.Driver("prim2")
		defer drivers[i].Close()
	}
	cs := &cosets{seen: map[string]int{}, pop: map[string]int{}, branch: map[string]int{}}

	if r.ReplayIn != "" {
		var c kcase
		if err := r.LoadReplay(&c); err != nil {
			panic(err)
		}
		if c.Kind == "coverage" {
			// re-run the generator: the coverage clause is about the whole population
			runAll(r, drivers, generate(r), cs)
			coverage(r, cs)
		} else {
			runCase(r, drivers[0], c, cs)
		}
		r.Finish()
	}

	runAll(r, drivers, generate(r), cs)
	coverage(r, cs)
	r.Finish()
}

func runAll(r *vlib.Run, drivers []*vlib.Driver, cases []kcase, cs *cosets) {
	next := make(chan int, len(cases))
	for i := range cases {
		next <- i
	}
	close(next)
	var wg sync.WaitGroup
	for _, d := range drivers {
		wg.Add(1)
		go func(d *vlib.Driver) {
			defer wg.Done()
			for i := range next {
				runCase(r, d, cases[i], cs)
			}
		}(d)
	}
	wg.Wait()
}

// coverage: generated public keys fall in all eight cosets of the prime-order subgroup — and, for
// uniformly random private keys, evenly (each count within 6 standard deviations of n/8; the chance
// of a false alarm is below 2e-8 per run); both preimages of the inverse map are used (tweak bit 0).
func coverage(r *vlib.Run, cs *cosets) {
	names := map[string]string{}
	total := 0
	for k, n := range cs.seen {
		names[k] = strconv.Itoa(n)
		total += n
	}
	r.Notes["cosets_seen"] = names
	r.Notes["cosets_seen_uniform_keys"] = cs.pop
	r.Notes["preimage_branch"] = cs.branch
	distinct := 0
	for k := range cs.seen {
		if !strings.HasPrefix(k, "not-") {
			distinct++
		}
	}
	if total >= 300 && distinct != 8 {
		r.Violate("coset-not-covered", "impl-oracle",
			fmt.Sprintf("%d generated keys fall in only %d of the 8 cosets of the prime-order subgroup: %v", total, distinct, names),
			kcase{Kind: "coverage", Tag: "coverage"})
	}
	n := 0
	for _, v := range cs.pop {
		n += v
	}
	if n >= 800 {
		mean := float64(n) / 8
		dev := 6 * math.Sqrt(float64(n)*7/64)
		for k, v := range cs.pop {
			if math.Abs(float64(v)-mean) > dev {
				r.Violate("coset-distribution-skewed", "impl-oracle",
					fmt.Sprintf("of %d keys generated from uniformly random private keys %d fall in the coset of %s (expected %.0f ± %.0f): %v", n, v, k, mean, dev, cs.pop),
					kcase{Kind: "coverage", Tag: "coverage"})
				break
			}
		}
	}
	for _, pop := range []string{"keygen", "newkeypair"} {
		a, b := cs.branch[pop+":w==u"], cs.branch[pop+":w!=u"]
		m := a + b
		if m >= 150 {
			dev := 6 * math.Sqrt(float64(m)/4)
			if math.Abs(float64(a)-float64(m)/2) > dev {
				r.Violate("one-preimage-preferred", "impl-oracle",
					fmt.Sprintf("%s: of %d representatives %d are the preimage with w = u and %d the one with w = −u−A (expected %d ± %.0f each): tweak bit 0 does not select evenly", pop, m, a, b, m/2, dev),
					kcase{Kind: "coverage", Tag: "coverage"})
			}
		}
	}
}
