// Package o4h: shared Go-side helpers for the obfs4 handshake / wire-format checks (C06, C02):
// identities and bridge lines, real endpoints on scripted in-memory conns with the shared
// random tape, typed wrappers around the Lean reference driver `o4ref`, chunkers.
package o4h

import (
	"encoding/base64"
	"encoding/binary"
	"encoding/hex"
	"fmt"
	"io"
	"net"
	"os"
	"strconv"
	"strings"
	"sync"
	"time"

	pt "gitlab.torproject.org/tpo/anti-censorship/pluggable-transports/goptlib"

	"gitlab.com/yawning/obfs4.git/common/csrand"
	"gitlab.com/yawning/obfs4.git/common/ntor"
	"gitlab.com/yawning/obfs4.git/transports/base"
	"gitlab.com/yawning/obfs4.git/transports/obfs4"

	"verif/harness/vlib"
)

// ---------------------------------------------------------------- randomness and time

// Tape is the process-wide replacement of crypto/rand.Reader.
var Tape *vlib.RandTape

// InstallTape (re)installs a deterministic tape for one case.
func InstallTape(seed uint64) *vlib.RandTape {
	Tape = vlib.InstallRandTape(seed)
	csrand.Reader = Tape
	return Tape
}

// Hour is getEpochHour() as the code computes it.
func Hour() int64 { return time.Now().Unix() / 3600 }

// GoodKeySeed returns 32 bytes on which ntor.NewKeypair(true) succeeds at the first attempt
// (found by running the real function with the bytes steered in).
func GoodKeySeed(rng *vlib.Rng) []byte {
	for {
		cand := rng.Bytes(32)
		Tape.Steer = append([]byte(nil), cand...)
		m := Tape.Mark()
		if _, err := ntor.NewKeypair(true); err != nil {
			panic(err)
		}
		Tape.Steer = nil
		if Tape.Mark()-m == 32 {
			return cand
		}
	}
}

// IntRangeSteer returns the 8 tape bytes that make csrand.IntRange(min,max) return min+v.
func IntRangeSteer(v int) []byte {
	var b [8]byte
	binary.BigEndian.PutUint64(b[:], uint64(v)<<32)
	return b[:]
}

// ---------------------------------------------------------------- identities

type Identity struct {
	NodeID  []byte `json:"node_id"`
	Priv    []byte `json:"priv"`
	Pub     []byte `json:"pub"`
	LenSeed []byte `json:"len_seed"`
	Iat     int    `json:"iat"`
}

func NewIdentity(rng *vlib.Rng, iat int) Identity {
	priv := rng.Bytes(32)
	kp, err := ntor.KeypairFromHex(hex.EncodeToString(priv))
	if err != nil {
		panic(err)
	}
	return Identity{NodeID: rng.Bytes(20), Priv: priv, Pub: append([]byte(nil), kp.Public().Bytes()[:]...),
		LenSeed: rng.Bytes(24), Iat: iat}
}

var stateDir string

func StateDir() string {
	if stateDir == "" {
		d, err := os.MkdirTemp("", "o4h-state-")
		if err != nil {
			panic(err)
		}
		stateDir = d
	}
	return stateDir
}

// ServerFactory builds the real server factory for the identity (public API only).
func (id Identity) ServerFactory() base.ServerFactory {
	args := pt.Args{}
	args.Add("node-id", hex.EncodeToString(id.NodeID))
	args.Add("private-key", hex.EncodeToString(id.Priv))
	args.Add("drbg-seed", hex.EncodeToString(id.LenSeed))
	args.Add("iat-mode", strconv.Itoa(id.Iat))
	sf, err := (&obfs4.Transport{}).ServerFactory(StateDir(), &args)
	if err != nil {
		panic(err)
	}
	return sf
}

// Cert is the harness's own rendering of the cert= argument.
func (id Identity) Cert() string {
	raw := append(append([]byte(nil), id.NodeID...), id.Pub...)
	return strings.TrimSuffix(base64.StdEncoding.EncodeToString(raw), "==")
}

// ClientArgs builds the bridge-line arguments in the new ("cert") or legacy format.
func (id Identity) ClientArgs(format string, iat int) *pt.Args {
	a := pt.Args{}
	if format == "cert" {
		a.Add("cert", id.Cert())
	} else {
		a.Add("node-id", hex.EncodeToString(id.NodeID))
		a.Add("public-key", hex.EncodeToString(id.Pub))
	}
	a.Add("iat-mode", strconv.Itoa(iat))
	return &a
}

func ClientFactory() base.ClientFactory {
	cf, err := (&obfs4.Transport{}).ClientFactory("")
	if err != nil {
		panic(err)
	}
	return cf
}

// ---------------------------------------------------------------- real endpoints on scripted conns

// Endpoint is a real obfs4 endpoint whose handshake call (Dial / WrapConn) runs on a ScriptConn.
type Endpoint struct {
	Conn *vlib.ScriptConn
	Op   *vlib.Op
	mu   sync.Mutex
	c    net.Conn
	err  error
}

func (e *Endpoint) Result() (net.Conn, error) {
	e.mu.Lock()
	defer e.mu.Unlock()
	return e.c, e.err
}

// StartDial runs cf.Dial on a fresh ScriptConn; returns once the call finished or is blocked in Read.
func StartDial(cf base.ClientFactory, args interface{}) (*Endpoint, bool) {
	e := &Endpoint{Conn: vlib.NewScriptConn()}
	e.Op = e.Conn.Start(func() {
		c, err := cf.Dial("tcp", "192.0.2.1:443", func(string, string) (net.Conn, error) { return e.Conn, nil }, args)
		e.mu.Lock()
		e.c, e.err = c, err
		e.mu.Unlock()
	})
	return e, e.Conn.Wait(e.Op)
}

// StartWrap runs sf.WrapConn on a fresh ScriptConn.
func StartWrap(sf base.ServerFactory) (*Endpoint, bool) {
	e := &Endpoint{Conn: vlib.NewScriptConn()}
	e.Op = e.Conn.Start(func() {
		c, err := sf.WrapConn(e.Conn)
		e.mu.Lock()
		e.c, e.err = c, err
		e.mu.Unlock()
	})
	return e, e.Conn.Wait(e.Op)
}

// WriteRes is what one Write on a live obfs4 conn did on the wire.
type WriteRes struct {
	Segs  [][]byte
	N     int
	Err   error
	Panic interface{}
	Stuck bool
}

func (w WriteRes) Wire() []byte {
	var out []byte
	for _, s := range w.Segs {
		out = append(out, s...)
	}
	return out
}

// WriteOn performs c.Write(p) (which may sleep in the IAT modes) and collects the segments.
// If the call has not returned after limit, the underlying conn is closed (so that the call
// ends and stops drawing random bytes) and Stuck is reported.
func WriteOn(sc *vlib.ScriptConn, c net.Conn, p []byte, limit time.Duration) WriteRes {
	var res WriteRes
	op := sc.Start(func() { res.N, res.Err = c.Write(p) })
	fin, _ := sc.WaitT(op, limit)
	if !fin {
		sc.Close()
		sc.WaitT(op, 30*time.Second)
		return WriteRes{Stuck: true, Segs: sc.TakeWrites()}
	}
	res.Panic = op.Panic
	res.Segs = sc.TakeWrites()
	return res
}

// ReadN tries to read exactly n application bytes; blocked = the endpoint sits in Read on an
// empty wire before n bytes were delivered (observed, not timed out).
func ReadN(sc *vlib.ScriptConn, c net.Conn, n int) (data []byte, blocked bool, err error) {
	buf := make([]byte, n)
	var mu sync.Mutex
	off := 0
	var rerr error
	op := sc.Start(func() {
		for {
			mu.Lock()
			o := off
			mu.Unlock()
			if o >= n {
				return
			}
			k, e := c.Read(buf[o:])
			mu.Lock()
			off += k
			if e != nil {
				rerr = e
			}
			mu.Unlock()
			if e != nil {
				return
			}
		}
	})
	fin := sc.Wait(op)
	mu.Lock()
	defer mu.Unlock()
	return append([]byte(nil), buf[:off]...), !fin, rerr
}

// TryRead reports whether any application byte (or an error) can be obtained from c without
// further network input: (n>0) readable bytes / err / blocked.
func TryRead(sc *vlib.ScriptConn, c net.Conn) (n int, blocked bool, err error) {
	buf := make([]byte, 4096)
	var rn int
	var rerr error
	op := sc.Start(func() { rn, rerr = c.Read(buf) })
	fin := sc.Wait(op)
	if !fin {
		// end the blocked call before returning so that it cannot draw random bytes later
		sc.Close()
		sc.WaitT(op, 10*time.Second)
		return 0, true, nil
	}
	return rn, false, rerr
}

// ---------------------------------------------------------------- chunkers

var ChunkClasses = []string{"whole", "random", "mss", "two", "bounds", "bytes1"}

// Chunks splits a length-n byte string into chunk sizes (each ≤ 8192, the handshake read size).
// marks are interesting offsets (field boundaries) for the "bounds" class.
func Chunks(rng *vlib.Rng, class string, n int, marks []int) []int {
	var cuts []int
	switch class {
	case "whole":
	case "mss":
		for o := 1448; o < n; o += 1448 {
			cuts = append(cuts, o)
		}
	case "two":
		if n > 1 {
			cuts = append(cuts, rng.Range(1, n-1))
		}
	case "bytes1":
		if n <= 400 {
			for o := 1; o < n; o++ {
				cuts = append(cuts, o)
			}
		} else { // byte-wise around the marks only
			for _, m := range marks {
				for o := m - 3; o <= m+3; o++ {
					cuts = append(cuts, o)
				}
			}
		}
	case "bounds":
		for _, m := range marks {
			cuts = append(cuts, m-1, m, m+1)
		}
	default: // random
		k := rng.Range(1, 6)
		for i := 0; i < k && n > 1; i++ {
			cuts = append(cuts, rng.Range(1, n-1))
		}
	}
	// normalise: sorted, unique, inside (0,n), pieces ≤ 8192
	seen := map[int]bool{}
	var cs []int
	for _, c := range cuts {
		if c > 0 && c < n && !seen[c] {
			seen[c] = true
			cs = append(cs, c)
		}
	}
	for i := 1; i < len(cs); i++ {
		for j := i; j > 0 && cs[j] < cs[j-1]; j-- {
			cs[j], cs[j-1] = cs[j-1], cs[j]
		}
	}
	var sizes []int
	prev := 0
	for _, c := range append(cs, n) {
		for c-prev > 8192 {
			sizes = append(sizes, 8192)
			prev += 8192
		}
		if c > prev {
			sizes = append(sizes, c-prev)
			prev = c
		}
	}
	return sizes
}

// Split cuts data at the sizes.
func Split(data []byte, sizes []int) [][]byte {
	var out [][]byte
	for _, s := range sizes {
		if s > len(data) {
			s = len(data)
		}
		if s > 0 {
			out = append(out, data[:s])
			data = data[s:]
		}
	}
	if len(data) > 0 {
		out = append(out, data)
	}
	return out
}

// ---------------------------------------------------------------- the Lean reference driver

type Ref struct {
	D   *vlib.Driver
	seq int
	Log []string
}

func (r *Ref) Fresh(prefix string) string {
	r.seq++
	return fmt.Sprintf("%s%d", prefix, r.seq)
}

func (r *Ref) call(format string, a ...interface{}) []string {
	line := fmt.Sprintf(format, a...)
	rep := r.D.Call("%s", line)
	if len(line) > 160 {
		line = line[:160] + "…"
	}
	short := rep
	if len(short) > 160 {
		short = short[:160] + "…"
	}
	r.Log = append(r.Log, line+" -> "+short)
	if len(r.Log) > 40 {
		r.Log = r.Log[len(r.Log)-40:]
	}
	return strings.Fields(rep)
}

// HsRep is the reply of a handshake op: Class is "ok", "need" or the failure class.
type HsRep struct {
	Class string
	Data  []byte // blob / response‖seed frame
	Used  int    // tape bytes used
	N     int    // padLen (new), surplus length (cli.feed), response length (srv.feed)
	Raw   string
}

func atoi(s string) int { v, _ := strconv.Atoi(s); return v }

func hsRep(f []string) HsRep {
	raw := strings.Join(f, " ")
	if len(raw) > 200 {
		raw = raw[:200]
	}
	switch {
	case len(f) == 0:
		return HsRep{Class: "driver-error", Raw: raw}
	case f[0] == "need":
		return HsRep{Class: "need", Raw: raw}
	case f[0] == "fail" && len(f) >= 2:
		return HsRep{Class: f[1], Raw: raw}
	case f[0] == "ok":
		return HsRep{Class: "ok", Raw: raw}
	}
	return HsRep{Class: "driver-error:" + f[0], Raw: raw}
}

func (r *Ref) CliNew(s string, nodeID, idPub, tape []byte, hour int64) HsRep {
	f := r.call("cli.new %s %s %s %s %d", s, vlib.Hex(nodeID), vlib.Hex(idPub), vlib.Hex(tape), hour)
	rep := hsRep(f)
	if rep.Class == "ok" && len(f) == 4 {
		rep.Data, rep.Used, rep.N = vlib.UnHex(f[1]), atoi(f[2]), atoi(f[3])
	}
	return rep
}

func (r *Ref) CliFeed(s string, chunk []byte) HsRep {
	f := r.call("cli.feed %s %s", s, vlib.Hex(chunk))
	rep := hsRep(f)
	if rep.Class == "ok" && len(f) == 2 {
		rep.N = atoi(f[1])
	}
	return rep
}

func (r *Ref) FacNew(f string) { r.call("fac.new %s", f) }

// SrvNew: fac may be "" (private replay filter).
func (r *Ref) SrvNew(s string, nodeID, idPriv, lenSeed, tape []byte, fac string) HsRep {
	var f []string
	if fac == "" {
		f = r.call("srv.new %s %s %s %s %s", s, vlib.Hex(nodeID), vlib.Hex(idPriv), vlib.Hex(lenSeed), vlib.Hex(tape))
	} else {
		f = r.call("srv.new %s %s %s %s %s %s", s, vlib.Hex(nodeID), vlib.Hex(idPriv), vlib.Hex(lenSeed), vlib.Hex(tape), fac)
	}
	rep := hsRep(f)
	if rep.Class == "ok" && len(f) == 4 {
		rep.Used, rep.Data, rep.N = atoi(f[1]), vlib.UnHex(f[2]), atoi(f[3])
	}
	return rep
}

func (r *Ref) SrvFeed(s string, chunk []byte, hour int64, nowNs int64) HsRep {
	f := r.call("srv.feed %s %s %d %d", s, vlib.Hex(chunk), hour, nowNs)
	rep := hsRep(f)
	if rep.Class == "ok" && len(f) == 4 {
		rep.Data, rep.Used, rep.N = vlib.UnHex(f[1]), atoi(f[2]), atoi(f[3])
	}
	return rep
}

// Pkt is one decoded packet.
type Pkt struct {
	Type    int
	Payload []byte
	PadLen  int
	Zero    bool
}

type DecRep struct {
	Class string // "ok" or the error class
	Pkts  []Pkt
	Raw   string
}

func (d DecRep) Payload() []byte {
	var out []byte
	for _, p := range d.Pkts {
		if p.Type == 0 {
			out = append(out, p.Payload...)
		}
	}
	return out
}

func (r *Ref) Dec(s string, chunk []byte) DecRep {
	f := r.call("dec %s %s", s, vlib.Hex(chunk))
	raw := strings.Join(f, " ")
	if len(raw) > 200 {
		raw = raw[:200]
	}
	rep := DecRep{Raw: raw}
	i := 0
	switch {
	case len(f) >= 2 && f[0] == "ok":
		rep.Class, i = "ok", 2
	case len(f) >= 3 && f[0] == "fail":
		rep.Class, i = f[1], 3
	case len(f) >= 2 && f[0] == "fail":
		rep.Class = f[1]
		return rep
	default:
		rep.Class = "driver-error"
		return rep
	}
	for ; i < len(f); i++ {
		p := strings.Split(f[i], ":")
		if len(p) != 4 {
			rep.Class = "driver-error"
			return rep
		}
		rep.Pkts = append(rep.Pkts, Pkt{Type: atoi(p[0]), Payload: vlib.UnHex(p[1]), PadLen: atoi(p[2]), Zero: p[3] == "z"})
	}
	return rep
}

// Enc returns the frame or the failure class.
func (r *Ref) Enc(s string, ty int, payload []byte, padLen int) ([]byte, string) {
	f := r.call("enc %s %d %s %d", s, ty, vlib.Hex(payload), padLen)
	if len(f) == 2 && f[0] == "ok" {
		return vlib.UnHex(f[1]), "ok"
	}
	if len(f) >= 2 {
		return nil, f[1]
	}
	return nil, "driver-error"
}

func (r *Ref) Keys(s string) (enc, dec []byte, ok bool) {
	f := r.call("keys %s", s)
	if len(f) == 3 && f[0] == "ok" {
		return vlib.UnHex(f[1]), vlib.UnHex(f[2]), true
	}
	return nil, nil, false
}

func (r *Ref) Drop(s string) { r.call("drop %s", s) }

// EncPayload encodes data the way the reference sender does: maximum-size payload packets, then
// one padding-only packet of padLen (if padLen >= 0).
func (r *Ref) EncPayload(s string, data []byte, padLen int) ([]byte, string) {
	var wire []byte
	for len(data) > 0 {
		n := len(data)
		if n > 1427 {
			n = 1427
		}
		f, cls := r.Enc(s, 0, data[:n], 0)
		if cls != "ok" {
			return nil, cls
		}
		wire = append(wire, f...)
		data = data[n:]
	}
	if padLen >= 0 {
		f, cls := r.Enc(s, 0, nil, padLen)
		if cls != "ok" {
			return nil, cls
		}
		wire = append(wire, f...)
	}
	return wire, "ok"
}

// ErrClass maps the real handshake errors to the model's classes.
func ErrClass(err error) string {
	if err == nil {
		return "ok"
	}
	switch err {
	case obfs4.ErrMarkNotFoundYet:
		return "need"
	case obfs4.ErrInvalidHandshake:
		return "invalid"
	case obfs4.ErrReplayedHandshake:
		return "replay"
	case obfs4.ErrNtorFailed:
		return "ntor"
	case io.EOF:
		return "eof"
	}
	switch err.(type) {
	case *obfs4.InvalidMacError:
		return "mac"
	case *obfs4.InvalidAuthError:
		return "auth"
	case vlib.TimeoutError:
		return "timeout"
	}
	return "other:" + err.Error()
}

// ---------------------------------------------------------------- C02: forging from public information

func (r *Ref) CliClone(s, s2 string) { r.call("cli.clone %s %s", s, s2) }

// Forged is what a man in the middle without the bridge's private key can compute.
type Forged struct {
	YRepr, Auth, KeySeed []byte
	OK                   bool
}

// ForgeNtor: ephemeral key from tape, DH with the impostor's own identity key bPriv, transcript
// naming bTranscript.
func (r *Ref) ForgeNtor(nodeID, bTranscript, bPriv, xRepr, tape []byte) Forged {
	f := r.call("forge.ntor %s %s %s %s %s", vlib.Hex(nodeID), vlib.Hex(bTranscript), vlib.Hex(bPriv), vlib.Hex(xRepr), vlib.Hex(tape))
	if len(f) == 5 && f[0] == "ok" {
		return Forged{YRepr: vlib.UnHex(f[1]), Auth: vlib.UnHex(f[2]), KeySeed: vlib.UnHex(f[3]), OK: true}
	}
	return Forged{}
}

// ForgeBlob: Y'|AUTH|pad|M_S|MAC_S with mark and MAC valid under idPub|nodeID for hour.
func (r *Ref) ForgeBlob(nodeID, idPub, yRepr, auth, pad []byte, hour int64) []byte {
	f := r.call("forge.blob %s %s %s %s %s %d", vlib.Hex(nodeID), vlib.Hex(idPub), vlib.Hex(yRepr), vlib.Hex(auth), vlib.Hex(pad), hour)
	if len(f) == 2 && f[0] == "ok" {
		return vlib.UnHex(f[1])
	}
	return nil
}

// ---------------------------------------------------------------- recording conns for the concurrent families

// RecConn records every Write made on a net.Conn (the bytes one endpoint put on the wire).
type RecConn struct {
	net.Conn
	mu     sync.Mutex
	writes [][]byte
}

func (c *RecConn) Write(p []byte) (int, error) {
	c.mu.Lock()
	c.writes = append(c.writes, append([]byte(nil), p...))
	c.mu.Unlock()
	return c.Conn.Write(p)
}

func (c *RecConn) Writes() [][]byte {
	c.mu.Lock()
	defer c.mu.Unlock()
	return append([][]byte(nil), c.writes...)
}

// CliNewKey creates a reference client with an explicit session key.
func (r *Ref) CliNewKey(s string, nodeID, idPub, xPriv, xPub, xRepr []byte, hour int64) bool {
	f := r.call("cli.newkey %s %s %s %s %s %s %d", s, vlib.Hex(nodeID), vlib.Hex(idPub), vlib.Hex(xPriv), vlib.Hex(xPub), vlib.Hex(xRepr), hour)
	return len(f) == 1 && f[0] == "ok"
}

// LinkSwap makes s2 the peer's link of the established session s.
func (r *Ref) LinkSwap(s, s2 string) bool {
	f := r.call("link.swap %s %s", s, s2)
	return len(f) == 1 && f[0] == "ok"
}

// DeadlinesArmed replays the deadline calls recorded on a ScriptConn: which halves are armed now.
func DeadlinesArmed(sc *vlib.ScriptConn) (read, write bool, trace string) {
	var tr []string
	for _, e := range sc.EventsCopy() {
		switch e.Kind {
		case "deadline":
			read, write = e.Off != 0, e.Off != 0
		case "rdeadline":
			read = e.Off != 0
		case "wdeadline":
			write = e.Off != 0
		default:
			continue
		}
		tr = append(tr, e.String())
	}
	return read, write, strings.Join(tr, " ")
}
