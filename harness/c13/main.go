// C13 — obfs3 and UniformDH: the real transport (transports.Get("obfs3"): Dial / WrapConn over an
// in-memory conn) and the exported uniformdh API against the Lean models (driver `obfs3`), which act
//   - as a *shadow* of every real endpoint (same randomness via the recorded tape, same input
//     segmentation): handshake blob, magic, ciphertext, outcomes and delivered bytes must be identical,
//   - as an independent obfs3 *peer* in both roles (interoperation, from the property text).
//
// Implementation-level oracle (from the property text, not from the model): what one side writes
// the other side reads, in order, both directions, for every segmentation (magic straddling reads,
// data coalesced with the magic / with the handshake); interoperation with the reference peer in
// both roles; a peer that sends more than 8194 bytes of padding before the magic, or no magic at
// all, is rejected; two UniformDH parties derive the same 192-byte secret for all four X / p-X
// combinations and public keys are exactly 192 bytes.
package main

import (
	"bytes"
	"encoding/json"
	"errors"
	"fmt"
	"io"
	"net"
	"os"
	"path/filepath"
	"sort"
	"strconv"
	"strings"
	"time"

	pt "gitlab.torproject.org/tpo/anti-censorship/pluggable-transports/goptlib"

	"gitlab.com/yawning/obfs4.git/common/csrand"
	"gitlab.com/yawning/obfs4.git/common/uniformdh"
	"gitlab.com/yawning/obfs4.git/transports"
	"gitlab.com/yawning/obfs4.git/transports/base"
	"gitlab.com/yawning/obfs4.git/transports/obfs3"

	"verif/harness/obfskit"
	"verif/harness/vlib"
)

const (
	maxPadding = 8194 // the specification's MAX_PADDING (the oracle's own constant)
	halfPad    = maxPadding / 2
	magicLen   = 32
	keySize    = 192
	// C10: proved bound on the handshake-time receive buffer, 2·(maxPadding+32) − 1
	rxBufBound = 2*(maxPadding+magicLen) - 1
)

type sideSpec struct {
	Real   bool   `json:"real"`
	Priv   string `json:"priv"`    // 192 private-key bytes, hex
	Pad1   int    `json:"pad1"`    // handshake padding length
	Pad2   int    `json:"pad2"`    // first-write padding length
	Reject int    `json:"reject"`  // rejected IntRange draws before each accepted one
	Pad1B  string `json:"pad1_bytes,omitempty"` // Lean peer: explicit padding (may exceed the legal length)
	Pad2B  string `json:"pad2_bytes,omitempty"`
	Craft  bool   `json:"craft"`   // Lean peer uses startwith/writewith (explicit, possibly illegal padding)
	NoMagic bool  `json:"no_magic"` // crafted peer never sends its magic: junk instead
	Junk   string `json:"junk,omitempty"`
}

type scase struct {
	Kind     string   `json:"kind"` // session | overpad | nomagic | cut
	TapeSeed uint64   `json:"tape_seed"`
	I        sideSpec `json:"i"`
	R        sideSpec `json:"r"`
	First    string   `json:"first"`    // side that completes its handshake first
	Coalesce bool     `json:"coalesce"` // that side's first write travels together with its handshake blob
	ToI      []int    `json:"to_i"`     // segmentation of the first delivery to I (blob [+ magic + data])
	ToR      []int    `json:"to_r"`
	WritesI  []string `json:"writes_i"`
	WritesR  []string `json:"writes_r"`
	DataToI  []int    `json:"data_to_i"` // segmentation of the rest of the stream towards I
	DataToR  []int    `json:"data_to_r"`
	ReadMax  int      `json:"read_max"`
	CutAt    int      `json:"cut_at"` // cut: deliver this many bytes to the real side, then EOF
	Chunker  string   `json:"chunker"`
	End      string   `json:"end"`    // "" | eof | reset: both directions end with a final chunk handed out together with that error
	TailI    int      `json:"tail_i"` // bytes of the stream towards I that come in the same Read as the error
	TailR    int      `json:"tail_r"`
	Timeouts bool     `json:"timeouts"` // read-deadline timeouts (peer silent) in between, the stream must go on afterwards
	Batches  int      `json:"batches,omitempty"` // concurrent family
	Pairs    int      `json:"pairs,omitempty"`
}

var (
	r    *vlib.Run
	d    *vlib.Driver
	tape *vlib.RandTape
	cf   base.ClientFactory
	sf   base.ServerFactory
	nSes int
)

type ep struct {
	role   string
	spec   sideSpec
	real   bool
	sc     *vlib.ScriptConn
	op     *vlib.Op
	conn   net.Conn
	err    error
	rd     *obfskit.Reader
	sess   string
	hs     []byte
	got    []byte // Lean: delivered plaintext
	lerr   string // Lean: read failure class
	state  string
	fatal  string
	wrote  bool
	maxBuf int // largest rxBuf length observed on the real endpoint
	due    []byte // plaintext whose ciphertext has been handed to this side's socket in full
}

func classify(err error) string {
	switch {
	case err == nil:
		return "est"
	case errors.Is(err, io.EOF), errors.Is(err, io.ErrUnexpectedEOF):
		return "fail:eof"
	case errors.Is(err, net.ErrClosed):
		return "fail:closed"
	case errors.Is(err, obfskit.ErrReset):
		return "fail:reset"
	case strings.Contains(err.Error(), "failed to find peer magic value"):
		return "fail:nomagic"
	case strings.Contains(err.Error(), "too much pre-magic-padding"):
		return "fail:toomuchpadding"
	default:
		return "fail:other(" + err.Error() + ")"
	}
}

func (c *scase) violate(sig, kind, desc string) { r.Violate(sig, kind, desc, c) }

func head(b []byte, n int) []byte {
	if len(b) > n {
		return b[:n]
	}
	return b
}

func draws(reject, v int) []byte {
	var out []byte
	for i := 0; i < reject; i++ {
		out = append(out, obfskit.RejectedDraw(nil)...)
	}
	return append(out, obfskit.Draw(v, nil)...)
}

func (c *scase) start(e *ep) {
	nSes++
	e.sess = fmt.Sprintf("s%d%s", nSes, e.role)
	priv := vlib.UnHex(e.spec.Priv)
	if !e.real {
		var rep string
		if e.spec.Craft {
			rep = d.Call("startwith %s %s %s %s", e.sess, e.role, e.spec.Priv, vlib.Hex(vlib.UnHex(e.spec.Pad1B)))
		} else {
			t := append(append(append([]byte{}, priv...), draws(e.spec.Reject, e.spec.Pad1)...), vlib.UnHex(e.spec.Pad1B)...)
			rep = d.Call("start %s %s %s", e.sess, e.role, vlib.Hex(t))
		}
		f := obfskit.Fields(rep)
		if len(f) < 2 || f[0] != "ok" {
			e.fatal = "lean peer start: " + rep
			return
		}
		e.hs = vlib.UnHex(f[1])
		e.state = "need"
		return
	}
	tape.Steer = append(append([]byte{}, priv...), draws(e.spec.Reject, e.spec.Pad1)...)
	mark := tape.Mark()
	e.sc = vlib.NewScriptConn()
	if e.role == "i" {
		e.op = e.sc.Start(func() {
			e.conn, e.err = cf.Dial("tcp", "192.0.2.1:1", func(string, string) (net.Conn, error) { return e.sc, nil }, nil)
		})
	} else {
		e.op = e.sc.Start(func() { e.conn, e.err = sf.WrapConn(e.sc) })
	}
	if e.sc.Wait(e.op) {
		e.fatal = fmt.Sprintf("real %s handshake returned before receiving anything: err=%v panic=%v", e.role, e.err, e.op.Panic)
		c.violate("handshake-returns-early", "impl-oracle", e.fatal)
		return
	}
	used := tape.Since(mark)
	e.hs = e.sc.TakeWritten()
	e.state = "need"
	ev := e.sc.EventsCopy()
	if len(ev) > 0 && ev[0].Kind == "deadline" && ev[0].Off > 0 {
		r.Count("deadline", fmt.Sprintf("armed-first(+%.0fs)", ev[0].Off.Seconds()))
	} else {
		r.Count("deadline", "not-armed-first")
	}
	rep := d.Call("start %s %s %s", e.sess, e.role, vlib.Hex(used))
	f := obfskit.Fields(rep)
	if len(f) != 4 || f[0] != "ok" {
		e.fatal = "shadow start: " + rep
		c.violate("model-cannot-follow-tape", "correspondence",
			fmt.Sprintf("real %s drew %d tape bytes, model replied %q", e.role, len(used), head([]byte(rep), 80)))
		return
	}
	mhs := vlib.UnHex(f[1])
	r.Validated(1)
	if f[2] != strconv.Itoa(len(used)) {
		c.violate("tape-consumption-differs", "correspondence",
			fmt.Sprintf("real %s consumed %d random bytes in handshake(), model %s", e.role, len(used), f[2]))
	}
	if !bytes.Equal(mhs, e.hs) {
		e.fatal = "handshake bytes differ"
		what := "padding"
		if !bytes.Equal(head(mhs, keySize), head(e.hs, keySize)) {
			what = "public key"
		}
		c.violate("handshake-bytes-differ", "correspondence",
			fmt.Sprintf("role %s priv …%s pad %d: %s differs; real sent %d bytes %s…, model %d bytes %s…", e.role,
				e.spec.Priv[len(e.spec.Priv)-8:], e.spec.Pad1, what, len(e.hs), vlib.Hex(head(e.hs, 16)), len(mhs), vlib.Hex(head(mhs, 16))))
	}
	if len(e.hs) != keySize+e.spec.Pad1 {
		c.violate("handshake-shape", "impl-oracle",
			fmt.Sprintf("role %s: expected a 192-byte key and %d padding bytes, real sent %d bytes", e.role, e.spec.Pad1, len(e.hs)))
	}
}

func leanState(rep string) string {
	f := obfskit.Fields(rep)
	if len(f) == 0 {
		return "driver:" + rep
	}
	if f[0] == "need-key" {
		return "need"
	}
	return f[0]
}

// deliverHS gives bytes to a side whose handshake may still be waiting for the peer's key.
func (c *scase) deliverHS(e *ep, data []byte, sizes []int, eofAfter bool) {
	rep := d.Call("feed %s %s%s", e.sess, vlib.Hex(data), obfskit.SizesArg(sizes))
	ms := leanState(rep)
	if eofAfter {
		ms = leanState(d.Call("eof %s", e.sess))
	}
	if !e.real {
		e.state = ms
		return
	}
	e.sc.FeedChunks(data, sizes)
	if eofAfter {
		e.sc.FeedEOF()
	}
	fin := e.sc.Wait(e.op)
	switch {
	case !fin:
		e.state = "need"
	case e.op.Panic != nil:
		e.state = "panic"
		c.violate("handshake-panics", "impl-oracle", fmt.Sprintf("real %s handshake panicked: %v", e.role, e.op.Panic))
	default:
		e.state = classify(e.err)
	}
	r.Validated(1)
	r.Count("handshake-outcome", e.state)
	if e.state != ms {
		c.violate("handshake-outcome-differs", "correspondence",
			fmt.Sprintf("role %s after %d bytes (eof=%v): real %s, model %s", e.role, len(data), eofAfter, e.state, ms))
	}
	if e.state == "est" {
		// from now on virtual time: a Read that would block while ANY read deadline is armed times out at
		// once ("the peer stays silent for longer than every deadline", e.g. between the key exchange and
		// its magic); the transport must not have one armed
		e.sc.FireDeadlines = true
		e.rd = &obfskit.Reader{SC: e.sc, Conn: e.conn, Max: c.ReadMax}
		last := ""
		for _, x := range e.sc.EventsCopy() {
			if x.Kind == "deadline" {
				last = x.String()
			}
		}
		r.Count("deadline", "after-success:"+last)
		// the constructor has returned: no handshake deadline may stay armed, in either direction
		// (a conn that honours deadlines would fail a Read/Write 30 s after the connection was made)
		if rdl, wdl := obfskit.DeadlineState(e.sc.EventsCopy()); rdl != 0 || wdl != 0 {
			half := "read"
			if rdl == 0 {
				half = "write"
			} else if wdl != 0 {
				half = "read and write"
			}
			c.violate("deadline-left-armed-after-handshake", "impl-oracle",
				fmt.Sprintf("real %s %s: the handshake succeeded and the constructor returned, but the %s deadline of the conn is still armed (read +%.0fs, write +%.0fs): later I/O in that direction times out", "obfs3", e.role, half, rdl.Seconds(), wdl.Seconds()))
		}
	}
}

func safeWrite(conn net.Conn, data []byte) (n int, err error, pv interface{}) {
	defer func() { pv = recover() }()
	n, err = conn.Write(data)
	return
}

// write performs one Write on a side and returns the net writes.
func (c *scase) write(e *ep, data []byte) [][]byte {
	first := !e.wrote
	e.wrote = true
	parse := func(rep string) ([][]byte, string) {
		f := obfskit.Fields(rep)
		if len(f) < 3 || f[0] != "ok" {
			e.fatal = "lean write: " + rep
			return nil, ""
		}
		var ws [][]byte
		for _, x := range f[2:] {
			ws = append(ws, vlib.UnHex(x))
		}
		return ws, f[1]
	}
	if !e.real {
		var rep string
		switch {
		case first && e.spec.NoMagic:
			// crafted peer: never sends its magic; its first "write" is junk on the wire
			d.Call("writewith %s %s -", e.sess, vlib.Hex(data))
			return [][]byte{vlib.UnHex(e.spec.Junk)}
		case first && e.spec.Craft:
			rep = d.Call("writewith %s %s %s", e.sess, vlib.Hex(data), vlib.Hex(vlib.UnHex(e.spec.Pad2B)))
		case first:
			t := append(draws(e.spec.Reject, e.spec.Pad2), vlib.UnHex(e.spec.Pad2B)...)
			rep = d.Call("write %s %s %s", e.sess, vlib.Hex(data), vlib.Hex(t))
		default:
			rep = d.Call("write %s %s -", e.sess, vlib.Hex(data))
		}
		ws, _ := parse(rep)
		return ws
	}
	mark := tape.Mark()
	if first {
		tape.Steer = draws(e.spec.Reject, e.spec.Pad2)
	}
	n, err, pv := safeWrite(e.conn, data)
	used := tape.Since(mark)
	if pv != nil || err != nil || n != len(data) {
		c.violate("write-fails", "impl-oracle", fmt.Sprintf("real %s Write(%d bytes): n=%d err=%v panic=%v", e.role, len(data), n, err, pv))
		e.fatal = "write failed"
		return nil
	}
	ws := e.sc.TakeWrites()
	mws, mused := parse(d.Call("write %s %s %s", e.sess, vlib.Hex(data), vlib.Hex(used)))
	if e.fatal != "" {
		c.violate("model-cannot-follow-tape", "correspondence", "shadow write: "+e.fatal)
		return ws
	}
	r.Validated(1)
	if mused != strconv.Itoa(len(used)) {
		c.violate("tape-consumption-differs", "correspondence",
			fmt.Sprintf("real %s consumed %d random bytes in Write (first=%v), model %s", e.role, len(used), first, mused))
	}
	cat := func(x [][]byte) []byte { return bytes.Join(x, nil) }
	if !bytes.Equal(cat(ws), cat(mws)) {
		what := "ciphertext"
		if first && len(ws) > 0 && len(mws) > 0 && !bytes.Equal(ws[0], mws[0]) {
			what = "padding/magic blob"
		}
		c.violate("wire-bytes-differ", "correspondence",
			fmt.Sprintf("role %s Write(%d bytes, first=%v): %s differs: real %d bytes …%s, model %d bytes …%s", e.role, len(data), first, what,
				len(cat(ws)), vlib.Hex(tail(cat(ws), 16)), len(cat(mws)), vlib.Hex(tail(cat(mws), 16))))
	}
	if first {
		// spec shape, independent of the model: padding of the drawn length, then a 32-byte magic, then the data
		if len(cat(ws)) != e.spec.Pad2+magicLen+len(data) {
			c.violate("first-write-shape", "impl-oracle",
				fmt.Sprintf("role %s first Write(%d): expected %d padding + 32 magic + data, real wrote %d bytes", e.role, len(data), e.spec.Pad2, len(cat(ws))))
		}
	}
	return ws
}

func tail(b []byte, n int) []byte {
	if len(b) > n {
		return b[len(b)-n:]
	}
	return b
}

func (c *scase) drainLean(e *ep) {
	for e.lerr == "" {
		rep := d.Call("read %s %d", e.sess, c.ReadMax)
		f := obfskit.Fields(rep)
		switch {
		case len(f) == 2 && f[0] == "ok":
			e.got = append(e.got, vlib.UnHex(f[1])...)
			continue
		case len(f) == 3 && f[0] == "okerr":
			e.got = append(e.got, vlib.UnHex(f[1])...)
			e.lerr = "fail:" + f[2]
		case len(f) == 2 && f[0] == "fail":
			e.lerr = "fail:" + f[1]
		case rep != "block":
			e.fatal = "lean read: " + rep
		}
		break
	}
}

func (c *scase) observeBuf(e *ep) {
	if n := obfs3.VerifRxBufLen(e.conn); n > e.maxBuf {
		e.maxBuf = n
	}
}

// deliverData gives stream bytes to an established side (its Lean session, and the real endpoint
// if it is one) and collects what Read delivers.
func (c *scase) deliverData(e *ep, wire []byte, sizes []int, eofAfter bool) {
	d.Call("feed %s %s%s", e.sess, vlib.Hex(wire), obfskit.SizesArg(sizes))
	if eofAfter {
		d.Call("eof %s", e.sess)
	}
	c.drainLean(e)
	if !e.real {
		return
	}
	// feed chunk by chunk so that the buffer can be observed at every blocking point
	rest := wire
	for _, n := range sizes {
		if n <= 0 || len(rest) == 0 {
			continue
		}
		if n > len(rest) {
			n = len(rest)
		}
		e.sc.Feed(rest[:n])
		rest = rest[n:]
		if len(sizes) <= 64 {
			e.rd.Pump()
			c.observeBuf(e)
		}
	}
	e.sc.Feed(rest)
	if eofAfter {
		e.sc.FeedEOF()
	}
	e.rd.Pump()
	c.observeBuf(e)
	if e.rd.Panic != nil {
		c.violate("read-panics", "impl-oracle", fmt.Sprintf("real %s Read panicked: %v", e.role, e.rd.Panic))
	}
	if e.maxBuf > rxBufBound {
		c.violate("rxbuf-exceeds-bound", "impl-oracle", fmt.Sprintf("real %s holds %d bytes in rxBuf (> %d)", e.role, e.maxBuf, rxBufBound))
	}
}

// checkDue is the liveness half of stream integrity: obfs3 is a plain stream cipher after the
// magic, so every byte the peer wrote and the network delivered must be readable *now*, without
// any further traffic. The endpoint being blocked in Read while such bytes are outstanding is a stall.
func (c *scase) checkDue(to, from *ep, coalesced bool) {
	if !to.real || to.rd == nil || (from.spec.Craft && malformedSender(from.spec)) {
		return
	}
	r.Validated(1)
	if to.rd.Err != nil || to.rd.Panic != nil || len(to.rd.Got) >= len(to.due) || !bytes.HasPrefix(to.due, to.rd.Got) {
		return // errors and corrupted bytes are judged at the end of the case
	}
	sig := "stall-delivered-bytes-not-readable"
	how := "its segmentation"
	if coalesced {
		sig = "stall-data-coalesced-with-handshake"
		how = "one flight with its handshake (key ‖ pad1 ‖ pad2 ‖ magic ‖ data)"
	}
	c.violate(sig, "impl-oracle",
		fmt.Sprintf("%s %s wrote %d bytes which reached real %s's socket in %s; real %s is blocked in Read with only %d bytes delivered (%d bytes still queued on the socket, %d in rxBuf) and the peer sends nothing more",
			kindOf(from), from.role, len(to.due), to.role, how, to.role, len(to.rd.Got), to.sc.Pending(), obfs3.VerifRxBufLen(to.conn)))
}

// deliverFinal hands a side the end of its input: `front` as an ordinary chunk, then the last
// `tail` bytes in the same Read as the error (n > 0 together with err, which io.Reader permits).
// Towards a reference peer the bytes are delivered plainly (there is no real code to examine).
func (c *scase) deliverFinal(e *ep, wire []byte, tail int) {
	if !e.real {
		c.deliverData(e, wire, nil, false)
		return
	}
	if tail > len(wire) {
		tail = len(wire)
	}
	front, last := wire[:len(wire)-tail], wire[len(wire)-tail:]
	d.Call("feed %s %s", e.sess, vlib.Hex(front))
	d.Call("feedlast %s %s %s", e.sess, vlib.Hex(last), c.End)
	c.drainLean(e)
	err := io.EOF
	if c.End == "reset" {
		err = obfskit.ErrReset
	}
	e.sc.Feed(front)
	e.sc.FeedWithErr(last, err)
	e.rd.Pump()
	c.observeBuf(e)
	if e.rd.Panic != nil {
		c.violate("read-panics", "impl-oracle", fmt.Sprintf("real %s Read panicked: %v", e.role, e.rd.Panic))
	}
	r.Count("end-of-stream", fmt.Sprintf("%s tail=%s", c.End, obfskit.SizeClass(tail)))
}

// timeoutRecovery: the user of the connection arms a read deadline, the peer stays silent, the
// blocked Read expires (nothing was read, no keystream consumed); the deadline is then cleared
// (or first extended), the peer writes `msg`, and Read must deliver exactly those bytes: a timeout
// that consumed nothing must not poison the connection. The model's state does not change on a
// timeout, so the shadow simply sees `msg` arrive.
func (c *scase) timeoutRecovery(e, peer *ep, msg []byte, extend bool, send func(from, to *ep, ws [][]byte)) {
	if !e.real || e.rd == nil || e.rd.Err != nil || e.fatal != "" || peer.fatal != "" {
		send(peer, e, [][]byte{msg})
		return
	}
	before := len(e.rd.Got)
	expire := func(stage string) bool {
		e.sc.FeedErr(nil) // wake the blocked Read so that it notices the deadline
		e.rd.PumpReturn(5 * time.Second)
		err := e.rd.TakeErr()
		var ne net.Error
		if err == nil || !errors.As(err, &ne) || !ne.Timeout() {
			c.violate("read-deadline-not-honoured", "impl-oracle",
				fmt.Sprintf("real obfs3 %s: read deadline armed, peer silent (%s): Read returned err=%v instead of a timeout", e.role, stage, err))
			return false
		}
		return true
	}
	e.conn.SetReadDeadline(time.Now().Add(5 * time.Second))
	if !expire("first expiry") {
		return
	}
	if len(e.rd.Got) != before {
		c.violate("timeout-delivers-bytes", "impl-oracle", "a Read that timed out with nothing on the wire returned bytes")
	}
	r.Count("timeout-recovery", fmt.Sprintf("extend=%v", extend))
	if extend {
		e.conn.SetReadDeadline(time.Now().Add(time.Hour))
	} else {
		e.conn.SetReadDeadline(time.Time{})
	}
	send(peer, e, [][]byte{msg})
	got := e.rd.Got[before:]
	err := e.rd.TakeErr()
	if extend {
		// after delivering, the next blocked Read runs into the (virtual) extended deadline: expected
		e.conn.SetReadDeadline(time.Time{})
	}
	if !bytes.HasSuffix(e.rd.Got, msg) {
		c.violate("read-timeout-not-recoverable", "impl-oracle",
			fmt.Sprintf("real obfs3 %s: a Read timed out while the peer was silent (nothing read), the deadline was %s, then the peer wrote %d bytes: Read delivered %d bytes, err=%v — the harmless timeout poisoned the connection",
				e.role, map[bool]string{true: "extended", false: "cleared"}[extend], len(msg), len(got), err))
	}
}

func (e *ep) close() {
	if e.real && e.sc != nil && !e.sc.Closed() {
		e.sc.Close()
	}
	if e.sess != "" {
		d.Call("del %s", e.sess)
	}
}

func unhexAll(xs []string) (out [][]byte, cat []byte) {
	for _, x := range xs {
		b := vlib.UnHex(x)
		out = append(out, b)
		cat = append(cat, b...)
	}
	return
}

func kindOf(e *ep) string {
	if e.real {
		return "real"
	}
	return "reference"
}

func firstDiff(a, b []byte) int {
	n := len(a)
	if len(b) < n {
		n = len(b)
	}
	for i := 0; i < n; i++ {
		if a[i] != b[i] {
			return i
		}
	}
	if len(a) != len(b) {
		return n
	}
	return -1
}

func realErrClass(e *ep) string {
	if e.rd == nil || e.rd.Err == nil {
		return ""
	}
	return classify(e.rd.Err)
}

func runCase(c *scase) {
	if os.Getenv("C13_TIMING") != "" {
		t0 := time.Now()
		defer func() {
			if dt := time.Since(t0); dt > 500*time.Millisecond {
				fmt.Fprintf(os.Stderr, "slow case %.1fs: %s %s pads %d+%d/%d+%d readmax %d\n", dt.Seconds(), c.Kind, c.Chunker, c.I.Pad1, c.I.Pad2, c.R.Pad1, c.R.Pad2, c.ReadMax)
			}
		}()
	}
	tape = vlib.InstallRandTape(c.TapeSeed)
	csrand.Reader = tape
	key, _ := json.Marshal(c)
	I := &ep{role: "i", spec: c.I, real: c.I.Real}
	R := &ep{role: "r", spec: c.R, real: c.R.Real}
	defer I.close()
	defer R.close()
	c.start(I)
	c.start(R)
	nontrivial := false
	defer func() {
		r.Case(string(key), nontrivial)
		r.Count("kind", c.Kind)
		r.Count("chunker", c.Chunker)
		r.Count("pad1+pad2 towards R", obfskit.SizeClass(len(vlib.UnHex(c.I.Pad1B))*b2i(c.I.Craft)+(c.I.Pad1+c.I.Pad2)*b2i(!c.I.Craft)))
		r.Count("endpoints", fmt.Sprintf("I-real=%v,R-real=%v", c.I.Real, c.R.Real))
		r.Count("privkey-i", privClass(c.I.Priv))
		r.Count("privkey-r", privClass(c.R.Priv))
	}()
	if I.fatal != "" || R.fatal != "" {
		if !strings.Contains(I.fatal+R.fatal, "differ") && !strings.Contains(I.fatal+R.fatal, "early") && !strings.Contains(I.fatal+R.fatal, "shadow") {
			c.violate("harness-cannot-start", "correspondence", I.fatal+" "+R.fatal)
		}
		return
	}
	wI, catI := unhexAll(c.WritesI)
	wR, catR := unhexAll(c.WritesR)
	first, second := I, R
	wFirst, wSecond := wI, wR
	toFirst, toSecond := c.ToI, c.ToR
	dataToFirst, dataToSecond := c.DataToI, c.DataToR
	if c.First == "r" {
		first, second = R, I
		wFirst, wSecond = wR, wI
		toFirst, toSecond = c.ToR, c.ToI
		dataToFirst, dataToSecond = c.DataToR, c.DataToI
	}
	if c.Kind == "cut" {
		// the real side's input ends inside (or right after) the peer's key
		X, Y := I, R
		if !X.real {
			X, Y = R, I
		}
		msg := head(Y.hs, c.CutAt)
		c.deliverHS(X, msg, nil, true)
		if len(msg) < keySize && X.state == "est" {
			c.violate("completes-on-truncated-key", "impl-oracle", fmt.Sprintf("real %s completed the handshake after %d bytes of the peer's key", X.role, len(msg)))
		}
		r.Count("cut", X.state)
		nontrivial = true
		return
	}
	fail := func(e, peer *ep) {
		if e.real {
			c.violate("honest-handshake-fails", "impl-oracle",
				fmt.Sprintf("real %s does not complete on the %s peer's public key: %s", e.role, kindOf(peer), e.state))
		} else {
			c.violate("reference-peer-rejects-real-handshake", "impl-oracle",
				fmt.Sprintf("the reference peer (%s) does not accept the real %s handshake: %s", e.role, peer.role, e.state))
		}
	}
	// the first side receives the peer's blob (key + padding): the key completes its handshake,
	// the padding stays queued until its first Read
	c.deliverHS(first, second.hs, toFirst, false)
	if first.state != "est" {
		fail(first, second)
		return
	}
	payload := append([]byte{}, first.hs...)
	var coalesced []byte
	if c.Coalesce && len(wFirst) > 0 {
		for _, w := range c.write(first, wFirst[0]) {
			payload = append(payload, w...)
		}
		if first.fatal != "" {
			return
		}
		coalesced = wFirst[0]
		wFirst = wFirst[1:]
	}
	c.deliverHS(second, payload, toSecond, false)
	if second.state != "est" {
		fail(second, first)
		return
	}
	malformed := c.Kind == "overpad" || c.Kind == "nomagic"
	extra := map[*ep][]byte{}
	send := func(from, to *ep, ws [][]byte, sizes []int, eofAfter bool) {
		var wire []byte
		for _, w := range ws {
			for _, x := range c.write(from, w) {
				wire = append(wire, x...)
			}
			if from.fatal != "" {
				return
			}
			to.due = append(to.due, w...)
		}
		if len(ws) == 0 {
			return
		}
		c.deliverData(to, wire, sizes, eofAfter)
		c.checkDue(to, from, false)
	}
	if malformed {
		// the crafted peer is `first`; the real side writes before it reads (its Read will fail and close)
		send(second, first, wSecond, dataToFirst, false)
		c.deliverData(second, nil, nil, false)
		send(first, second, wFirst, dataToSecond, true)
	} else {
		// whatever followed the key in that delivery is read now (padding, maybe magic and data):
		// nothing more is on its way, so all of it must come out
		second.due = append(second.due, coalesced...)
		c.deliverData(second, nil, nil, false)
		c.checkDue(second, first, true)
		var lastFirst, lastSecond []byte
		if c.End != "" && len(wFirst) > 0 && len(wSecond) > 0 {
			lastFirst, wFirst = wFirst[len(wFirst)-1], wFirst[:len(wFirst)-1]
			lastSecond, wSecond = wSecond[len(wSecond)-1], wSecond[:len(wSecond)-1]
		}
		sendX := func(from, to *ep, ws [][]byte) {
			for _, w := range ws {
				extra[from] = append(extra[from], w...)
			}
			send(from, to, ws, nil, false)
		}
		recover2 := c.Timeouts && c.End == ""
		x := vlib.NewRng(c.TapeSeed ^ 0x7117)
		send(first, second, wFirst, dataToSecond, false)
		// (obfs3: only once the magic has been found — a timeout inside findPeerMagic closes the conn by design)
		if recover2 && len(second.due) > 0 {
			c.timeoutRecovery(second, first, x.Bytes(1+x.Intn(300)), x.Intn(2) == 0, sendX)
		}
		send(second, first, wSecond, dataToFirst, false)
		if recover2 && len(first.due) > 0 && len(second.due) > 0 {
			c.timeoutRecovery(first, second, x.Bytes(1+x.Intn(300)), x.Intn(2) == 0, sendX)
			sendX(first, second, [][]byte{x.Bytes(1 + x.Intn(2000))})
			sendX(second, first, [][]byte{x.Bytes(1 + x.Intn(2000))})
			c.timeoutRecovery(second, first, x.Bytes(1+x.Intn(50)), x.Intn(2) == 0, sendX)
			c.timeoutRecovery(first, second, x.Bytes(1+x.Intn(50)), x.Intn(2) == 0, sendX)
		}
		if lastFirst != nil {
			// both sides write once more, then each input ends: the last bytes arrive with the error
			cat := func(ws [][]byte) []byte { return bytes.Join(ws, nil) }
			w1 := cat(c.write(first, lastFirst))
			w2 := cat(c.write(second, lastSecond))
			if first.fatal != "" || second.fatal != "" {
				return
			}
			tailSecond, tailFirst := c.TailR, c.TailI
			if c.First == "r" {
				tailSecond, tailFirst = c.TailI, c.TailR
			}
			c.deliverFinal(second, w1, tailSecond)
			c.deliverFinal(first, w2, tailFirst)
		}
	}
	// --- judge
	check := func(to, from *ep, want []byte) {
		bad := from.spec.Craft && malformedSender(from.spec)
		if to.real {
			r.Validated(1)
			rc := realErrClass(to)
			if !bytes.Equal(to.rd.Got, to.got) || rc != to.lerr {
				c.violate("delivered-differs-from-model", "correspondence",
					fmt.Sprintf("real %s delivered %d bytes (err %q), its model shadow %d bytes (err %q), first difference at %d", to.role, len(to.rd.Got), rc, len(to.got), to.lerr, firstDiff(to.rd.Got, to.got)))
			}
			r.Count("rxbuf-peak", obfskit.SizeClass(to.maxBuf))
			if bad {
				r.Count("malformed-outcome", rc)
				// every crafted stream is longer than maxPadding+32 bytes: the endpoint has seen enough to
				// reject by itself, before the end of the input
				if len(to.rd.Got) > 0 || to.rd.Err == nil || rc == "fail:eof" {
					c.violate("accepts-overpadding", "impl-oracle",
						fmt.Sprintf("real %s: the peer sent %s, Read delivered %d bytes, err=%v", to.role, describeBad(from.spec), len(to.rd.Got), to.rd.Err))
				}
				return
			}
			if !bytes.Equal(to.rd.Got, want) || (to.rd.Err != nil && c.End == "") {
				sig := "stream-not-delivered-intact"
				if !from.real {
					sig = "no-interop-with-reference-peer"
				}
				if c.End != "" && to.rd.Err != nil && len(to.rd.Got) < len(want) && bytes.HasPrefix(want, to.rd.Got) {
					// every byte the peer wrote must be delivered before the error is reported
					sig = "tail-lost-data-delivered-with-error"
					tail := c.TailR
					if to.role == "i" {
						tail = c.TailI
					}
					if tail > len(want) {
						// the chunk that came with the error reaches back into the magic / padding: it was
						// consumed by findPeerMagic, which returns on any error before looking at the bytes
						sig = "tail-lost-data-with-error-in-magic-scan"
					}
				}
				c.violate(sig, "impl-oracle",
					fmt.Sprintf("%s %s wrote %d bytes (padding %d+%d), real %s read %d bytes, first difference at %d, err=%v", kindOf(from), from.role, len(want),
						from.spec.Pad1, from.spec.Pad2, to.role, len(to.rd.Got), firstDiff(to.rd.Got, want), to.rd.Err))
			}
		} else if !bad && (!bytes.Equal(to.got, want) || to.lerr != "") {
			c.violate("no-interop-with-reference-peer", "impl-oracle",
				fmt.Sprintf("real %s wrote %d bytes (padding %d+%d), the reference peer (%s) decrypts %d bytes (%s), first difference at %d", from.role, len(want),
					from.spec.Pad1, from.spec.Pad2, to.role, len(to.got), to.lerr, firstDiff(to.got, want)))
		}
	}
	check(R, I, append(catI, extra[I]...))
	check(I, R, append(catR, extra[R]...))
	nontrivial = len(catI) > 0 && len(catR) > 0 && (malformed || len(c.ToI)+len(c.ToR)+len(c.DataToI)+len(c.DataToR) > 0)
	r.Count("data-i", obfskit.SizeClass(len(catI)))
	r.Count("data-r", obfskit.SizeClass(len(catR)))
	r.Count("read-max", strconv.Itoa(c.ReadMax))
	r.Count("coalesced", strconv.FormatBool(c.Coalesce))
	res := "streams equal both ways"
	if malformed {
		res = "real endpoint rejected: " + realErrClass(I) + realErrClass(R)
	}
	r.Sample(6, map[string]interface{}{"kind": c.Kind, "chunker": c.Chunker, "pads_i": []int{c.I.Pad1, c.I.Pad2}, "pads_r": []int{c.R.Pad1, c.R.Pad2},
		"i_real": c.I.Real, "r_real": c.R.Real, "privkey_i": privClass(c.I.Priv), "privkey_r": privClass(c.R.Priv),
		"bytes_i_to_r": len(catI), "bytes_r_to_i": len(catR), "to_i_chunks": len(c.ToI) + 1, "to_r_chunks": len(c.ToR) + 1, "result": res})
}

func b2i(b bool) int {
	if b {
		return 1
	}
	return 0
}

func malformedSender(s sideSpec) bool {
	return s.NoMagic || len(vlib.UnHex(s.Pad1B))+len(vlib.UnHex(s.Pad2B)) > maxPadding
}

func describeBad(s sideSpec) string {
	if s.NoMagic {
		return fmt.Sprintf("%d bytes of junk and no magic", len(vlib.UnHex(s.Pad1B))+len(vlib.UnHex(s.Junk)))
	}
	return fmt.Sprintf("%d+%d = %d > %d bytes of padding before its magic", len(vlib.UnHex(s.Pad1B)), len(vlib.UnHex(s.Pad2B)),
		len(vlib.UnHex(s.Pad1B))+len(vlib.UnHex(s.Pad2B)), maxPadding)
}

func privClass(h string) string {
	b := vlib.UnHex(h)
	allz, allf := true, true
	for _, x := range b[:len(b)-1] {
		if x != 0 {
			allz = false
		}
		if x != 0xff {
			allf = false
		}
	}
	last := b[len(b)-1]
	switch {
	case allz && last <= 3:
		return fmt.Sprintf("tiny(%d)", last)
	case allf && last >= 0xfe:
		return fmt.Sprintf("all-ones(lsb=%d)", last&1)
	case last&1 == 0:
		return "random-even"
	default:
		return "random-odd"
	}
}

// ---------------------------------------------------------------- concurrency (S oracle only)

// runConcurrent: `batches` × `pairs` real client↔server pairs over buffered in-memory pipes, all
// handshakes of a batch released at the same instant on separate goroutines: state shared between
// connections (a package-level HMAC / cipher / big.Int scratch value) only shows when connections
// overlap. Every pair must complete and carry its payloads intact; nothing is compared with the model.
func runConcurrent(c *scase) {
	tape = vlib.InstallRandTape(c.TapeSeed)
	csrand.Reader = tape
	g := vlib.NewRng(c.TapeSeed ^ 0x5eed)
	dial := func(raw net.Conn) (net.Conn, error) {
		return cf.Dial("tcp", "192.0.2.1:1", func(string, string) (net.Conn, error) { return raw, nil }, nil)
	}
	bad := 0
	for b := 0; b < c.Batches; b++ {
		pl := make([][2][]byte, c.Pairs)
		for i := range pl {
			pl[i] = [2][]byte{g.Bytes(1 + g.Intn(3000)), g.Bytes(1 + g.Intn(3000))}
		}
		res := obfskit.RunPairs(c.Pairs, func(i int) ([]byte, []byte) { return pl[i][0], pl[i][1] }, dial, sf.WrapConn, 10*time.Second)
		for i, x := range res {
			r.Case(fmt.Sprintf("concurrent %d batch %d pair %d", c.TapeSeed, b, i), true)
			r.Count("kind", "concurrent-real-real")
			if x.Err == "" {
				continue
			}
			bad++
			sig := "stream-garbled-under-concurrency"
			if x.Panic || strings.Contains(x.Err, "handshake") || strings.Contains(x.Err, "in time") || strings.Contains(x.Err, "read:") {
				sig = "handshake-fails-under-concurrency"
			}
			c.violate(sig, "impl-oracle",
				fmt.Sprintf("batch %d of %d simultaneous obfs3 client/server pairs in one process, pair %d: %s (the same pair run alone completes)", b, c.Pairs, i, x.Err))
		}
		if bad > 0 {
			break // one failing batch is the finding; further batches would only repeat it (and may each run into the time limit)
		}
	}
	r.Count("concurrent-outcome", fmt.Sprintf("failed-pairs=%d", bad))
}

// runCorpus re-runs the kept replays (known findings, past disagreements) first.
func runCorpus() {
	files, _ := filepath.Glob(filepath.Join(os.Getenv("VERIF_DIR"), "corpus", "C13", "*.json"))
	sort.Strings(files)
	for _, f := range files {
		b, err := os.ReadFile(f)
		if err != nil {
			continue
		}
		var doc struct {
			Case scase `json:"case"`
		}
		if json.Unmarshal(b, &doc) != nil || doc.Case.Kind == "" || doc.Case.Kind == "dh" || doc.Case.Kind == "concurrent" {
			continue
		}
		r.Count("kind", "corpus")
		runCase(&doc.Case)
	}
}

// ---------------------------------------------------------------- generators

func randHex(g *vlib.Rng, n int) string { return vlib.Hex(g.Bytes(n)) }

func genPriv(g *vlib.Rng, i int) string {
	b := make([]byte, keySize)
	switch i % 9 {
	case 0: // 0
	case 1:
		b[keySize-1] = 1
	case 2:
		b[keySize-1] = 2
	case 3:
		b[keySize-1] = 3
	case 4, 5:
		for j := range b {
			b[j] = 0xff
		}
		if i%9 == 5 {
			b[keySize-1] = 0xfe
		}
	default:
		b = g.Bytes(keySize)
		if i%9 == 6 {
			b[keySize-1] &^= 1
		} else if i%9 == 7 {
			b[keySize-1] |= 1
		}
	}
	return vlib.Hex(b)
}

var padExtremes = []int{0, 1, halfPad, halfPad - 1, 31, 32, 33}

func genPad(g *vlib.Rng, i int, small bool) int {
	if small {
		return []int{0, 1, 2, 33, 200}[i%5]
	}
	if i%3 != 2 {
		return padExtremes[(i/3*2+i%3)%len(padExtremes)]
	}
	return g.Intn(halfPad + 1)
}

func genSide(g *vlib.Rng, i int, real, small bool) sideSpec {
	s := sideSpec{Real: real, Priv: genPriv(g, g.Intn(9)), Pad1: genPad(g, i, small), Pad2: genPad(g, g.Intn(1000), small)}
	if i%11 == 0 {
		// both paddings maximal: 4097 + 4097 = 8194 is the largest legal total
		s.Pad1, s.Pad2 = halfPad, halfPad
	}
	if g.Intn(10) == 0 {
		s.Reject = 1
	}
	if !real {
		s.Pad1B = randHex(g, s.Pad1)
		s.Pad2B = randHex(g, s.Pad2)
	}
	return s
}

func genWrites(g *vlib.Rng, small, big bool) []string {
	n := 1 + g.Intn(4)
	var ws []string
	for i := 0; i < n; i++ {
		var sz int
		switch g.Intn(6) {
		case 0:
			sz = g.Intn(2)
		case 1, 2:
			sz = 1 + g.Intn(100)
		case 3:
			sz = 1400 + g.Intn(100)
		case 4:
			sz = 1 + g.Intn(5000)
		default:
			sz = 16*g.Intn(20) + g.Intn(3) - 1
			if sz < 0 {
				sz = 0
			}
		}
		if small && sz > 200 {
			sz %= 200
		}
		if big && i == 0 {
			sz = 65536 + g.Intn(3) - 1
		}
		ws = append(ws, randHex(g, sz))
	}
	ws = append(ws, randHex(g, 1+g.Intn(40)))
	return ws
}

func total(ws []string) int {
	n := 0
	for _, w := range ws {
		n += len(vlib.UnHex(w))
	}
	return n
}

func bounds(start int, ws []string) []int {
	var b []int
	p := start
	for _, w := range ws {
		p += len(vlib.UnHex(w))
		b = append(b, p)
	}
	return b
}

// layout computes the segmentations of a case from its chunker.
func layout(g *vlib.Rng, c *scase, chunker string) {
	padTo := func(s sideSpec) (int, int) {
		if s.Craft {
			return len(vlib.UnHex(s.Pad1B)), len(vlib.UnHex(s.Pad2B))
		}
		return s.Pad1, s.Pad2
	}
	i1, i2 := padTo(c.I)
	r1, r2 := padTo(c.R)
	if c.I.NoMagic {
		i2 = len(vlib.UnHex(c.I.Junk)) - magicLen - len(vlib.UnHex(c.WritesI[0]))
	}
	if c.R.NoMagic {
		r2 = len(vlib.UnHex(c.R.Junk)) - magicLen - len(vlib.UnHex(c.WritesR[0]))
	}
	// first delivery to each side: the peer's blob; for the side finishing second also the
	// peer's first write (padding2 ‖ magic ‖ data) when coalesced
	firstTo := func(p1, p2 int, ws []string, coalesced bool) (int, []int) {
		n := keySize + p1
		b := []int{keySize, n}
		if coalesced {
			m := n + p2
			n = m + magicLen + len(vlib.UnHex(ws[0]))
			b = append(b, m, m+magicLen/2, m+magicLen, n)
		}
		return n, b
	}
	nI, bI := firstTo(r1, r2, c.WritesR, c.Coalesce && c.First == "r")
	nR, bR := firstTo(i1, i2, c.WritesI, c.Coalesce && c.First == "i")
	c.ToI = obfskit.Sizes(g, chunker, nI, bI)
	c.ToR = obfskit.Sizes(g, chunker, nR, bR)
	rest := func(p2 int, ws []string, coalesced bool) (int, []int) {
		if coalesced {
			return total(ws[1:]), bounds(0, ws[1:])
		}
		n := p2 + magicLen + total(ws)
		return n, append([]int{p2, p2 + 1, p2 + magicLen/2, p2 + magicLen - 1, p2 + magicLen}, bounds(p2+magicLen, ws)...)
	}
	nDR, bDR := rest(i2, c.WritesI, c.Coalesce && c.First == "i")
	nDI, bDI := rest(r2, c.WritesR, c.Coalesce && c.First == "r")
	c.DataToR = obfskit.Sizes(g, chunker, nDR, bDR)
	c.DataToI = obfskit.Sizes(g, chunker, nDI, bDI)
}

func genSession(g *vlib.Rng, i int, chunker string, iReal, rReal bool) *scase {
	small := chunker == "one" && i%24 != 0
	c := &scase{Kind: "session", TapeSeed: g.U64(), Chunker: chunker, CutAt: -1}
	c.I = genSide(g, i, iReal, small)
	c.R = genSide(g, i/2+5, rReal, small)
	c.First = vlib.Pick(g, []string{"i", "r"})
	c.Coalesce = g.Intn(3) > 0
	c.ReadMax = vlib.Pick(g, []int{1, 7, 1500, 32768})
	tiny := c.ReadMax == 1 || chunker == "one"
	c.WritesI = genWrites(g, tiny, r.Thorough() && i%40 == 7 && !tiny)
	c.WritesR = genWrites(g, tiny, false)
	layout(g, c, chunker)
	if i%3 == 1 {
		// the connection ends in both directions: the last bytes come in the same Read as the error
		c.End = vlib.Pick(g, []string{"eof", "eof", "reset"})
		tail := func(ws []string) int {
			n := len(vlib.UnHex(ws[len(ws)-1]))
			if n > c.ReadMax {
				n = c.ReadMax
			}
			return 1 + g.Intn(n)
		}
		c.TailR, c.TailI = tail(c.WritesI), tail(c.WritesR)
	}
	c.Timeouts = i%3 == 2
	return c
}

// genScanEnd: each side writes once; the peer's whole second flight pad2 ‖ magic ‖ data is the final
// chunk, handed out together with the error while the receiver is still scanning for the magic.
func genScanEnd(g *vlib.Rng, realRole string, end string, p2, dlen int) *scase {
	c := &scase{Kind: "session", TapeSeed: g.U64(), Chunker: "scan-end", CutAt: -1, First: vlib.Pick(g, []string{"i", "r"}), End: end, ReadMax: 32768}
	c.I = genSide(g, 1, realRole != "r", true)
	c.R = genSide(g, 2, realRole != "i", true)
	for _, x := range []*sideSpec{&c.I, &c.R} {
		x.Pad2, x.Reject = p2, 0
		if !x.Real {
			x.Pad2B = randHex(g, p2)
		}
	}
	c.WritesI, c.WritesR = []string{randHex(g, dlen)}, []string{randHex(g, dlen)}
	c.TailI, c.TailR = p2+magicLen+dlen, magicLen/2+dlen
	return c
}

// genBad: a crafted reference peer (role peerRole) sends too much padding or no magic at all.
func genBad(g *vlib.Rng, kind string, peerRole string, p1, p2 int, chunker string) *scase {
	c := &scase{Kind: kind, TapeSeed: g.U64(), Chunker: chunker, CutAt: -1, ReadMax: vlib.Pick(g, []int{7, 1500, 32768})}
	c.I = genSide(g, 1, peerRole != "i", true)
	c.R = genSide(g, 2, peerRole != "r", true)
	y := &c.R
	if peerRole == "i" {
		y = &c.I
	}
	y.Real = false
	y.Craft = true
	y.Pad1, y.Pad2 = p1, p2
	y.Pad1B, y.Pad2B = randHex(g, p1), randHex(g, p2)
	c.WritesI = genWrites(g, true, false)
	c.WritesR = genWrites(g, true, false)
	if kind == "nomagic" {
		y.NoMagic = true
		w := c.WritesR
		if peerRole == "i" {
			w = c.WritesI
		}
		y.Junk = randHex(g, p2+magicLen+len(vlib.UnHex(w[0])))
	}
	// the crafted peer completes first and sends at once or later
	c.First = peerRole
	c.Coalesce = g.Intn(2) == 0
	layout(g, c, chunker)
	return c
}

// genFlight: the peer (`firstRole`, real or reference) finishes its handshake first and writes at
// once, so that its whole flight key ‖ pad1 ‖ pad2 ‖ magic ‖ data reaches the other (real) side in
// ONE segment (cut < 0) or in two segments cut at `cut` — and then sends nothing more until it is
// answered. Every byte of `data` must become readable without further traffic.
func genFlight(g *vlib.Rng, firstRole string, firstReal bool, p1, p2, dlen, cut int) *scase {
	c := &scase{Kind: "session", TapeSeed: g.U64(), Chunker: "flight-one-segment", CutAt: -1, First: firstRole, Coalesce: true,
		ReadMax: vlib.Pick(g, []int{7, 1500, 32768})}
	c.I = genSide(g, 1, firstRole != "i" || firstReal, true)
	c.R = genSide(g, 2, firstRole != "r" || firstReal, true)
	x := &c.I
	if firstRole == "r" {
		x = &c.R
	}
	x.Pad1, x.Pad2, x.Reject = p1, p2, 0
	if !x.Real {
		x.Pad1B, x.Pad2B = randHex(g, p1), randHex(g, p2)
	}
	wf := []string{randHex(g, dlen)}
	ws := genWrites(g, true, false)
	var to []int
	if cut > 0 {
		to = []int{cut}
		c.Chunker = "flight-two-segments"
	}
	if firstRole == "i" {
		c.WritesI, c.WritesR, c.ToR = wf, ws, to
	} else {
		c.WritesR, c.WritesI, c.ToI = wf, ws, to
	}
	return c
}

// flightCuts: every phase boundary of a flight, ±1.
func flightCuts(p1, p2, dlen int) []int {
	total := keySize + p1 + p2 + magicLen + dlen
	seen := map[int]bool{}
	var cuts []int
	for _, b := range []int{keySize, keySize + p1, keySize + p1 + p2, keySize + p1 + p2 + magicLen/2, keySize + p1 + p2 + magicLen, total} {
		for d := -1; d <= 1; d++ {
			if x := b + d; x > 0 && x < total && !seen[x] {
				seen[x] = true
				cuts = append(cuts, x)
			}
		}
	}
	return cuts
}

func genCut(g *vlib.Rng, realRole string, cut int) *scase {
	c := &scase{Kind: "cut", TapeSeed: g.U64(), Chunker: "whole", CutAt: cut, ReadMax: 1500, First: "i"}
	c.I = genSide(g, 1, realRole == "i", true)
	c.R = genSide(g, 2, realRole == "r", true)
	return c
}

// ---------------------------------------------------------------- UniformDH

type dhcase struct {
	Kind  string `json:"kind"` // "dh"
	PrivA string `json:"priv_a"`
	PrivB string `json:"priv_b"`
	Peer  string `json:"peer,omitempty"` // arbitrary peer key bytes for the correspondence of Handshake
	PrivC string `json:"priv_c,omitempty"` // reuse family: a second initiator against the same parsed key of B
	Reuse bool   `json:"reuse,omitempty"`
}

// runDHReuse: key objects are values, not one-shot tokens. One parsed copy of B's public key (and
// B's PrivateKey object, whose embedded PublicKey is also used as a peer key) serves several
// Handshake calls — two initiators A and C, repeated exchanges, calls in both directions. Every
// call must return the secret of the ORIGINAL numbers (= what the other party derives with freshly
// parsed keys = the Lean sharedSecret), and the key objects must read back unchanged.
func runDHReuse(c *dhcase) {
	key, _ := json.Marshal(c)
	r.Case(string(key), true)
	r.Count("kind", "dh-reuse")
	gen := func(h string) *uniformdh.PrivateKey {
		k, err := uniformdh.GenerateKey(bytes.NewReader(vlib.UnHex(h)))
		if err != nil {
			r.Violate("uniformdh-generatekey-fails", "impl-oracle", err.Error(), c)
		}
		return k
	}
	ka, kb, kc := gen(c.PrivA), gen(c.PrivB), gen(c.PrivC)
	if ka == nil || kb == nil || kc == nil {
		return
	}
	pub := func(k *uniformdh.PrivateKey) []byte { b, _ := k.PublicKey.Bytes(); return b }
	paB, pbB, pcB := pub(ka), pub(kb), pub(kc)
	parse := func(b []byte) *uniformdh.PublicKey {
		var p uniformdh.PublicKey
		if err := p.SetBytes(b); err != nil {
			r.Violate("uniformdh-setbytes-fails", "impl-oracle", err.Error(), c)
		}
		return &p
	}
	// reference values: the other party's view with freshly parsed keys, and the Lean model
	fresh := func(k *uniformdh.PrivateKey, peer []byte) []byte { s, _ := safeHandshake(k, parse(peer)); return s }
	model := func(priv string, peer []byte) string {
		f := obfskit.Fields(d.Call("dh %s %s", priv, vlib.Hex(peer)))
		if len(f) != 3 {
			return "driver:" + strings.Join(f, " ")
		}
		return f[2]
	}
	wantAB, wantCB := fresh(kb, paB), fresh(kb, pcB) // B's side, computed before anything is reused
	mAB, mCB := model(c.PrivA, pbB), model(c.PrivC, pbB)
	shared := parse(pbB) // ONE parsed copy of B's key for everybody
	type call struct {
		who  string
		k    *uniformdh.PrivateKey
		peer *uniformdh.PublicKey
		want []byte
		m    string
	}
	calls := []call{
		{"A with the shared parsed key of B (1st use)", ka, shared, wantAB, mAB},
		{"C with the shared parsed key of B (2nd use)", kc, shared, wantCB, mCB},
		{"A with the shared parsed key of B (3rd use)", ka, shared, wantAB, mAB},
		{"A with B's own PrivateKey.PublicKey (1st use)", ka, &kb.PublicKey, wantAB, mAB},
		{"C with B's own PrivateKey.PublicKey (2nd use)", kc, &kb.PublicKey, wantCB, mCB},
		{"B with A's own PrivateKey.PublicKey, after B's key was used as a peer key", kb, &ka.PublicKey, wantAB, mAB},
		{"B with a fresh parse of C's key, after B's key was used as a peer key", kb, parse(pcB), wantCB, mCB},
		{"C with the shared parsed key of B (4th use)", kc, shared, wantCB, mCB},
	}
	for n, x := range calls {
		got, pv := safeHandshake(x.k, x.peer)
		r.Validated(1)
		if pv != nil {
			r.Violate("uniformdh-handshake-panics", "impl-oracle", fmt.Sprintf("call %d (%s): %v", n+1, x.who, pv), c)
			return
		}
		if !bytes.Equal(got, x.want) {
			sig := "secret-history-dependent"
			if n > 0 && strings.Contains(x.who, "use)") {
				sig = "handshake-mutates-peer-key"
			}
			r.Violate(sig, "impl-oracle",
				fmt.Sprintf("call %d of a series on the same key objects (%s) returns …%s, but the other party (fresh keys, same numbers) derives …%s: the result of Handshake depends on earlier calls", n+1, x.who, vlib.Hex(tail(got, 8)), vlib.Hex(tail(x.want, 8))), c)
			return
		}
		if vlib.Hex(got) != x.m {
			r.Violate("uniformdh-differs-from-model", "correspondence",
				fmt.Sprintf("call %d (%s): real …%s, model %s", n+1, x.who, vlib.Hex(tail(got, 8)), tail([]byte(x.m), 16)), c)
			return
		}
	}
	// the key objects read back unchanged
	if sb, _ := shared.Bytes(); !bytes.Equal(sb, pbB) || !bytes.Equal(pub(kb), pbB) || !bytes.Equal(pub(ka), paB) || !bytes.Equal(pub(kc), pcB) {
		r.Violate("handshake-mutates-peer-key", "impl-oracle", "a key object's Bytes() changed after Handshake calls", c)
	}
	r.Count("dh-reuse", privClass(c.PrivA)+"/"+privClass(c.PrivB)+"/"+privClass(c.PrivC))
}

func runDH(c *dhcase) {
	if c.Reuse {
		runDHReuse(c)
		return
	}
	key, _ := json.Marshal(c)
	a0, b0 := vlib.UnHex(c.PrivA), vlib.UnHex(c.PrivB)
	r.Case(string(key), true)
	r.Count("kind", "dh")
	if c.Peer != "" {
		// Handshake against arbitrary peer bytes (0, 1, p-1, p, ≥ p, all-ones): model vs code
		ka, err := uniformdh.GenerateKey(bytes.NewReader(a0))
		if err != nil {
			r.Violate("uniformdh-generatekey-fails", "impl-oracle", err.Error(), c)
			return
		}
		var pk uniformdh.PublicKey
		if err := pk.SetBytes(vlib.UnHex(c.Peer)); err != nil {
			r.Violate("uniformdh-setbytes-fails", "impl-oracle", err.Error(), c)
			return
		}
		sec, pv := safeHandshake(ka, &pk)
		if pv != nil {
			r.Violate("uniformdh-handshake-panics", "impl-oracle", fmt.Sprintf("Handshake panicked on peer key %s…: %v", c.Peer[:16], pv), c)
			return
		}
		rep := d.Call("dh %s %s", c.PrivA, c.Peer)
		f := obfskit.Fields(rep)
		r.Validated(1)
		pub, _ := ka.PublicKey.Bytes()
		if len(f) != 3 || f[1] != vlib.Hex(pub) || f[2] != vlib.Hex(sec) {
			r.Violate("uniformdh-differs-from-model", "correspondence",
				fmt.Sprintf("priv …%s peer %s…: real pub …%s secret …%s, model %s", c.PrivA[len(c.PrivA)-8:], c.Peer[:16], vlib.Hex(tail(pub, 8)), vlib.Hex(tail(sec, 8)), head([]byte(rep), 60)), c)
		}
		r.Count("dh-peer", peerClass(c.Peer))
		return
	}
	// all four X / p−X combinations: the low bit of each private key selects what is sent
	var secrets []string
	for combo := 0; combo < 4; combo++ {
		a := append([]byte{}, a0...)
		b := append([]byte{}, b0...)
		a[keySize-1] = a[keySize-1]&^1 | byte(combo&1)
		b[keySize-1] = b[keySize-1]&^1 | byte(combo>>1)
		ka, e1 := uniformdh.GenerateKey(bytes.NewReader(a))
		kb, e2 := uniformdh.GenerateKey(bytes.NewReader(b))
		if e1 != nil || e2 != nil {
			r.Violate("uniformdh-generatekey-fails", "impl-oracle", fmt.Sprint(e1, e2), c)
			return
		}
		pa, _ := ka.PublicKey.Bytes()
		pb, _ := kb.PublicKey.Bytes()
		if len(pa) != keySize || len(pb) != keySize {
			r.Violate("uniformdh-public-key-not-192", "impl-oracle", fmt.Sprintf("public keys of %d and %d bytes", len(pa), len(pb)), c)
			return
		}
		var qa, qb uniformdh.PublicKey
		if qa.SetBytes(pa) != nil || qb.SetBytes(pb) != nil {
			r.Violate("uniformdh-setbytes-fails", "impl-oracle", "own public key rejected", c)
			return
		}
		sa, p1 := safeHandshake(ka, &qb)
		sb, p2 := safeHandshake(kb, &qa)
		if p1 != nil || p2 != nil {
			r.Violate("uniformdh-handshake-panics", "impl-oracle", fmt.Sprint(p1, p2), c)
			return
		}
		if !bytes.Equal(sa, sb) || len(sa) != keySize {
			r.Violate("uniformdh-secrets-differ", "impl-oracle",
				fmt.Sprintf("combo a-lsb=%d b-lsb=%d: A derives …%s (%d bytes), B derives …%s (%d bytes)", combo&1, combo>>1, vlib.Hex(tail(sa, 8)), len(sa), vlib.Hex(tail(sb, 8)), len(sb)), c)
			return
		}
		secrets = append(secrets, vlib.Hex(sa))
		// the model, byte for byte
		rep := d.Call("dh %s %s", vlib.Hex(a), vlib.Hex(pb))
		f := obfskit.Fields(rep)
		r.Validated(1)
		if len(f) != 3 || f[1] != vlib.Hex(pa) || f[2] != vlib.Hex(sa) {
			// keep going: the oracle below may turn the disagreement into a failing input
			r.Violate("uniformdh-differs-from-model", "correspondence",
				fmt.Sprintf("priv …%s (combo %d): real pub …%s secret …%s, model %s", vlib.Hex(tail(a, 4)), combo, vlib.Hex(tail(pa, 8)), vlib.Hex(tail(sa, 8)), head([]byte(rep), 60)), c)
		}
	}
	for i, s := range secrets[1:] {
		if s != secrets[0] {
			r.Violate("uniformdh-secret-depends-on-coin", "impl-oracle",
				fmt.Sprintf("same private numbers, but the shared secret changes with the X / p-X choice (a-lsb=%d b-lsb=%d: …%s, both 0: …%s)", (i+1)&1, (i+1)>>1, s[len(s)-16:], secrets[0][len(secrets[0])-16:]), c)
			break
		}
	}
	r.Count("dh-priv", privClass(c.PrivA)+"/"+privClass(c.PrivB))
	r.Sample(8, map[string]interface{}{"kind": "dh", "priv_a": privClass(c.PrivA), "priv_b": privClass(c.PrivB), "result": "same secret for all four X/p-X combinations; model agrees byte for byte"})
}

func peerClass(h string) string {
	b := vlib.UnHex(h)
	z := true
	for _, x := range b[:len(b)-1] {
		if x != 0 {
			z = false
		}
	}
	if z {
		return fmt.Sprintf("tiny(%d)", b[len(b)-1])
	}
	if b[0] == 0xff && b[1] == 0xff && b[8] == 0xff {
		return "all-ones"
	}
	if b[0] == 0xff {
		return "near-p"
	}
	return "random"
}

func safeHandshake(k *uniformdh.PrivateKey, p *uniformdh.PublicKey) (s []byte, pv interface{}) {
	defer func() { pv = recover() }()
	s, _ = uniformdh.Handshake(k, p)
	return
}

const modpHex = "FFFFFFFFFFFFFFFFC90FDAA22168C234C4C6628B80DC1CD129024E088A67CC74020BBEA63B139B22514A08798E3404DDEF9519B3CD3A431B302B0A6DF25F14374FE1356D6D51C245E485B576625E7EC6F44C42E9A637ED6B0BFF5CB6F406B7EDEE386BFB5A899FA5AE9F24117C4B1FE649286651ECE45B3DC2007CB8A163BF0598DA48361C55D39A69163FA8FD24CF5F83655D23DCA3AD961C62F356208552BB9ED529077096966D670C354E4ABC9804F1746C08CA237327FFFFFFFFFFFFFFFF"

func main() {
	r = vlib.NewRun("C13")
	r.Rule = "session: both handshakes complete and at least one byte flows in each direction under a segmentation with at least one cut; overpad/nomagic: the crafted stream reaches the real endpoint's magic scan; cut: the peer's key is truncated; dh: always (a key pair per party, four X/p-X combinations)"
	if err := transports.Init(); err != nil {
		panic(err)
	}
	t := transports.Get("obfs3")
	if t == nil {
		panic("obfs3 transport not registered")
	}
	var err error
	if cf, err = t.ClientFactory(""); err != nil {
		panic(err)
	}
	if sf, err = t.ServerFactory("", &pt.Args{}); err != nil {
		panic(err)
	}
	d = r.Driver("obfs3")
	defer d.Close()

	if r.ReplayIn != "" {
		var probe struct {
			Kind string `json:"kind"`
		}
		if err := r.LoadReplay(&probe); err != nil {
			fmt.Println("cannot load replay:", err)
			r.Finish()
		}
		if probe.Kind == "dh" {
			var c dhcase
			r.LoadReplay(&c)
			runDH(&c)
		} else if probe.Kind == "concurrent" {
			var c scase
			r.LoadReplay(&c)
			c.Batches *= 10 // scheduling is not reproducible: replay the family, harder
			runConcurrent(&c)
		} else {
			var c scase
			r.LoadReplay(&c)
			runCase(&c)
		}
		r.Finish()
	}

	g := vlib.NewRng(r.Seed)
	runCorpus()
	// --- overlapping connections (r.Scale triples the counts in search mode)
	runConcurrent(&scase{Kind: "concurrent", TapeSeed: g.U64(), Batches: r.Scale(60, 600), Pairs: 16})
	// --- UniformDH
	nDH := r.Scale(45, 600)
	for i := 0; i < nDH; i++ {
		runDH(&dhcase{Kind: "dh", PrivA: genPriv(g, i), PrivB: genPriv(g, i/9+i)})
	}
	// key objects reused across several exchanges, all parity combinations of the three keys
	for i := 0; i < r.Scale(16, 160); i++ {
		set := func(h string, bit int) string {
			b := vlib.UnHex(h)
			b[keySize-1] = b[keySize-1]&^1 | byte(bit)
			return vlib.Hex(b)
		}
		runDH(&dhcase{Kind: "dh", Reuse: true, PrivA: set(genPriv(g, i), i&1), PrivB: set(genPriv(g, i/8+i+3), i>>1&1), PrivC: set(genPriv(g, 6+i%3), i>>2&1)})
	}
	pm1 := strings.ToLower(modpHex[:len(modpHex)-1] + "e")
	pp1 := strings.ToLower(modpHex[:len(modpHex)-16] + "0000000000000000")
	peers := []string{vlib.Hex(make([]byte, keySize)), vlib.Hex(append(make([]byte, keySize-1), 1)), vlib.Hex(append(make([]byte, keySize-1), 2)),
		pm1, strings.ToLower(modpHex), pp1, strings.Repeat("ff", keySize)}
	for i, p := range peers {
		for j := 0; j < r.Scale(2, 9); j++ {
			runDH(&dhcase{Kind: "dh", PrivA: genPriv(g, i+j), Peer: p})
		}
	}
	for j := 0; j < r.Scale(6, 60); j++ {
		runDH(&dhcase{Kind: "dh", PrivA: genPriv(g, j), Peer: randHex(g, keySize)})
	}
	// --- sessions
	reps := r.Scale(8, 160)
	configs := [][2]bool{{true, true}, {true, false}, {false, true}}
	i := 0
	for rep := 0; rep < reps; rep++ {
		for _, ch := range obfskit.Chunkers {
			for _, cfg := range configs {
				runCase(genSession(g.Fork(), i, ch, cfg[0], cfg[1]))
				i++
			}
		}
	}
	// --- too much padding / no magic, towards both roles
	type pp struct{ a, b int }
	over := []pp{{halfPad, halfPad + 1}, {halfPad + 1, halfPad}, {0, maxPadding + 1}, {maxPadding + 1, 0}, {maxPadding - 31, 32}, {5000, 5000}, {9000, 0}, {100, 20000}}
	legal := []pp{{halfPad, halfPad}, {0, maxPadding}, {maxPadding, 0}, {maxPadding - 32, 32}}
	chs := []string{"whole", "bound-1", "bound", "bound+1", "random", "two", "mixed"}
	n := 0
	for rounds := 0; rounds < r.Scale(1, 6); rounds++ {
		for _, role := range []string{"i", "r"} {
			for _, p := range over {
				runCase(genBad(g.Fork(), "overpad", role, p.a, p.b, chs[n%len(chs)]))
				n++
			}
			for _, p := range legal {
				// the largest legal totals in unusual splits (a crafted peer, but within the limit): must be accepted
				runCase(genBad(g.Fork(), "session", role, p.a, p.b, chs[n%len(chs)]))
				n++
			}
			for _, p := range []pp{{0, 8300}, {4000, 4300}, {8226, 10}, {10, 30000}} {
				runCase(genBad(g.Fork(), "nomagic", role, p.a, p.b, chs[n%len(chs)]))
				n++
			}
		}
	}
	for _, role := range []string{"i", "r"} {
		for _, cut := range []int{0, 1, 100, 191, 192} {
			runCase(genCut(g.Fork(), role, cut))
		}
	}
	// --- the stream ends while the receiver still scans for the magic: the final chunk (part of the
	// magic and the data, or the whole second flight) comes in the same Read as the error
	for _, role := range []string{"i", "r", "both"} {
		for _, end := range []string{"eof", "reset"} {
			runCase(genScanEnd(g.Fork(), role, end, []int{0, 7, 300}[g.Intn(3)], 1+g.Intn(200)))
		}
	}
	// --- the peer's whole flight (key ‖ pad1 ‖ pad2 ‖ magic ‖ data) in one segment, and in two
	// segments cut at every phase boundary ±1, after which the peer waits for an answer
	type fl struct{ p1, p2, d int }
	flights := []fl{{0, 0, 1}, {1, 0, 100}, {33, 5, 1400}, {700, 900, 64}, {0, 31, 2000}, {2000, 2000, 33}, {halfPad, halfPad, 3000}, {0, halfPad, 7}}
	for round := 0; round < r.Scale(1, 4); round++ {
		for fi, f := range flights {
			for _, role := range []string{"i", "r"} {
				for _, firstReal := range []bool{false, true} {
					if round > 0 {
						f = fl{g.Intn(halfPad + 1), g.Intn(halfPad + 1), 1 + g.Intn(3000)}
						if g.Intn(2) == 0 { // small enough for one handshake-sized read
							f = fl{g.Intn(1200), g.Intn(1200), 1 + g.Intn(1500)}
						}
					}
					runCase(genFlight(g.Fork(), role, firstReal, f.p1, f.p2, f.d, -1))
					cuts := flightCuts(f.p1, f.p2, f.d)
					if !r.Thorough() && fi%3 != (round+b2i(firstReal))%3 {
						// quick: all boundary cuts for a third of the flights, two random boundaries otherwise
						cuts = []int{vlib.Pick(g, cuts), vlib.Pick(g, cuts)}
					}
					for _, cut := range cuts {
						runCase(genFlight(g.Fork(), role, firstReal, f.p1, f.p2, f.d, cut))
					}
				}
			}
		}
	}
	r.Notes["lean_driver_calls"] = d.Calls
	r.Notes["rxbuf_bound_checked"] = rxBufBound
	r.Assumptions = append(r.Assumptions,
		"the in-memory conn returns at most one fed chunk per Read (never coalesces), like a TCP socket read right after each segment arrives",
		"no false magic hit: the 32-byte HMAC magic does not occur by chance in the random padding (probability < 2^-240 per session)")
	r.Finish()
}
