import O4.Lemmas.Framing
import O4.Model.Obfs4Conn
/-! Statement skeleton for C01 / C05 (to be proved; `sorry`s are placeholders, none may remain). -/
namespace O4.Obfs4
open O4.Framing O4.Consts.Obfs4

/-- the honest sender's packet for nonce `n` (1-based) -/
def sentFn (sent : List Bytes) (n : Nat) : Option Bytes := if n = 0 then none else sent[n - 1]?

/-- A reader session: `Read` calls with the given buffer sizes against the list of network
    results; returns everything delivered to the application, the errors reported (in order),
    the final state, and whether it ended blocked (network exhausted, nothing decoded). -/
def session (c : Crypto) (isServer : Bool) : List Nat → Rx → List NetEv → Bytes × List RxErr × Rx × Bool
  | [], rx, _ => ([], [], rx, false)
  | n :: ns, rx, evs =>
    match read c isServer n rx evs with
    | .blocked rx' => ([], [], rx', true)
    | .ret rx' bytes err rest =>
      let (d, es, rxf, bl) := session c isServer ns rx' rest
      (bytes ++ d, (match err with | some e => [e] | none => []) ++ es, rxf, bl)

/-- feeding chunks with no `Read` draining in between (stops at the first error) -/
def feedAll (c : Crypto) (isServer : Bool) : Rx → List Bytes → Rx × Option RxErr
  | rx, [] => (rx, none)
  | rx, ch :: rest =>
    match readPackets c isServer rx (.data ch) with
    | (rx1, some e) => (rx1, some e)
    | (rx1, none) => feedAll c isServer rx1 rest

/-- all packets well formed -/
def allSome : List (Option Bytes) → Option (List Bytes)
  | [] => some []
  | none :: _ => none
  | some p :: r => (allSome r).map (p :: ·)

-- ===== sender side =====
theorem payloadOf_makePacket (srv : Bool) (data : Bytes) (pad : Nat) (pkt : Bytes)
    (h : makePacket packetTypePayload data pad = some pkt) : payloadOf srv pkt = data := sorry

theorem makePacket_len (ty : Nat) (data : Bytes) (pad : Nat) (pkt : Bytes)
    (h : makePacket ty data pad = some pkt) :
    pkt.length = packetOverhead + data.length + pad ∧ pkt.length ≤ Consts.Framing.maximumFramePayloadLength := sorry

/-- C01.frames_roundtrip (sender half): the packets of a write carry exactly the written bytes;
    padding packets carry none; every chunk satisfies makePacket's precondition. -/
theorem tx_payload (srv : Bool) (data : Bytes) (pads : List Nat) (hp : ∀ p ∈ pads, p ≤ maxPacketPaddingLength) :
    ∃ pkts, allSome (txPackets data pads) = some pkts ∧ pkts.flatMap (payloadOf srv) = data := sorry

-- ===== C05 =====
/-- C05.prefix: whatever arrives from the network (any bytes, any chunking, any errors), with any
    read sizes, even if the caller keeps reading after errors: what is delivered is a prefix of
    the payload of the packets the honest peer sealed. -/
theorem prefix_of_sent (c : Crypto) (sent : List Bytes) (ha : BoxAuth c (sentFn sent)) (srv : Bool)
    (ns : List Nat) (evs : List NetEv) :
    (session c srv ns Rx.init evs).1 <+: sent.flatMap (payloadOf srv) := sorry

/-- generalisation to any state satisfying the invariant (needed for the induction; also covers the
    client whose receive buffer holds handshake surplus) -/
def RxInv (srv : Bool) (sent : List Bytes) (delivered : Bytes) (rx : Rx) : Prop :=
  rx.dec.k ≤ sent.length ∧ delivered ++ rx.decoded = (sent.take rx.dec.k).flatMap (payloadOf srv)

/-- C05.first_bad_frame_errors, decoder level is `Framing.bad_box_errors`; connection level:
    once the buffered bytes for the pending frame are not the honest box (or its length field
    was out of range), the buffer loop reports an error without delivering anything from that
    frame or any later one in that call. -/
theorem bad_frame_stops (c : Crypto) (sent : List Bytes) (ha : BoxAuth c (sentFn sent)) (srv : Bool)
    (rx : Rx) (len : Nat) (inv : Bool) (hp : rx.dec.pending = some (len, inv)) (hl : len ≤ rx.rxBuf.length)
    (hbad : inv = true ∨ ∀ pkt, sentFn sent (rx.dec.k + 1) = some pkt → rx.rxBuf.take len ≠ c.sealB (rx.dec.k + 1) pkt) :
    processBuffer c srv (procFuel rx) rx
      = ({ rx with rxBuf := rx.rxBuf.drop len }, some (.frame .tagMismatch)) := sorry

/-- C05.packet_checks_total: `parsePacket` never slices out of range: whatever the frame
    plaintext, the payload it yields is a sub-range of the packet (no panic outcome exists in
    the model because both range checks precede the slicing). -/
theorem parsePacket_total (srv : Bool) (pkt b : Bytes) (h : parsePacket srv pkt = .payload b ∨ parsePacket srv pkt = .seed b) :
    ∃ n, n ≤ pkt.length - packetOverhead ∧ b = (pkt.drop 3).take n ∧ b.length = n := sorry

-- ===== C01 =====
/-- the honest wire stream of a packet list from frame index 0 -/
def wire (c : Crypto) (pkts : List Bytes) : Bytes := encodeAll c 0 pkts

/-- C01.chunk_invariance + delivers: for EVERY chunking `cs` of the honest stream, feeding the
    chunks decodes exactly the payload, with no error and nothing left in the receive buffer. -/
theorem feed_honest_any_chunking (c : Crypto) (hc : CryptoOK c) (srv : Bool) (pkts : List Bytes)
    (hp : ∀ p ∈ pkts, p.length ≤ Consts.Framing.maximumFramePayloadLength)
    (hwf : ∀ p ∈ pkts, ∀ e, parsePacket srv p ≠ .bad e)
    (hn : pkts.length < ctrLimit - 1) (cs : List Bytes) (hcs : cs.flatten = wire c pkts) :
    ∃ rx, feedAll c srv Rx.init cs = (rx, none) ∧ rx.rxBuf = [] ∧ rx.dec = ⟨pkts.length, none⟩ ∧
      rx.decoded = pkts.flatMap (payloadOf srv) := sorry

/-- general chunk invariance (any bytes, not only honest streams): two chunkings of the same byte
    stream produce the same decoded bytes, seeds, decoder state, residue and first error. -/
theorem feed_chunk_invariant (c : Crypto) (srv : Bool) (cs cs' : List Bytes) (h : cs.flatten = cs'.flatten)
    (hne : ∀ ch ∈ cs, ch ≠ []) (hne' : ∀ ch ∈ cs', ch ≠ []) :
    (feedAll c srv Rx.init cs).2 = (feedAll c srv Rx.init cs').2 ∧
    ((feedAll c srv Rx.init cs).2 = none → feedAll c srv Rx.init cs = feedAll c srv Rx.init cs') := sorry
-- NOTE: if an error occurs the *states* may differ in how far past the error bytes were buffered; state
-- what is true (decoded bytes before the first error agree) and prove that.

/-- C01.no_stall: `Read` reports "blocked" only when the network has nothing more AND nothing is
    decoded AND the receive buffer holds no complete frame (the decoder needs more input): every
    frame completely received has been decoded and handed over. Requires that the state at entry
    was itself settled (`Settled`): true of `Rx.init`, of the server after its handshake (buffer
    reset) and of the client once the handshake surplus has been processed (the F1 repair). -/
def Settled (c : Crypto) (srv : Bool) (rx : Rx) : Prop := rxStep c srv rx.dec rx.rxBuf = none

theorem no_stall (c : Crypto) (srv : Bool) (n : Nat) (rx rx' : Rx) (evs : List NetEv)
    (hs : Settled c srv rx) (h : read c srv n rx evs = .blocked rx') :
    evs.all (fun e => match e with | .data _ => true | .fail _ => false) ∧ rx'.decoded = [] ∧ Settled c srv rx' := sorry

/-- C01.delivers_exactly: honest stream, ANY chunking, ANY read sizes (all > 0): if the session
    ends blocked (it consumed the whole stream) it delivered exactly the written bytes and no
    error was reported; and it always delivers a prefix. -/
theorem delivers_exactly (c : Crypto) (hc : CryptoOK c) (srv : Bool) (pkts : List Bytes)
    (hp : ∀ p ∈ pkts, p.length ≤ Consts.Framing.maximumFramePayloadLength)
    (hwf : ∀ p ∈ pkts, ∀ e, parsePacket srv p ≠ .bad e)
    (hn : pkts.length < ctrLimit - 1) (cs : List Bytes) (hcs : cs.flatten = wire c pkts)
    (ns : List Nat) (hns : ∀ n ∈ ns, 0 < n) :
    let r := session c srv ns Rx.init (cs.map NetEv.data)
    r.2.1 = [] ∧ r.1 <+: pkts.flatMap (payloadOf srv) ∧
    (r.2.2.2 = true → r.1 = pkts.flatMap (payloadOf srv)) := sorry

end O4.Obfs4
