-- This module serves as the root of the `O4` library.
-- Import modules here that should be built as part of the library.
import O4.Basic
