-- Root of the `O4` library: models, lemmas, property theorems.
import O4.Model.Bytes
