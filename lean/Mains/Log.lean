import Driver.Log
def main : IO Unit := Driver.Log.run
