import Driver.RF
def main : IO Unit := Driver.RF.run
