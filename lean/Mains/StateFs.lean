import Driver.StateFs
def main : IO Unit := Driver.StateFs.run
