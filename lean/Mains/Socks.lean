import Driver.Socks
def main : IO Unit := Driver.Socks.run
