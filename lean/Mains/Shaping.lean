import Driver.Shaping
def main : IO Unit := Driver.Shaping.run
