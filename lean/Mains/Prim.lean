import Driver.Prim
def main : IO Unit := Driver.Prim.run
