import Driver.SSuit
def main : IO Unit := Driver.SSuit.run
