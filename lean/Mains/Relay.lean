import Driver.Relay
def main : IO Unit := Driver.Relay.run
