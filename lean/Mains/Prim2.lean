import Driver.Prim2
def main : IO Unit := Driver.Prim2.run
