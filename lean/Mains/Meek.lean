import Driver.Meek
def main : IO Unit := Driver.Meek.run
