import Driver.Dist
def main : IO Unit := Driver.Dist.run
