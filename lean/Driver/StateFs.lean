import Driver.Common
import O4.Model.StateFile
/-!
driver module `statefs` (C18).  All byte strings are hex (`-` = empty, `.` = absent argument).

```
cert.enc <id> <pub>            → ok <cert text>
cert.dec <cert text>           → ok <id> <pub> | err
legacy.dec <idhex text> <pubhex text> → ok <id> <pub> | err
hex.enc <bytes>                → ok <text>
fs.reset <fixed 0|1> <now> <bridge comment block> → ok   (empty directory, no ops, no key table)
fs.startlim <k> <args as fs.start> → as fs.start, every file write under a size limit of k bytes
fs.writelim <k> <name> <content> → ok|err ; <ops>   (atomicfile.WriteFile under the limit)
fs.file <name> <content>       → ok          (initial directory entry)
fs.pub <priv> <pub>            → ok          (key table: public key of a private key)
fs.op T|C|F|U|M <name> | W <name> <data> | R <a> <b>  → ok   (append a traced system call)
fs.classify                    → state=… bridge=… tickets=… safe=0|1|na
fs.start <nodeID> <priv> <seed> <iat> <fresh nodeID> <fresh priv> <fresh pub> <fresh seed>
                               → <outcome> ; <canonical model ops>      (start in the initial directory)
fs.final                       → <directory after all traced ops>
fs.crash <k> <j>               → <directory> ; <state-file class> ; <outcome of a start without arguments> ; tickets <load>
tk.run <store> <ops>           → <canonical model ops> ; <store>       (store: addr:kt:issued,… ; ops: s:addr:kt:issued / t:addr)
json.state <content>           → ok <nodeID> <priv> <pub> <seed> <iat> | none
```
outcome = `ok <cert text> <iat>` | `err` | `fresh` (no state file: a new identity is generated).
-/
namespace Driver.StateFs
open O4 O4.SF

structure St where
  fixed : Bool := true
  now : Nat := 0
  dir : Dir := []
  ops : List Op := []
  pubs : List (Bytes × Bytes) := []
  prefix_ : Bytes := []

def St.cfg (s : St) : Cfg := ⟨s.fixed, fun p => (s.pubs.lookup p).getD [], s.prefix_⟩

def name? (h : String) : Option String := (unhex? h).map (fun b => String.ofList (b.map (fun c => Char.ofNat c.toNat)))
def nameHex (n : String) : String := hex (ascii n)

def optArg? (h : String) : Option (Option Bytes) :=
  if h == "." then some none else (unhex? h).map some

def opText : Op → String
  | .openTrunc n => "T:" ++ n
  | .write n b => "W:" ++ n ++ ":" ++ hex b
  | .close n => "C:" ++ n
  | .fsync n => "F:" ++ n
  | .rename a b => "R:" ++ a ++ ":" ++ b
  | .unlink n => "U:" ++ n
  | .mkdir n => "M:" ++ n

def opsText (ops : List Op) : String := " ".intercalate (ops.map opText)

def insertSorted (e : String × Bytes) : List (String × Bytes) → List (String × Bytes)
  | [] => [e]
  | x :: xs => if e.1 < x.1 then e :: x :: xs else x :: insertSorted e xs

def dirText (d : Dir) : String :=
  let sorted := d.foldl (fun acc e => insertSorted e acc) []
  if sorted.isEmpty then "empty" else ",".intercalate (sorted.map (fun e => e.1 ++ "=" ++ hex e.2))

def outcomeText (cfg : Cfg) : Outcome → String
  | .ok i => "ok " ++ hex (certOf cfg i) ++ " " ++ toString i.iat
  | .err => "err"

def dummyFresh : JS := ⟨[], [], [], [], 0⟩

/-- what a start without arguments from directory `d` presents -/
def nextText (cfg : Cfg) (d : Dir) : String :=
  match get d Consts.Obfs4.stateFile with
  | none => "fresh"
  | some _ => outcomeText cfg (start cfg d Args.empty dummyFresh).out

def recoveryText : Recovery → String
  | .absent => "absent" | .unparsable => "unparsable" | .valid _ => "valid"

def ticketText (t : Ticket) : String := hex t.addr ++ ":" ++ hex t.kt ++ ":" ++ hex t.issued
def storeText (ts : List Ticket) : String :=
  if ts.isEmpty then "empty" else ",".intercalate (ts.map ticketText)

def ticket? (s : String) : Option Ticket :=
  match s.splitOn ":" with
  | [a, k, i] =>
    match unhex? a, unhex? k, unhex? i with
    | some a, some k, some i => some ⟨a, k, i⟩
    | _, _, _ => none
  | _ => none

def store? (s : String) : Option (List Ticket) :=
  if s == "empty" then some [] else
  let ps := (s.splitOn ",").map ticket?
  if ps.any Option.isNone then none else some (ps.filterMap id)

def top? (s : String) : Option TOp :=
  match s.splitOn ":" with
  | ["s", a, k, i] =>
    match unhex? a, unhex? k, unhex? i with
    | some a, some k, some i => some (.store ⟨a, k, i⟩)
    | _, _, _ => none
  | ["t", a] => (unhex? a).map TOp.take
  | _ => none

def ticketsLoadText (fixed : Bool) (now : Nat) (d : Dir) : String :=
  match loadTickets fixed now d with
  | none => "err"
  | some ts => "ok " ++ (if ts.isEmpty then "empty" else ",".intercalate (ts.map (fun t => hex t.addr)))

def step (s : St) : List String → St × String
  | ["cert.enc", id, pub] =>
    match unhex? id, unhex? pub with
    | some i, some p => (s, "ok " ++ hex (Cert.toString certSuffix (i ++ p)))
    | _, _ => (s, "bad-op")
  | ["cert.dec", t] =>
    match unhex? t with
    | some t =>
      match Cert.parse certSuffix Consts.Ntor.nodeIDLength Consts.Obfs4.certLength t with
      | some (i, p) => (s, "ok " ++ hex i ++ " " ++ hex p)
      | none => (s, "err")
    | none => (s, "bad-op")
  | ["legacy.dec", a, b] =>
    match unhex? a, unhex? b with
    | some a, some b =>
      match Cert.parseLegacy Consts.Ntor.nodeIDLength Consts.Ntor.publicKeyLength a b with
      | some (i, p) => (s, "ok " ++ hex i ++ " " ++ hex p)
      | none => (s, "err")
    | _, _ => (s, "bad-op")
  | ["hex.enc", b] =>
    match unhex? b with
    | some b => (s, "ok " ++ hex (Hex.encode b))
    | none => (s, "bad-op")
  | ["fs.reset", f, now, pre] =>
    match now.toNat?, unhex? pre with
    | some n, some pre => ({ fixed := f == "1", now := n, prefix_ := pre }, "ok")
    | _, _ => (s, "bad-op")
  | ["fs.file", n, c] =>
    match name? n, unhex? c with
    | some n, some c => ({ s with dir := set s.dir n c }, "ok")
    | _, _ => (s, "bad-op")
  | ["fs.pub", a, b] =>
    match unhex? a, unhex? b with
    | some a, some b => ({ s with pubs := (a, b) :: s.pubs }, "ok")
    | _, _ => (s, "bad-op")
  | ["fs.op", k, n] =>
    match name? n with
    | some n =>
      let op? : Option Op := match k with
        | "T" => some (.openTrunc n) | "C" => some (.close n) | "F" => some (.fsync n)
        | "U" => some (.unlink n) | "M" => some (.mkdir n) | _ => none
      match op? with
      | some op => ({ s with ops := s.ops ++ [op] }, "ok")
      | none => (s, "bad-op")
    | none => (s, "bad-op")
  | ["fs.op", "W", n, b] =>
    match name? n, unhex? b with
    | some n, some b => ({ s with ops := s.ops ++ [.write n b] }, "ok")
    | _, _ => (s, "bad-op")
  | ["fs.op", "R", a, b] =>
    match name? a, name? b with
    | some a, some b => ({ s with ops := s.ops ++ [.rename a b] }, "ok")
    | _, _ => (s, "bad-op")
  | ["fs.classify"] =>
    let safe := match recover s.dir with
      | .valid i =>
        let good : Bytes → Bool := fun c =>
          match loadJS c with
          | some js => match identOfJS js with
            | some i' => i'.nodeID == i.nodeID && i'.priv == i.priv && i'.seed == i.seed
            | none => false
          | none => false
        if safeOps Consts.Obfs4.stateFile good s.dir s.ops then "1" else "0"
      | _ => "na"
    (s, "state=" ++ (classify Consts.Obfs4.stateFile s.ops).name
        ++ " bridge=" ++ (classify Consts.Obfs4.bridgeFile s.ops).name
        ++ " tickets=" ++ (classify Consts.Scramblesuit.ticketFile s.ops).name
        ++ " safe=" ++ safe)
  | ["fs.start", n, p, sd, iat, fn, fp, fpub, fs] =>
    match optArg? n, optArg? p, optArg? sd, optArg? iat, unhex? fn, unhex? fp, unhex? fpub, unhex? fs with
    | some n, some p, some sd, some iat, some fn, some fp, some fpub, some fs =>
      let r := start s.cfg s.dir ⟨n, p, sd, iat⟩ ⟨fn, fp, fpub, fs, 0⟩
      (s, outcomeText s.cfg r.out ++ " ; " ++ opsText r.ops)
    | _, _, _, _, _, _, _, _ => (s, "bad-op")
  | ["fs.startlim", k, n, p, sd, iat, fn, fp, fpub, fs] =>
    match k.toNat?, optArg? n, optArg? p, optArg? sd, optArg? iat, unhex? fn, unhex? fp, unhex? fpub, unhex? fs with
    | some k, some n, some p, some sd, some iat, some fn, some fp, some fpub, some fs =>
      let r := startLim s.cfg k s.dir ⟨n, p, sd, iat⟩ ⟨fn, fp, fpub, fs, 0⟩
      (s, outcomeText s.cfg r.out ++ " ; " ++ opsText r.ops)
    | _, _, _, _, _, _, _, _, _ => (s, "bad-op")
  | ["fs.writelim", k, n, c] =>
    match k.toNat?, name? n, unhex? c with
    | some k, some n, some c =>
      let w := writeFileLim k n c
      (s, (if w.2 then "ok" else "err") ++ " ; " ++ opsText w.1)
    | _, _, _ => (s, "bad-op")
  | ["fs.final"] => (s, dirText (run s.dir s.ops))
  | ["fs.crash", k, j] =>
    match k.toNat?, j.toNat? with
    | some k, some j =>
      match crashAt s.dir s.ops k j with
      | some d =>
        (s, dirText d ++ " ; " ++ recoveryText (recover d) ++ " ; " ++ nextText s.cfg d
            ++ " ; tickets " ++ ticketsLoadText s.fixed s.now d)
      | none => (s, "no-such-crash-point")
    | _, _ => (s, "bad-op")
  | ["tk.run", st, ops] =>
    let ops? := if ops == "none" then some [] else
      let ps := (ops.splitOn ",").map top?
      if ps.any Option.isNone then none else some (ps.filterMap id)
    match store? st, ops? with
    | some st, some ops =>
      let (st', fops) := ticketRun s.fixed st ops
      (s, opsText fops ++ " ; " ++ storeText st')
    | _, _ => (s, "bad-op")
  | ["json.state", c] =>
    match unhex? c with
    | some c =>
      match parseState c with
      | some r => (s, "ok " ++ hex r.nodeID ++ " " ++ hex r.priv ++ " " ++ hex r.pub ++ " " ++ hex r.seed ++ " " ++ hex r.iat)
      | none => (s, "none")
    | none => (s, "bad-op")
  | _ => (s, "bad-op")

def run : IO Unit := lineLoop step {}

end Driver.StateFs
