import Driver.Common
import O4.Model.NtorReal
/-!
driver module `ntor` (C08) — all byte strings hex

* `srv <X> <ypriv> <Y> <bpriv> <B> <id>` → `<ok 0|1> <KEY_SEED> <AUTH>` (`ServerHandshake`)
* `cli <xpriv> <X> <Y> <B> <id>` → `<ok 0|1> <KEY_SEED> <AUTH>` (`ClientHandshake`)
* `kdf <keyseed> <n>` → okm | `panic` (`Kdf`)
* `keypair <privhex>` → `err` | `<priv> <pub>` (`KeypairFromHex`)
* `pubkey <raw>` → `err` | raw (`NewPublicKey`); `nodeid <raw>` → `err` | raw (`NewNodeID`)
* `cmpauth <a> <b>` → `0|1` (`CompareAuth`)
Keys of the wrong length are refused (`bad-op`) for `srv`/`cli`: the Go API takes fixed-size arrays.
-/
namespace Driver.Ntor
open O4 O4.Ntor O4.Consts.Ntor

def unhexN? (n : Nat) (s : String) : Option Bytes :=
  match unhex? s with
  | some b => if b.length = n then some b else none
  | none => none

def reply (r : Bool × Bytes × Bytes) : String :=
  boolStr r.1 ++ " " ++ hex r.2.1 ++ " " ++ hex r.2.2

def step (_ : Unit) : List String → Unit × String
  | ["srv", x, yp, y, bp, b, id] =>
    match unhexN? publicKeyLength x, unhexN? privateKeyLength yp, unhexN? publicKeyLength y,
          unhexN? privateKeyLength bp, unhexN? publicKeyLength b, unhexN? nodeIDLength id with
    | some x, some yp, some y, some bp, some b, some id => ((), reply (serverHandshake realPrims x yp y bp b id))
    | _, _, _, _, _, _ => ((), "bad-op")
  | ["cli", xp, x, y, b, id] =>
    match unhexN? privateKeyLength xp, unhexN? publicKeyLength x, unhexN? publicKeyLength y,
          unhexN? publicKeyLength b, unhexN? nodeIDLength id with
    | some xp, some x, some y, some b, some id => ((), reply (clientHandshake realPrims xp x y b id))
    | _, _, _, _, _ => ((), "bad-op")
  | ["kdf", seed, n] =>
    match unhex? seed, n.toNat? with
    | some seed, some n =>
      match kdfReal seed n with
      | some okm => ((), hex okm)
      | none => ((), "panic")
    | _, _ => ((), "bad-op")
  | ["keypair", raw] =>
    match unhex? raw with
    | some raw =>
      match keypairFromBytes raw with
      | some (priv, pub) => ((), hex priv ++ " " ++ hex pub)
      | none => ((), "err")
    | none => ((), "bad-op")
  | ["pubkey", raw] =>
    match unhex? raw with
    | some raw => ((), match newPublicKey raw with | some k => hex k | none => "err")
    | none => ((), "bad-op")
  | ["nodeid", raw] =>
    match unhex? raw with
    | some raw => ((), match newNodeID raw with | some k => hex k | none => "err")
    | none => ((), "bad-op")
  | ["cmpauth", a, b] =>
    match unhex? a, unhex? b with
    | some a, some b => ((), boolStr (compareAuth a b))
    | _, _ => ((), "bad-op")
  | _ => ((), "bad-op")

def run : IO Unit := lineLoop step ()

end Driver.Ntor
