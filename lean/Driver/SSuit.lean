import Driver.Common
import O4.Model.ScrambleSuit
import O4.Model.ScrambleSuitFile
import O4.Model.Base32
import O4.Model.UniformDH
import O4.Model.Crypto.Sha256
import O4.Model.Crypto.Hmac
import O4.Model.Crypto.Aes
/-!
driver module `ssuit`: the ScrambleSuit client model and the reference server, instantiated with
the executable primitives.

Stateless ops
* `pw <base32>`                                    → `ok <kBhex>` | `fail decode` | `fail length`
* `dh.pub <priv>`                                  → `ok <pub>`
* `dh.seed <priv> <peerpub>`                       → `ok <sha256(shared)>`
* `hello.dh <kB> <priv> <pad> <hour>`              → `ok <flight>`            (client model)
* `hello.ticket <master> <ticket> <pad> <hour>`    → `ok <flight>`            (client model)
* `srv.accept.dh <kB> <flight> <hour>`             → `ok <hour'>` | `reject`  (reference server)
* `srv.accept.ticket <master> <flight> <hour>`     → `ok <hour'>` | `reject`
* `srv.resp <kB> <srvpriv> <pad> <hour>`           → `ok <response>`
* `cli.loop <fixed> <kB> <priv> <hour> <c1,c2,…>`  → `done <seed> <rest> <unread>` | `invalid` | `panic` | `dherr` | `blocked <buflen>`
* `cli.splits <fixed> <kB> <priv> <hour> <stream> <lo> <hi>` → `ok <seed> <n> <codes>` one code per split point in [lo,hi)
* `cli.rxall <seed> <stream> <sizes,…>`            → `ok <delivered> <tickets> <seeds> <err> <restlen>` (client packet reader, fresh state)
* `padburst <burstLen> <sample>`                   → `ok <p1,p2,…>`
Sessions (`<id>` any word)
* `sess.new <id> <seed>`; `srv.send <id> <flag> <data> <padlen>` → `ok <wire>`;
  `srv.feed <id> <bytes>` → `ok <payload> <shapes>` | `fail`;
  `cli.rx <id> <bytes>` → `ok <delivered> <events>`; `cli.write <id> <data> <wire>` → `ok <sample>` | `mismatch <n>`
Ticket store model (map + file, `<w>` = 1/0: the checkpoint succeeds/fails): `st.reset`,
  `st.store <addr> <raw> <now> <w>`, `st.connect <addr> <now> <w>` → `dh` | `ticket …` | `error`,
  `st.reload <now>`, `st.age <addr> <delta>`, `st.dump`, `st.file`, `st.load <filehex> <now>`
-/
namespace Driver.SSuit
open O4 O4.SS O4.Consts.Scramblesuit

def realPrims : Prims :=
  { hmac := O4.Crypto.hmacSha256
    sha256 := O4.Crypto.sha256
    hkdfExpand := fun prk n => O4.Crypto.hkdfExpand prk [] n
    ctrXor := O4.Crypto.aesCtrXor
    dhPublic := fun priv => (O4.UniformDH.generateKey priv).map (·.pubBytes)
    dhShared := O4.UniformDH.sharedSecret }

/-- the same primitives with one precomputed shared secret (avoids a modexp per split point) -/
def primsWith (priv y ss : Bytes) : Prims :=
  { realPrims with dhShared := fun p q => if p == priv && q == y then some ss else realPrims.dhShared p q }

structure Sess where
  /-- server → client -/
  stx : CState
  /-- client → server, decoded by the server -/
  srxK : DirKeys
  srx : Rx
  srxBuf : Bytes
  /-- client model: receive side -/
  crxK : DirKeys
  crx : Rx
  crxBuf : Bytes
  /-- client model: send side -/
  ctx : CState

structure St where
  sess : List (String × Sess)
  store : Disk
  fileText : Option String

def St.get (st : St) (id : String) : Option Sess := (st.sess.find? (·.1 == id)).map (·.2)
def St.put (st : St) (id : String) (s : Sess) : St :=
  { st with sess := (id, s) :: st.sess.filter (·.1 != id) }

def newSess (seed : Bytes) : Sess :=
  let (ctx, crx) := initCrypto realPrims seed
  { stx := ⟨crx, 0⟩, srxK := ctx, srx := Rx.init 0, srxBuf := [],
    crxK := crx, crx := Rx.init 0, crxBuf := [], ctx := ⟨ctx, 0⟩ }

def unhexList? (s : String) : Option (List Bytes) :=
  if s == "-" then some [] else (s.splitOn ",").mapM unhex?

def natList? (s : String) : Option (List Nat) :=
  if s == "-" then some [] else (s.splitOn ",").mapM String.toNat?

def outcomeStr : HsOutcome → String
  | .done seed rest unread => s!"done {hex seed} {hex rest} {unread.length}"
  | .invalid => "invalid"
  | .dhErr => "dherr"
  | .panic => "panic"
  | .blocked _ buf => s!"blocked {buf.length}"

def fixed? : String → Option Bool
  | "1" => some true
  | "0" => some false
  | _ => none

/-- cut a segment the way successive reads into a buffer of `lim` bytes see it -/
def cutAt (lim : Nat) (b : Bytes) : List Bytes :=
  if lim = 0 then [b] else
  (List.range ((b.length + lim - 1) / lim)).map (fun i => (b.drop (i * lim)).take lim)

/-- split `b` at the given sizes (rest in one last chunk if non-empty) -/
def chunksOf (b : Bytes) : List Nat → List Bytes
  | [] => if b.isEmpty then [] else [b]
  | n :: ns => if b.isEmpty then [] else b.take n :: chunksOf (b.drop n) ns

def eventsStr (os : List Out) : String :=
  let ev := os.filterMap (fun o => match o with
    | .payload _ => none
    | .ticket r => some ("T" ++ hex r)
    | .seed r => some ("S" ++ hex r)
    | .err => some "E")
  if ev.isEmpty then "-" else ",".intercalate ev

def shapeOf (k : DirKeys) (off0 : Nat) (wire : Bytes) : String := Id.run do
  -- flags:payloadLen:totalLen of every packet of an accepted stream (decoded again from the plaintext headers)
  let mut out : List String := []
  let mut b := wire
  let mut off := off0
  let mut fuel := wire.length
  while fuel > 0 ∧ b.length ≥ pktOverhead do
    fuel := fuel - 1
    let hdr := xorAt realPrims k off ((b.drop macLength).take pktHdrLength)
    let total := be16At hdr 0
    out := s!"{(hdr.getD 4 0).toNat}:{be16At hdr 2}:{total}" :: out
    b := b.drop (pktOverhead + total)
    off := off + pktHdrLength + total
  return if out.isEmpty then "-" else ",".intercalate out.reverse

/-- a reader that stops at the first error or when it would block, with the state it ends in -/
def readUntil (rd : ConnRd → List NetRead → ReadOut) : Nat → ConnRd → List NetRead → ConnRd × Bytes × Option RdErr
  | 0, s, _ => (s, [], none)
  | fuel + 1, s, script =>
    match rd s script with
    | none => (s, [], none)
    | some (s', d, some e, _) => (s', d, some e)
    | some (s', d, none, rest) =>
      let (s'', d', e) := readUntil rd fuel s' rest
      (s'', d ++ d', e)

def step (st : St) : List String → St × String
  | ["pw", s] =>
    match Base32.decode (if s == "-" then "" else s) with
    | none => (st, "fail decode")
    | some d => if d.length ≠ sharedSecretLength then (st, "fail length") else (st, "ok " ++ hex d)
  | ["dh.pub", priv] =>
    match unhex? priv with
    | some p => match realPrims.dhPublic p with
      | some x => (st, "ok " ++ hex x)
      | none => (st, "fail keysize")
    | none => (st, "bad-op")
  | ["dh.seed", priv, peer] =>
    match unhex? priv, unhex? peer with
    | some p, some q => match realPrims.dhShared p q with
      | some ss => (st, "ok " ++ hex (realPrims.sha256 ss))
      | none => (st, "fail keysize")
    | _, _ => (st, "bad-op")
  | ["hello.dh", kB, priv, pad, hour] =>
    match unhex? kB, unhex? priv, unhex? pad, hour.toInt? with
    | some kB, some priv, some pad, some h =>
      match realPrims.dhPublic priv with
      | none => (st, "fail keysize")
      | some x => (st, "ok " ++ hex ((DhHs.new kB priv x).generate realPrims pad h).2)
    | _, _, _, _ => (st, "bad-op")
  | ["hello.ticket", master, ticket, pad, hour] =>
    match unhex? master, unhex? ticket, unhex? pad, hour.toInt? with
    | some m, some t, some pad, some h =>
      (st, "ok " ++ hex (ticketHandshake realPrims (initCrypto realPrims m).1.macKey t pad h))
    | _, _, _, _ => (st, "bad-op")
  | ["srv.accept.dh", kB, flight, hour] =>
    match unhex? kB, unhex? flight, hour.toInt? with
    | some kB, some f, some h =>
      match verifyFlight realPrims kB dhSize f h with
      | some e => (st, s!"ok {e}")
      | none => (st, "reject")
    | _, _, _ => (st, "bad-op")
  | ["srv.accept.ticket", master, flight, hour] =>
    match unhex? master, unhex? flight, hour.toInt? with
    | some m, some f, some h =>
      match verifyFlight realPrims (initCrypto realPrims m).1.macKey ticketLength f h with
      | some e => (st, s!"ok {e}")
      | none => (st, "reject")
    | _, _, _ => (st, "bad-op")
  | ["srv.resp", kB, spriv, pad, hour] =>
    match unhex? kB, unhex? spriv, unhex? pad, hour.toInt? with
    | some kB, some sp, some pad, some h =>
      match realPrims.dhPublic sp with
      | none => (st, "fail keysize")
      | some y => (st, "ok " ++ hex (serverResponse realPrims kB y pad h))
    | _, _, _, _ => (st, "bad-op")
  | ["cli.loop", fx, kB, priv, hour, chunks] =>
    match fixed? fx, unhex? kB, unhex? priv, hour.toInt?, unhexList? chunks with
    | some fx, some kB, some priv, some h, some cs =>
      match realPrims.dhPublic priv with
      | none => (st, "fail keysize")
      | some x =>
        let hs := ((DhHs.new kB priv x).generate realPrims [] h).1
        (st, outcomeStr (dhLoop realPrims fx hs [] cs))
    | _, _, _, _, _ => (st, "bad-op")
  | ["cli.splits", fx, kB, priv, hour, stream, lo, hi] =>
    match fixed? fx, unhex? kB, unhex? priv, hour.toInt?, unhex? stream, lo.toNat?, hi.toNat? with
    | some fx, some kB, some priv, some h, some w, some lo, some hi =>
      match realPrims.dhPublic priv, realPrims.dhShared priv (w.take dhSize) with
      | some x, some ss =>
        let P := primsWith priv (w.take dhSize) ss
        let hs := ((DhHs.new kB priv x).generate P [] h).1
        let cut (b : Bytes) : List Bytes := cutAt maxHandshakeLength b
        let norm (o : HsOutcome) : HsOutcome := match o with
          | .done seed rest unread => .done seed (rest ++ unread.flatten) []
          | o => o
        let whole := norm (dhLoop P fx hs [] (cut w))
        -- the loop on [prefix, rest]: first parse on the prefix, then (if "not yet" and the rest
        -- is one read) one parse of all of `w` from the state the first parse left.  That state is
        -- either the initial one or the one with the cached key, so the second parse is one of two
        -- function applications that do not depend on the split point; they are evaluated once.
        -- Any other situation is evaluated in full.
        let hsC : DhHs := (hs.parse P fx (w.take minHandshakeLength)).1
        let contFresh := norm (dhLoop P fx hs [] [w])
        let contCached := norm (dhLoop P fx hsC [] [w])
        let full (s : Nat) : HsOutcome := norm (dhLoop P fx hs [] (cut (w.take s) ++ cut (w.drop s)))
        let out (s : Nat) : HsOutcome :=
          if s ≤ maxHandshakeLength ∧ w.length - s ≤ maxHandshakeLength then
            match hs.parse P fx (w.take s) with
            | (hs1, .notYet) => if hs1 == hs then contFresh else if hs1 == hsC then contCached else full s
            | _ => full s
          else full s
        let code (s : Nat) : Char :=
          match out s with
          | .done seed rest _ => if whole == .done seed rest [] then 'k' else 'x'
          | .invalid => 'i'
          | .dhErr => 'd'
          | .panic => 'p'
          | .blocked _ _ => 'b'
        let codes := String.ofList ((List.range' lo (hi - lo)).map code)
        match whole with
        | .done seed rest _ => (st, s!"ok {hex seed} {w.length - rest.length} {codes}")
        | o => (st, s!"whole-{outcomeStr o} - 0 {codes}")
      | _, _ => (st, "fail keysize")
    | _, _, _, _, _, _, _ => (st, "bad-op")
  | ["cli.rxall", seed, stream, sizes] =>
    match unhex? seed, unhex? stream, natList? sizes with
    | some seed, some w, some sizes =>
      let k := (initCrypto realPrims seed).2
      let (s, os, rest) := feedChunks realPrims k (Rx.init 0) [] (chunksOf w sizes)
      let nt := (os.filter (fun o => match o with | .ticket _ => true | _ => false)).length
      let ns := (os.filter (fun o => match o with | .seed _ => true | _ => false)).length
      (st, s!"ok {hex (delivered os)} {nt} {ns} {boolStr s.failed} {rest.length}")
    | _, _, _ => (st, "bad-op")
  | ["cli.readall", fx, seed, bufsize, errc, chunks] =>
    -- a reader that calls Read(buffer of bufsize) until the first error; the LAST chunk arrives
    -- together with the error of class errc ("-": no error, the reader blocks at the end)
    match fixed? fx, unhex? seed, bufsize.toNat?, unhexList? chunks with
    | some fx, some seed, some n, some cs =>
      let ec : Option (Option Nat) := if errc == "-" then some none else errc.toNat?.map some
      match ec with
      | none => (st, "bad-op")
      | some ec =>
        if n = 0 then (st, "bad-op") else
        let k := (initCrypto realPrims seed).2
        let script : List NetRead := match cs.reverse with
          | [] => (match ec with | some c => [([], some c)] | none => [])
          | l :: r => (r.reverse.map (fun c => (c, none))) ++ [(l, ec)]
        let rd := if fx then ConnRd.read realPrims k n else ConnRd.readOld realPrims k n
        let total := cs.foldl (fun a c => a + c.length) 0
        let (d, e) := readAll rd (total + script.length + 4) ⟨Rx.init 0, [], [], none⟩ script
        let es := match e with
          | none => "none"
          | some .invalidPacket => "invalid"
          | some (.net c) => s!"net:{c}"
        (st, s!"ok {hex d} {es}")
    | _, _, _, _ => (st, "bad-op")
  | ["cli.recover", fx, seed, bufsize, errc, first, second] =>
    -- `first` arrives together with the error of class errc (or the error alone if `first` is "-");
    -- the reader reads until the error; then `second` arrives without error and it reads until it blocks
    match fixed? fx, unhex? seed, bufsize.toNat?, errc.toNat?, unhex? first, unhex? second with
    | some fx, some seed, some n, some ec, some c1, some c2 =>
      if n = 0 then (st, "bad-op") else
      let k := (initCrypto realPrims seed).2
      let rd := if fx then ConnRd.read realPrims k n else ConnRd.readOld realPrims k n
      let (s1, d1, e1) := readUntil rd (c1.length + 6) ⟨Rx.init 0, [], [], none⟩ [(c1, some ec)]
      let (_, d2, e2) := readUntil rd (c2.length + 6) s1 [(c2, none)]
      let es (e : Option RdErr) : String := match e with
        | none => "none"
        | some .invalidPacket => "invalid"
        | some (.net c) => s!"net:{c}"
      (st, s!"ok {hex d1} {es e1} {hex d2} {es e2}")
    | _, _, _, _, _, _ => (st, "bad-op")
  | ["padburst", bl, sample] =>
    match bl.toNat?, sample.toNat? with
    | some bl, some s =>
      let ps := padBurstLens bl s
      (st, "ok " ++ (if ps.isEmpty then "-" else ",".intercalate (ps.map toString)))
    | _, _ => (st, "bad-op")
  | ["sess.new", id, seed] =>
    match unhex? seed with
    | some seed => (st.put id (newSess seed), "ok")
    | none => (st, "bad-op")
  | ["srv.send", id, flag, data, padLen] =>
    match st.get id, flag.toNat?, unhex? data, padLen.toNat? with
    | some s, some f, some d, some p =>
      match makePacket realPrims s.stx f d p with
      | none => (st, "fail oversize")
      | some (cs, w) => (st.put id { s with stx := cs }, "ok " ++ hex w)
    | _, _, _, _ => (st, "bad-op")
  | ["srv.feed", id, bytes] =>
    match st.get id, unhex? bytes with
    | some s, some b =>
      let before := s.srx
      let (rx, os, rest) := readPackets realPrims s.srxK s.srx s.srxBuf b
      -- a server accepts payload packets only
      if rx.failed ∨ os.any (fun o => match o with | .payload _ => false | _ => true) then
        (st.put id { s with srx := { rx with failed := true }, srxBuf := rest }, "fail")
      else
        let consumed := (s.srxBuf ++ b).take ((s.srxBuf ++ b).length - rest.length)
        -- shapes are reported per completed stream region only when the region starts on a packet boundary
        let shapes := if before.mac.isNone ∧ rx.mac.isNone then shapeOf s.srxK before.off consumed else "?"
        (st.put id { s with srx := rx, srxBuf := rest }, s!"ok {hex (delivered os)} {shapes}")
    | _, _ => (st, "bad-op")
  | ["cli.rx", id, bytes] =>
    match st.get id, unhex? bytes with
    | some s, some b =>
      if s.crx.failed then (st, "dead") else
      let (rx, os, rest) := readPackets realPrims s.crxK s.crx s.crxBuf b
      (st.put id { s with crx := rx, crxBuf := rest }, s!"ok {hex (delivered os)} {eventsStr os} {rest.length}")
    | _, _ => (st, "bad-op")
  | ["cli.rxs", id, chunks] =>
    -- several successive reads in one request
    match st.get id, unhexList? chunks with
    | some s, some cs =>
      if s.crx.failed then (st, "dead") else
      let (rx, os, rest) := feedChunks realPrims s.crxK s.crx s.crxBuf cs
      (st.put id { s with crx := rx, crxBuf := rest }, s!"ok {hex (delivered os)} {eventsStr os} {rest.length}")
    | _, _ => (st, "bad-op")
  | ["cli.write", id, data, wire] =>
    match st.get id, unhex? data, unhex? wire with
    | some s, some d, some w =>
      -- cheap length filter first
      let burst := (splitPayload (d.length + 1) d).foldl (fun a c => a + pktOverhead + c.length) 0
      let cands := (List.range' minLenDistLength (maxLenDistLength + 1 - minLenDistLength)).filter (fun smp =>
        let pads := padBurstLens burst smp
        pads.all (· ≥ 0) ∧ burst + (pads.foldl (fun a p => a + pktOverhead + p.toNat) 0) = w.length)
      let hit := cands.findSome? (fun smp =>
        match connWrite realPrims s.ctx d smp with
        | some (cs, w') => if w' == w then some (smp, cs) else none
        | none => none)
      match hit with
      | some (smp, cs) => (st.put id { s with ctx := cs }, s!"ok {smp}")
      | none => (st, s!"mismatch {cands.length}")
    | _, _, _ => (st, "bad-op")
  | ["dial.trace", ticket, reads] =>
    match fixed? ticket, reads.toNat? with
    | some t, some n =>
      let nm : ConnEv → String
        | .arm => "arm" | .clear => "clear" | .write => "write" | .read => "read"
      (st, "ok " ++ ",".intercalate ((dialTrace t n).map nm) ++ " " ++ boolStr (armedAfter (dialTrace t n) false))
    | _, _ => (st, "bad-op")
  | ["st.reset"] => ({ st with store := ⟨[], none⟩, fileText := none }, "ok")
  | ["st.store", addr, raw, now, w] =>
    match unhex? raw, now.toInt?, fixed? w with
    | some raw, some now, some w =>
      let d := st.store.storeTicket addr raw now w
      -- the file text changes exactly when a checkpoint was attempted and succeeded
      let txt := if w ∧ raw.length = ticketKeyLength + ticketLength then d.mem.serialize else st.fileText
      ({ st with store := d, fileText := txt }, "ok")
    | _, _, _ => (st, "bad-op")
  | ["st.connect", addr, now, w] =>
    match now.toInt?, fixed? w with
    | some now, some w =>
      let held := (st.store.mem.lookup addr).isSome
      match st.store.connect addr now w with
      | (d, fl) =>
        let txt := if w ∧ held then d.mem.serialize else st.fileText
        let st' := { st with store := d, fileText := txt }
        match fl with
        | .uniformDH => (st', "dh")
        | .error => (st', "error")
        | .ticket t => (st', s!"ticket {hex t.key} {hex t.ticket} {t.issuedAt}")
    | _, _ => (st, "bad-op")
  | ["st.reload", now] =>
    match now.toInt? with
    | some now => ({ st with store := st.store.restart now }, "ok")
    | none => (st, "bad-op")
  | ["st.age", addr, delta] =>
    match delta.toInt? with
    | some d => ({ st with store := { st.store with mem := st.store.mem.map (fun e => if e.1 == addr then (e.1, { e.2 with issuedAt := e.2.issuedAt - d }) else e) } }, "ok")
    | none => (st, "bad-op")
  | ["st.dump"] =>
    let es := st.store.mem.mergeSort (fun a b => strLe a.1 b.1)
    let hx (b : Bytes) : String := String.ofList (b.foldr (fun x acc => Bytes.hexDigit (x.toNat / 16) :: Bytes.hexDigit (x.toNat % 16) :: acc) [])
    (st, "ok " ++ (if es.isEmpty then "-" else ",".intercalate (es.map (fun e => s!"{e.1}/{hx e.2.key}/{hx e.2.ticket}/{e.2.issuedAt}"))))
  | ["st.file"] =>
    -- the bytes of the ticket file as the model has it (`none`: no file / an address that needs escaping)
    match st.fileText with
    | some f => (st, "ok " ++ hex (Bytes.ofString f))
    | none => (st, "none")
  | ["st.load", file, now] =>
    match unhex? file, now.toInt? with
    | some f, some now =>
      match String.fromUTF8? ⟨f.toArray⟩ with
      | none => (st, "fail shape")
      | some txt =>
        -- the file as a store (nothing filtered: a time before every issue), and what a start at `now` keeps of it
        match Store.load txt (-(10 ^ 30 : Int)), Store.load txt now with
        | some all, some s => ({ st with store := ⟨s, some all⟩, fileText := some txt }, s!"ok {s.length}")
        | _, _ => (st, "fail shape")
    | _, _ => (st, "bad-op")
  | _ => (st, "bad-op")

def run : IO Unit := lineLoop step ⟨[], ⟨[], none⟩, none⟩

end Driver.SSuit
