import Driver.Common
import O4.Model.Obfs3
/-!
driver module `obfs3`: the Lean obfs3 endpoint model as a reference peer (both roles) and the
UniformDH model.

  start <S> <i|r> <tapehex>        handshake start with the randomness of a recorded tape
        → ok <blob> <tape bytes consumed> <padlen> | fail <class> | panic
  startwith <S> <i|r> <privhex> <padhex>   explicit private key and padding (any padding length —
        used to craft over-padding peers) → ok <blob>
  feed <S> <datahex> <size>*       the bytes arrive split at the given sizes (rest in one chunk);
        during the handshake it proceeds after every arrival → <state> <queued bytes>
        state: need-key | est | fail:<class> | panic
  eof <S>                          the read side ends → <state> <queued>
  feedlast <S> <datahex> <class>   the final chunk: ONE conn.Read returns it together with an error of
        that class (eof, reset, …); it must fit the read buffer (and the scan window) → ok
  read <S> <max>                   one Read with a buffer of max bytes → ok <plainhex> | block | fail <class>
        | okerr <plainhex> <class> (bytes returned together with the error)
  write <S> <datahex> <tapehex>    one Write; the first one draws its padding from the tape
        → ok <tape bytes consumed> <netwrite>+
  writewith <S> <datahex> <padhex> one Write with explicit padding for the first one → ok 0 <netwrite>+
  info <S>   → <state> <queued> <rxBuf length | -2 released> <peak> <rxmagic|-> <txmagic|-> <closed>
  dh <privhex> <peerpubhex>        UniformDH: → ok <own public key bytes> <shared secret> | err
  del <S>
-/
namespace Driver.Obfs3
open O4 O4.SC O4.Obfs3

structure Sess where
  c : Conn
  net : Net
  /-- the network delivered EOF after the queued bytes -/
  eof : Bool
  /-- final chunk that the conn hands out together with an error (class name) -/
  last : Option (Bytes × String) := none
  /-- the error class later reads report -/
  ended : Option String := none

abbrev St := List (String × Sess)

def St.get? (st : St) (n : String) : Option Sess := (st.find? (·.1 == n)).map (·.2)
def St.set (st : St) (n : String) (s : Sess) : St := (n, s) :: st.filter (·.1 != n)

def errName : Err → String
  | .eof => "eof"
  | .cipherKey => "cipherkey"
  | .noMagic => "nomagic"
  | .tooMuchPadding => "toomuchpadding"
  | .dhKey => "dhkey"
  | .closed => "closed"

def phaseName : Phase → String
  | .pubkey => "need-key"
  | .established => "est"
  | .failed e => "fail:" ++ errName e
  | .panicked => "panic"

def stateLine (s : Sess) : String := s!"{phaseName s.c.phase} {s.net.size}"

def role? : String → Option Bool
  | "i" => some true
  | "r" => some false
  | _ => none

def P : Prims := Prims.real

def startReply (st : St) (name : String) (r : Except Stop (Conn × List Bytes)) (extra : String) : St × String :=
  match r with
  | .ok (c, [w]) => (st.set name { c := c, net := [], eof := false }, s!"ok {hex w}{extra}")
  | .ok _ => (st, "bad-op")
  | .error (.fail e) => (st, "fail " ++ errName e)
  | .error .panic => (st, "panic")

def splitAt (d : Bytes) : List Nat → List Bytes
  | [] => [d]
  | n :: ns => d.take n :: splitAt (d.drop n) ns

def optHex : Option Bytes → String
  | some b => if b.isEmpty then "empty" else hex b
  | none => "-"

def writeReply (st : St) (name : String) (s : Sess) (d pad : Bytes) (used : Nat) : St × String :=
  let (c, ws) := write P s.c d pad
  (st.set name { s with c := c }, s!"ok {used}" ++ String.join (ws.map fun w => " " ++ hex w))

def step (st : St) : List String → St × String
  | ["start", name, role, tape] =>
    match role? role, unhex? tape with
    | some ini, some t =>
      match drawRandom t with
      | none => (st, "bad-op")
      | some (priv, padLen, pad, used) => startReply st name (startWith P ini priv pad) s!" {used} {padLen}"
    | _, _ => (st, "bad-op")
  | ["startwith", name, role, priv, pad] =>
    match role? role, unhex? priv, unhex? pad with
    | some ini, some k, some p => startReply st name (startWith P ini k p) ""
    | _, _, _ => (st, "bad-op")
  | "feed" :: name :: data :: sizes =>
    match st.get? name, unhex? data, sizes.mapM String.toNat? with
    | some s, some d, some ns =>
      let chunks := splitAt d ns
      let s' : Sess :=
        match s.c.phase with
        | .pubkey => let (c, net) := feedAll P s.c s.net chunks; { s with c := c, net := net }
        | _ => { s with net := chunks.foldl Net.push s.net }
      (st.set name s', stateLine s')
    | _, _, _ => (st, "bad-op")
  | ["eof", name] =>
    match st.get? name with
    | some s =>
      let s' : Sess := { s with c := eof s.c, eof := true }
      (st.set name s', stateLine s')
    | none => (st, "bad-op")
  | ["read", name, max] =>
    match st.get? name, max.toNat? with
    | some s, some m =>
      if s.c.phase != .established || m == 0 then (st, "bad-state") else
      match read P s.c m s.net with
      | .data c out net => (st.set name { s with c := c, net := net }, "ok " ++ hex out)
      | .fail c e net => (st.set name { s with c := c, net := net }, "fail " ++ errName e)
      | .block c net =>
        match s.last, s.ended with
        | some (ch, cls), _ =>
          if ch.length > m || ch.length > window then (st, "bad-op") else
          match readLast P c m ch with
          | .data c' out => (st.set name { s with c := c', net := net }, "ok " ++ hex out)
          | .dataErr c' out =>
            (st.set name { s with c := c', net := net, last := none, ended := some cls }, s!"okerr {hex out} {cls}")
          | .fail c' .closed => (st.set name { s with c := c', net := net }, "fail closed")
          | .fail c' _ => (st.set name { s with c := c', net := net, last := none, ended := some cls }, "fail " ++ cls)
        | none, some cls => (st.set name { s with c := readEof c, net := net }, "fail " ++ cls)
        | none, none =>
          if s.eof then (st.set name { s with c := readEof c, net := net }, "fail eof")
          else (st.set name { s with c := c, net := net }, "block")
    | _, _ => (st, "bad-op")
  | ["feedlast", name, data, cls] =>
    match st.get? name, unhex? data with
    | some s, some d =>
      if d.isEmpty then (st.set name { s with ended := some cls }, "ok")
      else (st.set name { s with last := some (d, cls) }, "ok")
    | _, _ => (st, "bad-op")
  | ["write", name, data, tape] =>
    match st.get? name, unhex? data, unhex? tape with
    | some s, some d, some t =>
      if s.c.phase != .established then (st, "bad-state") else
      match s.c.txMagic with
      | none => writeReply st name s d [] 0
      | some _ =>
        match drawWriteRandom t with
        | none => (st, "bad-op")
        | some (_, pad, used) => writeReply st name s d pad used
    | _, _, _ => (st, "bad-op")
  | ["writewith", name, data, pad] =>
    match st.get? name, unhex? data, unhex? pad with
    | some s, some d, some p =>
      if s.c.phase != .established then (st, "bad-state") else writeReply st name s d p 0
    | _, _, _ => (st, "bad-op")
  | ["info", name] =>
    match st.get? name with
    | some s =>
      let bl := match s.c.rxBuf with | some b => toString b.length | none => "-2"
      (st, s!"{stateLine s} {bl} {s.c.peak} {optHex s.c.rxMagic} {optHex s.c.txMagic} {boolStr s.c.closed}")
    | none => (st, "bad-op")
  | ["dh", priv, peer] =>
    match unhex? priv, unhex? peer with
    | some k, some y =>
      match P.dhPub k, P.dhShared k y with
      | some pub, some sec => (st, s!"ok {hex pub} {hex sec}")
      | _, _ => (st, "err")
    | _, _ => (st, "bad-op")
  | ["del", name] => (st.filter (·.1 != name), "ok")
  | _ => (st, "bad-op")

def run : IO Unit := lineLoop step []

end Driver.Obfs3
