import Driver.Common
import O4.Model.Obfs4Server
import O4.Model.Obfs4Ref
/-!
driver module `o4srv` — the obfs4 **server factory** model (C03, C04): `ServerFactory` (identity, the
per-bridge close delay from the DRBG seed, the replay filter), `WrapConn` as the event machine of
`O4.Obfs4Server` and `serverAccept`.  Concrete primitives (`Handshake.Prims.real`); the server's
randomness is the byte tape the real `WrapConn` consumed, time is explicit.  Hex, `-` = empty.

* `fac.new <F> <nodeid20> <idpriv32> <drbgseed24>` → `ok <idpub> <closeDelay s>`
  (`ServerFactory(stateDir, args)` with `node-id`, `private-key`, `drbg-seed`; fresh replay filter)
* `fac.len <F>` → `<entries in the replay filter>`
* `fac.fill <F> <nowNs> <n>` → `ok <entries> <fast|slow>`: `n` submissions `TestAndSet(now, v)` of distinct values
  that are no handshake MAC (`2^128 + k`, a MAC digest is below `2^128`) — the harness calls the real
  filter with as many fresh random 16-byte values.  Fast path (one append, `C03.fill_is_repeated_testAndSet`)
  when its hypotheses are checked to hold: positive TTL, `len + n ≤ cap`, eldest entry young and not in
  the future, no remembered value ≥ the first new one; otherwise `TestAndSet` one by one.
* `conn.run <F> <startNs> <tape> <ev>…` → `ok <tape used> <phase> <out>…`
  one `WrapConn(conn)`: `tape` = what `crypto/rand` delivered (32 B per key-pair attempt ‖ 8 B per
  `IntRange` draw ‖ response padding), `startNs` = accept time on the clock handed to the replay filter;
  `<ev>` = `r:<chunk>:<nowNs>:<hour>` (a `Read` returned the chunk) | `t:<nowNs>:<hour>` (the armed read
  deadline fires) | `e:<nowNs>:<hour>` (EOF / reset);
  `<out>` = `D+<ns after start>` | `D0` (cleared) | `RD+<ns>` | `W:<bytes>` | `CLOSE` | `ERR:<class>` | `OK`;
  `<phase>` = `handshake` | `discarding` | `closed` | `established`.
  The factory's replay filter is updated.
* `acc <F> <startNs> <tape> <blob> <hour> <nowNs>` → `ok <hour echoed into MAC_S> <response ‖ seed frame> <response len>`
  | `fail <class>` | `need`   (`serverAccept`: one connection delivering `blob` in one read)

* `blob <nodeid20> <idpub32> <repr32> <pad> <hour>` → `ok <X' ‖ P_C ‖ M_C ‖ MAC_C>` (a client handshake around
  an arbitrary representative — what anyone who knows the bridge line can compute; used for the
  low-order / all-zero representative probes)

classes: `invalid` `replay` `ntor` (handshake), `timeout`, `eof`; `fail tape` = tape too short,
`fail fuel` = `Intn` rejection loop exhausted (never).
-/
namespace Driver.O4Srv
open O4 O4.Obfs4Server O4.Handshake

structure Fac where
  f : Factory
  lenSeed : Bytes
  filter : RF.Filter
  nextDummy : Nat := 0     -- dummy values handed out by `fac.fill` so far

structure St where
  facs : List (String × Fac) := []

def St.get (st : St) (n : String) : Option Fac := (st.facs.find? (·.1 == n)).map (·.2)
def St.put (st : St) (n : String) (x : Fac) : St := { facs := (n, x) :: st.facs.filter (·.1 != n) }

def unhexN? (n : Nat) (s : String) : Option Bytes :=
  match unhex? s with
  | some b => if b.length = n then some b else none
  | none => none

def hsClass : HsErr → String
  | .markNotFoundYet => "need"
  | .invalidHandshake => "invalid"
  | .invalidMac => "mac"
  | .ntorFailed => "ntor"
  | .invalidAuth => "auth"
  | .replayed => "replay"

def errClass : Err → String
  | .timeout => "timeout"
  | .eof => "eof"
  | .hs e => hsClass e

def outStr (start : Int) : Out → String
  | .setDeadline (some d) => "D+" ++ toString (d - start)
  | .setDeadline none => "D0"
  | .setReadDeadline d => "RD+" ++ toString (d - start)
  | .write b => "W:" ++ hex b
  | .close => "CLOSE"
  | .returnErr e => "ERR:" ++ errClass e
  | .returnOk => "OK"

def phaseStr : Phase → String
  | .handshake _ _ => "handshake"
  | .discarding _ => "discarding"
  | .closed => "closed"
  | .established => "established"

def parseEv (s : String) : Option Ev :=
  match s.splitOn ":" with
  | ["r", chunk, now, hour] =>
    match unhex? chunk, now.toInt?, hour.toInt? with
    | some c, some n, some h => some ⟨n, h, .recv c⟩
    | _, _, _ => none
  | ["t", now, hour] =>
    match now.toInt?, hour.toInt? with
    | some n, some h => some ⟨n, h, .readDeadlineFires⟩
    | _, _ => none
  | ["e", now, hour] =>
    match now.toInt?, hour.toInt? with
    | some n, some h => some ⟨n, h, .peerCloses⟩
    | _, _ => none
  | _ => none

/-- the connection data `WrapConn` derives before its first `Read`: session key pair and response
    padding length from the tape; the reply is `generateHandshake()` ‖ inline seed frame.
    `none` = tape too short (also for the padding that a success would draw). -/
def mkConn (fac : Fac) (start : Int) (tape : Bytes) : Option (Conn × Nat) :=
  match Ref.serverStart fac.f.nodeID fac.f.idPriv tape with
  | none => none
  | some ss =>
    let conn : Conn :=
      { start := start, yPriv := ss.hs.yPriv, yPub := ss.hs.yPub, yRepr := ss.hs.yRepr
        reply := fun hs' seed =>
          match Ref.serverFinish hs' seed fac.lenSeed ss.padLen ss.rest with
          | some d => d.response ++ d.seedFrame
          | none => [] }
    some (conn, tape.length - ss.rest.length)

def step (st : St) : List String → St × String
  | ["fac.new", name, nodeid, idpriv, seed] =>
    match unhexN? Consts.Ntor.nodeIDLength nodeid, unhexN? Consts.Ntor.privateKeyLength idpriv,
          unhexN? Drbg.seedLength seed with
    | some nid, some sk, some sd =>
      match closeDelayOfSeed sd with
      | none => (st, "fail fuel")
      | some cd =>
        let f : Factory := { idPriv := sk, idPub := Ref.identityPublic sk, nodeID := nid, closeDelay := cd }
        (st.put name { f := f, lenSeed := sd, filter := newFilter }, "ok " ++ hex f.idPub ++ " " ++ toString cd)
    | _, _, _ => (st, "bad-op")
  | ["fac.len", name] =>
    match st.get name with
    | some fac => (st, toString fac.filter.fifo.length)
    | none => (st, "bad-op")
  | ["fac.fill", name, now, count] =>
    match st.get name, now.toInt?, count.toNat? with
    | some fac, some t, some n =>
      let f := fac.filter
      let base := 2 ^ 128 + fac.nextDummy
      let ds := (List.range n).map (base + ·)
      let frontOk := match f.fifo.head? with
        | none => true
        | some e => decide (e.t ≤ t) && decide (t - e.t < f.ttl)
      let fast := decide (0 < f.ttl) && decide (f.fifo.length + n ≤ f.cap) && frontOk && f.fifo.all (fun e => decide (e.d < base))
      let f' := if fast then f.fillFresh t ds else (f.run (ds.map (fun d => (t, d)))).1
      (st.put name { fac with filter := f', nextDummy := fac.nextDummy + n },
       "ok " ++ toString f'.fifo.length ++ (if fast then " fast" else " slow"))
    | _, _, _ => (st, "bad-op")
  | "conn.run" :: name :: start :: tape :: evs =>
    match st.get name, start.toInt?, unhex? tape with
    | some fac, some t0, some tp =>
      let parsed := evs.map parseEv
      if parsed.any Option.isNone then (st, "bad-op") else
      match mkConn fac t0 tp with
      | none => (st, "fail tape")
      | some (conn, used) =>
        let (s, outs) := Obfs4Server.run Prims.real fac.f conn fac.filter (parsed.filterMap id)
        -- a success draws the response padding from the tape: reject a tape that is too short for it
        if outs.any (fun o => o == Out.write []) then (st, "fail tape") else
        let usedAll := if s.phase == .established then
            used + (match Ref.serverStart fac.f.nodeID fac.f.idPriv tp with | some ss => ss.padLen | none => 0)
          else used
        (st.put name { fac with filter := s.filter },
         "ok " ++ toString usedAll ++ " " ++ phaseStr s.phase ++ " " ++ " ".intercalate (outs.map (outStr t0)))
    | _, _, _ => (st, "bad-op")
  | ["acc", name, start, tape, blob, hour, now] =>
    match st.get name, start.toInt?, unhex? tape, unhex? blob, hour.toInt?, now.toInt? with
    | some fac, some t0, some tp, some b, some h, some n =>
      match mkConn fac t0 tp with
      | none => (st, "fail tape")
      | some (conn, _) =>
        let (f', out) := serverAccept Prims.real fac.f conn fac.filter b h n
        let st := st.put name { fac with filter := f' }
        match out with
        | .rejected .markNotFoundYet => (st, "need")
        | .rejected e => (st, "fail " ++ hsClass e)
        | .accepted seed (some ch) =>
          -- re-run the parse to obtain the handshake state the reply is generated from
          let (hs', _, _) := parseClientHandshake Prims.real (newServer fac.f conn) fac.filter h n b
          let w := conn.reply hs' seed
          if w.isEmpty then (st, "fail tape") else
          (st, "ok " ++ toString ch ++ " " ++ hex w ++ " " ++ toString (w.length - Consts.Obfs4.inlineSeedFrameLength))
        | .accepted _ none => (st, "fail state")
    | _, _, _, _, _, _ => (st, "bad-op")
  | ["blob", nodeid, idpub, repr, pad, hour] =>
    match unhexN? Consts.Ntor.nodeIDLength nodeid, unhexN? Consts.Ntor.publicKeyLength idpub,
          unhexN? Consts.Ntor.representativeLength repr, unhex? pad, hour.toInt? with
    | some nid, some pk, some r, some pd, some h => (st, "ok " ++ hex (clientBlob Prims.real pk nid r pd h))
    | _, _, _, _, _ => (st, "bad-op")
  | _ => (st, "bad-op")

def run : IO Unit := lineLoop step {}

end Driver.O4Srv
