import Driver.Common
import O4.Model.Crypto.Sha256
import O4.Model.Crypto.Sha512
import O4.Model.Crypto.Hmac
/-!
driver module `prim`: the executable symmetric primitives, one call per line (hex arguments,
`-` = empty). Replies are hex, `none` (secretbox open failure), `err` (what the Go library rejects:
bad key/nonce/iv sizes, HKDF past its limit) or `bad-op`.

  sha256 <m> | sha512 <m> | hmac <key> <m> | hkdfx <salt> <ikm> | hkdfe <prk> <info> <n>
  hkdf <secret> <salt> <info> <n> | hkdfr <prk> <info> <n1> <n2> … (successive reads of one reader)
  bench <prim> <size> <iters>   -- runs the primitive `iters` times on `size`-byte inputs, replies a checksum
-/
namespace Driver.Prim
open O4 O4.Crypto

def hex2 (a b : String) (f : Bytes → Bytes → String) : String :=
  match unhex? a, unhex? b with
  | some x, some y => f x y
  | _, _ => "bad-op"

def hex3 (a b c : String) (f : Bytes → Bytes → Bytes → String) : String :=
  match unhex? a, unhex? b, unhex? c with
  | some x, some y, some z => f x y z
  | _, _, _ => "bad-op"

/-- message of `size` bytes depending on the iteration number (defeats hoisting) -/
def benchMsg (size i : Nat) : Bytes := (Bytes.ofNatLE 4 i ++ List.replicate size 7).take size

def benchLoop (iters : Nat) (f : Nat → Bytes) : String :=
  let acc := (List.range iters).foldl (fun (acc : UInt8) i => (f i).foldl (· ^^^ ·) acc) 0
  toString acc.toNat

def bench (prim : String) (size iters : Nat) : String :=
  let key := List.replicate 32 (3 : UInt8)
  match prim with
  | "sha256" => benchLoop iters (fun i => sha256 (benchMsg size i))
  | "sha512" => benchLoop iters (fun i => sha512 (benchMsg size i))
  | "hmac" => benchLoop iters (fun i => hmacSha256 key (benchMsg size i))
  | "hkdfe" => benchLoop iters (fun i => hkdfExpand (benchMsg 32 i) [] size)
  | _ => "bad-op"

def pieces (o : Bytes) : List Nat → List String
  | [] => []
  | n :: ns => hex (o.take n) :: pieces (o.drop n) ns

def step (_ : Unit) : List String → Unit × String
  | ["sha256", m] => ((), match unhex? m with | some x => hex (sha256 x) | none => "bad-op")
  | ["sha512", m] => ((), match unhex? m with | some x => hex (sha512 x) | none => "bad-op")
  | ["hmac", k, m] => ((), hex2 k m fun k m => hex (hmacSha256 k m))
  | ["hkdfx", s, i] => ((), hex2 s i fun s i => hex (hkdfExtract s i))
  | ["hkdfe", p, i, n] => ((), match n.toNat? with
      | some n => hex2 p i fun p i => match hkdfExpand? p i n with | some o => hex o | none => "err"
      | none => "bad-op")
  | ["hkdf", sec, salt, info, n] => ((), match n.toNat? with
      | some n => hex3 sec salt info fun sec salt info =>
          if n ≤ hkdfMax then hex (hkdf sec salt info n) else "err"
      | none => "bad-op")
  | "hkdfr" :: p :: i :: ns =>
    -- one Go reader, several reads: the pieces of one output, joined by ","
    ((), match ns.mapM String.toNat? with
      | some ns => hex2 p i fun p i =>
          match hkdfExpand? p i ns.sum with
          | some o => ",".intercalate (pieces o ns)
          | none => "err"
      | none => "bad-op")
  | ["bench", p, size, iters] => ((), match size.toNat?, iters.toNat? with
      | some s, some i => bench p s i
      | _, _ => "bad-op")
  | _ => ((), "bad-op")

def run : IO Unit := lineLoop step ()

end Driver.Prim
