import Driver.Common
import O4.Model.Crypto.Sha256
import O4.Model.Crypto.Sha512
import O4.Model.Crypto.Hmac
import O4.Model.Crypto.Secretbox
import O4.Model.Crypto.Aes
/-!
driver module `prim`: the executable symmetric primitives, one call per line (hex arguments,
`-` = empty). Replies are hex, `none` (secretbox open failure), `err` (what the Go library rejects:
bad key/nonce/iv sizes, HKDF past its limit) or `bad-op`.

  sha256 <m> | sha512 <m> | hmac <key> <m> | hkdfx <salt> <ikm> | hkdfe <prk> <info> <n>
  hkdf <secret> <salt> <info> <n> | hkdfr <prk> <info> <n1> <n2> … (successive reads of one reader)
  salsablk <key32> <in16> (core on Sigma,key,in) | salsactr <key32> <nonce8> <block ctr> <len> | hsalsa <key32> <in16> | salsa <key32> <nonce 8|24> <off> <len> | xsalsa <key32> <nonce24> <len>
  poly <key32> <m> | sbseal <key32> <nonce24> <m> | sbopen <key32> <nonce24> <box>  (→ hex | none)
  aesblk <key 16|24|32> <block16> | aesctr <key> <iv16> <off> <data> | aesks <key> <iv16> <off> <len>
  bench <prim> <size> <iters>   -- runs the primitive `iters` times on `size`-byte inputs, replies a checksum
-/
namespace Driver.Prim
open O4 O4.Crypto

def hex2 (a b : String) (f : Bytes → Bytes → String) : String :=
  match unhex? a, unhex? b with
  | some x, some y => f x y
  | _, _ => "bad-op"

def hex3 (a b c : String) (f : Bytes → Bytes → Bytes → String) : String :=
  match unhex? a, unhex? b, unhex? c with
  | some x, some y, some z => f x y z
  | _, _, _ => "bad-op"

/-- message of `size` bytes depending on the iteration number (defeats hoisting) -/
def benchMsg (size i : Nat) : Bytes := (Bytes.ofNatLE 4 i ++ List.replicate size 7).take size

def benchLoop (iters : Nat) (f : Nat → Bytes) : String :=
  let acc := (List.range iters).foldl (fun (acc : UInt8) i => (f i).foldl (· ^^^ ·) acc) 0
  toString acc.toNat

def bench (prim : String) (size iters : Nat) : String :=
  let key := List.replicate 32 (3 : UInt8)
  match prim with
  | "sha256" => benchLoop iters (fun i => sha256 (benchMsg size i))
  | "sha512" => benchLoop iters (fun i => sha512 (benchMsg size i))
  | "hmac" => benchLoop iters (fun i => hmacSha256 key (benchMsg size i))
  | "hkdfe" => benchLoop iters (fun i => hkdfExpand (benchMsg 32 i) [] size)
  | "xsalsa" => benchLoop iters (fun i => xsalsa20Stream key (benchMsg 24 i) 0 size)
  | "poly" => benchLoop iters (fun i => poly1305 key (benchMsg size i))
  | "sbseal" => benchLoop iters (fun i => secretboxSeal key (benchMsg 24 i) (benchMsg size i))
  | "sbopen" =>
    let nonce := List.replicate 24 (9 : UInt8)
    let box := secretboxSeal key nonce (benchMsg size 1)
    -- every second box is tampered in its last byte
    benchLoop iters (fun i =>
      let b := if i % 2 == 0 then box else box.dropLast ++ [UInt8.ofNat i]
      match secretboxOpen key nonce b with | some m => m | none => [UInt8.ofNat i])
  | "aesblk128" => benchLoop iters (fun i => aesEncryptBlock (key.take 16) (benchMsg 16 i))
  | "aesblk256" => benchLoop iters (fun i => aesEncryptBlock key (benchMsg 16 i))
  | "aesctr128" => benchLoop iters (fun i => aesCtrXor (key.take 16) (benchMsg 16 i) 5 (benchMsg size i))
  | "aesctr256" => benchLoop iters (fun i => aesCtrXor key (benchMsg 16 i) 5 (benchMsg size i))
  | _ => "bad-op"

def pieces (o : Bytes) : List Nat → List String
  | [] => []
  | n :: ns => hex (o.take n) :: pieces (o.drop n) ns

def step (_ : Unit) : List String → Unit × String
  | ["sha256", m] => ((), match unhex? m with | some x => hex (sha256 x) | none => "bad-op")
  | ["sha512", m] => ((), match unhex? m with | some x => hex (sha512 x) | none => "bad-op")
  | ["hmac", k, m] => ((), hex2 k m fun k m => hex (hmacSha256 k m))
  | ["hkdfx", s, i] => ((), hex2 s i fun s i => hex (hkdfExtract s i))
  | ["hkdfe", p, i, n] => ((), match n.toNat? with
      | some n => hex2 p i fun p i => match hkdfExpand? p i n with | some o => hex o | none => "err"
      | none => "bad-op")
  | ["hkdf", sec, salt, info, n] => ((), match n.toNat? with
      | some n => hex3 sec salt info fun sec salt info =>
          if n ≤ hkdfMax then hex (hkdf sec salt info n) else "err"
      | none => "bad-op")
  | "hkdfr" :: p :: i :: ns =>
    -- one Go reader, several reads: the pieces of one output, joined by ","
    ((), match ns.mapM String.toNat? with
      | some ns => hex2 p i fun p i =>
          match hkdfExpand? p i ns.sum with
          | some o => ",".intercalate (pieces o ns)
          | none => "err"
      | none => "bad-op")
  | ["salsablk", k, n] => ((), hex2 k n fun k n =>
      if k.length == 32 && n.length == 16 then
        let sg := Bytes.ofString "expand 32-byte k"
        hex (salsa20Core ((sg.take 4) ++ k.take 16 ++ (sg.drop 4).take 4 ++ n ++ (sg.drop 8).take 4
                          ++ k.drop 16 ++ sg.drop 12))
      else "err")
  | ["salsactr", k, n, ctr, len] => ((), match ctr.toNat?, len.toNat? with
      | some ctr, some len => hex2 k n fun k n =>
          if k.length == 32 && n.length == 8 then hex (salsa20Stream k n (64 * ctr) len) else "err"
      | _, _ => "bad-op")
  | ["hsalsa", k, n] => ((), hex2 k n fun k n =>
      if k.length == 32 && n.length == 16 then hex (hsalsa20 k n) else "err")
  | ["salsa", k, n, off, len] => ((), match off.toNat?, len.toNat? with
      | some off, some len => hex2 k n fun k n =>
          if k.length != 32 then "err"
          else if n.length == 8 then hex (salsa20Stream k n off len)
          else if n.length == 24 then hex (xsalsa20Stream k n off len)
          else "err"
      | _, _ => "bad-op")
  | ["xsalsa", k, n, len] => ((), match len.toNat? with
      | some len => hex2 k n fun k n =>
          if k.length == 32 && n.length == 24 then hex (xsalsa20Stream k n 0 len) else "err"
      | none => "bad-op")
  | ["poly", k, m] => ((), hex2 k m fun k m => if k.length == 32 then hex (poly1305 k m) else "err")
  | ["sbseal", k, n, m] => ((), hex3 k n m fun k n m =>
      if k.length == 32 && n.length == 24 then hex (secretboxSeal k n m) else "err")
  | ["sbopen", k, n, b] => ((), hex3 k n b fun k n b =>
      if k.length == 32 && n.length == 24 then
        match secretboxOpen k n b with | some m => hex m | none => "none"
      else "err")
  | ["aesblk", k, b] => ((), hex2 k b fun k b =>
      if aesKeyOk k && b.length == 16 then hex (aesEncryptBlock k b) else "err")
  | ["aesctr", k, iv, off, data] => ((), match off.toNat? with
      | some off => hex3 k iv data fun k iv data =>
          if aesKeyOk k && aesIvOk iv then hex (aesCtrXor k iv off data) else "err"
      | none => "bad-op")
  | ["aesks", k, iv, off, len] => ((), match off.toNat?, len.toNat? with
      | some off, some len => hex2 k iv fun k iv =>
          if aesKeyOk k && aesIvOk iv then hex (aesCtrKeystream k iv off len) else "err"
      | _, _ => "bad-op")
  | ["bench", p, size, iters] => ((), match size.toNat?, iters.toNat? with
      | some s, some i => bench p s i
      | _, _ => "bad-op")
  | _ => ((), "bad-op")

def run : IO Unit := lineLoop step ()

end Driver.Prim
