import Driver.Common
import O4.Model.C10Bounds
import O4.Model.C10Deadline
import O4.Model.Obfs4Conn
import O4.Model.Handshake
/-! driver module `c10`:
  `bound <name>` → value of the buffer bound of `O4.C10.table` (or `bad-op`)
  `parsepkt <isServer 0|1> <pkthex>` → what `readPackets` does with one authenticated frame
      plaintext: `payload <hex>` | `seed <hex>` | `ignored` | `bad pktlen <n>` | `bad paylen <n>`
  `dd <kind plain|socks|obfs4srv> <ok 0|1> <ops>` → verdict `1|0` of the deadline discipline on a
      trace of conn operations (a c r x R W, `-` = empty)
  `fmm <markhex> <bufhex> <startPos> <maxPos> <fromTail 0|1>` → `findMarkMac`: position or `-1` -/
namespace Driver.C10
open O4

def parseBool : String → Option Bool
  | "0" => some false
  | "1" => some true
  | _ => none

def step (_ : Unit) : List String → Unit × String
  | ["bound", name] =>
    match O4.C10.table.lookup name with
    | some v => ((), toString v)
    | none => ((), "bad-op")
  | ["parsepkt", srv, pkt] =>
    match parseBool srv, unhex? pkt with
    | some s, some p =>
      match Obfs4.parsePacket s p with
      | .payload b => ((), "payload " ++ hex b)
      | .seed b => ((), "seed " ++ hex b)
      | .ignored => ((), "ignored")
      | .bad (.invalidPacketLength n) => ((), "bad pktlen " ++ toString n)
      | .bad (.invalidPayloadLength n) => ((), "bad paylen " ++ toString n)
      | .bad _ => ((), "bad other")
    | _, _ => ((), "bad-op")
  | ["fmm", mk, buf, sp, mp, tail] =>
    match unhex? mk, unhex? buf, sp.toNat?, mp.toNat?, parseBool tail with
    | some m, some b, some s, some x, some t =>
      if m.length ≠ Consts.Obfs4.markLength then ((), "bad-op") else
      match Handshake.findMarkMac m b s x t with
      | some p => ((), toString p)
      | none => ((), "-1")
    | _, _, _, _, _ => ((), "bad-op")
  | ["dd", kind, ok, ops] =>
    match parseBool ok, O4.C10.parseOps (if ops = "-" then "" else ops) with
    | some o, some l =>
      match O4.C10.verdict kind l o with
      | some v => ((), boolStr v)
      | none => ((), "bad-op")
    | _, _ => ((), "bad-op")
  | _ => ((), "bad-op")

def run : IO Unit := lineLoop step ()

end Driver.C10
