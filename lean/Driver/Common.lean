import O4.Model.Bytes
/-!
# Line-protocol plumbing shared by the per-module drivers.
One request line in, one reply line out, flushed per line.
-/
namespace Driver
open O4

/-- split a request line into words -/
def words (line : String) : List String :=
  (line.splitOn " ").filter (· ≠ "")

partial def lineLoop {σ : Type} (step : σ → List String → σ × String) (init : σ) : IO Unit := do
  let stdin ← IO.getStdin
  let stdout ← IO.getStdout
  let rec go (s : σ) : IO Unit := do
    let line ← stdin.getLine
    if line.isEmpty then return ()
    let ws := words ((line.replace "\n" "").replace "\r" "")
    let (s', out) := step s ws
    stdout.putStrLn out
    stdout.flush
    go s'
  go init

/-- effectful variant for modules that want to stream several reply lines themselves -/
partial def lineLoopIO {σ : Type} (step : σ → List String → IO (σ × String)) (init : σ) : IO Unit := do
  let stdin ← IO.getStdin
  let stdout ← IO.getStdout
  let rec go (s : σ) : IO Unit := do
    let line ← stdin.getLine
    if line.isEmpty then return ()
    let ws := words ((line.replace "\n" "").replace "\r" "")
    let (s', out) ← step s ws
    stdout.putStrLn out
    stdout.flush
    go s'
  go init

def hex (b : Bytes) : String := Bytes.toHex b
def unhex? (s : String) : Option Bytes := Bytes.ofHex s

def boolStr (b : Bool) : String := if b then "1" else "0"

end Driver
