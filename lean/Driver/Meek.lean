import Driver.Common
import O4.Model.Meek
/-!
driver module `meek` (C16): trace validation of one recorded meek_lite session.

`meek.begin`, then one line `e <event>` per recorded event, then `meek.end`.  Events, in the
order of the harness's (mutex-ordered) log:

* `wc:<hex>` / `wr:ok:<n>` / `wr:fail` — the writer calls `Write(payload)` / it returned
* `rc:<n>` / `rr:data:<hex>` / `rr:fail` — the reader calls `Read` with an `n`-byte buffer / returned
* `cc` / `cr:ok` / `cr:again` — `Close()` called / returned
* `rq:<sid>:<hex>` — a request (session id, body) arrived at the server
* `rs:ok:<hex>` / `rs:non200` / `rs:fail` — the server answers the request in flight

The validator keeps the set of model states compatible with the events so far.  Every step of
the application between a call and its return, and every step of the worker, is unobservable:
before an event is matched the set is closed under those steps (how many queued writes were
coalesced, when a write was enqueued, which `select` case fired are thereby read off the
observed request bodies and results).  The trace is a run of the model iff the set never
becomes empty.  Reply to `meek.end`: `ok …` or `reject <event index> <reason>`.
-/
namespace Driver.Meek
open O4 O4.Meek

structure V where
  s : State
  wCall : Option Bytes := none   -- Write called, the model's `writeCall` step not taken yet
  rCall : Option Nat := none
  cCalls : Nat := 0
  seenReqs : Nat := 0            -- requests matched with an `rq` event
  wSeen : Nat := 0               -- Write results matched with a `wr` event
  rSeen : Nat := 0
  cSeen : Nat := 0

def wpcTag : WPc → List Nat
  | .sel => [0]
  | .coal _ => [1]
  | .flight _ _ k => [2, k]
  | .got _ _ b => [3, if b.isEmpty then 0 else 1]
  | .retry _ _ k => [9, k]
  | .enq _ => [4]
  | .x1 => [5] | .x2 => [6] | .x3 => [7] | .dead => [8]

def b2n (b : Bool) : Nat := if b then 1 else 0

/-- a cheap key: given the same observed history, the byte contents of a compatible state are
    determined by these counters and control fields -/
def key (v : V) : List Nat :=
  let s := v.s
  wpcTag s.wpc ++
  [b2n s.closed, s.wrQ.length, s.rdQ.length, b2n s.wrClosed, b2n s.rdClosed, b2n s.rdBuf.isEmpty,
   (match s.wr with | .idle => 0 | .enq _ => 1), (match s.rd with | .idle => 0 | .wait _ => 1),
   s.accepted.length, s.reqs.length, s.resps.length, s.answered, b2n s.failed, s.readOut.length,
   s.out.length, s.dropped.length,
   b2n v.wCall.isSome, b2n v.rCall.isSome, v.cCalls, v.seenReqs, v.wSeen, v.rSeen, v.cSeen]

def isW : Obs → Bool | .wOk _ => true | .wFail => true | _ => false
def isR : Obs → Bool | .rData _ => true | .rFail => true | _ => false
def isC : Obs → Bool | .closeOk => true | .closeAgain => true | _ => false

/-- results of one actor, oldest first -/
def outs (s : State) (p : Obs → Bool) : List Obs := (s.out.filter p).reverse

def fixed : Bool := codeFixed

/-- unobservable successors of one state -/
def tauSucc (v : V) : List V :=
  let s := v.s
  let app : List V :=
    (match v.wCall, s.wr with
      | some b, .idle => [{ v with s := step fixed s (.writeCall b), wCall := none }]
      | _, _ => []) ++
    (match v.rCall, s.rd with
      | some n, .idle => [{ v with s := step fixed s (.readCall n), rCall := none }]
      | _, _ => []) ++
    (if v.cCalls > 0 then [{ v with s := step fixed s .close, cCalls := v.cCalls - 1 }] else [])
  let auto : List V := [Choice.writeEnq, .readDeq, .wTimer, .wRecv, .wClose, .wStep].filterMap (fun c =>
    let v' := { v with s := step fixed s c }
    if key v' == key v then none else some v')
  app ++ auto

def insertNew (seen : List (List Nat × V)) (vs : List V) : List (List Nat × V) × List V :=
  vs.foldl (fun (acc : List (List Nat × V) × List V) v =>
    let k := key v
    if acc.1.any (fun p => p.1 == k) then acc else ((k, v) :: acc.1, v :: acc.2)) (seen, [])

/-- closure under unobservable steps (fuel bounds the number of rounds) -/
def closure (vs : List V) : List V :=
  let rec go (fuel : Nat) (seen : List (List Nat × V)) (frontier : List V) : List (List Nat × V) :=
    match fuel with
    | 0 => seen
    | fuel + 1 =>
      if frontier.isEmpty then seen else
      let next := frontier.flatMap tauSucc
      let (seen', fresh) := insertNew seen next
      go fuel seen' fresh
  let (seen0, _) := insertNew [] vs
  (go 64 seen0 vs).map (·.2)

def nthObs (l : List Obs) (i : Nat) : Option Obs := l[i]?

/-- match one observed event against the (closed) state set -/
def onEvent (vs : List V) (ev : List String) : Except String (List V) :=
  let cl := closure vs
  let keep (f : V → Option V) (why : String) : Except String (List V) :=
    match cl.filterMap f with
    | [] => .error why
    | l => .ok l
  match ev with
  | ["wc", h] =>
    match unhex? h with
    | none => .error "bad-op"
    | some b => keep (fun v =>
        if v.wCall.isNone && (outs v.s isW).length == v.wSeen && v.s.wr == .idle then some { v with wCall := some b }
        else none) "Write called while the previous Write has not returned"
  | "wr" :: res =>
    keep (fun v =>
      let o := outs v.s isW
      if v.wCall.isNone && o.length == v.wSeen + 1 && v.s.wr == .idle then
        match nthObs o v.wSeen, res with
        | some (.wOk n), ["ok", m] => if toString n == m then some { v with wSeen := v.wSeen + 1 } else none
        | some .wFail, ["fail"] => some { v with wSeen := v.wSeen + 1 }
        | _, _ => none
      else none) s!"no state of the model has this Write return {":".intercalate res}"
  | ["rc", n] =>
    match n.toNat? with
    | none => .error "bad-op"
    | some n => keep (fun v =>
        if v.rCall.isNone && (outs v.s isR).length == v.rSeen && v.s.rd == .idle then some { v with rCall := some n }
        else none) "Read called while the previous Read has not returned"
  | "rr" :: res =>
    keep (fun v =>
      let o := outs v.s isR
      if v.rCall.isNone && o.length == v.rSeen + 1 && v.s.rd == .idle then
        match nthObs o v.rSeen, res with
        | some (.rData d), ["data", h] => if hex d == h then some { v with rSeen := v.rSeen + 1 } else none
        | some .rFail, ["fail"] => some { v with rSeen := v.rSeen + 1 }
        | _, _ => none
      else none) s!"no state of the model has this Read return {(":".intercalate res).take 60}"
  | ["cc"] => .ok (cl.map (fun v => { v with cCalls := v.cCalls + 1 }))
  | ["cr", res] =>
    keep (fun v =>
      let o := outs v.s isC
      if o.length ≥ v.cSeen + 1 then
        match nthObs o v.cSeen, res with
        | some .closeOk, "ok" => some { v with cSeen := v.cSeen + 1 }
        | some .closeAgain, "again" => some { v with cSeen := v.cSeen + 1 }
        | _, _ => none
      else none) s!"no state of the model has Close return {res}"
  | ["rq", _, h] =>
    match unhex? h with
    | none => .error "bad-op"
    | some body => keep (fun v =>
        if v.s.reqs.length == v.seenReqs + 1 then
          match v.s.reqs.getLast? with
          | some (_, b) => if b == body then some { v with seenReqs := v.seenReqs + 1 } else none
          | none => none
        else none)
        s!"a request with a {body.length}-byte body arrived, which the worker of the model cannot have issued here (body, or a request already in flight)"
  | "rs" :: res =>
    let choice : Option Choice := match res with
      | ["ok", h] => (unhex? h).map Choice.sOk
      | ["non200"] => some .sNon200
      | ["fail"] => some .sFail
      | _ => none
    match choice with
    | none => .error "bad-op"
    | some c => keep (fun v =>
        if inFlight v.s && v.s.reqs.length == v.seenReqs then
          let s' := step fixed v.s c
          if s'.answered == v.s.answered + 1 then some { v with s := s' } else none
        else none) "the server answered but no observed request is in flight in the model"
  | _ => .error "bad-op"

def bodiesOf (s : State) : Bytes := (s.reqs.map (·.2)).flatten

/-- the observable projections of the C16 invariants on a model state -/
def projections (s : State) : Bool :=
  (s.failed || bodiesOf s ++ pendingUp s ++ s.wrQ.flatten == s.accepted.flatten) &&
  (s.readOut.flatten ++ s.rdBuf ++ s.rdQ.flatten ++ pendingDown s ++ s.dropped.flatten == s.resps.flatten) &&
  s.reqs.all (fun r => r.2.length ≤ O4.Consts.Meeklite.maxPayloadLength) &&
  (s.reqs.length == s.answered + (if inFlight s then 1 else 0))

structure D where
  vs : List V := []
  idx : Nat := 0
  err : Option String := none
  sid : Option String := none

def stepD (d : D) : List String → D × String
  | ["meek.begin"] => ({ vs := [{ s := init 0 }] }, "ok")
  | ["e", ev] =>
    match d.err with
    | some _ => (d, "dead")
    | none =>
      let parts := ev.splitOn ":"
      -- the session identifier is compared among the observed requests themselves
      let sidErr : Option String := match parts, d.sid with
        | ["rq", sid, _], some s0 => if sid == s0 then none else some "the session identifier changed"
        | _, _ => none
      let d := match parts, d.sid with
        | ["rq", sid, _], none => { d with sid := some sid }
        | _, _ => d
      match sidErr with
      | some e => ({ d with err := some s!"reject {d.idx} {e}" }, s!"reject {d.idx} {e}")
      | none =>
        match onEvent d.vs parts with
        | .ok vs => ({ d with vs := vs, idx := d.idx + 1 }, "+")
        | .error "bad-op" => (d, "bad-op")
        | .error e => ({ d with err := some s!"reject {d.idx} {e}" }, s!"reject {d.idx} {e}")
  | ["meek.end"] =>
    match d.err with
    | some e => ({}, e)
    | none =>
      let cl := closure d.vs
      let okAll := cl.all (fun v => projections v.s)
      match cl with
      | [] => ({}, s!"reject {d.idx} no model state left")
      | v :: _ =>
        ({}, s!"ok states={cl.length} reqs={v.s.reqs.length} up={(bodiesOf v.s).length} down={v.s.readOut.flatten.length} closed={boolStr v.s.closed} inv={boolStr okAll}")
  | _ => (d, "bad-op")

def run : IO Unit := lineLoop stepD {}

end Driver.Meek
