import Driver.Common
import O4.Model.ProbDist
import O4.Model.CsRand
/-!
driver module `dist` (C12, tables also used by C09). All ops are stateless:

* `sip <key16> <msg>`                         → 8 bytes (little-endian `Sum`)
* `drbg.blocks <seed24> <n>`                  → `n*8` bytes
* `drbg.int63s <seed24> <n>`                  → `v1,v2,…`
* `pd.new <seed24> <min> <max> <biased 0|1>`  → `ok <values> <weightbits> <alias> <probbits>` | `panic`
* `pd.samples <seed24> <min> <max> <biased> <tape> <k>` → `ok <v1,…,vk> <bytes consumed>`
* `cs.intn <n> <tape>`                        → `ok <v> <consumed>` | `panic`
* `cs.intrange <min> <max> <tape>`            → `ok <v> <consumed>` | `panic`
* `cs.float64 <tape>`                         → `ok <bits> <consumed>`
Float values travel as the 16 hex digits of their IEEE bit pattern.
-/
namespace Driver.Dist
open O4 O4.GoRand O4.ProbDist

def commaSep (xs : List String) : String := if xs.isEmpty then "-" else ",".intercalate xs

def bitsHex (x : Float) : String := Bytes.toHex (Bytes.ofNatBE 8 x.toBits.toNat)

def showDist (d : Dist Float) : String :=
  "ok " ++ commaSep (d.values.map toString) ++ " " ++ commaSep (d.weights.map bitsHex) ++ " " ++
    commaSep (d.ali.map toString) ++ " " ++ commaSep (d.prob.map bitsHex)

def parseSeed (s : String) : Option Bytes :=
  match unhex? s with
  | some b => if b.length == O4.Drbg.seedLength then some b else none
  | none => none

def parseBool : String → Option Bool
  | "0" => some false
  | "1" => some true
  | _ => none

def sampleMany (d : Dist Float) : Nat → Tape → List Int → Option (List Int × Tape)
  | 0, t, acc => some (acc.reverse, t)
  | k + 1, t, acc =>
    match d.sample floatOps tapeSource t with
    | none => none
    | some (v, t') => sampleMany d k t' (v :: acc)

def consumed (tape : Bytes) (t : Tape) : String := toString (tape.length - t.data.length)

def step (_ : Unit) : List String → Unit × String
  | ["sip", key, msg] =>
    match unhex? key, unhex? msg with
    | some k, some m =>
      if k.length != 16 then ((), "bad-op") else
      let kk := O4.Crypto.sipKey k
      ((), hex (O4.Crypto.SipHash.leBytes (O4.Crypto.sipHash24 kk.1 kk.2 m)))
    | _, _ => ((), "bad-op")
  | ["drbg.blocks", seed, n] =>
    match parseSeed seed, n.toNat? with
    | some s, some n => ((), hex ((O4.Drbg.newHashDrbg s).blocks n).flatten)
    | _, _ => ((), "bad-op")
  | ["drbg.int63s", seed, n] =>
    match parseSeed seed, n.toNat? with
    | some s, some n =>
      let rec go : Nat → O4.Drbg.HashDrbg → List String → List String
        | 0, _, acc => acc.reverse
        | k + 1, d, acc => let (v, d') := d.int63; go k d' (toString v :: acc)
      ((), commaSep (go n (O4.Drbg.newHashDrbg s) []))
    | _, _ => ((), "bad-op")
  | ["pd.new", seed, mn, mx, b] =>
    match parseSeed seed, mn.toInt?, mx.toInt?, parseBool b with
    | some s, some mn, some mx, some b =>
      if mx ≤ mn then ((), "panic") else
      match ProbDist.new floatOps s mn mx b with
      | some d => ((), showDist d)
      | none => ((), "fuel")
    | _, _, _, _ => ((), "bad-op")
  | ["pd.samples", seed, mn, mx, b, tape, k] =>
    match parseSeed seed, mn.toInt?, mx.toInt?, parseBool b, unhex? tape, k.toNat? with
    | some s, some mn, some mx, some b, some tape, some k =>
      if mx ≤ mn then ((), "panic") else
      match ProbDist.new floatOps s mn mx b with
      | none => ((), "fuel")
      | some d =>
        match sampleMany d k ⟨tape, false⟩ [] with
        | none => ((), "fuel")
        | some (vs, t) =>
          if t.short then ((), "tape-short") else
          ((), "ok " ++ commaSep (vs.map toString) ++ " " ++ consumed tape t)
    | _, _, _, _, _, _ => ((), "bad-op")
  | ["cs.intn", n, tape] =>
    match n.toInt?, unhex? tape with
    | some n, some tape =>
      if n ≤ 0 then ((), "panic") else
      match O4.CsRand.intn tapeSource n.toNat ⟨tape, false⟩ with
      | none => ((), "fuel")
      | some (v, t) => if t.short then ((), "tape-short") else ((), s!"ok {v} {consumed tape t}")
    | _, _ => ((), "bad-op")
  | ["cs.intrange", mn, mx, tape] =>
    match mn.toInt?, mx.toInt?, unhex? tape with
    | some mn, some mx, some tape =>
      match O4.CsRand.intRange tapeSource mn mx ⟨tape, false⟩ with
      | .panic => ((), "panic")
      | .overflow => ((), "overflow")
      | .fuel => ((), "fuel")
      | .ok v t => if t.short then ((), "tape-short") else ((), s!"ok {v} {consumed tape t}")
    | _, _, _ => ((), "bad-op")
  | ["cs.float64", tape] =>
    match unhex? tape with
    | some tape =>
      match O4.CsRand.float64 tapeSource floatOps ⟨tape, false⟩ with
      | none => ((), "fuel")
      | some (x, t) => if t.short then ((), "tape-short") else ((), s!"ok {bitsHex x} {consumed tape t}")
    | none => ((), "bad-op")
  | _ => ((), "bad-op")

def run : IO Unit := lineLoop step ()

end Driver.Dist
