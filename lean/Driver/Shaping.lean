import Driver.Common
import O4.Model.Obfs4Shaping
import O4.Model.ProbDist
/-!
driver module `shaping` (C09). Stateless ops:

* `padburst <L> <target>` → `ok <frame lens> <new total>` | `panic`;  `padrow <L>` → the same for all targets `0..MSS`, `;`-separated
* `write <lenseed24> <iatseed24|-> <biased 0|1> <iatMode> <n> <tape>` →
    `<status> <write sizes> <paranoid samples> <frame lens> <iat samples> <tape bytes consumed>`
  with status `ok` | `panic-chop` | `panic-iat` | `panic-makepacket` | `starved`;
  the length / IAT tables are built from the seeds by the `probdist` model, the samples are drawn
  from the tape exactly as `WeightedDist.Sample` draws them from `crypto/rand`.
* `adopt <isServer 0|1> <lenseed> <iatseed|-> <payload> <sha256(payload)>` → `<lenseed> <iatseed|->`
* `fixed` → `1` when the model is the post-`fix:` code
-/
namespace Driver.Shaping
open O4 O4.GoRand O4.ProbDist O4.Shaping

/-- the model follows the tree after the `fix:` commit for defect F2 -/
def fixed : Bool := true

def commaSep (xs : List String) : String := if xs.isEmpty then "-" else ",".intercalate xs

def parseSeed (s : String) : Option Bytes :=
  match unhex? s with
  | some b => if b.length == O4.Drbg.seedLength then some b else none
  | none => none

def parseBool : String → Option Bool
  | "0" => some false
  | "1" => some true
  | _ => none

def intToNat (x : Int) : Nat := x.toNat

/-- one `Sample()` from the tape; `none` once the tape is exhausted (the harness hands over
    exactly the bytes the implementation consumed) -/
def tapeSample (d : Dist Float) (t : Tape) : Option (Nat × Tape) :=
  match d.sample floatOps tapeSource t with
  | none => none
  | some (v, t') => if t'.short then none else some (intToNat v, t')

/-- the sampler of a connection whose tables are `lenD` / `iatD`, reading the tape -/
def tapeSampler (lenD : Dist Float) (iatD : Option (Dist Float)) : Sampler Tape where
  len t := tapeSample lenD t
  iat t := match iatD with
    | none => none
    | some d => tapeSample d t

def statusStr : Status → String
  | .ok => "ok"
  | .panic .chopZero => "panic-chop"
  | .panic .iatZero => "panic-iat"
  | .panic (.makePacket _ _) => "panic-makepacket"
  | .starved => "starved"

def nats (xs : List Nat) : String := commaSep (xs.map toString)

def step (_ : Unit) : List String → Unit × String
  | ["fixed"] => ((), boolStr fixed)
  | ["padburst", l, t] =>
    match l.toNat?, t.toNat? with
    | some l, some t =>
      match padBurst l t with
      | .error _ => ((), "panic")
      | .ok fs => ((), s!"ok {nats fs} {l + fs.sum}")
    | _, _ => ((), "bad-op")
  | ["padrow", l] =>
    -- all targets 0..mss for one buffered length, `;`-separated
    match l.toNat? with
    | some l =>
      let cell (t : Nat) : String := match padBurst l t with
        | .error _ => "panic"
        | .ok fs => s!"ok {nats fs} {l + fs.sum}"
      ((), ";".intercalate ((List.range (mss + 1)).map cell))
    | none => ((), "bad-op")
  | ["write", lenSeed, iatSeed, b, mode, n, tape] =>
    match parseSeed lenSeed, parseBool b, mode.toNat?, n.toNat?, unhex? tape with
    | some ls, some b, some mode, some n, some tape =>
      let iatS : Option (Option Bytes) := if iatSeed == "-" then some none else (parseSeed iatSeed).map some
      match iatS with
      | none => ((), "bad-op")
      | some iatS =>
        if mode > 2 then ((), "bad-op") else
        if mode != 0 && iatS.isNone then ((), "bad-op") else
        match ProbDist.new floatOps ls 0 (mss : Nat) b with
        | none => ((), "fuel")
        | some lenD =>
          let iatD : Option (Option (Dist Float)) := match iatS with
            | none => some none
            | some s => (ProbDist.new floatOps s 0 (maxIATDelay : Nat) b).map some
          match iatD with
          | none => ((), "fuel")
          | some iatD =>
            -- every loop iteration draws at least one sample (16 tape bytes), so this fuel is never the limit
            let o := write (tapeSampler lenD iatD) fixed mode n (tape.length / 16 + n + 8) ⟨tape, false⟩
            let samples := o.writes.filterMap (·.sample)
            if o.s.short then ((), "tape-short") else
            ((), s!"{statusStr o.status} {nats (o.writes.map (·.size))} {nats samples} {nats o.frames} {nats o.delays} {tape.length - o.s.data.length}")
    | _, _, _, _, _ => ((), "bad-op")
  | ["adopt", isServer, lenSeed, iatSeed, payload, digest] =>
    match parseBool isServer, unhex? lenSeed, unhex? payload, unhex? digest with
    | some srv, some ls, some p, some dg =>
      let iatS : Option (Option Bytes) := if iatSeed == "-" then some none else (unhex? iatSeed).map some
      match iatS with
      | none => ((), "bad-op")
      | some iatS =>
        let d := adoptSeed (fun _ => dg) srv ⟨ls, iatS⟩ p
        ((), s!"{hex d.len} {match d.iat with | none => "-" | some x => hex x}")
    | _, _, _, _ => ((), "bad-op")
  | _ => ((), "bad-op")

def run : IO Unit := lineLoop step ()

end Driver.Shaping
