import Driver.Common
import O4.Model.Obfs2
/-!
driver module `obfs2`: the Lean obfs2 endpoint model as a reference peer (both roles).

  start <S> <i|r> <tapehex>                 handshake start with the randomness of a recorded tape
        → ok <seedwrite> <blobwrite> <tape bytes consumed> <padlen> | fail <class> | panic
  startwith <S> <i|r> <seedhex> <padlen> <padhex>   same with explicit values (padlen is what goes
        into the header; it need not be |pad| — used to craft malformed peers) → ok <w1> <w2>
  feed <S> <datahex> <size>*                the bytes arrive split at the given sizes (rest in one
        chunk); after every arrival the handshake proceeds as far as it can → <state> <queued bytes>
        state: need-seed | need-hdr | need-pad:<n> | done | fail:<class> | panic
  eof <S>                                   the read side ends while the handshake waits → <state> <queued>
  feedlast <S> <datahex> <class>            the final chunk: ONE conn.Read returns it together with an
        error of that class (eof, reset, …); it must fit the read buffer → ok
  read <S> <max>                            one Read with a buffer of max bytes → ok <plainhex> | block
        | okerr <plainhex> <class> (bytes returned together with the error) | fail <class>
  write <S> <datahex>                       one Write → ok <wirehex>
  info <S>                                  → <state> <queued> <alloc> <rxoff> <txoff>
  del <S>
-/
namespace Driver.Obfs2
open O4 O4.SC O4.Obfs2

structure Sess where
  c : Conn
  net : Net
  /-- final chunk that the conn hands out together with an error (class name) -/
  last : Option (Bytes × String) := none
  /-- the error class every later read reports -/
  ended : Option String := none

abbrev St := List (String × Sess)

def St.get? (st : St) (n : String) : Option Sess := (st.find? (·.1 == n)).map (·.2)
def St.set (st : St) (n : String) (s : Sess) : St := (n, s) :: st.filter (·.1 != n)

def errName : Err → String
  | .badMagic => "badmagic"
  | .padTooLong => "padtoolong"
  | .eof => "eof"
  | .cipherKey => "cipherkey"

def phaseName : Phase → String
  | .seed => "need-seed"
  | .hdr => "need-hdr"
  | .pad n => s!"need-pad:{n}"
  | .done => "done"
  | .failed e => "fail:" ++ errName e
  | .panicked => "panic"

def stateLine (s : Sess) : String := s!"{phaseName s.c.phase} {s.net.size}"

def role? : String → Option Bool
  | "i" => some true
  | "r" => some false
  | _ => none

def P : Prims := Prims.real

def startReply (st : St) (name : String) (r : Except Stop (Conn × List Bytes)) (extra : String) : St × String :=
  match r with
  | .ok (c, [w1, w2]) => (st.set name { c := c, net := [] }, s!"ok {hex w1} {hex w2}{extra}")
  | .ok _ => (st, "bad-op")
  | .error (.fail e) => (st, "fail " ++ errName e)
  | .error .panic => (st, "panic")

/-- split `d` at the sizes, rest in one chunk -/
def splitAt (d : Bytes) : List Nat → List Bytes
  | [] => [d]
  | n :: ns => d.take n :: splitAt (d.drop n) ns

def step (st : St) : List String → St × String
  | ["start", name, role, tape] =>
    match role? role, unhex? tape with
    | some ini, some t =>
      match drawRandom t with
      | none => (st, "bad-op")
      | some (seed, padLen, pad, used) =>
        startReply st name (startWith P ini seed padLen pad) s!" {used} {padLen}"
    | _, _ => (st, "bad-op")
  | ["startwith", name, role, seed, padLen, pad] =>
    match role? role, unhex? seed, padLen.toNat?, unhex? pad with
    | some ini, some s, some n, some p => startReply st name (startWith P ini s n p) ""
    | _, _, _, _ => (st, "bad-op")
  | "feed" :: name :: data :: sizes =>
    match st.get? name, unhex? data, sizes.mapM String.toNat? with
    | some s, some d, some ns =>
      let (c, net) := feedAll P s.c s.net (splitAt d ns)
      let s' : Sess := { s with c := c, net := net }
      (st.set name s', stateLine s')
    | _, _, _ => (st, "bad-op")
  | ["eof", name] =>
    match st.get? name with
    | some s =>
      let s' : Sess := { s with c := eof s.c }
      (st.set name s', stateLine s')
    | none => (st, "bad-op")
  | ["read", name, max] =>
    match st.get? name, max.toNat? with
    | some s, some m =>
      if s.c.phase != .done || m == 0 then (st, "bad-state") else
      match read P s.c m s.net with
      | some (c, plain, net) => (st.set name { s with c := c, net := net }, "ok " ++ hex plain)
      | none =>
        match s.last, s.ended with
        | some (ch, cls), _ =>
          if ch.length > m then (st, "bad-op") else
          let (c, plain) := readLast P s.c ch
          (st.set name { s with c := c, last := none, ended := some cls }, s!"okerr {hex plain} {cls}")
        | none, some cls => (st, "fail " ++ cls)
        | none, none => (st, "block")
    | _, _ => (st, "bad-op")
  | ["feedlast", name, data, cls] =>
    match st.get? name, unhex? data with
    | some s, some d =>
      if d.isEmpty then (st.set name { s with ended := some cls }, "ok")
      else (st.set name { s with last := some (d, cls) }, "ok")
    | _, _ => (st, "bad-op")
  | ["write", name, data] =>
    match st.get? name, unhex? data with
    | some s, some d =>
      if s.c.phase != .done then (st, "bad-state") else
      let (c, wire) := write P s.c d
      (st.set name { s with c := c }, "ok " ++ hex wire)
    | _, _ => (st, "bad-op")
  | ["info", name] =>
    match st.get? name with
    | some s => (st, s!"{stateLine s} {s.c.alloc} {s.c.rx.off} {s.c.tx.off}")
    | none => (st, "bad-op")
  | ["del", name] => (st.filter (·.1 != name), "ok")
  | _ => (st, "bad-op")

def run : IO Unit := lineLoop step []

end Driver.Obfs2
