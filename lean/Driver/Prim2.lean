import Driver.Common
import O4.Model.Crypto.X25519
import O4.Model.Crypto.Elligator
import O4.Model.Crypto.ModExp
import O4.Model.UniformDH
import O4.Model.NtorKeygen
/-!
driver module `prim2` — public-key primitives (all byte strings hex; 32-byte keys little-endian as on the wire)

* `x25519 <k32> <u32>` → raw ladder output (`curve25519.ScalarMult`: all-zero on low-order input)
* `x25519c <k32> <u32>` → `err` | out (`curve25519.X25519`)
* `x25519b <k32>` → `curve25519.ScalarBaseMult`
* `ell.sbm <priv32> <tweak 0..255>` → `none` | `<pub> <repr>` (`x25519ell2.ScalarBaseMult`)
* `ell.r2p <repr32>` → pub (`Representative.ToPublic`)
* `ell.spec <repr32>` → pub (textbook Elligator 2 map)
* `ell.coset <pub32>` → `1|2|4|8a|8b|x` (class of ℓ·P from the u-coordinate alone)
* `ell.cosetr <repr32>` → `<idx 0..7|x> <compressed Edwards ℓ·EdwardsFlavor(repr)>`
* `ell.cosetp <priv32>` → `<idx 0..7|x> <compressed Edwards ℓ·(dirty point)>`
* `ell.lop <c 0..255>` → `<x32> <y32> <oncurve 0|1>` (the low-order point selected by key byte c)
* `ntor.newkeypair <0|1 elligator> <random tape hex>` → `exhausted` | `<priv> <pub> <repr|-> <consumed>`
* `udh.gen <priv192>` → pub192; `udh.shared <priv192> <peerpub192>` → secret192
* `modexp <b> <e> <m>` → big-endian hex (minimal length, `00` for zero); m = 0 is rejected
-/
namespace Driver.Prim2
open O4 O4.Crypto

def unhexN? (n : Nat) (s : String) : Option Bytes :=
  match unhex? s with
  | some b => if b.length = n then some b else none
  | none => none

def natHex (n : Nat) : String :=
  hex (Bytes.ofNatBE (max 1 ((n.log2 + 8) / 8)) n)

def cosetReply (P : EdPoint) : String :=
  let Q := Ed.scalarMul Ed.ell P
  let idx := match Ell2.cosetIndex P with
    | some c => toString c
    | none => "x"
  idx ++ " " ++ hex (Ed.encode Q)

def step (_ : Unit) : List String → Unit × String
  | ["x25519", k, u] =>
    match unhexN? 32 k, unhexN? 32 u with
    | some k, some u => ((), hex (x25519 k u))
    | _, _ => ((), "bad-op")
  | ["x25519c", k, u] =>
    match unhexN? 32 k, unhexN? 32 u with
    | some k, some u =>
      match x25519Checked k u with
      | some o => ((), hex o)
      | none => ((), "err")
    | _, _ => ((), "bad-op")
  | ["x25519b", k] =>
    match unhexN? 32 k with
    | some k => ((), hex (x25519Base k))
    | none => ((), "bad-op")
  | ["ell.sbm", priv, tweak] =>
    match unhexN? 32 priv, tweak.toNat? with
    | some priv, some t =>
      if t ≥ 256 then ((), "bad-op") else
      match scalarBaseMultDirty priv (UInt8.ofNat t) with
      | some (pub, repr) => ((), hex pub ++ " " ++ hex repr)
      | none => ((), "none")
    | _, _ => ((), "bad-op")
  | ["ell.r2p", r] =>
    match unhexN? 32 r with
    | some r => ((), hex (representativeToPublic r))
    | none => ((), "bad-op")
  | ["ell.spec", r] =>
    match unhexN? 32 r with
    | some r => ((), hex (Ell2.specRepresentativeToPublic r))
    | none => ((), "bad-op")
  | ["ell.coset", pub] =>
    match unhexN? 32 pub with
    | some pub => ((), Ell2.cosetClassU (F25519.ofBytes pub))
    | none => ((), "bad-op")
  | ["ell.cosetr", r] =>
    match unhexN? 32 r with
    | some r => ((), cosetReply (Ell2.representativeToEdwards r))
    | none => ((), "bad-op")
  | ["ell.cosetp", priv] =>
    match unhexN? 32 priv with
    | some priv =>
      match Ell2.dirtyPoint priv with
      | some P => ((), cosetReply P)
      | none => ((), "panic")
    | none => ((), "bad-op")
  | ["ell.lop", c] =>
    match c.toNat? with
    | some c =>
      if c ≥ 256 then ((), "bad-op") else
      let (x, y) := Ell2.lowOrderPoint (UInt8.ofNat c)
      ((), hex (F25519.toBytes x) ++ " " ++ hex (F25519.toBytes y) ++ " " ++
        boolStr (Ed.isOnCurve ⟨x, y, 1, F25519.mul x y⟩))
    | none => ((), "bad-op")
  | ["ntor.newkeypair", ell, tape] =>
    match unhex? tape with
    | some tape =>
      if ell ≠ "0" ∧ ell ≠ "1" then ((), "bad-op") else
      match O4.Ntor.newKeypair (ell == "1") tape with
      | some k => ((), hex k.priv ++ " " ++ hex k.pub ++ " " ++ hex (k.repr.getD []) ++ " " ++ toString k.consumed)
      | none => ((), "exhausted")
    | none => ((), "bad-op")
  | ["udh.gen", priv] =>
    match unhex? priv with
    | some priv =>
      match UniformDH.generateKey priv with
      | some k => ((), hex k.pubBytes)
      | none => ((), "err")
    | none => ((), "bad-op")
  | ["udh.shared", priv, peer] =>
    match unhex? priv, unhex? peer with
    | some priv, some peer =>
      match UniformDH.sharedSecret priv peer with
      | some s => ((), hex s)
      | none => ((), "err")
    | _, _ => ((), "bad-op")
  | ["modexp", b, e, m] =>
    match unhex? b, unhex? e, unhex? m with
    | some b, some e, some m =>
      let mm := Bytes.toNatBE m
      if mm = 0 then ((), "bad-op") else
      ((), natHex (modExp (Bytes.toNatBE b) (Bytes.toNatBE e) mm))
    | _, _, _ => ((), "bad-op")
  | _ => ((), "bad-op")

def run : IO Unit := lineLoop step ()

end Driver.Prim2
