import Driver.Common
import O4.Model.Socks5
/-!
driver module `socks` (C17)

* `run <eof 0|1> <chunkhex>…`   → `<outcome> w=<hex of all bytes written>`  (model of `Handshake`)
* `spec <eof 0|1> <streamhex>`  → `<outcome> w=<hex> fp=<flush offsets, comma separated>`
* `args <strhex>`               → `ok <args>` | `err`          (model of `parseClientParameters`)
* `enc <khex>=<vhex>;…`         → `<strhex> <userhex> <passhex>` (the encoder of the theorems)
* `reply <code>`                → `<hex>`                      (bytes of `Reply(code)`)
* `target <atyp> <addrhex> <port>` → `<hex>`                  (rendering of `Request.Target`)

`<outcome>` = `req <targethex> <args>` | `fail eof` | `fail proto` | `blocked` | `panic`;
`<args>` = `khex=vhex,vhex;khex=…` sorted by key (`-` for the empty map / empty strings).
-/
namespace Driver.Socks
open O4 O4.Socks5

def bytesLt : Bytes → Bytes → Bool
  | [], [] => false
  | [], _ :: _ => true
  | _ :: _, [] => false
  | a :: as, b :: bs => if a < b then true else if b < a then false else bytesLt as bs

def showArgs (a : Args) : String :=
  if a.isEmpty then "-" else
  let sorted := a.mergeSort (fun x y => !bytesLt y.1 x.1)
  ";".intercalate (sorted.map fun kv => hex kv.1 ++ "=" ++ ",".intercalate (kv.2.map hex))

def showOutcome : Outcome → String
  | .request t a => "req " ++ hex t ++ " " ++ showArgs a
  | .failed .eof => "fail eof"
  | .failed .proto => "fail proto"
  | .blocked => "blocked"
  | .panic => "panic"

def showResult (r : Result) : String :=
  showOutcome r.outcome ++ " w=" ++ hex r.writes.flatten

def parseBool : String → Option Bool
  | "0" => some false
  | "1" => some true
  | _ => none

def parseHexList (ws : List String) : Option (List Bytes) :=
  ws.foldr (fun w acc => match unhex? w, acc with
    | some b, some l => some (b :: l)
    | _, _ => none) (some [])

def parsePairList (s : String) : Option (List (Bytes × Bytes)) :=
  if s == "-" then some [] else
  (s.splitOn ";").foldr (fun p acc => match p.splitOn "=", acc with
    | [k, v], some l => (match unhex? k, unhex? v with
      | some kb, some vb => some ((kb, vb) :: l)
      | _, _ => none)
    | _, _ => none) (some [])

def step (_ : Unit) : List String → Unit × String
  | "run" :: e :: chunks =>
    match parseBool e, parseHexList chunks with
    | some eof, some cs => ((), showResult (O4.Socks5.run cs eof))
    | _, _ => ((), "bad-op")
  | ["spec", e, s] =>
    match parseBool e, unhex? s with
    | some eof, some bs =>
      let fp := flushOffsets bs eof
      ((), showResult (specRun bs eof) ++ " fp=" ++ (if fp.isEmpty then "-" else ",".intercalate (fp.map toString)))
    | _, _ => ((), "bad-op")
  | ["args", s] =>
    match unhex? s with
    | some bs => (match parseClientParameters bs with
      | some a => ((), "ok " ++ showArgs a)
      | none => ((), "err"))
    | none => ((), "bad-op")
  | ["enc", s] =>
    match parsePairList s with
    | some l =>
      let str := encode l
      let up := splitUserPass str
      ((), hex str ++ " " ++ hex up.1 ++ " " ++ hex up.2)
    | none => ((), "bad-op")
  | ["reply", c] =>
    match c.toNat? with
    | some n => if n < 256 then ((), hex (replyBytes (UInt8.ofNat n))) else ((), "bad-op")
    | none => ((), "bad-op")
  | ["target", atyp, addr, port] =>
    match atyp.toNat?, unhex? addr, port.toNat? with
    | some 1, some a, some p =>
      if a.length = 4 ∧ p < 65536 then
        ((), hex (joinTarget (ipv4String (a.getD 0 0) (a.getD 1 0) (a.getD 2 0) (a.getD 3 0)) p))
      else ((), "bad-op")
    | some 3, some a, some p =>
      if 0 < a.length ∧ a.length < 256 ∧ p < 65536 then ((), hex (joinTarget a p)) else ((), "bad-op")
    | some 4, some a, some p =>
      if a.length = 16 ∧ p < 65536 then ((), hex (joinTarget ([LBR] ++ ipString16 a ++ [RBR]) p))
      else ((), "bad-op")
    | _, _, _ => ((), "bad-op")
  | _ => ((), "bad-op")

def run : IO Unit := lineLoop step ()

end Driver.Socks
