import Driver.Common
import O4.Model.Obfs4Ref
import O4.Generated.Consts.Replayfilter
/-!
driver module `o4ref` — the Lean reference obfs4 CLIENT and SERVER (C06, C02; C03/C04 use the
client to craft handshakes).  Named sessions; randomness and time are explicit inputs.
All byte strings hex (`-` = empty).

* `cli.new <S> <nodeid20> <idpub32> <tape> <hour>` → `ok <blob> <tape bytes used> <padLen>`
  (`ParseArgs` + `Dial` up to the write of the client handshake; tape = key pair attempts (32 each)
  ‖ 24-byte provisional length seed ‖ `IntRange` draws (8 each) ‖ padding) | `fail tape`
* `cli.feed <S> <chunk>` → `need` | `fail <class>` | `ok <surplus len>`
  (one iteration of the client's read loop: append, re-parse the whole buffer; on `ok` the link
  keys are installed and the surplus is left in the receive buffer — `dec <S> -` decodes it)
* `fac.new <F>` → `ok` (a server factory's replay filter: ttl = replayTTL, cap = maxFilterSize)
* `srv.new <S> <nodeid20> <idpriv32> <lenseed24> <tape> [<F>]` → `ok <tape bytes used> <idpub> <padLen>`
  (`WrapConn` up to the first `Read`: key pair attempts ‖ `IntRange` draws; the rest of the tape
  is the response padding, drawn on success)
* `srv.feed <S> <chunk> <hour> <nowns>` → `need` | `fail <class>` | `ok <response ‖ seed frame> <tape bytes used in total> <response len>`
* `enc <S> <pkt type> <payload> <padLen>` → `ok <frame>` | `fail <class>`
* `dec <S> <chunk>` → `ok <n> <pkt>…` | `fail <class> <n> <pkt>…` with `<pkt>` =
  `<type>:<payload>:<padLen>:<z|n>` (`z` = padding all zero)
* `keys <S>` → `ok <enc key 72> <dec key 72>`; `drop <S>` → `ok`; `cli.clone <S> <S2>` → `ok`
* `cli.newkey <S> <nodeid> <idpub> <xpriv> <xpub> <xrepr> <hour>` → `ok` (client with an explicit session key);
  `link.swap <S> <S2>` → `ok` (S2 = the peer's link of the established session S: key blocks exchanged)
* `forge.ntor <nodeid> <B named in the transcript> <impostor's identity private key> <X'> <tape>` →
  `ok <Y'> <AUTH> <KEY_SEED> <tape used>`: what a man in the middle without the bridge's private
  key can compute (own ephemeral key from the tape, DH with its own identity key)
* `forge.blob <nodeid> <idpub> <Y'> <AUTH> <pad> <hour>` → `ok <Y'‖AUTH‖pad‖M_S‖MAC_S>`: valid mark
  and MAC from public information only

classes: `invalid` `mac` `ntor` `auth` `replay` (handshake); `tag` `wrapped` `pktlen` `paylen`
(data); `tape` (tape exhausted); `toobig` `framelen` (encoder); `dead`, `state` (op not valid now).
-/
namespace Driver.O4Ref
open O4 O4.Ref O4.Handshake

structure Sess where
  cli : Option Handshake.Client := none
  srv : Option ServerStart := none
  lenSeed : Bytes := []
  fac : String := ""
  buf : Bytes := []
  link : Option Link := none
  tapeLen : Nat := 0
  dead : Bool := false

structure St where
  sess : List (String × Sess) := []
  facs : List (String × RF.Filter) := []

def St.get (st : St) (n : String) : Option Sess := (st.sess.find? (·.1 == n)).map (·.2)
def St.put (st : St) (n : String) (s : Sess) : St :=
  { st with sess := (n, s) :: st.sess.filter (·.1 != n) }
def St.getFac (st : St) (n : String) : RF.Filter :=
  match st.facs.find? (·.1 == n) with
  | some (_, f) => f
  | none => RF.Filter.new Consts.Obfs4.replayTTL Consts.Replayfilter.maxFilterSize
def St.putFac (st : St) (n : String) (f : RF.Filter) : St :=
  { st with facs := (n, f) :: st.facs.filter (·.1 != n) }

def unhexN? (n : Nat) (s : String) : Option Bytes :=
  match unhex? s with
  | some b => if b.length = n then some b else none
  | none => none

def hsClass : HsErr → String
  | .markNotFoundYet => "need"
  | .invalidHandshake => "invalid"
  | .invalidMac => "mac"
  | .ntorFailed => "ntor"
  | .invalidAuth => "auth"
  | .replayed => "replay"

def pktStr (pkt : Bytes) : Option String :=
  match splitPacket pkt with
  | none => none
  | some (ty, payload, pad) =>
    some (toString ty ++ ":" ++ hex payload ++ ":" ++ toString pad.length ++ ":" ++
      (if pad.all (· == 0) then "z" else "n"))

/-- render decoded frame plaintexts up to the first malformed packet -/
def renderPkts : List Bytes → List String → List String × Option String
  | [], acc => (acc.reverse, none)
  | p :: ps, acc =>
    match pktStr p with
    | some s => renderPkts ps (s :: acc)
    | none => (acc.reverse, some (if p.length < Consts.Obfs4.packetOverhead then "pktlen" else "paylen"))

def step (st : St) : List String → St × String
  | ["cli.new", s, nodeid, idpub, tape, hour] =>
    match unhexN? Consts.Ntor.nodeIDLength nodeid, unhexN? Consts.Ntor.publicKeyLength idpub,
          unhex? tape, hour.toInt? with
    | some nid, some pk, some t, some h =>
      match clientStart nid pk h t with
      | none => (st, "fail tape")
      | some cs =>
        (st.put s { cli := some cs.hs, lenSeed := cs.lenSeed, tapeLen := t.length },
         "ok " ++ hex cs.blob ++ " " ++ toString (t.length - cs.rest.length) ++ " " ++ toString cs.padLen)
    | _, _, _, _ => (st, "bad-op")
  | ["cli.feed", s, chunk] =>
    match st.get s, unhex? chunk with
    | some se, some ch =>
      if se.dead then (st, "fail dead") else
      match se.cli, se.link with
      | some c, none =>
        let buf := se.buf ++ ch
        match clientFeed c buf with
        | (c', .error .markNotFoundYet) => (st.put s { se with cli := some c', buf := buf }, "need")
        | (c', .error e) => (st.put s { se with cli := some c', buf := buf, dead := true }, "fail " ++ hsClass e)
        | (c', .ok (keys, surplus)) =>
          (st.put s { se with cli := some c', buf := [], link := some { keys := keys, rxBuf := surplus } },
           "ok " ++ toString surplus.length)
      | _, _ => (st, "fail state")
    | _, _ => (st, "bad-op")
  | ["fac.new", f] =>
    (st.putFac f (RF.Filter.new Consts.Obfs4.replayTTL Consts.Replayfilter.maxFilterSize), "ok")
  | "srv.new" :: s :: nodeid :: idpriv :: lenseed :: tape :: optF =>
    match unhexN? Consts.Ntor.nodeIDLength nodeid, unhexN? Consts.Ntor.privateKeyLength idpriv,
          unhexN? Drbg.seedLength lenseed, unhex? tape with
    | some nid, some sk, some ls, some t =>
      if optF.length > 1 then (st, "bad-op") else
      match serverStart nid sk t with
      | none => (st, "fail tape")
      | some ss =>
        (st.put s { srv := some ss, lenSeed := ls, tapeLen := t.length, fac := optF.headD ("#" ++ s) },
         "ok " ++ toString (t.length - ss.rest.length) ++ " " ++ hex ss.hs.idPub ++ " " ++ toString ss.padLen)
    | _, _, _, _ => (st, "bad-op")
  | ["srv.feed", s, chunk, hour, nowns] =>
    match st.get s, unhex? chunk, hour.toInt?, nowns.toInt? with
    | some se, some ch, some h, some now =>
      if se.dead then (st, "fail dead") else
      match se.srv, se.link with
      | some ss, none =>
        let buf := se.buf ++ ch
        let (hs', f', res) := parseClientHandshake Prims.real ss.hs (st.getFac se.fac) h now buf
        let st := st.putFac se.fac f'
        match res with
        | .err .markNotFoundYet => (st.put s { se with srv := some { ss with hs := hs' }, buf := buf }, "need")
        | .err e => (st.put s { se with srv := some { ss with hs := hs' }, buf := buf, dead := true }, "fail " ++ hsClass e)
        | .ok keySeed =>
          match serverFinish hs' keySeed se.lenSeed ss.padLen ss.rest with
          | none => (st.put s { se with dead := true }, "fail tape")
          | some d =>
            (st.put s { se with srv := some { ss with hs := hs' }, buf := [],
                                link := some { keys := d.keys, encK := 1 } },
             "ok " ++ hex (d.response ++ d.seedFrame) ++ " " ++ toString (se.tapeLen - d.rest.length)
               ++ " " ++ toString d.response.length)
      | _, _ => (st, "fail state")
    | _, _, _, _ => (st, "bad-op")
  | ["enc", s, ty, payload, padLen] =>
    match st.get s, ty.toNat?, unhex? payload, padLen.toNat? with
    | some se, some ty, some pl, some pad =>
      if ty ≥ 256 then (st, "bad-op") else
      match se.link with
      | none => (st, "fail state")
      | some l =>
        match l.send ty pl pad with
        | .ok (f, l') => (st.put s { se with link := some l' }, "ok " ++ hex f)
        | .error .packetTooBig => (st, "fail toobig")
        | .error (.frame .invalidPayloadLength) => (st, "fail framelen")
        | .error (.frame .nonceWrapped) => (st, "fail wrapped")
    | _, _, _, _ => (st, "bad-op")
  | ["dec", s, chunk] =>
    match st.get s, unhex? chunk with
    | some se, some ch =>
      match se.link with
      | none => (st, "fail state")
      | some l =>
        if l.dead then (st, "fail dead 0") else
        let (l', pkts, err) := l.recv ch
        let (strs, perr) := renderPkts pkts []
        let body := toString strs.length ++ (if strs.isEmpty then "" else " " ++ " ".intercalate strs)
        match perr, err with
        | some e, _ => (st.put s { se with link := some { l' with dead := true } }, "fail " ++ e ++ " " ++ body)
        | none, some .tagMismatch => (st.put s { se with link := some l' }, "fail tag " ++ body)
        | none, some .nonceWrapped => (st.put s { se with link := some l' }, "fail wrapped " ++ body)
        | none, none => (st.put s { se with link := some l' }, "ok " ++ body)
    | _, _ => (st, "bad-op")
  | ["cli.newkey", s, nodeid, idpub, xpriv, xpub, xrepr, hour] =>
    -- a client whose session key is given explicitly (recorded from a real endpoint), nothing sent yet
    match unhexN? Consts.Ntor.nodeIDLength nodeid, unhexN? Consts.Ntor.publicKeyLength idpub,
          unhexN? Consts.Ntor.privateKeyLength xpriv, unhexN? Consts.Ntor.publicKeyLength xpub,
          unhexN? Consts.Ntor.representativeLength xrepr, hour.toInt? with
    | some nid, some pk, some xs, some xp, some xr, some h =>
      (st.put s { cli := some { xPriv := xs, xPub := xp, xRepr := xr, idPub := pk, nodeID := nid, hour := h, cache := none } },
       "ok")
    | _, _, _, _, _, _ => (st, "bad-op")
  | ["link.swap", s, s2] =>
    -- the peer's view of an established session: encoder and decoder key blocks exchanged, fresh counters
    match st.get s with
    | some { link := some l, .. } => (st.put s2 { link := some { keys := ⟨l.keys.dec, l.keys.enc⟩ } }, "ok")
    | some _ => (st, "fail state")
    | none => (st, "bad-op")
  | ["cli.clone", s, s2] =>
    match st.get s with
    | some se => (st.put s2 se, "ok")
    | none => (st, "bad-op")
  | ["forge.ntor", nodeid, btr, bpriv, xrepr, tape] =>
    match unhexN? Consts.Ntor.nodeIDLength nodeid, unhexN? Consts.Ntor.publicKeyLength btr,
          unhexN? Consts.Ntor.privateKeyLength bpriv, unhexN? Consts.Ntor.representativeLength xrepr, unhex? tape with
    | some nid, some bt, some bp, some xr, some t =>
      match forgeNtor nid bt bp xr t with
      | none => (st, "fail tape")
      | some f => (st, "ok " ++ hex f.yRepr ++ " " ++ hex f.auth ++ " " ++ hex f.keySeed ++ " " ++
          toString (t.length - f.rest.length))
    | _, _, _, _, _ => (st, "bad-op")
  | ["forge.blob", nodeid, idpub, yrepr, auth, pad, hour] =>
    match unhexN? Consts.Ntor.nodeIDLength nodeid, unhexN? Consts.Ntor.publicKeyLength idpub,
          unhexN? Consts.Ntor.representativeLength yrepr, unhexN? Consts.Ntor.authLength auth, unhex? pad, hour.toInt? with
    | some nid, some pk, some yr, some au, some pd, some h => (st, "ok " ++ hex (forgeBlob nid pk yr au pd h))
    | _, _, _, _, _, _ => (st, "bad-op")
  | ["keys", s] =>
    match st.get s with
    | some { link := some l, .. } => (st, "ok " ++ hex l.keys.enc ++ " " ++ hex l.keys.dec)
    | some _ => (st, "fail state")
    | none => (st, "bad-op")
  | ["drop", s] => ({ st with sess := st.sess.filter (·.1 != s) }, "ok")
  | _ => (st, "bad-op")

def run : IO Unit := lineLoop step {}

end Driver.O4Ref
