import Driver.Common
import O4.Model.Obfs4Link
/-!
driver module `o4data`: the obfs4 data-phase model (`O4.Obfs4.read`, `processBuffer`,
`clientStart`, `encodeFrame`) instantiated with the real link crypto (`linkCrypto`: XSalsa20-
Poly1305 secretbox + SipHash-DRBG length masks).  Named sessions, one per direction endpoint.

  new <S> <key-72-bytes-hex> <isServer 0|1>      → ok            (receiver + encoder state of one direction key)
  surplus <S> <hex> <fixed 0|1>                  → ok | err <class>   (client only, before anything else:
                                                    bytes that followed the handshake response in the handshake reads;
                                                    fixed=1: decoded at once (F1 repair), an error fails the handshake)
  net <S> <chunkhex>                             → ok            (queue one result `n, nil` of the underlying Read)
  nets <S> <hex> <sizes>                         → ok            (queue several: hex cut into chunks; sizes = comma list of
                                                    `n` or `nxk` (k chunks of n bytes); must add up to the length)
  fail <S> <cls>                                 → ok            (queue one result `0, err`; cls = eof | timeout | other)
  failc <S> <chunkhex> <cls>                     → ok            (queue one result `n, err`: bytes TOGETHER with the error)
  read <S> <n>                                   → data <hex> | blocked | err <class> <hex>
  drain <S> <n>                                  → blocked <hex> [inv] | err <class> <hex> [inv]
        (Read(n) repeated until it blocks or reports an error; hex = everything delivered; `inv` =
         the decoder is waiting for / has failed a frame whose length field was out of range, where
         the real code uses a random replacement length)
  enc <S> <pkthex>                               → ok <framehex> | err <class>   (Encoder.Encode of the next frame)
  state <S>                                      → <k> <pendingLen|-> <inv 0|1> <rxBuf bytes> <decoded bytes> <seeds> <queued events>
-/
namespace Driver.O4Data
open O4 O4.Obfs4 O4.Framing

structure Sess where
  name : String
  key : Bytes
  srv : Bool
  masks : Array Nat
  drbg : Drbg.HashDrbg
  rx : Rx
  evs : List NetEv
  encK : Nat
  fresh : Bool

abbrev St := List Sess

def find (st : St) (n : String) : Option Sess := st.find? (·.name == n)
def put (st : St) (s : Sess) : St := s :: st.filter (·.name != s.name)

def rndFixed : Nat → Nat := fun _ => Consts.Framing.maxFrameLength

def Sess.crypto (s : Sess) : Crypto := linkCrypto s.key s.masks rndFixed

def queuedBytes (evs : List NetEv) : Nat := evs.foldl (fun a e => a + e.chunk.length) 0

/-- make sure the mask table covers every frame the buffered + queued bytes can contain
    (a frame is at least 18 bytes long) and the next `extra` encoder frames -/
def Sess.ensure (s : Sess) (extra : Nat) : Sess :=
  let need := max (s.rx.dec.k + (s.rx.rxBuf.length + queuedBytes s.evs) / 18 + 2) (s.encK + extra + 1)
  if need ≤ s.masks.size then s else
    let (t, d) := extendMasks (need - s.masks.size) (s.masks, s.drbg)
    { s with masks := t, drbg := d }

def errClass : RxErr → String
  | .frame .tagMismatch => "tag"
  | .frame .nonceWrapped => "nonce"
  | .invalidPacketLength _ => "pktlen"
  | .invalidPayloadLength _ => "paylen"
  | .net cls => "net:" ++ cls

def invFlag (rx : Rx) : String :=
  match rx.dec.pending with
  | some (_, true) => " inv"
  | _ => ""

/-- `Read(n)` until blocked or error -/
def drainLoop (c : Crypto) (srv : Bool) (n : Nat) : Nat → Rx → List NetEv → Bytes → Rx × List NetEv × Bytes × Option RxErr × Bool
  | 0, rx, evs, acc => (rx, evs, acc, none, false)
  | fuel + 1, rx, evs, acc =>
    match read c srv n rx evs with
    | .blocked rx' => (rx', [], acc, none, true)
    | .ret rx' bytes (some e) rest => (rx', rest, acc ++ bytes, some e, false)
    | .ret rx' bytes none rest => drainLoop c srv n fuel rx' rest (acc ++ bytes)

/-- parse `n` / `nxk` tokens into a list of chunk sizes -/
def parseSizes (s : String) : Option (List Nat) :=
  (s.splitOn ",").foldr (fun tok acc =>
    match acc with
    | none => none
    | some l =>
      match tok.splitOn "x" with
      | [n] => (n.toNat?).map (· :: l)
      | [n, k] => match n.toNat?, k.toNat? with
        | some n, some k => some (List.replicate k n ++ l)
        | _, _ => none
      | _ => none) (some [])

def cutChunks : List Nat → Bytes → List NetEv
  | [], _ => []
  | n :: ns, b => .data (b.take n) :: cutChunks ns (b.drop n)

def step (st : St) : List String → St × String
  | ["new", name, keyHex, srv] =>
    match unhex? keyHex with
    | some key =>
      if key.length ≠ Consts.Framing.KeyLength ∨ (srv ≠ "0" ∧ srv ≠ "1") then (st, "bad-op") else
      (put st ⟨name, key, srv == "1", #[], linkDrbg key, Rx.init, [], 0, true⟩, "ok")
    | none => (st, "bad-op")
  | ["surplus", name, hex, fixed] =>
    match find st name, unhex? hex with
    | some s, some b =>
      if s.srv ∨ !s.fresh ∨ (fixed ≠ "0" ∧ fixed ≠ "1") then (st, "bad-op") else
      let s := { s with rx := { Rx.init with rxBuf := b } }.ensure 0
      let (rx, e) := clientStart s.crypto (fixed == "1") b
      if rx.dec.k ≥ s.masks.size then (st, "model-error mask-table-exhausted") else
      (put st { s with rx := rx, fresh := false },
        match e with | none => "ok" | some e => "err " ++ errClass e)
    | _, _ => (st, "bad-op")
  | ["net", name, hex] =>
    match find st name, unhex? hex with
    | some s, some b => (put st { s with evs := s.evs ++ [.data b], fresh := false }, "ok")
    | _, _ => (st, "bad-op")
  | ["nets", name, hex, sizes] =>
    match find st name, unhex? hex, parseSizes sizes with
    | some s, some b, some ns =>
      if ns.foldl (· + ·) 0 ≠ b.length ∨ ns.any (· == 0) then (st, "bad-op") else
      (put st { s with evs := s.evs ++ cutChunks ns b, fresh := false }, "ok")
    | _, _, _ => (st, "bad-op")
  | ["fail", name, cls] =>
    match find st name with
    | some s => (put st { s with evs := s.evs ++ [.fail [] cls], fresh := false }, "ok")
    | none => (st, "bad-op")
  | ["failc", name, hex, cls] =>
    match find st name, unhex? hex with
    | some s, some b => (put st { s with evs := s.evs ++ [.fail b cls], fresh := false }, "ok")
    | _, _ => (st, "bad-op")
  | ["read", name, n] =>
    match find st name, n.toNat? with
    | some s, some n =>
      let s := s.ensure 0
      match read s.crypto s.srv n s.rx s.evs with
      | .blocked rx =>
        if rx.dec.k ≥ s.masks.size then (st, "model-error mask-table-exhausted") else
        (put st { s with rx := rx, evs := [], fresh := false }, "blocked")
      | .ret rx bytes err rest =>
        if rx.dec.k ≥ s.masks.size then (st, "model-error mask-table-exhausted") else
        (put st { s with rx := rx, evs := rest, fresh := false },
          match err with
          | none => "data " ++ hex bytes
          | some e => "err " ++ errClass e ++ " " ++ hex bytes)
    | _, _ => (st, "bad-op")
  | ["drain", name, n] =>
    match find st name, n.toNat? with
    | some s, some n =>
      if n = 0 then (st, "bad-op") else
      let s := s.ensure 0
      let fuel := s.rx.decoded.length + s.rx.rxBuf.length + queuedBytes s.evs + s.evs.length + 2
      let (rx, rest, acc, err, blocked) := drainLoop s.crypto s.srv n fuel s.rx s.evs []
      if rx.dec.k ≥ s.masks.size then (st, "model-error mask-table-exhausted") else
      let st' := put st { s with rx := rx, evs := rest, fresh := false }
      match err, blocked with
      | some e, _ => (st', "err " ++ errClass e ++ " " ++ hex acc ++ invFlag rx)
      | none, true => (st', "blocked " ++ hex acc ++ invFlag rx)
      | none, false => (st, "model-error drain-fuel-exhausted")
    | _, _ => (st, "bad-op")
  | ["enc", name, hex] =>
    match find st name, unhex? hex with
    | some s, some pkt =>
      let s := s.ensure 1
      match encodeFrame s.crypto s.encK pkt with
      | .ok f => (put st { s with encK := s.encK + 1 }, "ok " ++ Driver.hex f)
      | .error .invalidPayloadLength => (st, "err paylen")
      | .error .nonceWrapped => (st, "err nonce")
    | _, _ => (st, "bad-op")
  | ["state", name] =>
    match find st name with
    | some s =>
      let (pl, inv) := match s.rx.dec.pending with
        | some (l, i) => (toString l, boolStr i)
        | none => ("-", "0")
      (st, s!"{s.rx.dec.k} {pl} {inv} {s.rx.rxBuf.length} {s.rx.decoded.length} {s.rx.seeds.length} {s.evs.length}")
    | none => (st, "bad-op")
  | ["drop", name] => (st.filter (·.name != name), "ok")
  | _ => (st, "bad-op")

def run : IO Unit := lineLoop step []

end Driver.O4Data
