import Driver.Common
import O4.Model.ReplayFilter
import O4.Generated.Consts.Replayfilter
/-! driver module `rf`: `new <ttl> [cap]`, `tas <now> <digest>` → `0|1`, `len` → n -/
namespace Driver.RF
open O4.RF

def step (f : Filter) : List String → Filter × String
  | ["new", ttl] =>
    match ttl.toInt? with
    | some t => (Filter.new t O4.Consts.Replayfilter.maxFilterSize, "ok")
    | none => (f, "bad-op")
  | ["new", ttl, cap] =>
    match ttl.toInt?, cap.toNat? with
    | some t, some c => (Filter.new t c, "ok")
    | _, _ => (f, "bad-op")
  | ["tas", now, d] =>
    match now.toInt?, d.toNat? with
    | some n, some v =>
      let (g, hit) := f.testAndSet n v
      (g, boolStr hit)
    | _, _ => (f, "bad-op")
  | ["len"] => (f, toString f.fifo.length)
  | "hist" :: ttl :: cap :: ops =>
    -- whole history on a fresh filter: ops are `now:digest`; reply `<answers> <final len>`
    match ttl.toInt?, cap.toNat? with
    | some t, some c =>
      let parsed := ops.map (fun o => match o.splitOn ":" with
        | [a, b] => (match a.toInt?, b.toNat? with
          | some x, some y => some (x, y)
          | _, _ => none)
        | _ => none)
      if parsed.any Option.isNone then (f, "bad-op") else
      let h := parsed.filterMap id
      let (g, hits) := (Filter.new t (if c == 0 then O4.Consts.Replayfilter.maxFilterSize else c)).run h
      (g, String.ofList (hits.map (fun b => if b then '1' else '0')) ++ " " ++ toString g.fifo.length)
    | _, _ => (f, "bad-op")
  | _ => (f, "bad-op")

def run : IO Unit := lineLoop step (Filter.new 0 0)

end Driver.RF
