import Driver.Common
import O4.Model.Relay
import O4.Model.TermMon
/-!
driver module `relay` (C19)

* `relay.check <item>…` — validates one recorded run of the real `copyLoop` against the
  interleaving model.  Items, in the order the harness issued / observed them:
  `c:feed:A:<hex>` `c:fin:A:eof|err` `c:rd:ab:<n>:<0|1>` `c:wr:ab:ok|short|err:<k>` `c:cl:ab`
  (script commands = model choices; after a copier step the model takes its unobservable steps —
  errChan send, wg.Done, the caller's return — eagerly, as the real goroutines do) and
  `e:<event>` (an event the scripted conns logged; must be the next event the model predicts).
  Reply `ok <summary of the final model state>` or `reject <index> <reason>`.
* `term.wait <flag> <n> <ev>…` / `term.main <ev>…` with events `start finish int term` —
  the model of the code under test (`wait codeFixed`).
-/
namespace Driver.Relay
open O4 O4.Relay

def sideStr : Side → String | .A => "A" | .B => "B"
def dirStr : Dir → String | .ab => "ab" | .ba => "ba"
def finStr : Fin → String | .eof => "eof" | .err => "err"
def errStr : Err → String
  | .ok => "nil" | .rerr c => "rerr" ++ sideStr c | .werr c => "werr" ++ sideStr c
  | .closed => "closed" | .short => "short"

def evStr : Relay.Ev → String
  | .readData d data fin =>
    s!"read:{dirStr d}:{sideStr d.src}:data:{hex data}:{match fin with | none => "ok" | some f => finStr f}"
  | .readEnd d f => s!"read:{dirStr d}:{sideStr d.src}:{finStr f}"
  | .readClosed d => s!"read:{dirStr d}:{sideStr d.src}:closed"
  | .write d buf n r =>
    let cls := match r with
      | none => "closed" | some .ok => "ok" | some (.short _) => "short" | some (.err _) => "err"
    s!"write:{dirStr d}:{sideStr d.dst}:{hex buf}:{n}:{cls}"
  | .close d c => s!"close:{dirStr d}:{sideStr c}"
  | .ret e => s!"ret:{errStr e}"

def side? : String → Option Side | "A" => some .A | "B" => some .B | _ => none
def dir? : String → Option Dir | "ab" => some .ab | "ba" => some .ba | _ => none

/-- the unobservable steps the goroutines take by themselves -/
def settle (s : State) : State :=
  let tau (s : State) (d : Dir) : State :=
    match (s.cop d).pc with
    | .snd => stepCop s d {}
    | .wgd => stepCop s d {}
    | _ => s
  step (tau (tau s .ab) .ba) .main

structure V where
  s : State := init
  pending : List String := []   -- events the model predicts, not yet matched (oldest first)
  idx : Nat := 0

def newEvents (old new : State) : List String :=
  ((new.log.take (new.log.length - old.log.length)).reverse).map evStr

/-- apply a copier command: the command must fit the copier's program counter -/
def copCmd (s : State) (d : Dir) (kind : String) (p : Param) : Except String State :=
  let pc := (s.cop d).pc
  let fits := match kind, pc with
    | "rd", .rd => true
    | "wr", .wr _ _ => true
    | "cl", .cl1 => true
    | "cl", .cl2 => true
    | _, _ => false
  if fits then .ok (settle (stepCop s d p))
  else .error s!"command {kind} {dirStr d} does not fit the model's program counter"

def applyItem (v : V) (item : String) : Except String V := do
  if v.pending ≠ [] ∧ !(item.startsWith "e:") then
    throw s!"model predicts {v.pending.head!} which was not observed"
  match item.splitOn ":" with
  | "e" :: rest =>
    let obs := ":".intercalate rest
    match v.pending with
    | [] => throw s!"observed {obs} but the model predicts no event here"
    | p :: ps => if p == obs then pure { v with pending := ps, idx := v.idx + 1 }
                 else throw s!"observed {obs} but the model predicts {p}"
  | ["c", "feed", c, h] =>
    match side? c, unhex? h with
    | some c, some b => pure { v with s := step v.s (.produce c b), idx := v.idx + 1 }
    | _, _ => throw "bad-op"
  | ["c", "fin", c, f] =>
    match side? c, f with
    | some c, "eof" => pure { v with s := step v.s (.finish c .eof), idx := v.idx + 1 }
    | some c, "err" => pure { v with s := step v.s (.finish c .err), idx := v.idx + 1 }
    | _, _ => throw "bad-op"
  | ["c", "rd", d, n, f] =>
    match dir? d, n.toNat? with
    | some d, some n =>
      let s' ← copCmd v.s d "rd" { n := n, withFin := f == "1" }
      pure { s := s', pending := newEvents v.s s', idx := v.idx + 1 }
    | _, _ => throw "bad-op"
  | ["c", "wr", d, r, k] =>
    match dir? d, k.toNat?, r with
    | some d, some k, r =>
      let w ← match r with
        | "ok" => pure WRes.ok
        | "short" => pure (WRes.short k)
        | "err" => pure (WRes.err k)
        | _ => throw "bad-op"
      let s' ← copCmd v.s d "wr" { w := w }
      pure { s := s', pending := newEvents v.s s', idx := v.idx + 1 }
    | _, _, _ => throw "bad-op"
  | ["c", "cl", d] =>
    match dir? d with
    | some d =>
      let s' ← copCmd v.s d "cl" {}
      pure { s := s', pending := newEvents v.s s', idx := v.idx + 1 }
    | none => throw "bad-op"
  | ["c", "hw", _] => throw "the script completed a CloseWrite: the model of copyLoop has no half-close"
  | ["c", "hr", _] => throw "the script completed a CloseRead: the model of copyLoop has no half-close"
  | _ => throw "bad-op"

def isPrefix (a b : Bytes) : Bool := a.length ≤ b.length && b.take a.length == a

def pcStr : Pc → String
  | .rd => "rd" | .wr b _ => s!"wr{b.length}" | .snd => "snd" | .cl1 => "cl1" | .cl2 => "cl2"
  | .wgd => "wgd" | .done => "done"

/-- the observable projections of the C19 invariants, evaluated on the final model state -/
def summary (s : State) : String :=
  let pfx := isPrefix (s.fwd .ab) (s.conn .A).produced && isPrefix (s.fwd .ba) (s.conn .B).produced
  let flush (d : Dir) : Bool :=
    match (s.cop d).pc with
    | .rd => true
    | .wr _ _ => true
    | _ => if (s.cop d).res == .ok || (s.cop d).res == .rerr d.src then
             s.fwd d == (s.conn d.src).produced else true
  let retOk := match s.ret with
    | none => true
    | some e => (s.conn .A).closed && (s.conn .B).closed && e != .closed && s.errs.head? == some e
  s!"fwdAB={hex (s.fwd .ab)} fwdBA={hex (s.fwd .ba)} closedA={boolStr (s.conn .A).closed} closedB={boolStr (s.conn .B).closed} ab={pcStr (s.cop .ab).pc} ba={pcStr (s.cop .ba).pc} ret={match s.ret with | none => "-" | some e => errStr e} inv={boolStr (pfx && flush .ab && flush .ba && retOk)}"

def check (items : List String) : String :=
  let rec go (v : V) : List String → String
    | [] =>
      if v.pending ≠ [] then s!"reject {v.idx} model predicts {v.pending.head!} which was not observed"
      else "ok " ++ summary v.s
    | it :: rest =>
      match applyItem v it with
      | .ok v' => go v' rest
      | .error "bad-op" => "bad-op"
      | .error e => s!"reject {v.idx} {e}"
  go { s := settle init } items

open O4.TermMon in
def termEv? : String → Option TermMon.Ev
  | "start" => some TermMon.Ev.start
  | "finish" => some TermMon.Ev.finish
  | "int" => some (.sig .int)
  | "term" => some (.sig .term)
  | _ => none

def sigStr : TermMon.Sig → String | .int => "int" | .term => "term"

def step (_ : Unit) : List String → Unit × String
  | "relay.check" :: items => ((), check items)
  | "term.wait" :: flag :: n :: evs =>
    match n.toInt?, evs.mapM termEv? with
    | some n, some evs =>
      if flag != "0" ∧ flag != "1" then ((), "bad-op") else
      match TermMon.wait TermMon.codeFixed (flag == "1") n evs with
      | .returned s k m => ((), s!"returned {sigStr s} {k} {m}")
      | .blocked m => ((), s!"blocked {m}")
    | _, _ => ((), "bad-op")
  | "term.main" :: evs =>
    match evs.mapM termEv? with
    | some evs =>
      match TermMon.mainSeq TermMon.codeFixed evs with
      | .exited s k m => ((), s!"exited {sigStr s} {k} {m}")
      | .blocked ph m => ((), s!"blocked {ph} {m}")
    | none => ((), "bad-op")
  | _ => ((), "bad-op")

def run : IO Unit := lineLoop step ()

end Driver.Relay
