import Driver.Common
import O4.Model.LogElide
/-!
driver module `log` (C20)

* `err <unsafe 0|1> <tree>`     → `<hex text>`   model of `ElideError` (the current, repaired code)
* `errprefix <unsafe 0|1> <tree>` → `<hex text>` model of `ElideError` before the repair of F6
* `text <tree>`                 → `<hex text>`   `err.Error()`
* `addr <unsafe 0|1> <hex>`     → `<hex text>`   model of `ElideAddr`

`<tree>` is the error value in prefix notation, strings in hex (`-` = empty), optional
addresses `~` for nil:
`addr <err> <addr>` | `dns <err> <name> <server>` | `inv <s> <ptr 0|1>` | `unk <s> <ptr 0|1>` |
`op <op> <net> <source|~> <addr|~> <tree>` | `url <op> <url> <tree>` | `sys <syscall> <tree>` |
`wrap <pre> <post> <tree>` | `errno <text>` | `other <gotype> <text>` | `plain <text>`
-/
namespace Driver.Log
open O4 O4.LogElide

def parseBool : String → Option Bool
  | "0" => some false
  | "1" => some true
  | _ => none

def parseOpt (s : String) : Option (Option Bytes) :=
  if s == "~" then some none else (unhex? s).map some

/-- prefix-notation parser; the fuel bounds the nesting depth by the number of tokens -/
def parseErr : Nat → List String → Option (Err × List String)
  | 0, _ => none
  | _ + 1, "addr" :: e :: a :: rest => do
    let e ← unhex? e; let a ← unhex? a
    pure (.addrError e a, rest)
  | _ + 1, "dns" :: e :: n :: s :: rest => do
    let e ← unhex? e; let n ← unhex? n; let s ← unhex? s
    pure (.dnsError e n s, rest)
  | _ + 1, "inv" :: s :: p :: rest => do
    let s ← unhex? s; let p ← parseBool p
    pure (.invalidAddrError s p, rest)
  | _ + 1, "unk" :: s :: p :: rest => do
    let s ← unhex? s; let p ← parseBool p
    pure (.unknownNetworkError s p, rest)
  | f + 1, "op" :: o :: n :: src :: a :: rest => do
    let o ← unhex? o; let n ← unhex? n; let src ← parseOpt src; let a ← parseOpt a
    let (i, rest') ← parseErr f rest
    pure (.opError o n src a i, rest')
  | f + 1, "url" :: o :: u :: rest => do
    let o ← unhex? o; let u ← unhex? u
    let (i, rest') ← parseErr f rest
    pure (.urlError o u i, rest')
  | f + 1, "sys" :: s :: rest => do
    let s ← unhex? s
    let (i, rest') ← parseErr f rest
    pure (.syscallError s i, rest')
  | f + 1, "wrap" :: a :: b :: rest => do
    let a ← unhex? a; let b ← unhex? b
    let (i, rest') ← parseErr f rest
    pure (.wrap a b i, rest')
  | _ + 1, "errno" :: t :: rest => do
    let t ← unhex? t
    pure (.errno t, rest)
  | _ + 1, "other" :: ty :: t :: rest => do
    let ty ← unhex? ty; let t ← unhex? t
    pure (.otherNet ty t, rest)
  | _ + 1, "plain" :: t :: rest => do
    let t ← unhex? t
    pure (.plain t, rest)
  | _, _ => none

def parseTree (ws : List String) : Option Err :=
  match parseErr (ws.length + 1) ws with
  | some (e, []) => some e
  | _ => none

def step (_ : Unit) : List String → Unit × String
  | "err" :: u :: tree =>
    match parseBool u, parseTree tree with
    | some u, some e => ((), hex (elideErrorFixed u e))
    | _, _ => ((), "bad-op")
  | "errprefix" :: u :: tree =>
    match parseBool u, parseTree tree with
    | some u, some e => ((), hex (elideErrorPreFix u e))
    | _, _ => ((), "bad-op")
  | "text" :: tree =>
    match parseTree tree with
    | some e => ((), hex e.error)
    | none => ((), "bad-op")
  | ["addr", u, a] =>
    match parseBool u, unhex? a with
    | some u, some a => ((), hex (elideAddr u a))
    | _, _ => ((), "bad-op")
  | _ => ((), "bad-op")

def run : IO Unit := lineLoop step ()

end Driver.Log
