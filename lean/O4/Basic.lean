def hello := "world"
