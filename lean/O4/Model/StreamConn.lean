import O4.Model.Bytes
/-!
# Stream-cipher connections over an in-memory network queue (core only; shared by obfs2 / obfs3)

* `xorAt ks off data`: XOR with the keystream positions `off, off+1, …` of an abstract keystream
  `ks : Nat → UInt8` (what `cipher.Stream.XORKeyStream` of a CTR stream that already produced `off`
  bytes does).
* `Stream`: the state of one Go `cipher.Stream` made by `cipher.NewCTR(aes.NewCipher(key), iv)`.
* `SXor`: the executable stream function `key iv off data ↦ data XOR keystream[off …]`
  (`O4.Crypto.aesCtrXor` in the drivers); `SXor.Law` says it *is* a keystream XOR.
* `Net`: the receive side of a `net.Conn` as the endpoint sees it — a queue of chunks; `Net.read max`
  is one `conn.Read(b)` with `len(b) = max` (returns at most one chunk, never coalesces, splits a
  chunk that does not fit), `Net.dropBytes` is what `io.ReadFull` removes.
-/
namespace O4.SC

/-- `Except` values with decidable components can be compared (for `decide`d examples) -/
instance instDecEqExcept {ε α : Type} [DecidableEq ε] [DecidableEq α] : DecidableEq (Except ε α)
  | .ok a, .ok b => if h : a = b then isTrue (h ▸ rfl) else isFalse (fun e => h (Except.ok.inj e))
  | .error a, .error b => if h : a = b then isTrue (h ▸ rfl) else isFalse (fun e => h (Except.error.inj e))
  | .ok _, .error _ => isFalse (fun e => by cases e)
  | .error _, .ok _ => isFalse (fun e => by cases e)

def xorAt (ks : Nat → UInt8) : Nat → Bytes → Bytes
  | _, [] => []
  | off, b :: r => (b ^^^ ks off) :: xorAt ks (off + 1) r

/-- one direction's `cipher.Stream` -/
structure Stream where
  key : Bytes
  iv : Bytes
  /-- keystream bytes already consumed -/
  off : Nat
deriving Repr, DecidableEq

abbrev SXor := Bytes → Bytes → Nat → Bytes → Bytes

/-- the stream function is the XOR with a position-indexed keystream determined by `(key, iv)` -/
def SXor.Law (X : SXor) (ks : Bytes → Bytes → Nat → UInt8) : Prop :=
  ∀ key iv off data, X key iv off data = xorAt (ks key iv) off data

/-- `XORKeyStream` on the next `|d|` bytes -/
def Stream.xor (X : SXor) (s : Stream) (d : Bytes) : Stream × Bytes :=
  ({ s with off := s.off + d.length }, X s.key s.iv s.off d)

abbrev Net := List Bytes

namespace Net

/-- a chunk arrives (`ScriptConn.Feed`; empty chunks are not queued) -/
def push (q : Net) (c : Bytes) : Net := if c.isEmpty then q else q ++ [c]

/-- one `conn.Read(b)`, `len(b) = max > 0`; `none` = would block -/
def read (max : Nat) : Net → Option (Bytes × Net)
  | [] => none
  | c :: q => if c.length ≤ max then some (c, q) else some (c.take max, c.drop max :: q)

/-- remove `n` bytes from the front, keeping the chunk boundaries of what remains -/
def dropBytes : Nat → Net → Net
  | 0, q => q
  | _ + 1, [] => []
  | n + 1, c :: q =>
    if c.length ≤ n + 1 then dropBytes (n + 1 - c.length) q else c.drop (n + 1) :: q

/-- bytes queued -/
def size (q : Net) : Nat := q.flatten.length

end Net
end O4.SC
