import O4.Model.Bytes
import O4.Generated.Consts.Obfs4
import O4.Generated.Consts.Framing
/-!
# Model of obfs4's traffic shaping (C09): `padBurst`, `makePacket`'s length arithmetic, `Write`
for the three IAT modes, seed adoption.  Core only.

Only lengths are modelled: `frameBuf` is its length plus the list of frame lengths appended to
it; `Conn.Write` calls are recorded with their size (and, in paranoid mode, the length sample
drawn for them).  The two length distributions are an abstract `Sampler` (any state type, any
functions): the theorems quantify over all samplers, the driver instantiates it with the
`probdist` model reading the recorded `crypto/rand` tape.

`Write` follows the Go loop structure statement by statement; the two `panic("BUG: …")` sites
and `makePacket`'s `panic` are explicit outcomes.  `fixed = false` is the code before the
`fix:` commit of defect F2 (a sampled length of 0 reaches the `iat length was 0` panic);
`fixed = true` is the current code (paranoid mode resamples on 0).
-/
namespace O4.Shaping

def mss : Nat := O4.Consts.Framing.maximumSegmentLength
def frameOverhead : Nat := O4.Consts.Framing.frameOverhead
def packetOverhead : Nat := O4.Consts.Obfs4.packetOverhead
def headerLength : Nat := O4.Consts.Obfs4.headerLength
def maxPacketPayloadLength : Nat := O4.Consts.Obfs4.maxPacketPayloadLength
def maxPacketPaddingLength : Nat := O4.Consts.Obfs4.maxPacketPaddingLength
def iatNone : Nat := O4.Consts.Obfs4.iatNone
def iatEnabled : Nat := O4.Consts.Obfs4.iatEnabled
def iatParanoid : Nat := O4.Consts.Obfs4.iatParanoid
def maxIATDelay : Nat := O4.Consts.Obfs4.maxIATDelay
def seedPacketPayloadLength : Nat := O4.Consts.Obfs4.seedPacketPayloadLength

inductive Panic where
  | chopZero                              -- "BUG: Write(), chopping length was 0"
  | iatZero                               -- "BUG: Write(), iat length was 0"
  | makePacket (dataLen padLen : Nat)     -- "BUG: makePacket() len(data) + padLen > maxPacketPayloadLength"
deriving DecidableEq, Repr

/-- `uint16(x)` -/
def u16 (x : Nat) : Nat := x % 65536

/-- `makePacket(w, type, data, padLen)`: the length of the frame written to `w`
    (`FrameOverhead + packetOverhead + len(data) + padLen`), or the BUG panic. -/
def makePacket (dataLen padLen : Nat) : Except Panic Nat :=
  if dataLen + padLen > maxPacketPayloadLength then .error (.makePacket dataLen padLen)
  else .ok (frameOverhead + (packetOverhead + dataLen + padLen))

/-- the padding `padBurst` decides to add -/
def padLen (L t : Nat) : Nat :=
  let tail := L % mss
  if t ≥ tail then t - tail else (mss - tail) + t

/-- `padBurst(burst, toPadTo)` on a buffer of length `L`: the frames appended -/
def padBurst (L t : Nat) : Except Panic (List Nat) :=
  let p := padLen L t
  if p > headerLength then do
    let f ← makePacket 0 (u16 (p - headerLength))
    pure [f]
  else if p > 0 then do
    let f1 ← makePacket 0 (u16 maxPacketPayloadLength)
    let f2 ← makePacket 0 (u16 p)
    pure [f1, f2]
  else pure []

/-- the chopping loop of `Write`: payload frames for `rem` bytes -/
def chop : (fuel rem : Nat) → Except Panic (List Nat)
  | _, 0 => .ok []
  | 0, _ + 1 => .ok []     -- not reached: `fuel = rem` suffices (`chop_fuel`)
  | f + 1, rem + 1 =>
    let rd := min (rem + 1) maxPacketPayloadLength
    if rd == 0 then .error .chopZero
    else do
      let fr ← makePacket rd 0
      let rest ← chop f (rem + 1 - rd)
      pure (fr :: rest)

/-- the two per-connection distributions, abstractly: `lenDist.Sample()`, `iatDist.Sample()`;
    `none` = the sample stream ended (a model artefact: real sampling never ends) -/
structure Sampler (σ : Type) where
  len : σ → Option (Nat × σ)
  iat : σ → Option (Nat × σ)

/-- one `Conn.Write`: its size and, in paranoid mode, the length sample drawn for it -/
structure Wr where
  size : Nat
  sample : Option Nat
deriving DecidableEq, Repr

inductive Status where
  | ok
  | panic (p : Panic)
  | starved            -- sample stream / fuel exhausted before the loop ended
deriving DecidableEq, Repr

structure Out (σ : Type) where
  status : Status
  frames : List Nat      -- lengths of all frames appended to frameBuf, in order
  writes : List Wr       -- the `Conn.Write` calls, in order
  delays : List Nat      -- the IAT samples drawn (×100 µs sleeps)
  s : σ

variable {σ : Type} (S : Sampler σ)

/-- `iatEnabled`: `iatWrLen = frameBuf.Read(iatFrame[:])` — MTU-sized writes -/
def enabledLoop : (fuel buf : Nat) → List Nat → List Wr → List Nat → σ → Out σ
  | 0, _, fr, ws, ds, s => ⟨.starved, fr, ws, ds, s⟩
  | f + 1, buf, fr, ws, ds, s =>
    if buf == 0 then ⟨.ok, fr, ws, ds, s⟩
    else
      let wr := min buf mss
      if wr == 0 then ⟨.panic .iatZero, fr, ws, ds, s⟩
      else match S.iat s with
        | none => ⟨.starved, fr, ws, ds, s⟩
        | some (d, s') => enabledLoop f (buf - wr) fr (ws ++ [⟨wr, none⟩]) (ds ++ [d]) s'

/-- what one iteration of the paranoid loop does once the length sample `t` is drawn -/
inductive Step where
  | resample                                        -- (post-fix) `targetLen == 0`: draw again
  | grow (buf' : Nat) (fs : List Nat)               -- padded with two frames, `continue`
  | emit (buf' : Nat) (fs : List Nat) (wr : Nat)    -- (padded with `fs` and) `Conn.Write` of `wr` bytes
  | panic (p : Panic)
deriving DecidableEq, Repr

/-- `iatWrLen = frameBuf.Read(iatFrame[:targetLen])`, then the `iatWrLen == 0` BUG check -/
def emitOf (buf : Nat) (fs : List Nat) (t : Nat) : Step :=
  let wr := min buf t
  if wr == 0 then .panic .iatZero else .emit (buf - wr) fs wr

/-- the body of `case iatParanoid:` for a buffer of `buf > 0` bytes and the sample `t` -/
def paranoidStep (fixed : Bool) (buf t : Nat) : Step :=
  if fixed && t == 0 then .resample
  else if buf < t then
    -- not enough data buffered for the target write: pad
    match padBurst buf t with
    | .error p => .panic p
    | .ok fs =>
      if buf + fs.sum != t then .grow (buf + fs.sum) fs   -- "padding came out to … more than one frame … resample"
      else emitOf (buf + fs.sum) fs t
  else emitOf buf [] t

/-- `iatParanoid`: sample a length for every write -/
def paranoidLoop (fixed : Bool) : (fuel buf : Nat) → List Nat → List Wr → List Nat → σ → Out σ
  | 0, _, fr, ws, ds, s => ⟨.starved, fr, ws, ds, s⟩
  | f + 1, buf, fr, ws, ds, s =>
    if buf == 0 then ⟨.ok, fr, ws, ds, s⟩
    else match S.len s with
      | none => ⟨.starved, fr, ws, ds, s⟩
      | some (t, s1) =>
        match paranoidStep fixed buf t with
        | .resample => paranoidLoop fixed f buf fr ws ds s1
        | .grow buf' fs => paranoidLoop fixed f buf' (fr ++ fs) ws ds s1
        | .panic p => ⟨.panic p, fr, ws, ds, s1⟩
        | .emit buf' fs wr =>
          match S.iat s1 with
          | none => ⟨.starved, fr ++ fs, ws, ds, s1⟩
          | some (d, s2) => paranoidLoop fixed f buf' (fr ++ fs) (ws ++ [⟨wr, some t⟩]) (ds ++ [d]) s2

/-- `obfs4Conn.Write(b)` with `len(b) = n`; `fuel` bounds the iterations of the IAT loops -/
def write (fixed : Bool) (iatMode n fuel : Nat) (s : σ) : Out σ :=
  match chop n n with
  | .error p => ⟨.panic p, [], [], [], s⟩
  | .ok fr0 =>
    if iatMode != iatParanoid then
      -- pad once per burst
      match S.len s with
      | none => ⟨.starved, fr0, [], [], s⟩
      | some (t, s1) =>
        match padBurst fr0.sum t with
        | .error p => ⟨.panic p, fr0, [], [], s1⟩
        | .ok fs =>
          let fr := fr0 ++ fs
          if iatMode != iatNone then enabledLoop S fuel fr.sum fr [] [] s1
          else ⟨.ok, fr, [⟨fr.sum, none⟩], [], s1⟩     -- one `Conn.Write(frameBuf.Bytes())`
    else paranoidLoop S fixed fuel fr0.sum fr0 [] [] s

/-! ## seed adoption (`readPackets`, `packetTypePrngSeed`) -/

/-- the seeds a connection's two distributions were last (re)built from; `iat = none` when the
    connection has no IAT distribution (`iatMode = 0`) -/
structure DistSeeds where
  len : Bytes
  iat : Option Bytes
deriving DecidableEq, Repr

/-- processing of one PRNG-seed packet with the given payload.  `sha256` is the hash the code
    derives the IAT seed with (`drbg.SeedFromBytes(sha256.Sum256(seed))` truncates to 24 bytes). -/
def adoptSeed (sha256 : Bytes → Bytes) (isServer : Bool) (d : DistSeeds) (payload : Bytes) : DistSeeds :=
  if payload.length == seedPacketPayloadLength && !isServer then
    { len := payload
      iat := match d.iat with
        | none => none
        | some _ => some ((sha256 payload).take O4.Consts.Obfs4.seedLength) }
  else d

/-- the server's seeds (`ServerFactory`): the configured DRBG seed and, with IAT on, its hash -/
def serverSeeds (sha256 : Bytes → Bytes) (seed : Bytes) (iatMode : Nat) : DistSeeds :=
  { len := seed
    iat := if iatMode != iatNone then some ((sha256 seed).take O4.Consts.Obfs4.seedLength) else none }

/-- several live client connections (of one `ClientFactory`): each `obfs4Conn` owns its
    distributions, so the PRNG-seed packet received on connection `i` re-seeds that connection
    only -/
def adoptAt (sha256 : Bytes → Bytes) (conns : List DistSeeds) (i : Nat) (payload : Bytes) :
    List DistSeeds :=
  conns.modify i (fun d => adoptSeed sha256 false d payload)

end O4.Shaping
