import O4.Model.Bytes
import O4.Generated.Consts.Meeklite
/-!
# Model of `transports/meeklite/meek.go` (meekConn, ioWorker) — C16.  Core only.

An interleaving model with three actors:

* the **application**: a writer (`Write` = check the close channel, then send on
  `workerWrChan`, which may block), a reader (`Read` = serve from `rdBuf`, else receive from
  `workerRdChan`, which may block) and `Close` (closes `workerCloseChan`, once);
* the **worker** goroutine `ioWorker`: `select` among timer / `workerWrChan` /
  `workerCloseChan`; the coalescing loop bounded by `maxPayloadLength`; `roundTrip`; the
  `leftBuf` remainder; the enqueue of the response body; the exit path;
* the **server**: answers the request in flight with any body of at most `maxPayloadLength`
  bytes, with a non-200 status (the worker retries the same body, at most `maxRetries`
  attempts), or the transport fails.

The two channels are FIFO queues of capacity `maxChanBacklog`.  `step cfg s c` performs the
atomic step `c`; a step that is not enabled leaves the state unchanged, so every list of
choices is a schedule and theorems over `run` for all lists are theorems over all
interleavings.  Time is abstracted: the timer case of the `select` is always enabled.

`fixed = false` is the released code: `Read` never looks at the close channel (defect F7) and
the retry wait inside `roundTrip` is a plain `time.Sleep` (a closed connection keeps retrying);
`fixed = true` is the repaired code: `Read` has the check `Write` has always had, and the
retry wait also ends when the close channel is closed.
-/
namespace O4.Meek
open O4.Consts.Meeklite

/-- program counter of the worker goroutine -/
inductive WPc
  | sel                                             -- at the `select` (loop head)
  | coal (snd : Bytes)                              -- coalescing loop, `sndBuf = snd`
  | flight (snd : Bytes) (wrSz : Nat) (tries : Nat) -- `roundTrip(sndBuf[:wrSz])`, attempt no. `tries`
  | retry (snd : Bytes) (wrSz : Nat) (tries : Nat)  -- roundTrip: attempt `tries` got a non-200; waiting `retryDelay`
  | got (snd : Bytes) (wrSz : Nat) (body : Bytes)   -- roundTrip returned `body`; before `leftBuf = sndBuf[wrSz:]`
  | enq (body : Bytes)                              -- `workerRdChan <- rdBuf` (may block)
  | x1                                              -- left the loop: before `close(workerRdChan)`
  | x2                                              -- before `close(workerWrChan)`
  | x3                                              -- before `c.Close()`
  | dead
deriving DecidableEq, Repr

inductive WrPc
  | idle
  | enq (b : Bytes)     -- `Write(b)` passed the close check, in `workerWrChan <- b`
deriving DecidableEq, Repr

inductive RdPc
  | idle
  | wait (n : Nat)      -- `Read(p)`, `len(p) = n`, in `<-workerRdChan`
deriving DecidableEq, Repr

/-- results of the application's calls, as the caller sees them -/
inductive Obs
  | wOk (n : Nat)
  | wFail
  | rData (data : Bytes)
  | rFail
  | closeOk
  | closeAgain          -- os.ErrClosed from a second Close
deriving DecidableEq, Repr

structure State where
  sid : Nat := 0
  closed : Bool := false        -- workerCloseChan is closed
  wrQ : List Bytes := []        -- workerWrChan (oldest first)
  rdQ : List Bytes := []        -- workerRdChan
  wrClosed : Bool := false
  rdClosed : Bool := false
  rdBuf : Bytes := []           -- c.rdBuf (nil = empty)
  leftBuf : Bytes := []
  wpc : WPc := .sel
  wr : WrPc := .idle
  rd : RdPc := .idle
  -- ghost history
  accepted : List Bytes := []   -- payloads of the Writes that returned (len, nil)
  reqs : List (Nat × Bytes) := []   -- (X-Session-Id, body) of every request issued, in order
  resps : List Bytes := []      -- bodies of the 200 responses, in order
  answered : Nat := 0           -- requests answered (200, non-200 or transport failure)
  failed : Bool := false        -- some request was not answered 200
  readOut : List Bytes := []    -- data returned by the Reads, in order
  dropped : List Bytes := []    -- response bodies discarded by a worker that saw the close while handing over
  out : List Obs := []          -- results of the application's calls, newest first
deriving DecidableEq, Repr

def init (sid : Nat) : State := { sid := sid }

inductive Choice
  | writeCall (b : Bytes)   -- application: `Write(b)` starts
  | writeEnq                -- application: the channel send of the pending Write completes
  | readCall (n : Nat)      -- application: `Read(p)` with `len(p) = n` starts
  | readDeq                 -- application: the channel receive of the pending Read completes
  | close                   -- application: `Close()`
  | wTimer                  -- worker: `select` takes the timer case
  | wRecv                   -- worker: `select` takes `workerWrChan`
  | wClose                  -- worker: `select` takes `workerCloseChan`
  | wStep                   -- worker: its next step outside the select
  | sOk (body : Bytes)      -- server: 200 with `body`
  | sNon200                 -- server: another status code
  | sFail                   -- the transport fails (roundTrip returns an error)
deriving DecidableEq, Repr

def say (s : State) (o : Obs) : State := { s with out := o :: s.out }

def stepWriteCall (s : State) (b : Bytes) : State :=
  match s.wr with
  | .enq _ => s
  | .idle =>
    if s.closed then say s .wFail
    else if b = [] then say s (.wOk 0)
    else { s with wr := .enq b }

def stepWriteEnq (s : State) : State :=
  match s.wr with
  | .idle => s
  | .enq b =>
    if s.wrClosed then say { s with wr := .idle } .wFail     -- send on a closed channel: recovered panic
    else if s.wrQ.length < maxChanBacklog then
      say { s with wr := .idle, wrQ := s.wrQ ++ [b], accepted := s.accepted ++ [b] } (.wOk b.length)
    else s                                                    -- channel full: blocked

def stepReadCall (fixed : Bool) (s : State) (n : Nat) : State :=
  match s.rd with
  | .wait _ => s
  | .idle =>
    if fixed && s.closed then say s .rFail
    else if s.rdBuf ≠ [] then
      say { s with rdBuf := s.rdBuf.drop n, readOut := s.readOut ++ [s.rdBuf.take n] } (.rData (s.rdBuf.take n))
    else { s with rd := .wait n }

def stepReadDeq (s : State) : State :=
  match s.rd with
  | .idle => s
  | .wait n =>
    match s.rdQ with
    | b :: rest =>
      say { s with rd := .idle, rdQ := rest, rdBuf := b.drop n, readOut := s.readOut ++ [b.take n] }
        (.rData (b.take n))
    | [] => if s.rdClosed then say { s with rd := .idle } .rFail else s

def stepClose (s : State) : State :=
  if s.closed then say s .closeAgain else say { s with closed := true } .closeOk

/-- the worker outside the `select` -/
def stepWorker (s : State) : State :=
  match s.wpc with
  | .coal snd =>
    match s.wrQ with
    | b :: rest =>
      if snd.length < maxPayloadLength then { s with wrQ := rest, wpc := .coal (snd ++ b) }
      else { s with reqs := s.reqs ++ [(s.sid, snd.take (min snd.length maxPayloadLength))],
                    wpc := .flight snd (min snd.length maxPayloadLength) 1 }
    | [] => { s with reqs := s.reqs ++ [(s.sid, snd.take (min snd.length maxPayloadLength))],
                     wpc := .flight snd (min snd.length maxPayloadLength) 1 }
  | .got snd wrSz body =>
    if body = [] then { s with leftBuf := snd.drop wrSz, wpc := .sel }
    else { s with leftBuf := snd.drop wrSz, wpc := .enq body }
  | .enq body =>
    if s.rdQ.length < maxChanBacklog then { s with rdQ := s.rdQ ++ [body], wpc := .sel } else s
  | .retry snd wrSz k =>     -- the retry delay has passed: the same body again
    { s with reqs := s.reqs ++ [(s.sid, snd.take wrSz)], wpc := .flight snd wrSz (k + 1) }
  | .x1 => { s with rdClosed := true, wpc := .x2 }
  | .x2 => { s with wrClosed := true, wpc := .x3 }
  | .x3 => { s with closed := true, wpc := .dead }
  | .sel => s
  | .flight _ _ _ => s
  | .dead => s

def step (fixed : Bool) (s : State) : Choice → State
  | .writeCall b => stepWriteCall s b
  | .writeEnq => stepWriteEnq s
  | .readCall n => stepReadCall fixed s n
  | .readDeq => stepReadDeq s
  | .close => stepClose s
  | .wTimer =>
    match s.wpc with
    | .sel => { s with wpc := .coal s.leftBuf }
    | _ => s
  | .wRecv =>
    match s.wpc, s.wrQ with
    | .sel, b :: rest => { s with wrQ := rest, wpc := .coal (s.leftBuf ++ b) }
    | _, _ => s
  | .wClose =>
    match s.wpc with
    | .sel => if s.closed then { s with wpc := .x1 } else s
    -- The released worker hands the response over with a plain channel send and so stays
    -- blocked at `enq` for ever when the queue is full and nobody reads.  A worker that also
    -- selects on the close channel at this point (the repair proposed under C10) gives the
    -- response up and exits; the model allows that step too (trace inclusion covers both).
    | .enq body => if s.closed then { s with wpc := .x1, dropped := s.dropped ++ [body] } else s
    | .retry _ _ _ => if fixed && s.closed then { s with wpc := .x1 } else s
    | _ => s
  | .wStep => stepWorker s
  | .sOk body =>
    match s.wpc with
    | .flight snd wrSz _ =>
      if body.length ≤ maxPayloadLength then
        { s with resps := s.resps ++ [body], answered := s.answered + 1, wpc := .got snd wrSz body }
      else s
    | _ => s
  | .sNon200 =>
    match s.wpc with
    | .flight snd wrSz k =>
      if k < maxRetries then { s with failed := true, answered := s.answered + 1, wpc := .retry snd wrSz k }
      else { s with failed := true, answered := s.answered + 1, wpc := .x1 }
    | _ => s
  | .sFail =>
    match s.wpc with
    | .flight _ _ _ => { s with failed := true, answered := s.answered + 1, wpc := .x1 }
    | _ => s

def run (fixed : Bool) (s : State) (cs : List Choice) : State := cs.foldl (step fixed) s

/-- which variant the code under test is: `true` since the repair
    "fix: meek_lite Read fails once the connection is closed" (`Read` checks the close channel
    first, as `Write` does); the released `Read` (`false`) is kept for the counterexample and
    as a regression target. -/
def codeFixed : Bool := true

/-- what the worker still owes the server -/
def pendingUp (s : State) : Bytes :=
  match s.wpc with
  | .coal snd => snd
  | .flight snd wrSz _ => snd.drop wrSz
  | .got snd wrSz _ => snd.drop wrSz
  | .retry snd wrSz _ => snd.drop wrSz
  | _ => s.leftBuf

/-- a response body the worker holds but has not queued yet -/
def pendingDown (s : State) : Bytes :=
  match s.wpc with
  | .got _ _ body => body
  | .enq body => body
  | _ => []

def inFlight (s : State) : Bool :=
  match s.wpc with
  | .flight _ _ _ => true
  | _ => false

/-- the worker has left its loop -/
def exited (s : State) : Bool :=
  match s.wpc with
  | .x1 | .x2 | .x3 | .dead => true
  | _ => false

end O4.Meek
