/-!
# Model of `common/replayfilter` (C11, C04). Core only.

The Go filter keeps a `map[digest]*entry` and a `container/list` FIFO in lock step; the
model abstracts the pair to one list, oldest first.  `compactList` mirrors the loop of
`compactFilter` iteration by iteration.
-/
namespace O4.RF

structure Entry where
  d : Nat      -- digest (value identity)
  t : Int      -- firstSeen (ns)
deriving DecidableEq, Repr

structure Filter where
  ttl : Int
  cap : Nat
  fifo : List Entry   -- oldest first
deriving DecidableEq, Repr

/-- `compactFilter`: mirrors the Go loop. -/
def compactList (ttl : Int) (cap : Nat) (now : Int) : List Entry → List Entry
  | [] => []
  | e :: rest =>
    if (e :: rest).length < cap ∧ ttl > 0 then
      let δ := now - e.t
      if δ < 0 then []                 -- clock jumped backwards: reset
      else if δ < ttl then e :: rest   -- done
      else compactList ttl cap now rest
    else compactList ttl cap now rest   -- full (or ttl ≤ 0): drop eldest, continue

def Filter.compact (f : Filter) (now : Int) : Filter :=
  { f with fifo := compactList f.ttl f.cap now f.fifo }

/-- `TestAndSet`: returns the new filter and whether the value was present. -/
def Filter.testAndSet (f : Filter) (now : Int) (d : Nat) : Filter × Bool :=
  let g := f.compact now
  if g.fifo.any (fun e => e.d == d) then (g, true)
  else ({ g with fifo := g.fifo ++ [⟨d, now⟩] }, false)

def Filter.new (ttl : Int) (cap : Nat) : Filter := ⟨ttl, cap, []⟩

/-- run a whole history of `(now, value)` submissions -/
def Filter.run (f : Filter) : List (Int × Nat) → Filter × List Bool
  | [] => (f, [])
  | (now, d) :: rest =>
    let (f1, hit) := f.testAndSet now d
    let (f2, hits) := Filter.run f1 rest
    (f2, hit :: hits)

end O4.RF
