import O4.Generated.Consts.Framing
import O4.Generated.Consts.Obfs4
import O4.Generated.Consts.Obfs2
import O4.Generated.Consts.Obfs3
import O4.Generated.Consts.Scramblesuit
import O4.Generated.Consts.Meeklite
import O4.Generated.Consts.Uniformdh
/-!
# C10 — the per-connection buffer bounds, as closed expressions in the regenerated constants

Core only.  The theorems of `O4/Props/C10.lean` are stated over these names; the driver
`c10` prints their values, and the Go harness compares what the implementation actually
buffers (hooks `VerifC10Buffered`) / consumes against exactly these numbers.
-/
namespace O4.C10
open O4.Consts

/-- obfs4 handshake, both roles: `receiveBuffer` while `clientHandshake`/`serverHandshake`
    loops (one `hsBuf` read of at most `maxHandshakeLength` is appended only while the buffer
    is shorter than `maxHandshakeLength`) -/
def obfs4HsBound : Nat := 2 * Obfs4.maxHandshakeLength - 1

/-- obfs4 data phase, settled (`Decode` answered `ErrAgain`): less than one frame body -/
def obfs4SettledBound : Nat := Framing.maxFrameLength - 1

/-- obfs4 data phase, `receiveBuffer` + `receiveDecodedBuffer` at any time -/
def obfs4DataBound : Nat := Obfs4.consumeReadSize + Framing.maxFrameLength - 1

/-- obfs4 client data phase: the handshake may leave up to `obfs4HsBound` bytes of surplus in
    `receiveBuffer`, to which the first network read is appended -/
def obfs4ClientDataBound : Nat := obfs4HsBound + Obfs4.consumeReadSize

/-- sha256.Size (the obfs3 magic is a full HMAC-SHA256 output) -/
def sha256Size : Nat := 32

/-- obfs3: `rxBuf` while `findPeerMagic` scans -/
def obfs3Bound : Nat := 2 * (Obfs3.maxPadding + sha256Size) - 1

/-- obfs3: bytes consumed by the handshake proper (the peer's public key) -/
def obfs3HsConsumed : Nat := Uniformdh.size

/-- obfs2: bytes consumed by the handshake (seed, encrypted header, padding); nothing is
    buffered by the transport afterwards -/
def obfs2HsConsumed : Nat := Obfs2.seedLen + Obfs2.hsLen + Obfs2.maxPadding

/-- ScrambleSuit client handshake: `receiveBuffer` while waiting for the server response -/
def ssHsBound : Nat := 2 * Scramblesuit.maxHandshakeLength - 1

/-- ScrambleSuit data phase: `receiveBuffer` + `receiveDecodedBuffer` at any time (the surplus
    of the handshake buffer plus one `maxSegmentLength` read, decoded or not) -/
def ssDataBound : Nat := ssHsBound + Scramblesuit.maxSegmentLength

/-- meek_lite: queued response bodies (`workerRdChan`), the one the worker holds while
    blocked on the full channel, and the partially read one (`rdBuf`) -/
def meekBound : Nat := (Meeklite.maxChanBacklog + 2) * Meeklite.maxPayloadLength

/-- bufio.defaultBufSize (standard library; the SOCKS5 front end reads through a bufio.Reader) -/
def bufioSize : Nat := 4096

/-- SOCKS5: bytes consumed from the client before `Handshake` returns: the three messages
    (method selection ≤ 2+255, RFC 1929 ≤ 2+255+1+255, request ≤ 4+1+255+2) plus at most one
    buffer of read-ahead (any read-ahead left after a message is an error) -/
def socksConsumed : Nat := (2 + 255) + (2 + 255 + 1 + 255) + (4 + 1 + 255 + 2) + bufioSize

def table : List (String × Nat) :=
  [("obfs4-hs", obfs4HsBound), ("obfs4-settled", obfs4SettledBound), ("obfs4-data", obfs4DataBound),
   ("obfs4-client-data", obfs4ClientDataBound),
   ("obfs3", obfs3Bound), ("obfs3-hs-consumed", obfs3HsConsumed), ("obfs2-hs-consumed", obfs2HsConsumed),
   ("ss-hs", ssHsBound), ("ss-data", ssDataBound), ("meek", meekBound), ("socks-consumed", socksConsumed)]

end O4.C10
