import O4.Model.Handshake
import O4.Model.Drbg
import O4.Model.GoRand
import O4.Generated.Consts.Obfs4
import O4.Generated.Consts.Replayfilter
/-!
# Model of the obfs4 server side of `transports/obfs4/obfs4.go` (C03, C04). Core only.

`ServerFactory` (the per-bridge `closeDelay`, the replay filter), `WrapConn` / `serverHandshake` /
`closeAfterDelay` as an **event machine**: the network side of the `net.Conn` is an arbitrary list of
events (`recv chunk | readDeadlineFires | peerCloses`, each stamped with the clock readings the code
takes at that moment) and the machine emits what the code does to the conn
(`setDeadline | setReadDeadline | write | close`) and to its caller (`returnErr | returnOk`).

What the code does, line by line (obfs4.go):

* `WrapConn`: `startTime := time.Now()`; `serverHandshake`; on **any** error `closeAfterDelay(sf, startTime)`
  and the error is returned, otherwise the conn is returned.
* `serverHandshake`: `SetDeadline(now + serverHandshakeTimeout)` **before** the first `Read`; then the
  loop `Read(hsBuf[:maxHandshakeLength])` → append to `receiveBuffer` → `parseClientHandshake` on the
  whole buffer; `ErrMarkNotFoundYet` continues, any other error returns; on success
  `SetDeadline(time.Time{})`, then response and inline seed frame in **one** `Write`.
* `closeAfterDelay`: `deadline = startTime + closeDelay·1 s + serverHandshakeTimeout`; if `now` is already
  after it, `Close` at once; otherwise `SetReadDeadline(deadline)`, `io.Copy(io.Discard, conn)` until the
  first read error (timeout, EOF, reset), then `Close`.

Interpretation recorded for C03: the base 30 s deadline applies too.  A peer that sends nothing (or an
incomplete handshake) gets the *timeout* error from `Read` when `SetDeadline(start+30 s)` fires; that is
an error like any other, so `closeAfterDelay` re-arms the **read** deadline to `start+30 s+closeDelay`
and keeps discarding; the connection is closed when that one fires (at once if `closeDelay = 0`, because
then `now` is already past it).  A read error that persists (`peerCloses`: EOF / reset) ends
`io.Copy` on its first `Read`, i.e. the conn is closed immediately.
-/
namespace O4.RF

/-- bulk insertion of values known to be new: what `fill` does in one step -/
def Filter.fillFresh (f : Filter) (now : Int) (ds : List Nat) : Filter :=
  { f with fifo := f.fifo ++ ds.map (fun d => ⟨d, now⟩) }

end O4.RF

namespace O4.Obfs4Server
open O4.Consts.Obfs4 O4.Handshake

/-! ## `ServerFactory`: the per-bridge close delay -/

/-- the DRBG as a `rand.Source` -/
def drbgSource : GoRand.Source Drbg.HashDrbg := ⟨Drbg.HashDrbg.int63⟩

/-- `rand.New(drbg.NewHashDrbg(st.drbgSeed)).Intn(maxCloseDelay)` — seconds.
    (`none`: the rejection loop ran out of model fuel, probability < 2⁻²⁵⁶.) -/
def closeDelayOfSeed (seed : Bytes) : Option Nat :=
  match GoRand.intn drbgSource maxCloseDelay (Drbg.newHashDrbg seed) with
  | some (v, _) => some v
  | none => none

/-- `time.Second` in ns -/
def second : Int := 1000000000

/-- `delay := time.Duration(sf.closeDelay)*time.Second + serverHandshakeTimeout` (ns) -/
def closeDelayNs (closeDelay : Nat) : Int := (closeDelay : Int) * second + (serverHandshakeTimeout : Int)

/-- `deadline := startTime.Add(delay)` -/
def closeDeadline (start : Int) (closeDelay : Nat) : Int := start + closeDelayNs closeDelay

/-- what `WrapConn` uses of the `obfs4ServerFactory` besides the replay filter -/
structure Factory where
  idPriv : Bytes
  idPub : Bytes
  nodeID : Bytes
  closeDelay : Nat          -- seconds, `[0, maxCloseDelay)`
deriving DecidableEq, Repr

/-- `replayfilter.New(replayTTL)` -/
def newFilter : RF.Filter := RF.Filter.new (replayTTL : Int) Consts.Replayfilter.maxFilterSize

/-- per-connection data: accept time, the session key pair generated before the first read, and
    what is written on success (`generateHandshake()` followed by the inline seed frame — the bytes
    are the subject of C06, here they only have to *be there*) -/
structure Conn where
  start : Int               -- `startTime` (ns on the process's monotonic clock)
  yPriv : Bytes
  yPub : Bytes
  yRepr : Bytes
  reply : Server → Bytes → Bytes   -- handshake state after the parse, KEY_SEED ↦ bytes written

/-- `newServerHandshake` -/
def newServer (F : Factory) (c : Conn) : Server :=
  { yPriv := c.yPriv, yPub := c.yPub, yRepr := c.yRepr, idPriv := F.idPriv, idPub := F.idPub,
    nodeID := F.nodeID, cache := none, hour := none, auth := none }

/-! ## events and outputs -/

inductive NetEv
  | recv (chunk : Bytes)      -- a `Read` returned these bytes
  | readDeadlineFires         -- the armed (read) deadline fired: `Read` returns a timeout error
  | peerCloses                -- `Read` returns EOF / reset (and keeps doing so)
deriving DecidableEq, Repr

/-- an event with the clock readings taken when the `Read` returned: `now` (monotonic ns, the value
    given to the replay filter and compared with the close deadline) and `hour = getEpochHour()` -/
structure Ev where
  now : Int
  hour : Int
  ev : NetEv
deriving DecidableEq, Repr

inductive Err
  | timeout
  | eof
  | hs (e : HsErr)
deriving DecidableEq, Repr

inductive Out
  | setDeadline (d : Option Int)     -- `none` = `SetDeadline(time.Time{})`
  | setReadDeadline (d : Int)
  | write (b : Bytes)
  | close
  | returnErr (e : Err)
  | returnOk
deriving DecidableEq, Repr

inductive Phase
  | handshake (hs : Server) (buf : Bytes)   -- in the read loop of `serverHandshake`
  | discarding (e : Err)                    -- in `io.Copy(io.Discard, conn)`; `e` = what `WrapConn` will return
  | closed                                  -- `WrapConn` returned an error; the conn is closed
  | established                             -- `WrapConn` returned the conn
deriving DecidableEq, Repr

structure State where
  phase : Phase
  filter : RF.Filter
deriving DecidableEq, Repr

/-- `closeAfterDelay` entered at `now` because of error `e`; `sticky` = the read error persists, so
    `io.Copy` ends on its first `Read`. -/
def fail (F : Factory) (c : Conn) (now : Int) (e : Err) (sticky : Bool) : Phase × List Out :=
  let deadline := closeDeadline c.start F.closeDelay
  if now > deadline then (.closed, [.close, .returnErr e])
  else if sticky then (.closed, [.setReadDeadline deadline, .close, .returnErr e])
  else (.discarding e, [.setReadDeadline deadline])

/-- one `Read` returning, and everything the code does until it blocks in the next `Read` (or returns) -/
def step (P : Prims) (F : Factory) (c : Conn) (s : State) (e : Ev) : State × List Out :=
  match s.phase with
  | .handshake hs buf =>
    match e.ev with
    | .recv chunk =>
      let buf' := buf ++ chunk
      match parseClientHandshake P hs s.filter e.hour e.now buf' with
      | (hs', f', .ok seed) =>
        (⟨.established, f'⟩, [.setDeadline none, .write (c.reply hs' seed), .returnOk])
      | (hs', f', .err er) =>
        if er = .markNotFoundYet then (⟨.handshake hs' buf', f'⟩, [])
        else
          let r := fail F c e.now (.hs er) false
          (⟨r.1, f'⟩, r.2)
    | .readDeadlineFires =>
      let r := fail F c e.now .timeout false
      (⟨r.1, s.filter⟩, r.2)
    | .peerCloses =>
      let r := fail F c e.now .eof true
      (⟨r.1, s.filter⟩, r.2)
  | .discarding er =>
    match e.ev with
    | .recv _ => (s, [])                                         -- consumed and discarded
    | .readDeadlineFires => (⟨.closed, s.filter⟩, [.close, .returnErr er])
    | .peerCloses => (⟨.closed, s.filter⟩, [.close, .returnErr er])
  | .closed => (s, [])
  | .established => (s, [])          -- the data phase is not this model's business

/-- the trace: every event with what the code did in response -/
def runFrom (P : Prims) (F : Factory) (c : Conn) : State → List Ev → State × List (Ev × List Out)
  | s, [] => (s, [])
  | s, e :: rest =>
    let r := step P F c s e
    let q := runFrom P F c r.1 rest
    (q.1, (e, r.2) :: q.2)

/-- a `Read` into `hsBuf[:maxHandshakeLength]` (and into `io.Discard`'s 8 KiB buffers) returns at most
    that many bytes: a larger arrival is seen as several reads. -/
def splitReads : Nat → Bytes → List Bytes
  | 0, b => [b]
  | fuel + 1, b =>
    if b.length ≤ maxHandshakeLength then [b]
    else b.take maxHandshakeLength :: splitReads fuel (b.drop maxHandshakeLength)

def normalizeEv (e : Ev) : List Ev :=
  match e.ev with
  | .recv chunk => (splitReads chunk.length chunk).map (fun p => { e with ev := .recv p })
  | _ => [e]

def normalize (evs : List Ev) : List Ev := evs.flatMap normalizeEv

/-- before the first `Read` -/
def initOuts (c : Conn) : List Out := [.setDeadline (some (c.start + (serverHandshakeTimeout : Int)))]

def initState (F : Factory) (c : Conn) (f : RF.Filter) : State := ⟨.handshake (newServer F c) [], f⟩

/-- the per-event trace of one `WrapConn` call -/
def trace (P : Prims) (F : Factory) (c : Conn) (f : RF.Filter) (evs : List Ev) : State × List (Ev × List Out) :=
  runFrom P F c (initState F c f) (normalize evs)

/-- `WrapConn(conn)` against the event list `evs`: final state (incl. the factory's replay filter) and
    everything done to the conn / returned, in order -/
def run (P : Prims) (F : Factory) (c : Conn) (f : RF.Filter) (evs : List Ev) : State × List Out :=
  let r := trace P F c f evs
  (r.1, initOuts c ++ (r.2.map Prod.snd).flatten)

/-! ## C04: the factory as an acceptor of complete handshakes -/

inductive Outcome
  | accepted (keySeed : Bytes) (clientHour : Option Int)   -- `hs.epochHour`: the hour echoed into MAC_S
  | rejected (e : HsErr)
deriving DecidableEq, Repr

/-- one connection that delivers `blob` in a single read at (`nowHour`, `nowNs`): a thin wrapper of
    `parseClientHandshake` on the complete buffer with a fresh per-connection handshake state.
    (`markNotFoundYet` = the server keeps waiting, i.e. does not accept.) -/
def serverAccept (P : Prims) (F : Factory) (c : Conn) (f : RF.Filter) (blob : Bytes) (nowHour nowNs : Int) :
    RF.Filter × Outcome :=
  match parseClientHandshake P (newServer F c) f nowHour nowNs blob with
  | (hs', f', .ok seed) => (f', .accepted seed hs'.hour)
  | (_, f', .err e) => (f', .rejected e)

/-- a submission of a history: the connection's own data, the blob, the clock readings -/
structure Submission where
  conn : Conn
  blob : Bytes
  hour : Int
  now : Int

/-- a whole history of submissions against one factory -/
def runHistory (P : Prims) (F : Factory) : RF.Filter → List Submission → RF.Filter × List Outcome
  | f, [] => (f, [])
  | f, s :: rest =>
    let r := serverAccept P F s.conn f s.blob s.hour s.now
    let q := runHistory P F r.1 rest
    (q.1, r.2 :: q.2)

end O4.Obfs4Server
