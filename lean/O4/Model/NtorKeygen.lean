import O4.Model.Crypto.Elligator
import O4.Model.Crypto.Sha512
import O4.Generated.Consts.Ntor
/-!
# `ntor.NewKeypair` (common/ntor/ntor.go:259) on an explicit random tape

Each iteration of the `for` loop draws `PrivateKeyLength` bytes from `csrand`, hashes them with
SHA-512, keeps the first 32 digest bytes as the private key and — with `elligator = true` — uses
digest byte 63 as the tweak of `x25519ell2.ScalarBaseMult`; a failed Elligator transform draws again.
Core Lean only.
-/
namespace O4.Ntor
open O4.Crypto

structure NewKeypair where
  priv : Bytes
  pub : Bytes
  /-- `none` for `NewKeypair(false)` -/
  repr : Option Bytes
  /-- random bytes consumed -/
  consumed : Nat

/-- `NewKeypair(true)`: `fuel` bounds the number of attempts; `none` = the tape ran out -/
def newKeypairEllLoop : Nat → Bytes → Nat → Option NewKeypair
  | 0, _, _ => none
  | fuel + 1, tape, consumed =>
    let n := O4.Consts.Ntor.privateKeyLength
    if tape.length < n then none else
    let digest := sha512 (tape.take n)
    let priv := digest.take n
    let tweak := digest.getD 63 0
    match scalarBaseMultDirty priv tweak with
    | some (pub, repr) => some ⟨priv, pub, some repr, consumed + n⟩
    | none => newKeypairEllLoop fuel (tape.drop n) (consumed + n)

def newKeypair (elligator : Bool) (tape : Bytes) : Option NewKeypair :=
  let n := O4.Consts.Ntor.privateKeyLength
  if elligator then newKeypairEllLoop (tape.length / n + 1) tape 0
  else if tape.length < n then none
  else
    let priv := (sha512 (tape.take n)).take n
    some ⟨priv, x25519Base priv, none, n⟩

end O4.Ntor
