import O4.Model.Base64
import O4.Generated.Consts.Obfs4
import O4.Generated.Consts.Ntor
import O4.Generated.Consts.Drbg
import O4.Generated.Consts.Scramblesuit
/-!
# State directory of a bridge: file-system model, start-up, crash states, recovery (C18)

Core Lean only.  Models `transports/obfs4/statefile.go` (`serverStateFromArgs`,
`jsonServerStateFromFile`, `newJSONServerState`, `serverStateFromJSONServerState`,
`writeJSONServerState`, `newBridgeFile`) and the ScrambleSuit ticket store
(`transports/scramblesuit/handshake_ticket.go`: `loadTicketStore`, `serialize`, `storeTicket`,
`getTicket`).

* **File system**: a directory is an association list name → content.  The mutating system
  calls are `Op`s; every completed call is durable (process-kill crash model: the page cache
  survives), `rename` is atomic, a `write` may be torn at any byte.
* **Crash states** of an op list: every prefix, plus every strict prefix of the write that was
  in flight (`crashStates`, addressed by `(k, j)` through `crashAt`).
* **Start-up** is a function from (directory, arguments, fresh randomness) to the op list it
  performs and the identity it presents (`start`).  `Cfg.fixed = false` is the code before the
  repair (`os.WriteFile`: open with `O_TRUNC`, write, close — in place); `fixed = true` is the
  repaired code (write `<name>.tmp`, fsync, close, rename over `<name>`).
* **JSON** is modelled only as far as the property needs: the exact byte format the encoder
  emits; the parser accepts exactly the encoder's image (`parseState`, `parseTickets`).  That a
  strict prefix of an encoded object never parses — also for Go's `encoding/json` — is what the
  correspondence check exercises on every prefix.
-/
namespace O4.SF
open O4

abbrev Name := String
abbrev Dir := List (Name × Bytes)

def get (d : Dir) (n : Name) : Option Bytes := d.lookup n
def del (d : Dir) (n : Name) : Dir := d.filter (fun e => e.1 != n)
def set (d : Dir) (n : Name) (c : Bytes) : Dir := (n, c) :: del d n

/-- file-system mutating system calls (file descriptors resolved to names) -/
inductive Op
  | openTrunc (n : Name)            -- open(O_CREAT|O_TRUNC): the file exists and is empty
  | write (n : Name) (bs : Bytes)   -- sequential write: append
  | close (n : Name)
  | fsync (n : Name)
  | rename (a b : Name)
  | unlink (n : Name)
  | mkdir (n : Name)
  deriving Repr, DecidableEq

def Op.apply (d : Dir) : Op → Dir
  | .openTrunc n => set d n []
  | .write n bs => set d n ((get d n).getD [] ++ bs)
  | .rename a b =>
    match get d a with
    | some c => set (del d a) b c
    | none => d
  | .unlink n => del d n
  | .close _ => d
  | .fsync _ => d
  | .mkdir _ => d

def run (d : Dir) (ops : List Op) : Dir := ops.foldl Op.apply d

/-- the states a kill in the middle of `op` can leave (strictly between "not started" and
    "completed"): a write torn after `1 … len-1` bytes -/
def torn (d : Dir) : Op → List Dir
  | .write n bs => (List.range (bs.length - 1)).map (fun j => Op.apply d (.write n (bs.take (j + 1))))
  | _ => []

/-- every state a crash during `ops` (started in `d`) can leave behind -/
def crashStates (d : Dir) : List Op → List Dir
  | [] => [d]
  | op :: rest => d :: (torn d op ++ crashStates (op.apply d) rest)

/-- crash point `(k, j)`: the first `k` calls completed; if `j > 0`, call `k` is a write of more
    than `j` bytes of which exactly `j` reached the file -/
def crashAt (d : Dir) (ops : List Op) (k j : Nat) : Option Dir :=
  if k > ops.length then none else
  let s := run d (ops.take k)
  if j = 0 then some s else
  match ops[k]? with
  | some (.write n bs) => if j < bs.length then some (Op.apply s (.write n (bs.take j))) else none
  | _ => none

/-! ## How a name is treated by an op list -/

inductive Discipline | untouched | atomic | inplace | other
  deriving Repr, DecidableEq

def Discipline.name : Discipline → String
  | .untouched => "untouched" | .atomic => "atomic" | .inplace => "inplace" | .other => "other"

/-- syntactic classification: `inplace` = the name itself is truncated / written; `atomic` = the
    name only ever appears as the target of a `rename`; `other` = unlinked or renamed away. -/
def classify (n : Name) (ops : List Op) : Discipline :=
  if ops.any (fun | .unlink m => m == n | .rename a _ => a == n | _ => false) then .other
  else if ops.any (fun | .openTrunc m => m == n | .write m _ => m == n | _ => false) then .inplace
  else if ops.any (fun | .rename _ b => b == n | _ => false) then .atomic
  else .untouched

/-- the write-temp-then-rename discipline w.r.t. the protected name `n`, semantically: `n` is
    never truncated, written, unlinked or renamed away, and whenever a file is renamed over
    `n` its content *at that moment* is `good` (complete). -/
def safeOps (n : Name) (good : Bytes → Bool) : Dir → List Op → Bool
  | _, [] => true
  | d, op :: rest =>
    (match op with
     | .openTrunc m => m != n
     | .write m _ => m != n
     | .unlink m => m != n
     | .rename a b =>
        a != n && (b != n || (match get d a with
                              | some c => good c
                              | none => true))
     | _ => true) && safeOps n good (op.apply d) rest

/-! ## The state file -/

/-- the JSON object as text fields (`iat` is the number's digits) -/
structure Rec where
  nodeID : Bytes
  priv : Bytes
  pub : Bytes
  seed : Bytes
  iat : Bytes
  deriving Repr, DecidableEq

def q : UInt8 := 34    -- '"'
def rb : UInt8 := 125  -- '}'
def bs : UInt8 := 92   -- '\\'

def L0 : Bytes := ascii "{\"node-id\":\""
def L1 : Bytes := ascii ",\"private-key\":\""
def L2 : Bytes := ascii ",\"public-key\":\""
def L3 : Bytes := ascii ",\"drbg-seed\":\""
def L4 : Bytes := ascii ",\"iat-mode\":"

/-- `json.Marshal(jsonServerState)` for escape-free strings -/
def encState (r : Rec) : Bytes :=
  L0 ++ (r.nodeID ++ q :: (L1 ++ (r.priv ++ q :: (L2 ++ (r.pub ++ q :: (L3 ++ (r.seed ++ q ::
    (L4 ++ (r.iat ++ [rb])))))))))

def stripPrefix : Bytes → Bytes → Option Bytes
  | [], l => some l
  | _ :: _, [] => none
  | a :: p, b :: l => if a = b then stripPrefix p l else none

/-- split at the first occurrence of `c` -/
def splitAt1 (c : UInt8) : Bytes → Option (Bytes × Bytes)
  | [] => none
  | x :: l =>
    if x = c then some ([], l) else
    match splitAt1 c l with
    | some (a, r) => some (x :: a, r)
    | none => none

/-- the parser: accepts exactly the encoder's image -/
def parseState (l : Bytes) : Option Rec :=
  match stripPrefix L0 l with
  | none => none
  | some r0 =>
  match splitAt1 q r0 with
  | none => none
  | some (f1, r1) =>
  match stripPrefix L1 r1 with
  | none => none
  | some r1 =>
  match splitAt1 q r1 with
  | none => none
  | some (f2, r2) =>
  match stripPrefix L2 r2 with
  | none => none
  | some r2 =>
  match splitAt1 q r2 with
  | none => none
  | some (f3, r3) =>
  match stripPrefix L3 r3 with
  | none => none
  | some r3 =>
  match splitAt1 q r3 with
  | none => none
  | some (f4, r4) =>
  match stripPrefix L4 r4 with
  | none => none
  | some r4 =>
  match splitAt1 rb r4 with
  | none => none
  | some (f5, r5) => if r5 = [] then some ⟨f1, f2, f3, f4, f5⟩ else none

def isDigit (c : UInt8) : Bool := 48 ≤ c.toNat && c.toNat ≤ 57

def digitsVal (ds : Bytes) : Nat := ds.foldl (fun acc c => acc * 10 + (c.toNat - 48)) 0

/-- a JSON number that `encoding/json` stores into an `int` ≥ 0: digits, no leading zero -/
def jsonNat (t : Bytes) : Option Nat :=
  match t with
  | [] => none
  | [c] => if isDigit c then some (c.toNat - 48) else none
  | c :: rest => if isDigit c && c != 48 && rest.all isDigit then some (digitsVal (c :: rest)) else none

/-- `strconv.Atoi` (sign, decimal digits; the value range is irrelevant here because only
    0‥2 survives the following range test) -/
def atoi (t : Bytes) : Option Int :=
  match t with
  | [] => none
  | 43 :: ds => if ds ≠ [] ∧ ds.all isDigit then some (Int.ofNat (digitsVal ds)) else none
  | 45 :: ds => if ds ≠ [] ∧ ds.all isDigit then some (- Int.ofNat (digitsVal ds)) else none
  | ds => if ds.all isDigit then some (Int.ofNat (digitsVal ds)) else none

def decimal (n : Nat) : Bytes := (Nat.toDigits 10 n).map (fun c => UInt8.ofNat c.toNat)

/-- the identity a bridge presents -/
structure Ident where
  nodeID : Bytes
  priv : Bytes
  seed : Bytes
  iat : Nat
  deriving Repr, DecidableEq

/-- `jsonServerState` while start-up runs -/
structure JS where
  nodeID : Bytes
  priv : Bytes
  pub : Bytes
  seed : Bytes
  iat : Int
  deriving Repr, DecidableEq

def hexN (len : Nat) (t : Bytes) : Option Bytes :=
  match Hex.decode t with
  | some b => if b.length = len then some b else none
  | none => none

/-- `drbg.SeedFromHex`: at least `SeedLength` bytes, truncated to `SeedLength` -/
def hexSeed (t : Bytes) : Option Bytes :=
  match Hex.decode t with
  | some b => if Consts.Drbg.seedLength ≤ b.length then some (b.take Consts.Drbg.seedLength) else none
  | none => none

/-- the validation in `serverStateFromJSONServerState` -/
def identOfJS (js : JS) : Option Ident :=
  match hexN Consts.Ntor.nodeIDLength js.nodeID, hexN Consts.Ntor.privateKeyLength js.priv,
        hexSeed js.seed with
  | some id, some pk, some sd =>
    if (Consts.Obfs4.iatNone : Int) ≤ js.iat ∧ js.iat ≤ (Consts.Obfs4.iatParanoid : Int)
    then some ⟨id, pk, sd, js.iat.toNat⟩ else none
  | _, _, _ => none

def jsOfRec (r : Rec) : Option JS :=
  match jsonNat r.iat with
  | some n => some ⟨r.nodeID, r.priv, r.pub, r.seed, Int.ofNat n⟩
  | none => none

def recOfJS (js : JS) : Rec := ⟨js.nodeID, js.priv, js.pub, js.seed, decimal js.iat.toNat⟩

/-- `json.Unmarshal` into `jsonServerState` (`none` = the load fails) -/
def loadJS (c : Bytes) : Option JS :=
  match parseState c with
  | some r => jsOfRec r
  | none => none

inductive Recovery
  | absent
  | unparsable
  | valid (i : Ident)
  deriving Repr, DecidableEq

/-- what the load path makes of the state file of a directory -/
def recover (d : Dir) : Recovery :=
  match get d Consts.Obfs4.stateFile with
  | none => .absent
  | some c =>
    match loadJS c with
    | none => .unparsable
    | some js =>
      match identOfJS js with
      | some i => .valid i
      | none => .unparsable

/-! ## Start-up -/

structure Cfg where
  fixed : Bool
  /-- Curve25519 base-point multiplication (supplied; not part of this model) -/
  pubOf : Bytes → Bytes
  /-- the comment block `newBridgeFile` puts above the bridge line (supplied: the check reads it
      from a file the code wrote) -/
  bridgePrefix : Bytes

structure Args where
  nodeID : Option Bytes
  priv : Option Bytes
  seed : Option Bytes
  iat : Option Bytes
  deriving Repr, DecidableEq

def Args.empty : Args := ⟨none, none, none, none⟩

inductive Outcome
  | ok (i : Ident)
  | err
  deriving Repr, DecidableEq

structure Result where
  ops : List Op
  out : Outcome

def tmpName (n : Name) : Name := n ++ ".tmp"

/-- how one file is (re)written -/
def writeFile (fixed : Bool) (n : Name) (c : Bytes) : List Op :=
  if fixed then
    [.openTrunc (tmpName n), .write (tmpName n) c, .fsync (tmpName n), .close (tmpName n),
     .rename (tmpName n) n]
  else
    [.openTrunc n, .write n c, .close n]

def certSuffix : Bytes := ascii Consts.Obfs4.certSuffix

/-- `Args()`: the `cert` a bridge advertises -/
def certOf (cfg : Cfg) (i : Ident) : Bytes := Cert.toString certSuffix (i.nodeID ++ cfg.pubOf i.priv)

/-- the last line of the bridge-line file (`newBridgeFile`; the comment block above it is not
    modelled) -/
def bridgeLine (cfg : Cfg) (i : Ident) : Bytes :=
  ascii "Bridge obfs4 <IP ADDRESS>:<PORT> <FINGERPRINT> cert=" ++ certOf cfg i
    ++ ascii " iat-mode=" ++ decimal i.iat ++ [10]

/-- the whole bridge-line file -/
def bridgeText (cfg : Cfg) (i : Ident) : Bytes := cfg.bridgePrefix ++ bridgeLine cfg i

/-- "The IAT mode should be independently configurable": the `iat-mode` argument, when given,
    overrides the loaded / default value (`none` = malformed) -/
def iatChoice (js : JS) (iatArg : Option Bytes) : Option Int :=
  match iatArg with
  | none => some js.iat
  | some t => atoi t

/-- IAT override, validation, bridge file, state file (`serverStateFromArgs` from the override
    on, and `serverStateFromJSONServerState`) -/
def finish (cfg : Cfg) (pre : List Op) (js : JS) (iatArg : Option Bytes) : Result :=
  match iatChoice js iatArg with
  | none => ⟨pre, .err⟩
  | some iat =>
    let js' : JS := { js with iat := iat }
    match identOfJS js' with
    | none => ⟨pre, .err⟩
    | some i =>
      ⟨pre ++ writeFile cfg.fixed Consts.Obfs4.bridgeFile (bridgeText cfg i)
           ++ writeFile cfg.fixed Consts.Obfs4.stateFile (encState (recOfJS js')), .ok i⟩

/-- one start of the bridge in directory `d`; `fresh` is what `newJSONServerState` would
    generate (`iat-mode` 0) -/
def start (cfg : Cfg) (d : Dir) (a : Args) (fresh : JS) : Result :=
  match a.priv, a.nodeID, a.seed with
  | none, none, none =>
    match get d Consts.Obfs4.stateFile with
    | none =>
      finish cfg (writeFile cfg.fixed Consts.Obfs4.stateFile (encState (recOfJS fresh))) fresh a.iat
    | some c =>
      match loadJS c with
      | none => ⟨[], .err⟩
      | some js => finish cfg [] js a.iat
  | some p, some n, some s => finish cfg [] ⟨n, p, [], s, 0⟩ a.iat
  | _, _, _ => ⟨[], .err⟩

/-! ## Write faults (the code as it is: `atomicfile.WriteFile`)

`write(2)` may fail or come up short (disk full, quota, file-size limit).  The check injects this
with `RLIMIT_FSIZE = k`: a file cannot grow beyond `k` bytes, a write that would cross the limit
is cut to it and the next one fails with `EFBIG`. -/

/-- `atomicfile.WriteFile` under a size limit of `k` bytes: the calls it performs and whether it
    succeeds.  On a write error the temp file is closed and removed; nothing is renamed. -/
def writeFileLim (k : Nat) (n : Name) (c : Bytes) : List Op × Bool :=
  if c.length ≤ k then (writeFile true n c, true)
  else
    (.openTrunc (tmpName n) ::
      ((if k = 0 then [] else [.write (tmpName n) (c.take k)]) ++ [.close (tmpName n), .unlink (tmpName n)]),
     false)

def finishLim (cfg : Cfg) (k : Nat) (pre : List Op) (js : JS) (iatArg : Option Bytes) : Result :=
  match iatChoice js iatArg with
  | none => ⟨pre, .err⟩
  | some iat =>
    let js' : JS := { js with iat := iat }
    match identOfJS js' with
    | none => ⟨pre, .err⟩
    | some i =>
      let b := writeFileLim k Consts.Obfs4.bridgeFile (bridgeText cfg i)
      if b.2 then
        let st := writeFileLim k Consts.Obfs4.stateFile (encState (recOfJS js'))
        ⟨pre ++ b.1 ++ st.1, if st.2 then .ok i else .err⟩
      else ⟨pre ++ b.1, .err⟩

/-- one start (repaired code) with every file write subject to the size limit `k` -/
def startLim (cfg : Cfg) (k : Nat) (d : Dir) (a : Args) (fresh : JS) : Result :=
  match a.priv, a.nodeID, a.seed with
  | none, none, none =>
    match get d Consts.Obfs4.stateFile with
    | none =>
      let w := writeFileLim k Consts.Obfs4.stateFile (encState (recOfJS fresh))
      if w.2 then finishLim cfg k w.1 fresh a.iat else ⟨w.1, .err⟩
    | some c =>
      match loadJS c with
      | none => ⟨[], .err⟩
      | some js => finishLim cfg k [] js a.iat
  | some p, some n, some s => finishLim cfg k [] ⟨n, p, [], s, 0⟩ a.iat
  | _, _, _ => ⟨[], .err⟩

/-! ## ScrambleSuit session tickets -/

structure Ticket where
  addr : Bytes
  kt : Bytes      -- base32(key ‖ ticket)
  issued : Bytes  -- digits of `issuedAt`
  deriving Repr, DecidableEq

def T1 : Bytes := ascii "\":{\"key-ticket\":\""
def T2 : Bytes := ascii "\",\"issuedAt\":"

def encTicket (t : Ticket) : Bytes := q :: (t.addr ++ (T1 ++ (t.kt ++ (T2 ++ (t.issued ++ [rb])))))

def encTicketList : List Ticket → Bytes
  | [] => []
  | [t] => encTicket t
  | t :: rest => encTicket t ++ 44 :: encTicketList rest

/-- `json.Marshal(map[string]*ssTicketJSON)` (the caller keeps the list sorted by address, as
    `encoding/json` sorts map keys) -/
def encTickets (ts : List Ticket) : Bytes := 123 :: (encTicketList ts ++ [rb])

/-- one `"addr":{"key-ticket":"…","issuedAt":n}` from the front of the input -/
def parseTicket (l : Bytes) : Option (Ticket × Bytes) :=
  match l with
  | [] => none
  | c :: l =>
  if c ≠ q then none else
  match splitAt1 q l with
  | none => none
  | some (addr, r) =>
  match stripPrefix (T1.drop 1) r with
  | none => none
  | some r =>
  match splitAt1 q r with
  | none => none
  | some (kt, r) =>
  match stripPrefix (T2.drop 1) r with
  | none => none
  | some r =>
  match splitAt1 rb r with
  | none => none
  | some (iss, r) => if iss ≠ [] ∧ iss.all isDigit then some (⟨addr, kt, iss⟩, r) else none

def parseTicketList : Nat → Bytes → Option (List Ticket)
  | 0, _ => none
  | fuel + 1, l =>
    match parseTicket l with
    | none => none
    | some (t, r) =>
      match r with
      | [c] => if c = rb then some [t] else none
      | c :: r' =>
        if c = 44 then
          match parseTicketList fuel r' with
          | some ts => some (t :: ts)
          | none => none
        else none
      | [] => none

def parseTickets (l : Bytes) : Option (List Ticket) :=
  match l with
  | 123 :: [125] => some []
  | 123 :: rest => parseTicketList rest.length rest
  | _ => none

/-- `ssTicket.isValid` at wall-clock second `now` -/
def ticketValid (now : Nat) (t : Ticket) : Bool :=
  digitsVal t.issued + Consts.Scramblesuit.ticketLifetime > now

/-- the `key-ticket` text has the shape of a padded base32 encoding of
    `ticketKeyLength + ticketLength` bytes (for 144 bytes: 231 alphabet characters and one `=`).
    Only the shape is modelled; texts written by `serialize` always have it. -/
def ktValid (t : Bytes) : Bool :=
  let n := Consts.Scramblesuit.ticketKeyLength + Consts.Scramblesuit.ticketLength
  let total := (n + 4) / 5 * 8
  let data := (n * 8 + 4) / 5
  t.length == total
    && (t.take data).all (fun c => (65 ≤ c.toNat && c.toNat ≤ 90) || (50 ≤ c.toNat && c.toNat ≤ 55))
    && (t.drop data).all (fun c => c == 61)

/-- `loadTicketStore`: `none` = `ClientFactory` fails (ScrambleSuit cannot start).
    Before the repair an unparsable file is an error; after it the tickets are forgotten. -/
def loadTickets (fixed : Bool) (now : Nat) (d : Dir) : Option (List Ticket) :=
  match get d Consts.Scramblesuit.ticketFile with
  | none => some []
  | some c =>
    match parseTickets c with
    | some ts => some (ts.filter (fun t => ktValid t.kt && ticketValid now t))
    | none => if fixed then some [] else none

def bytesLt : Bytes → Bytes → Bool
  | [], [] => false
  | [], _ :: _ => true
  | _ :: _, [] => false
  | a :: x, b :: y => a < b || (a == b && bytesLt x y)

/-- insert / replace keeping the list sorted by address (Go sorts map keys bytewise) -/
def putTicket (t : Ticket) : List Ticket → List Ticket
  | [] => [t]
  | u :: rest =>
    if u.addr = t.addr then t :: rest
    else if bytesLt t.addr u.addr then t :: u :: rest
    else u :: putTicket t rest

inductive TOp
  | store (t : Ticket)    -- `storeTicket` (a NewSessionTicket packet arrived)
  | take (addr : Bytes)   -- `getTicket` (a connection to `addr` is being made)
  deriving Repr, DecidableEq

/-- one store operation: new in-memory store and the system calls of its checkpoint -/
def ticketStep (fixed : Bool) (store : List Ticket) : TOp → List Ticket × List Op
  | .store t =>
    let s := putTicket t store
    (s, writeFile fixed Consts.Scramblesuit.ticketFile (encTickets s))
  | .take a =>
    if store.any (fun t => t.addr = a) then
      let s := store.filter (fun t => t.addr ≠ a)
      (s, writeFile fixed Consts.Scramblesuit.ticketFile (encTickets s))
    else (store, [])

def ticketRun (fixed : Bool) : List Ticket → List TOp → List Ticket × List Op
  | store, [] => (store, [])
  | store, op :: rest =>
    let (s, ops) := ticketStep fixed store op
    let (s', ops') := ticketRun fixed s rest
    (s', ops ++ ops')

end O4.SF
