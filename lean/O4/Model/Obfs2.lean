import O4.Model.Bytes
import O4.Model.StreamConn
import O4.Model.TapeRand
import O4.Model.Crypto.Sha256
import O4.Model.Crypto.Aes
import O4.Generated.Consts.Obfs2
/-!
# obfs2 endpoint (`transports/obfs2/obfs2.go`), line by line — core Lean only

Parametric in the primitives (`Prims`: SHA-256, the CTR stream function, what `aes.NewCipher` /
`cipher.NewCTR` accept) so that the theorems of `O4.Props.C14` hold for every keystream; `Prims.real`
is the executable instantiation used by the driver.

What the code does (and the model follows):
* `handshake()`: 16 seed bytes and the padding length (`csrand.IntRange(0, maxPadding)`) and the
  padding from `crypto/rand`; writes `seed` (raw) and then `E(padKey, magic ‖ padLen ‖ pad)` through
  the pad-key stream (two `Write`s on the net.Conn);
* three `io.ReadFull`s: 16 raw bytes (peer seed), 8 bytes *through the peer's pad-key stream*
  (header), `padLen` bytes **raw from the net.Conn** (`conn.Conn`, "Skips AES") — the padding is
  discarded without advancing the stream cipher, which is harmless because `kdf` replaces both
  stream ciphers right afterwards;
* `kdf`: `INIT/RESP_SECRET = MAC(label, initSeed ‖ respSeed)`, key = first `keyLen` bytes, IV = the
  rest; initiator sends with the INIT stream and receives with the RESP stream.
* `Read`/`Write`: `cipher.StreamReader` / `cipher.StreamWriter` (one net read / one net write per call).

Explicit `panic` outcomes (for C10): `m[:keyLen]` when the hash is shorter than `keyLen`,
`cipher.NewCTR` when the IV length is not the block size.
The handshake is a small-step `Machine` over the unread bytes of the connection: each step is one
`io.ReadFull` (it fires once the bytes are there; a `ReadFull` that got only part of its bytes keeps
them in its own buffer and blocks — observationally the same, also under EOF).
-/
namespace O4.Obfs2
open O4.SC
open O4.Consts.Obfs2

/-- error classes of the handshake -/
inductive Err
  /-- "invalid magic value" -/
  | badMagic
  /-- "padlen too long" -/
  | padTooLong
  /-- `io.ReadFull` hit EOF / a read error -/
  | eof
  /-- `aes.NewCipher` rejected the key length -/
  | cipherKey
deriving Repr, DecidableEq

/-- abnormal end of an operation: an error return or a Go run-time panic -/
inductive Stop
  | fail (e : Err)
  | panic
deriving Repr, DecidableEq

structure Prims where
  /-- `sha256` -/
  hash : Bytes → Bytes
  /-- CTR stream: `key iv off data` -/
  sxor : SXor
  /-- `aes.NewCipher` accepts the key -/
  keyOk : Bytes → Bool
  /-- `cipher.NewCTR` accepts the IV (panics otherwise) -/
  ivOk : Bytes → Bool

def Prims.real : Prims := ⟨Crypto.sha256, Crypto.aesCtrXor, Crypto.aesKeyOk, Crypto.aesIvOk⟩

variable (P : Prims)

/-- `mac(s, x) = H(s | x | s)` -/
def mac (s x : Bytes) : Bytes := P.hash (s ++ x ++ s)

/-- `hsKdf`: `m[:keyLen]`, `m[keyLen:]` (slice bounds panic if the digest is too short) -/
def hsKdf (magic seed : Bytes) : Except Stop (Bytes × Bytes) :=
  let m := mac P magic seed
  if keyLen ≤ m.length then .ok (m.take keyLen, m.drop keyLen) else .error .panic

/-- `aes.NewCipher(key)` then `cipher.NewCTR(block, iv)` -/
def newStream (key iv : Bytes) : Except Stop Stream :=
  if !P.keyOk key then .error (.fail .cipherKey)
  else if !P.ivOk iv then .error .panic
  else .ok { key := key, iv := iv, off := 0 }

/-- `hsKdf` + `NewCipher` + `NewCTR` -/
def kdfStream (label seed : Bytes) : Except Stop Stream := do
  let (k, iv) ← hsKdf P label seed
  newStream P k iv

def padString (initiator : Bool) : Bytes :=
  Bytes.ofString (if initiator then initiatorPadString else responderPadString)

inductive Phase
  /-- in `io.ReadFull(conn.Conn, peerSeed)` -/
  | seed
  /-- in `io.ReadFull(conn, hsHdr)` -/
  | hdr
  /-- in `io.ReadFull(conn.Conn, tmp)`, `len(tmp) = n` -/
  | pad (n : Nat)
  /-- handshake returned nil -/
  | done
  | failed (e : Err)
  | panicked
deriving Repr, DecidableEq

structure Conn where
  initiator : Bool
  /-- own seed -/
  seed : Bytes
  peerSeed : Bytes
  phase : Phase
  rx : Stream
  tx : Stream
  /-- bytes of peer-controlled size held by the handshake (`tmp`), for the C10 bound -/
  alloc : Nat
deriving Repr, DecidableEq

/-- a stream that is not there yet (`conn.rx == nil`) -/
def noStream : Stream := { key := [], iv := [], off := 0 }

/-- first half of `handshake()` with the random values given: returns the connection waiting for the
peer's seed and the two writes -/
def startWith (initiator : Bool) (seed : Bytes) (padLen : Nat) (pad : Bytes) :
    Except Stop (Conn × List Bytes) := do
  let tx0 ← kdfStream P (padString initiator) seed
  let hsBlob := Bytes.ofNatBE 4 magicValue ++ Bytes.ofNatBE 4 padLen ++ pad
  let (tx, enc) := tx0.xor P.sxor hsBlob
  pure ({ initiator := initiator, seed := seed, peerSeed := [], phase := .seed, rx := noStream,
          tx := tx, alloc := 0 }, [seed, enc])

/-- the randomness `handshake()` draws, in order: seed, `IntRange(0, maxPadding)`, `padLen` bytes.
Returns seed, padLen, pad and the number of tape bytes consumed. -/
def drawRandom (tape : Bytes) : Option (Bytes × Nat × Bytes × Nat) :=
  if tape.length < seedLen then none else
  match TapeRand.intRange 0 maxPadding (tape.drop seedLen) with
  | none => none
  | some (padLen, rest) =>
    if rest.length < padLen then none
    else some (tape.take seedLen, padLen, rest.take padLen, tape.length - rest.length + padLen)

/-- `combSeed` and the two session streams of `kdf`: `(initStream, respStream)` -/
def sessionStreams (initSeed respSeed : Bytes) : Except Stop (Stream × Stream) := do
  let comb := initSeed ++ respSeed
  let i ← kdfStream P (Bytes.ofString initiatorKdfString) comb
  let r ← kdfStream P (Bytes.ofString responderKdfString) comb
  pure (i, r)

/-- `conn.kdf(seed, peerSeed)` -/
def kdf (c : Conn) : Conn :=
  match (if c.initiator then sessionStreams P c.seed c.peerSeed
         else sessionStreams P c.peerSeed c.seed) with
  | .ok (i, r) =>
    { c with phase := .done, tx := if c.initiator then i else r, rx := if c.initiator then r else i }
  | .error (.fail e) => { c with phase := .failed e }
  | .error .panic => { c with phase := .panicked }

/-- the decision on the decrypted 8 header bytes -/
def checkHeader (hdr : Bytes) : Except Err Nat :=
  if Bytes.toNatBE (hdr.take 4) ≠ magicValue then .error .badMagic
  else
    let padLen := Bytes.toNatBE ((hdr.drop 4).take 4)
    if padLen > maxPadding then .error .padTooLong else .ok padLen

/-- one `io.ReadFull` of the handshake on the unread bytes `b` of the connection:
`none` = not enough bytes yet (blocked), otherwise the new state and the number of bytes consumed -/
def hsStep (c : Conn) (b : Bytes) : Option (Conn × Nat) :=
  match c.phase with
  | .seed =>
    if b.length < seedLen then none else
    let peerSeed := b.take seedLen
    match kdfStream P (padString (!c.initiator)) peerSeed with
    | .ok rx => some ({ c with peerSeed := peerSeed, rx := rx, phase := .hdr }, seedLen)
    | .error (.fail e) => some ({ c with peerSeed := peerSeed, phase := .failed e }, seedLen)
    | .error .panic => some ({ c with peerSeed := peerSeed, phase := .panicked }, seedLen)
  | .hdr =>
    if b.length < hsLen then none else
    let (rx, hdr) := c.rx.xor P.sxor (b.take hsLen)
    match checkHeader hdr with
    | .error e => some ({ c with rx := rx, phase := .failed e }, hsLen)
    | .ok padLen => some ({ c with rx := rx, phase := .pad padLen, alloc := padLen }, hsLen)
  | .pad n =>
    -- raw read: the stream cipher does not advance; n = 0 returns at once
    if b.length < n then none else some (kdf P c, n)
  | _ => none

/-- let up to `k` pending `io.ReadFull`s complete, as far as the queued bytes allow -/
def progressN : Nat → Conn × Net → Conn × Net
  | 0, cq => cq
  | k + 1, cq =>
    match hsStep P cq.1 cq.2.flatten with
    | none => cq
    | some (c', n) => progressN k (c', Net.dropBytes n cq.2)

/-- run the pending `ReadFull`s as far as the queued bytes allow (at most seed, header, padding) -/
def progress (c : Conn) (q : Net) : Conn × Net := progressN P 3 (c, q)

/-- chunks arrive one after the other; after each arrival the handshake runs as far as it can -/
def feedAll (c : Conn) (q : Net) : List Bytes → Conn × Net
  | [] => progress P c q
  | ch :: cs => feedAll (progress P c q).1 ((progress P c q).2.push ch) cs

/-- the connection's read side reports EOF / an error while a `ReadFull` is waiting -/
def eof (c : Conn) : Conn :=
  match c.phase with
  | .seed | .hdr | .pad _ => { c with phase := .failed .eof }
  | _ => c

/-- `obfs2Conn.Read(b)`, `len(b) = max > 0`, after a successful handshake: one net read, decrypted -/
def read (c : Conn) (max : Nat) (q : Net) : Option (Conn × Bytes × Net) :=
  match Net.read max q with
  | none => none
  | some (chunk, q') =>
    let (rx, plain) := c.rx.xor P.sxor chunk
    some ({ c with rx := rx }, plain, q')

/-- the `Read` whose `conn.Read` returns the final `chunk` (n > 0) **together with an error** (which
`io.Reader` permits): `cipher.StreamReader.Read` decrypts the n bytes and returns them along with
the error — nothing is lost. Returns the state and the bytes delivered with the error. -/
def readLast (c : Conn) (chunk : Bytes) : Conn × Bytes :=
  let (rx, plain) := c.rx.xor P.sxor chunk
  ({ c with rx := rx }, plain)

/-- `obfs2Conn.Write(b)` after a successful handshake: one net write of the same length -/
def write (c : Conn) (data : Bytes) : Conn × Bytes :=
  let (tx, wire) := c.tx.xor P.sxor data
  ({ c with tx := tx }, wire)

/-- a sequence of `Write` calls: final state and the wire segments -/
def writeAll (c : Conn) : List Bytes → Conn × List Bytes
  | [] => (c, [])
  | w :: ws => ((writeAll (write P c w).1 ws).1, (write P c w).2 :: (writeAll (write P c w).1 ws).2)

/-- a sequence of successful `Read` calls with arbitrary buffer sizes: the delivered pieces -/
inductive Reads : Conn → Net → List Bytes → Conn → Net → Prop
  | nil (c q) : Reads c q [] c q
  | cons {c q max c1 o q1 os c2 q2} : 0 < max → read P c max q = some (c1, o, q1) →
      Reads c1 q1 os c2 q2 → Reads c q (o :: os) c2 q2

end O4.Obfs2
