import O4.Model.Bytes
/-!
# Model of `common/log` `ElideError` / `ElideAddr` (C20). Core only.

Go strings are byte strings (`Bytes`).  `Err` is the shape of an `error` value built from the
standard network error types; `Err.error` is its `Error()` text exactly as the Go 1.23 standard
library prints it; `walk` is `errors.As(err, &netErr)` (the `Unwrap` chain walk) followed by the
type switch of `ElideError`.

`fixed = false` is the code before the repair of defect F6 (the `*net.OpError` branch printed
`t.Err.Error()` verbatim), `fixed = true` the repaired code (the inner error is sanitised too,
unless the first `net.Error` in its chain is a `syscall.Errno`, or there is none).
-/
namespace O4.LogElide
open O4

abbrev Str := Bytes

/-- ASCII literal -/
def asc (s : String) : Str := s.toList.map (fun c => UInt8.ofNat c.toNat)

inductive Err where
  /-- `&net.AddrError{Err, Addr}` -/
  | addrError (err addr : Str)
  /-- `&net.DNSError{Err, Name, Server}` (`UnwrapErr` is never looked at: the `DNSError` itself
      is a `net.Error`, and `Error()` does not print it) -/
  | dnsError (err name server : Str)
  /-- `net.InvalidAddrError(s)` (`ptr = false`) or a pointer to one -/
  | invalidAddrError (s : Str) (ptr : Bool)
  /-- `net.UnknownNetworkError(s)` or a pointer to one -/
  | unknownNetworkError (s : Str) (ptr : Bool)
  /-- `&net.OpError{Op, Net, Source, Addr, Err}`; `source`/`addr` are the `String()` of the
      `net.Addr` (`none` = nil interface) -/
  | opError (op net : Str) (source addr : Option Str) (inner : Err)
  /-- `&url.Error{Op, URL, Err}` (URL of characters that `%q` prints unescaped) -/
  | urlError (op url : Str) (inner : Err)
  /-- `&os.SyscallError{Syscall, Err}` -/
  | syscallError (syscall : Str) (inner : Err)
  /-- `fmt.Errorf(pre + "%w" + post, inner)` -/
  | wrap (pre post : Str) (inner : Err)
  /-- a `syscall.Errno` with the given text -/
  | errno (text : Str)
  /-- any other implementation of `net.Error` (`*net.ParseError`, `*poll.DeadlineExceededError`,
      …): its Go type name as `%T` prints it, and its text -/
  | otherNet (goType text : Str)
  /-- `errors.New(text)` -/
  | plain (text : Str)
deriving DecidableEq, Repr

def optAddr (pre : Str) : Option Str → Str
  | none => []
  | some a => pre ++ a

/-- `Error()` -/
def Err.error : Err → Str
  | .addrError err addr => if addr ≠ [] then asc "address " ++ addr ++ asc ": " ++ err else err
  | .dnsError err name server =>
    asc "lookup " ++ name ++ (if server ≠ [] then asc " on " ++ server else []) ++ asc ": " ++ err
  | .invalidAddrError s _ => s
  | .unknownNetworkError s _ => asc "unknown network " ++ s
  | .opError op net source addr inner =>
    op ++ (if net ≠ [] then asc " " ++ net else []) ++
      optAddr (asc " ") source ++
      (match addr with
       | none => []
       | some a => (if source.isSome then asc "->" else asc " ") ++ a) ++
      asc ": " ++ inner.error
  | .urlError op url inner => op ++ asc " \"" ++ url ++ asc "\": " ++ inner.error
  | .syscallError sc inner => sc ++ asc ": " ++ inner.error
  | .wrap pre post inner => pre ++ inner.error ++ post
  | .errno text => text
  | .otherNet _ text => text
  | .plain text => text

/-- `errors.As(err, &netErr)` with `netErr net.Error`: the first error of the `Unwrap` chain that
    has `Timeout()` and `Temporary()` -/
def findNet : Err → Option Err
  | .syscallError _ inner => findNet inner
  | .wrap _ _ inner => findNet inner
  | .plain _ => none
  | e => some e

/-- the test added by the repair in the `*net.OpError` branch: the inner error is printed as is
    iff `errors.As(t.Err, &innerErr)` fails or finds a `syscall.Errno` -/
def verbatimInner (inner : Err) : Bool :=
  match findNet inner with
  | none => true
  | some (.errno _) => true
  | some _ => false

def elided : Str := asc "[scrubbed]"

def typeOnly (goType : Str) : Str := asc "network error: <" ++ goType ++ asc ">"

/-- `errors.As` walk from `top` (currently at the second argument), then the type switch.
    `top` is only needed for the `!errors.As` exit, which returns `err.Error()`. -/
def walk (fixed : Bool) (top : Err) : Err → Str
  | .addrError err _ => err ++ asc " " ++ elided
  | .dnsError err _ _ => asc "lookup " ++ elided ++ asc " on " ++ elided ++ asc ": " ++ err
  | .invalidAddrError _ ptr =>
    if ptr then asc "invalid address error" else typeOnly (asc "net.InvalidAddrError")
  | .unknownNetworkError _ ptr =>
    if ptr then asc "unknown network " ++ elided else typeOnly (asc "net.UnknownNetworkError")
  | .opError op _ _ _ inner =>
    op ++ asc ": " ++
      (if fixed && !verbatimInner inner then walk fixed inner inner   -- `ElideError(t.Err)`
       else inner.error)
  | .urlError _ _ _ => typeOnly (asc "*url.Error")
  | .errno _ => typeOnly (asc "syscall.Errno")
  | .otherNet goType _ => typeOnly goType
  | .syscallError _ inner => walk fixed top inner
  | .wrap _ _ inner => walk fixed top inner
  | .plain _ => top.error

/-- `ElideError(err)` -/
def elideError (fixed unsafeLogging : Bool) (e : Err) : Str :=
  if unsafeLogging then e.error else walk fixed e e

/-- the repaired code / the code before the repair -/
def elideErrorFixed := elideError true
def elideErrorPreFix := elideError false

/-! ## `net.SplitHostPort` and `ElideAddr` -/

def COLON : UInt8 := 58
def LBR : UInt8 := 91
def RBR : UInt8 := 93

/-- `bytealg.IndexByteString` -/
def indexOf (c : UInt8) : Bytes → Option Nat
  | [] => none
  | x :: r => if x = c then some 0 else (indexOf c r).map (· + 1)

/-- `bytealg.LastIndexByteString` -/
def lastIndexOf (c : UInt8) : Bytes → Option Nat
  | [] => none
  | x :: r =>
    match lastIndexOf c r with
    | some i => some (i + 1)
    | none => if x = c then some 0 else none

/-- `net.SplitHostPort`: `none` = an error return -/
def splitHostPort (hp : Bytes) : Option (Bytes × Bytes) :=
  match lastIndexOf COLON hp with
  | none => none                                   -- missing port in address
  | some i =>
    let tail (j k : Nat) (host : Bytes) : Option (Bytes × Bytes) :=
      if (indexOf LBR (hp.drop j)).isSome then none       -- unexpected '[' in address
      else if (indexOf RBR (hp.drop k)).isSome then none  -- unexpected ']' in address
      else some (host, hp.drop (i + 1))
    if hp.head? = some LBR then
      match indexOf RBR hp with
      | none => none                               -- missing ']' in address
      | some e =>
        if e + 1 = hp.length then none             -- missing port
        else if e + 1 = i then tail 1 (e + 1) ((hp.take e).drop 1)
        else none                                  -- too many colons / missing port
    else
      let host := hp.take i
      if (indexOf COLON host).isSome then none     -- too many colons in address
      else tail 0 0 host

/-- `ElideAddr(addrStr)` -/
def elideAddr (unsafeLogging : Bool) (a : Bytes) : Bytes :=
  if unsafeLogging then a
  else match splitHostPort a with
    | some (_, port) => elided ++ asc ":" ++ port
    | none => elided

end O4.LogElide
