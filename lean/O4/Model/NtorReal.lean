import O4.Model.Ntor
import O4.Model.Crypto.Hmac
import O4.Model.Crypto.X25519
/-!
# The concrete instantiation of the ntor model (C08): HMAC-SHA256, `curve25519.ScalarMult`, HKDF-SHA256,
and the input checks of the exported constructors (`NewPublicKey`, `NewNodeID`, `KeypairFromHex`).
Core Lean only.
-/
namespace O4.Ntor
open O4.Crypto O4.Consts.Ntor

/-- the primitives `common/ntor` uses -/
def realPrims : Prims where
  hmac := hmacSha256
  x25519 := x25519
  hkdf := hkdf

/-- `NewPublicKey(raw)`: only the length is checked — every 32-byte string is accepted -/
def newPublicKey (raw : Bytes) : Option Bytes :=
  if raw.length ≠ publicKeyLength then none else some raw

/-- `NewNodeID(raw)` -/
def newNodeID (raw : Bytes) : Option Bytes :=
  if raw.length ≠ nodeIDLength then none else some raw

/-- `KeypairFromHex` after hex decoding: `(private, public)` with `public = curve25519.ScalarBaseMult(private)` -/
def keypairFromBytes (raw : Bytes) : Option (Bytes × Bytes) :=
  if raw.length ≠ privateKeyLength then none else some (raw, x25519Base raw)

/-- `CompareAuth(auth1, auth2)` = `hmac.Equal`: equal lengths and equal contents -/
def compareAuth (auth1 auth2 : Bytes) : Bool := auth1 == auth2

/-- `Kdf(keySeed, okmLen)`; `none` = the `BUG: Failed HKDF` panic past `255*32` bytes -/
def kdfReal (keySeed : Bytes) (n : Nat) : Option Bytes :=
  if n ≤ hkdfMax then some (kdf realPrims keySeed n) else none

end O4.Ntor
