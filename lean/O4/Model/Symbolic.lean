import O4.Model.Ntor
/-!
# Symbolic (Dolev–Yao) model of the ntor handshake as obfs4 runs it (C02). Core only.

A first-order **term algebra** with decidable equality, an attacker **deduction relation**, and
the protocol terms built exactly the way `O4.Ntor.ntorCommon` / `clientHandshake` /
`serverHandshake` build the byte strings (same order of the fields, the identity key twice).

* Names (`Name`): the bridge identity secret `b`, the ephemeral secret `x` of the client under
  attack, the ephemeral secrets `y j` of the sessions of the honest bridge, and the scalars `e i`
  of the attacker (every other client is the attacker: it may know their ephemerals).
* Group elements are kept in **normal form**: `gexp s` is the base point raised to the product of
  the scalars in the sorted list `s`, so that the Diffie–Hellman equation
  `exp (exp g a) c = exp (exp g c) a` holds by computation (`ins` = sorted insertion).
  `xp t n` is the *stuck* exponentiation of a term that is not a group element (the real code
  treats any 32 bytes as a point; no equation is assumed for such values).
* `hmac k m` is a free constructor (perfect keyed hash), `pair` is concatenation of
  fixed-width fields (uniquely parsable), `const` the public constants.

The interpretation `interp` maps a term to the byte string the code computes for it, given the
real primitives and a valuation of the names; `O4.SymLemmas.interp_clientAuth` shows that the
symbolic client AUTH denotes exactly `(Ntor.clientHandshake …).2.2`.
-/
namespace O4.Sym

/-- scalars -/
inductive Name
  /-- the bridge's private identity key -/
  | b
  /-- the ephemeral private key of the client under attack -/
  | x
  /-- ephemeral private key of session `j` of the honest bridge -/
  | y (j : Nat)
  /-- scalars chosen by the attacker (an unbounded supply) -/
  | e (i : Nat)
deriving DecidableEq, Repr

/-- the names the attacker is not given -/
def Name.secret : Name → Bool
  | .e _ => false
  | _ => true

/-- a total order on names (`b < y j < e i < x`), used only to normalise exponents -/
def Name.le : Name → Name → Bool
  | .b, _ => true
  | .y _, .b => false
  | .y j, .y k => Nat.ble j k
  | .y _, _ => true
  | .e _, .b => false
  | .e _, .y _ => false
  | .e i, .e k => Nat.ble i k
  | .e _, .x => true
  | .x, .x => true
  | .x, _ => false

/-- public constants -/
inductive Const
  | nodeID | protoID | tMac | tKey | tVerify | server
  /-- any other public / attacker-chosen byte string (padding, …) -/
  | data (i : Nat)
deriving DecidableEq, Repr

inductive Term
  /-- a scalar as data -/
  | nm (n : Name)
  /-- the base point raised to the product of the (sorted) scalars `s` -/
  | gexp (s : List Name)
  | const (c : Const)
  /-- concatenation of two fixed-width fields -/
  | pair (a b : Term)
  | hmac (k m : Term)
  /-- stuck exponentiation: `t` is not a group element of the model -/
  | xp (t : Term) (n : Name)
deriving DecidableEq, Repr

namespace Term
scoped infixr:67 " ∥ " => Term.pair
end Term
open Term

/-- sorted insertion -/
def ins (a : Name) : List Name → List Name
  | [] => [a]
  | h :: t => if a.le h then a :: h :: t else h :: ins a t

/-- `curve25519.ScalarMult(n, t)` on terms -/
def exp : Term → Name → Term
  | .gexp s, n => .gexp (ins n s)
  | t, n => .xp t n

/-- the base point -/
def g : Term := .gexp []
/-- the public key of a scalar: `exp g n` -/
def pub (n : Name) : Term := .gexp [n]

/-- number of secret scalars in an exponent -/
def secretCount (s : List Name) : Nat := s.countP Name.secret

/-! ## attacker deduction -/

/-- what an attacker knowing the terms `K` can compute: pairing and projection, keyed hashing of
    derivable key and message, exponentiation of a derivable term by a **derivable scalar**.
    No inversion of `hmac`, no discrete logarithm, no extraction of an exponent. -/
inductive Derivable (K : Term → Prop) : Term → Prop
  | ax {t} : K t → Derivable K t
  | pair {a b} : Derivable K a → Derivable K b → Derivable K (.pair a b)
  | fst {a b} : Derivable K (.pair a b) → Derivable K a
  | snd {a b} : Derivable K (.pair a b) → Derivable K b
  | hmac {k m} : Derivable K k → Derivable K m → Derivable K (.hmac k m)
  | exp {t n} : Derivable K t → Derivable K (.nm n) → Derivable K (exp t n)

/-- knowledge extended by one term -/
def withTerm (K : Term → Prop) (u : Term) : Term → Prop := fun t => K t ∨ t = u

/-! ## the protocol, field by field as in `O4.Ntor` -/

/-- `Ntor.suffix`: `B ‖ B ‖ X ‖ Y ‖ PROTOID ‖ ID` -/
def suffix (id B X Y : Term) : Term := B ∥ B ∥ X ∥ Y ∥ .const .protoID ∥ id

/-- `Ntor.ntorCommon`: (KEY_SEED, AUTH) from the two DH results -/
def ntorCommon (e1 e2 id B X Y : Term) : Term × Term :=
  let secretInput := e1 ∥ e2 ∥ suffix id B X Y
  let keySeed := Term.hmac (.const .tKey) secretInput
  let verify := Term.hmac (.const .tVerify) secretInput
  let auth := Term.hmac (.const .tMac) (verify ∥ suffix id B X Y ∥ .const .server)
  (keySeed, auth)

/-- `Ntor.serverHandshake(clientPublic X, (y, Y), (b, B), id)` -/
def serverHandshake (X : Term) (yk : Name) (Y : Term) (bk : Name) (B id : Term) : Term × Term :=
  ntorCommon (exp X yk) (exp X bk) id B X Y

/-- `Ntor.clientHandshake((x, X), serverPublic Y, idPublic B, id)` -/
def clientHandshake (xk : Name) (X Y B id : Term) : Term × Term :=
  ntorCommon (exp Y xk) (exp B xk) id B X Y

/-- the AUTH value the client under attack (ephemeral `x`, bridge line `(NODEID, B = g^b)`)
    compares the received AUTH field with, when the received server public key is `Y` -/
def clientAuth (Y : Term) : Term :=
  (clientHandshake .x (pub .x) Y (pub .b) (.const .nodeID)).2

/-- the KEY_SEED of that client -/
def clientKeySeed (Y : Term) : Term :=
  (clientHandshake .x (pub .x) Y (pub .b) (.const .nodeID)).1

/-- session `j` of the **honest bridge** (holder of `b`), answering the client public key
    `Xin` with its fresh ephemeral `y j`: the AUTH field it sends … -/
def srvAuth (Xin : Term) (j : Nat) : Term :=
  (serverHandshake Xin (.y j) (pub (.y j)) .b (pub .b) (.const .nodeID)).2

/-- … and its KEY_SEED (never sent; given to the attacker to model the compromise of the
    session keys of every other session) -/
def srvKeySeed (Xin : Term) (j : Nat) : Term :=
  (serverHandshake Xin (.y j) (pub (.y j)) .b (pub .b) (.const .nodeID)).1

/-- **The attacker's knowledge.**  `srvIn j` is the client public key session `j` of the honest
    bridge received — ANY term, chosen by the attacker (it may be the observed `X`, its own
    `g^e`, anything); the theorems quantify over all `srvIn`, which covers every adaptive choice
    because knowledge only grows.  The attacker knows: every public constant (NODEID, PROTOID,
    the HMAC labels, arbitrary data), the base point, the bridge public key `B`, the observed
    client public key `X`, its own scalars `e i`, and of EVERY session `j` of the honest bridge
    the server public key `Y_j`, the AUTH field sent, and even the session's KEY_SEED.
    It is given neither `b` nor `x` nor any `y j`. -/
def K0 (srvIn : Nat → Term) (t : Term) : Prop :=
  (∃ c, t = .const c) ∨ t = g ∨ t = pub .b ∨ t = pub .x ∨ (∃ i, t = .nm (.e i)) ∨
  (∃ j, t = pub (.y j)) ∨ (∃ j, t = srvAuth (srvIn j) j) ∨ (∃ j, t = srvKeySeed (srvIn j) j)

/-! ## interpretation in bytes -/

/-- the byte string a term denotes, for primitives `P`, a valuation `ρ` of the scalars, the
    base point, the node ID and the data constants.  `gexp s` is the ladder applied along `s`. -/
def interp (P : Ntor.Prims) (ρ : Name → Bytes) (base id : Bytes) (dat : Nat → Bytes) : Term → Bytes
  | .nm n => ρ n
  | .gexp s => s.foldl (fun acc n => P.x25519 (ρ n) acc) base
  | .const .nodeID => id
  | .const .protoID => Ntor.bs Consts.Ntor.protoID
  | .const .tMac => Ntor.bs Consts.Ntor.tMac
  | .const .tKey => Ntor.bs Consts.Ntor.tKey
  | .const .tVerify => Ntor.bs Consts.Ntor.tVerify
  | .const .server => Ntor.bs "Server"
  | .const (.data i) => dat i
  | .pair a b => interp P ρ base id dat a ++ interp P ρ base id dat b
  | .hmac k m => P.hmac (interp P ρ base id dat k) (interp P ρ base id dat m)
  | .xp t n => P.x25519 (ρ n) (interp P ρ base id dat t)

end O4.Sym
