/-!
# Bytes — byte strings as `List UInt8`, hex, big-endian integers.
Core Lean only (no Mathlib): every model file must link into the `o4driver` executable.
-/
namespace O4

abbrev Bytes := List UInt8

namespace Bytes

def hexDigit (n : Nat) : Char :=
  if n < 10 then Char.ofNat (48 + n) else Char.ofNat (87 + n)

def toHex (b : Bytes) : String :=
  if b.isEmpty then "-" else
  String.ofList (b.foldr (fun x acc => hexDigit (x.toNat / 16) :: hexDigit (x.toNat % 16) :: acc) [])

def hexVal (c : Char) : Option Nat :=
  if '0' ≤ c ∧ c ≤ '9' then some (c.toNat - 48)
  else if 'a' ≤ c ∧ c ≤ 'f' then some (c.toNat - 87)
  else if 'A' ≤ c ∧ c ≤ 'F' then some (c.toNat - 55)
  else none

def ofHexChars : List Char → Option Bytes
  | [] => some []
  | [_] => none
  | a :: b :: rest => do
    let x ← hexVal a
    let y ← hexVal b
    let r ← ofHexChars rest
    pure (UInt8.ofNat (x * 16 + y) :: r)

/-- `-` denotes the empty string on the wire of the line protocol. -/
def ofHex (s : String) : Option Bytes :=
  if s == "-" then some [] else ofHexChars s.toList

/-- big-endian encoding of `n` on exactly `len` bytes (high bytes dropped if `n` is too large). -/
def ofNatBE : (len : Nat) → Nat → Bytes
  | 0, _ => []
  | len + 1, n => ofNatBE len (n / 256) ++ [UInt8.ofNat (n % 256)]

def toNatBE (b : Bytes) : Nat := b.foldl (fun acc x => acc * 256 + x.toNat) 0

def toNatLE (b : Bytes) : Nat := b.foldr (fun x acc => acc * 256 + x.toNat) 0

def ofNatLE : (len : Nat) → Nat → Bytes
  | 0, _ => []
  | len + 1, n => UInt8.ofNat (n % 256) :: ofNatLE len (n / 256)

def xor (a b : Bytes) : Bytes := List.zipWith (· ^^^ ·) a b

def ofString (s : String) : Bytes := s.toUTF8.toList

def zeros (n : Nat) : Bytes := List.replicate n 0

end Bytes
end O4
