import O4.Model.Bytes
import O4.Lemmas.Incremental
import O4.Generated.Consts.Framing
/-!
# Model of `transports/obfs4/framing` (C01, C05, C06). Core only.

The link crypto of one direction is abstract (`Crypto`): the theorems quantify over all
instances satisfying explicit hypotheses, the driver instantiates it with the executable
XSalsa20-Poly1305 / SipHash-DRBG primitives.  Frame index `k` counts accepted frames; the
secretbox nonce counter of frame `k` (0-based) is `k+1` (`boxNonce.init` sets it to 1).
-/
namespace O4.Framing
open O4.Consts.Framing

def be16 (b : Bytes) : Nat := (b.getD 0 0).toNat * 256 + (b.getD 1 0).toNat
def putBe16 (n : Nat) : Bytes := [UInt8.ofNat (n / 256), UInt8.ofNat (n % 256)]

/-- the nonce counter is a `uint64` -/
def ctrLimit : Nat := 2 ^ 64

/-- per-direction link crypto, abstract -/
structure Crypto where
  /-- `secretbox.Seal` under the direction key with nonce `prefix ‖ be64 ctr` : tag ‖ ciphertext -/
  sealB : Nat → Bytes → Bytes
  openB : Nat → Bytes → Option Bytes
  /-- first two bytes (big endian) of the `k`-th DRBG block of the direction, `k` from 0 -/
  mask  : Nat → Nat
  /-- the value `csrand.IntRange(minFrameLength, maxFrameLength)` returns when frame `k` has
      an out-of-range length -/
  rnd   : Nat → Nat

inductive Err
  | tagMismatch
  | nonceWrapped
deriving DecidableEq, Repr

inductive Out
  | frame (pkt : Bytes)
  | err (e : Err)
deriving DecidableEq, Repr

/-- `Decoder` state: frames accepted so far; `nextLength`/`nextLengthInvalid` when known -/
structure Dec where
  k : Nat
  pending : Option (Nat × Bool)
deriving DecidableEq, Repr

def Dec.init : Dec := ⟨0, none⟩

/-- One phase of `Decoder.Decode`.  `none` = `ErrAgain`.  A `Decode` call is the length phase
    (when `nextLength == 0`) followed by the box phase. -/
def step (c : Crypto) (s : Dec) (b : Bytes) : Option (Dec × List Out × Nat) :=
  match s.pending with
  | none =>
    if b.length < lengthLength then none
    else if (s.k + 1) % ctrLimit = 0 then some (s, [Out.err .nonceWrapped], lengthLength)
    else
      let len := be16 b ^^^ (c.mask s.k % 65536)
      if maxFrameLength < len ∨ len < minFrameLength then
        some ({ s with pending := some (c.rnd s.k, true) }, [], lengthLength)
      else some ({ s with pending := some (len, false) }, [], lengthLength)
  | some (len, inv) =>
    if b.length < len then none else
    match c.openB (s.k + 1) (b.take len), inv with
    | some pkt, false => some (⟨s.k + 1, none⟩, [Out.frame pkt], len)
    | _, _ => some (s, [Out.err .tagMismatch], len)

def decoder (c : Crypto) : Machine Dec Out := ⟨step c⟩

inductive EncErr
  | invalidPayloadLength
  | nonceWrapped
deriving DecidableEq, Repr

/-- `Encoder.Encode` of the frame with index `k` (the destination buffer is always large enough
    in the callers, `io.ErrShortBuffer` is not modelled) -/
def encodeFrame (c : Crypto) (k : Nat) (pkt : Bytes) : Except EncErr Bytes :=
  if maximumFramePayloadLength < pkt.length then .error .invalidPayloadLength
  else if (k + 1) % ctrLimit = 0 then .error .nonceWrapped
  else
    let box := c.sealB (k + 1) pkt
    .ok (putBe16 (box.length ^^^ (c.mask k % 65536)) ++ box)

/-- honest encoding of a list of packets starting at frame index `k` (all within limits) -/
def frameOf (c : Crypto) (k : Nat) (pkt : Bytes) : Bytes :=
  putBe16 ((c.sealB (k + 1) pkt).length ^^^ (c.mask k % 65536)) ++ c.sealB (k + 1) pkt

def encodeAll (c : Crypto) : Nat → List Bytes → Bytes
  | _, [] => []
  | k, p :: ps => frameOf c k p ++ encodeAll c (k + 1) ps

/-- run the decoder to quiescence (executable; `fuel` steps) -/
def run (c : Crypto) : Nat → Dec → Bytes → Dec × List Out × Bytes
  | 0, s, b => (s, [], b)
  | fuel + 1, s, b =>
    match step c s b with
    | none => (s, [], b)
    | some (s', o, n) =>
      let (s'', os, r) := run c fuel s' (b.drop n)
      (s'', o ++ os, r)

end O4.Framing
