import O4.Model.GoRand
import O4.Model.Drbg
import O4.Generated.Consts.Probdist
/-!
# Model of `common/probdist` (C12, C09). Core only, generic in the number type (`NumOps`).

`New/Reset`: `rng := rand.New(drbg.NewHashDrbg(seed))`, then `genValues`, `genBiasedWeights` or
`genUniformWeights`, `genTables` (Vose's alias method with two FIFO work lists, exactly the
loop structure of the Go code, including the two clean-up loops).  `Sample` draws a die with
`csrand.Intn(len(values))` and a coin with `csrand.Float64()`.

The tables under construction are functions `Nat → _` (updated point-wise) and become lists at
the end; the arithmetic and its order are those of the Go code, which is all the
floating-point result depends on.
-/
namespace O4.ProbDist
open O4.GoRand

def minValues : Nat := O4.Consts.Probdist.minValues
def maxValues : Nat := O4.Consts.Probdist.maxValues

section
variable {σ : Type} (src : Source σ)

/-- `genValues`: a random-length prefix of a random permutation of `[0, max-min]`. -/
def genValues (minValue maxValue : Int) (s : σ) : Option (List Nat × σ) :=
  let nValues := (maxValue + 1 - minValue).toNat
  match perm src nValues s with
  | none => none
  | some (values, s1) =>
    let nV := if nValues < minValues then minValues else nValues
    let nV := if nV > maxValues then maxValues else nV
    match intn src nV s1 with
    | none => none
    | some (k, s2) => some (values.take (k + 1), s2)

variable {α : Type} (ops : NumOps α)

/-- `genBiasedWeights`: `p := (1.0 - culmProb) * rng.Float64(); culmProb += p` -/
def genBiasedWeights : (n : Nat) → (culm : α) → σ → Option (List α × σ)
  | 0, _, s => some ([], s)
  | n + 1, culm, s =>
    match float64 src ops s with
    | none => none
    | some (f, s1) =>
      let p := ops.mul (ops.sub ops.one culm) f
      match genBiasedWeights n (ops.add culm p) s1 with
      | none => none
      | some (ws, s2) => some (p :: ws, s2)

/-- `genUniformWeights` -/
def genUniformWeights : (n : Nat) → σ → Option (List α × σ)
  | 0, s => some ([], s)
  | n + 1, s =>
    match float64 src ops s with
    | none => none
    | some (f, s1) =>
      match genUniformWeights n s1 with
      | none => none
      | some (ws, s2) => some (f :: ws, s2)

end

/-! ## `genTables` — Vose's alias method -/

/-- point-wise update -/
def upd {β : Type} (f : Nat → β) (i : Nat) (v : β) : Nat → β := fun j => if j = i then v else f j

/-- state of the construction: the two FIFO work lists and the three arrays -/
structure VState (α : Type) where
  small : List Nat
  large : List Nat
  scaled : Nat → α
  prob : Nat → α
  ali : Nat → Nat

variable {α : Type} (ops : NumOps α)

/-- scaled probabilities `p_i := weight * float64(n) / sum` and the initial work lists -/
def voseInit (weights : List α) : VState α :=
  let n := weights.length
  let sum := weights.foldl ops.add ops.zero
  let scaledL := weights.map (fun w => ops.div (ops.mul w (ops.ofNat n)) sum)
  let scaled : Nat → α := fun i => scaledL.getD i ops.zero
  { small := (List.range n).filter (fun i => ops.lt (scaled i) ops.one)
    large := (List.range n).filter (fun i => !ops.lt (scaled i) ops.one)
    scaled := scaled
    prob := fun _ => ops.zero
    ali := fun _ => 0 }

/-- one iteration of the main loop with `l`, `g` already removed from the fronts -/
def voseIter (s : VState α) (l g : Nat) (sm lg : List Nat) : VState α :=
  let sg := ops.sub (ops.add (s.scaled g) (s.scaled l)) ops.one
  { small := if ops.lt sg ops.one then sm ++ [g] else sm
    large := if ops.lt sg ops.one then lg else lg ++ [g]
    scaled := upd s.scaled g sg
    prob := upd s.prob l (s.scaled l)
    ali := upd s.ali l g }

/-- `for small.Len() > 0 && large.Len() > 0 { … }` (each iteration shortens the two lists by
    one element in total, so `fuel = n` suffices) -/
def voseLoop : Nat → VState α → VState α
  | 0, s => s
  | f + 1, s =>
    match s.small, s.large with
    | l :: sm, g :: lg => voseLoop f (voseIter ops s l g sm lg)
    | _, _ => s

/-- the two clean-up loops: `prob[g] = 1` for what is left in `large`, then in `small` -/
def voseFinish (s : VState α) : VState α :=
  { s with
    small := []
    large := []
    prob := fun i => if s.large.contains i || s.small.contains i then ops.one else s.prob i }

/-- `genTables`: the alias and prob tables -/
def genTables (weights : List α) : List Nat × List α :=
  let n := weights.length
  let s := voseFinish ops (voseLoop ops n (voseInit ops weights))
  ((List.range n).map s.ali, (List.range n).map s.prob)

/-- `WeightedDist` -/
structure Dist (α : Type) where
  minValue : Int
  maxValue : Int
  biased : Bool
  values : List Nat
  weights : List α
  ali : List Nat
  prob : List α

/-- the body of `Reset` over an arbitrary source -/
def build {σ : Type} (src : Source σ) (minValue maxValue : Int) (biased : Bool) (s : σ) :
    Option (Dist α × σ) :=
  match genValues src minValue maxValue s with
  | none => none
  | some (values, s1) =>
    match (if biased then genBiasedWeights src ops values.length ops.zero s1
           else genUniformWeights src ops values.length s1) with
    | none => none
    | some (weights, s2) =>
      let t := genTables ops weights
      some (⟨minValue, maxValue, biased, values, weights, t.1, t.2⟩, s2)

/-- the DRBG as a `rand.Source` -/
def drbgSource : Source O4.Drbg.HashDrbg := ⟨O4.Drbg.HashDrbg.int63⟩

/-- the tables as a function of seed, bounds and bias -/
def tablesOf (seed : Bytes) (minValue maxValue : Int) (biased : Bool) : Option (Dist α) :=
  (build ops drbgSource minValue maxValue biased (O4.Drbg.newHashDrbg seed)).map Prod.fst

/-- `New(seed, min, max, biased)`; `none` = the Go panic for `max <= min` (or fuel) -/
def new (seed : Bytes) (minValue maxValue : Int) (biased : Bool) : Option (Dist α) :=
  if maxValue ≤ minValue then none else tablesOf ops seed minValue maxValue biased

/-- `Reset(seed)`: new tables with the same bounds and bias -/
def Dist.reset (d : Dist α) (seed : Bytes) : Option (Dist α) :=
  tablesOf ops seed d.minValue d.maxValue d.biased

/-- the deterministic part of `Sample`, given the die `i` and the coin -/
def Dist.sampleWith (d : Dist α) (die : Nat) (coin : α) : Int :=
  let idx := if ops.le coin (d.prob.getD die ops.zero) then die else d.ali.getD die 0
  d.minValue + (d.values.getD idx 0 : Nat)

/-- `Sample()` over a source standing for `csrand.Rand` -/
def Dist.sample {σ : Type} (src : Source σ) (d : Dist α) (s : σ) : Option (Int × σ) :=
  match intn src d.values.length s with
  | none => none
  | some (i, s1) =>
    match float64 src ops s1 with
    | none => none
    | some (c, s2) => some (d.sampleWith ops i c, s2)

end O4.ProbDist
