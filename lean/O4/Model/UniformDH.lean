import O4.Model.Bytes
import O4.Model.Crypto.ModExp
import O4.Generated.Consts.Uniformdh
/-!
# `common/uniformdh` line by line (UniformDH of the obfs3 specification)

`generateKey` (192 private bytes → key pair, the low bit of the private number is the X / p−X coin),
`PublicKey.SetBytes`, `Handshake`. The modulus is parsed from the generated constant
`O4.Consts.Uniformdh.modpStr` (the Go constant `modpStr`, RFC 3526 group 5). Core Lean only.
-/
namespace O4.UniformDH
open O4.Crypto

/-- `Size` = 1536/8 -/
def size : Nat := O4.Consts.Uniformdh.size

/-- `big.Int.SetString(s, 16)`: `none` on a non-hex character or the empty string -/
def parseHexNat (s : String) : Option Nat :=
  if s.isEmpty then none else
  s.toList.foldl (fun acc c => do
    let a ← acc
    let v ← Bytes.hexVal c
    pure (a * 16 + v)) (some 0)

/-- `modpGroup`; the Go initialiser panics when the string does not parse — here the modulus would
be 0 and nothing below could agree with the implementation -/
def modpGroup : Nat := (parseHexNat O4.Consts.Uniformdh.modpStr).getD 0

/-- `gen = big.NewInt(g)` -/
def gen : Nat := O4.Consts.Uniformdh.g

/-- `PrivateKey` (with its embedded `PublicKey{bytes, publicKey}`) -/
structure PrivateKey where
  /-- `PublicKey.bytes`: what is sent, the encoding of X or of p−X -/
  pubBytes : Bytes
  /-- `PublicKey.publicKey`: always X -/
  publicKey : Nat
  /-- `privateKey`: the private number with its low bit cleared -/
  privateKey : Nat

/-- `big.Int.FillBytes` into a `Size`-byte buffer (big-endian, zero-extended) -/
def fillBytes (n : Nat) : Bytes := Bytes.ofNatBE size n

/-- `generateKey(privBytes)`; `none` = the "invalid private key size" error -/
def generateKey (privBytes : Bytes) : Option PrivateKey :=
  if privBytes.length ≠ size then none else
  -- pick a random 1536-bit number, and make it even by setting its low bit to 0
  let privBn := Bytes.toNatBE privBytes
  let wasEven := privBn % 2 == 0
  let privBn := privBn - privBn % 2
  -- Let x be that private key, and X = g^x (mod p).
  let pubBn := modExp gen privBn modpGroup
  let pubAlt := modpGroup - pubBn
  -- send X or p-X by the (masked out) lowest bit of the private key
  let pubBytes := if wasEven then fillBytes pubBn else fillBytes pubAlt
  some { pubBytes := pubBytes, publicKey := pubBn, privateKey := privBn }

/-- `PublicKey.SetBytes`: the peer's number, *not* reduced and not range-checked; `none` = length error -/
def publicSetBytes (pubBytes : Bytes) : Option Nat :=
  if pubBytes.length ≠ size then none else some (Bytes.toNatBE pubBytes)

/-- `Handshake(privateKey, publicKey)`: `peer^x mod p` on 192 bytes -/
def handshake (priv : PrivateKey) (peerPublic : Nat) : Bytes :=
  fillBytes (modExp peerPublic priv.privateKey modpGroup)

/-- both steps from wire/private bytes -/
def sharedSecret (privBytes peerPubBytes : Bytes) : Option Bytes := do
  let k ← generateKey privBytes
  let y ← publicSetBytes peerPubBytes
  pure (handshake k y)

end O4.UniformDH
