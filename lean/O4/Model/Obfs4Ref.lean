import O4.Model.Handshake
import O4.Model.Obfs4Conn
import O4.Model.Drbg
import O4.Model.CsRand
import O4.Model.Crypto.Sha512
import O4.Model.Crypto.Hmac
import O4.Model.Crypto.Secretbox
import O4.Model.Crypto.X25519
import O4.Model.Crypto.Elligator
/-!
# The Lean reference implementation of obfs4 (C06 "independent implementation"; used by C02–C04)

Everything concrete: the parametric handshake / framing / packet models instantiated with the
executable primitives (`Handshake.Prims.real`), plus the pieces of `obfs4.go`, `ntor.go` and
`csrand` that turn **random bytes** into wire bytes.  Randomness is an explicit byte tape (what
the real endpoint read from `crypto/rand.Reader`, in order); time is an explicit epoch hour.
Core only.

Order of the draws, as in the Go code:

* client: `ParseArgs` → `ntor.NewKeypair(true)` (32 bytes per attempt); `Dial` →
  `drbg.NewSeed()` (24 bytes, the client's provisional length-distribution seed),
  `csrand.IntRange(clientMinPadLength, clientMaxPadLength)` (8 bytes per `Int63`),
  `makePad(padLen)`.
* server: `WrapConn` → `ntor.NewKeypair(true)`, `csrand.IntRange(serverMinPadLength,
  serverMaxPadLength)` (both *before* the first `Read`); after the client handshake was
  accepted → `makePad(padLen)`.

Deployed format, where doc/obfs4-spec.txt and the code differ the code wins (property C06):
`okm[0:72]` = client→server key block, `okm[72:144]` = server→client; a key block is
box key (32) ‖ nonce prefix (16) ‖ DRBG seed (24 = SipHash key 16 ‖ OFB IV 8); nonce = prefix ‖
big-endian 64-bit counter starting at 1; length mask of frame `k` = first two bytes (big endian)
of DRBG block `k` where the SipHash state is *running* (never reset between blocks).
-/
namespace O4.Handshake

/-- the real primitives -/
def Prims.real : Prims where
  hmac := Crypto.hmacSha256
  x25519 := Crypto.x25519
  hkdf := Crypto.hkdf
  reprToPublic := Crypto.representativeToPublic

end O4.Handshake

namespace O4.Ref
open O4.Consts.Obfs4 O4.Consts.Ntor O4.Crypto O4.Handshake

/-! ## randomness: a byte tape -/

/-- `csrand.Bytes(buf)` with `len(buf) = n`: the next `n` tape bytes; `none` = tape exhausted -/
def takeN (n : Nat) (tape : Bytes) : Option (Bytes × Bytes) :=
  if tape.length < n then none else some (tape.take n, tape.drop n)

/-- `csrand.IntRange(lo, hi)` over the tape (`math/rand.Intn` over `csRandSource`) -/
def intRange (lo hi : Nat) (tape : Bytes) : Option (Nat × Bytes) :=
  match CsRand.intRange GoRand.tapeSource (lo : Int) (hi : Int) ⟨tape, false⟩ with
  | .ok v t => if t.short then none else some (v.toNat, t.data)
  | _ => none

/-- `makePad` -/
def makePad (padLen : Nat) (tape : Bytes) : Option (Bytes × Bytes) := takeN padLen tape

/-! ## `ntor.NewKeypair(true)` -/

structure Keypair where
  priv : Bytes
  pub : Bytes
  repr : Bytes
deriving DecidableEq, Repr

/-- the (public key, representative) pair of `x25519ell2.ScalarBaseMult`, re-checked to be two
    32-byte arrays (they are Go `[32]byte`s).  The check never fires — the byte-level tie would
    show a missing key pair — it only makes the lengths available to the theorems without case
    analysis through the curve arithmetic. -/
def checkedPair (o : Option (Bytes × Bytes)) : Option (Bytes × Bytes) :=
  match o with
  | some (pub, repr) =>
    if pub.length = publicKeyLength ∧ repr.length = representativeLength then some (pub, repr) else none
  | none => none

/-- one iteration of the `for` loop of `NewKeypair(true)` on 32 fresh random bytes:
    private key = SHA-512(bytes)[0:32], tweak = SHA-512(bytes)[63]; `none` = no representative -/
def keypairOf (rnd32 : Bytes) : Option Keypair :=
  (checkedPair (scalarBaseMultDirty ((sha512 rnd32).take privateKeyLength) ((sha512 rnd32).getD 63 0))).map
    (fun pr => ⟨(sha512 rnd32).take privateKeyLength, pr.1, pr.2⟩)

/-- the rejection loop: retry with the next 32 tape bytes (about half of all keys have no
    representative).  `fuel` bounds the attempts; `none` = tape exhausted / out of fuel. -/
def newKeypair : Nat → Bytes → Option (Keypair × Bytes)
  | 0, _ => none
  | fuel + 1, tape =>
    match takeN privateKeyLength tape with
    | none => none
    | some (r, rest) =>
      match keypairOf r with
      | some kp => some (kp, rest)
      | none => newKeypair fuel rest

def keypairFuel : Nat := 512

/-- `ntor.KeypairFromHex`: the identity key pair (no Elligator) -/
def identityPublic (idPriv : Bytes) : Bytes := x25519Base idPriv

/-! ## the link crypto of one direction, from its 72-byte key block -/

/-- `boxNonce.bytes`: prefix ‖ 64-bit big-endian counter -/
def nonceBytes (pfx : Bytes) (ctr : Nat) : Bytes := pfx ++ Bytes.ofNatBE Consts.Framing.nonceCounterLength ctr

def boxKey (key : Bytes) : Bytes := key.take Consts.Framing.keyLength
def noncePrefix (key : Bytes) : Bytes := (key.drop Consts.Framing.keyLength).take Consts.Framing.noncePrefixLength
def drbgSeed (key : Bytes) : Bytes :=
  key.drop (Consts.Framing.keyLength + Consts.Framing.noncePrefixLength)

/-- DRBG block `k` (from 0) of the generator seeded with `seed`; the SipHash state keeps running -/
def drbgBlock (seed : Bytes) (k : Nat) : Bytes :=
  ((Drbg.newHashDrbg seed).after k).nextBlock.1

/-- `binary.BigEndian.Uint16(lengthMask)` of frame `k` -/
def lengthMask (seed : Bytes) (k : Nat) : Nat := Framing.be16 (drbgBlock seed k)

/-- `NewEncoder(key)` / `NewDecoder(key)` as a `Framing.Crypto`.  `rnd` is the oracle for
    `csrand.IntRange(minFrameLength, maxFrameLength)` after an out-of-range length. -/
def linkCrypto (key : Bytes) (rnd : Nat → Nat := fun _ => Consts.Framing.maxFrameLength) : Framing.Crypto where
  sealB n p := secretboxSeal (boxKey key) (nonceBytes (noncePrefix key) n) p
  openB n b := secretboxOpen (boxKey key) (nonceBytes (noncePrefix key) n) b
  mask k := lengthMask (drbgSeed key) k
  rnd := rnd

/-! ## packets -/

/-- the inverse view of `makePacket`: (type, payload, padding) of a frame plaintext;
    `none` where `readPackets` reports an invalid packet / payload length -/
def splitPacket (pkt : Bytes) : Option (Nat × Bytes × Bytes) :=
  if pkt.length < packetOverhead then none else
  let payloadLen := Framing.be16 (pkt.drop 1)
  if payloadLen > pkt.length - packetOverhead then none
  else some ((pkt.getD 0 0).toNat, (pkt.drop 3).take payloadLen, (pkt.drop 3).drop payloadLen)

/-! ## key schedule -/

structure LinkKeys where
  enc : Bytes
  dec : Bytes
deriving DecidableEq, Repr

def clientKeys (keySeed : Bytes) : LinkKeys :=
  let o := okm Prims.real keySeed
  ⟨clientEncKey o, clientDecKey o⟩

def serverKeys (keySeed : Bytes) : LinkKeys :=
  let o := okm Prims.real keySeed
  ⟨serverEncKey o, serverDecKey o⟩

/-! ## client -/

structure ClientStart where
  hs : Handshake.Client
  lenSeed : Bytes       -- `drbg.NewSeed()` of `newObfs4ClientConn`
  padLen : Nat
  blob : Bytes          -- what `clientHandshake` writes
  rest : Bytes          -- unused tape
deriving Repr

/-- `ParseArgs` (session key) followed by `Dial` up to and including the write of the client
    handshake, at epoch hour `hour` -/
def clientStart (nodeID idPub : Bytes) (hour : Int) (tape : Bytes) : Option ClientStart :=
  match newKeypair keypairFuel tape with
  | none => none
  | some (kp, t1) =>
    match takeN Drbg.seedLength t1 with
    | none => none
    | some (seed, t2) =>
      match intRange clientMinPadLength clientMaxPadLength t2 with
      | none => none
      | some (padLen, t3) =>
        match makePad padLen t3 with
        | none => none
        | some (pad, t4) =>
          some { hs := { xPriv := kp.priv, xPub := kp.pub, xRepr := kp.repr, idPub := idPub,
                         nodeID := nodeID, hour := hour, cache := none }
                 lenSeed := seed, padLen := padLen
                 blob := clientBlob Prims.real idPub nodeID kp.repr pad hour
                 rest := t4 }

/-- the client's read loop body: the whole receive buffer is re-parsed; on success the link
    keys and the surplus (bytes behind the server handshake: the seed frame, data) -/
def clientFeed (c : Handshake.Client) (buf : Bytes) :
    Handshake.Client × Except HsErr (LinkKeys × Bytes) :=
  match parseServerHandshake Prims.real c buf with
  | (c', .err e) => (c', .error e)
  | (c', .ok n seed) => (c', .ok (clientKeys seed, buf.drop n))

/-! ## server -/

structure ServerStart where
  hs : Handshake.Server
  padLen : Nat
  rest : Bytes
deriving Repr

/-- `WrapConn` up to the first `Read`: session key pair and `newServerHandshake`'s padLen -/
def serverStart (nodeID idPriv : Bytes) (tape : Bytes) : Option ServerStart :=
  match newKeypair keypairFuel tape with
  | none => none
  | some (kp, t1) =>
    match intRange serverMinPadLength serverMaxPadLength t1 with
    | none => none
    | some (padLen, t2) =>
      some { hs := { yPriv := kp.priv, yPub := kp.pub, yRepr := kp.repr, idPriv := idPriv,
                     idPub := identityPublic idPriv, nodeID := nodeID, cache := none,
                     hour := none, auth := none }
             padLen := padLen, rest := t2 }

/-- the PRNG-seed packet sent right behind the server handshake: `makePacket(prngSeed, seed, 0)`
    through the fresh server encoder (frame index 0, nonce counter 1).  Unpadded. -/
def seedFrame (encKey lenSeed : Bytes) : Option Bytes :=
  match Obfs4.makePacket packetTypePrngSeed lenSeed 0 with
  | none => none
  | some pkt =>
    match Framing.encodeFrame (linkCrypto encKey) 0 pkt with
    | .ok f => some f
    | .error _ => none

structure ServerDone where
  response : Bytes      -- Y' ‖ AUTH ‖ P_S ‖ M_S ‖ MAC_S
  seedFrame : Bytes
  keys : LinkKeys
  rest : Bytes
deriving Repr

/-- after `parseClientHandshake` succeeded (`s.hour`, `s.auth` set): `generateHandshake`
    (draws the padding) and the inline seed frame; both go out in one `Write` -/
def serverFinish (s : Handshake.Server) (keySeed lenSeed : Bytes) (padLen : Nat) (tape : Bytes) :
    Option ServerDone :=
  match s.hour, s.auth with
  | some hour, some auth =>
    match makePad padLen tape with
    | none => none
    | some (pad, rest) =>
      let keys := serverKeys keySeed
      match seedFrame keys.enc lenSeed with
      | none => none
      | some sf =>
        some { response := serverBlob Prims.real s.idPub s.nodeID s.yRepr auth pad hour
               seedFrame := sf, keys := keys, rest := rest }
  | _, _ => none

/-! ## data phase of one endpoint -/

structure Link where
  keys : LinkKeys
  encK : Nat := 0                      -- frames sent
  dec : Framing.Dec := Framing.Dec.init
  rxBuf : Bytes := []
  dead : Bool := false                 -- a decode error was reported
deriving Repr

inductive TxErr
  | packetTooBig          -- the `panic("BUG: makePacket() …")`
  | frame (e : Framing.EncErr)
deriving DecidableEq, Repr

/-- `makePacket(w, ty, data, padLen)`: the frame written, encoder advanced -/
def Link.send (l : Link) (ty : Nat) (data : Bytes) (padLen : Nat) : Except TxErr (Bytes × Link) :=
  match Obfs4.makePacket ty data padLen with
  | none => .error .packetTooBig
  | some pkt =>
    match Framing.encodeFrame (linkCrypto l.keys.enc) l.encK pkt with
    | .ok f => .ok (f, { l with encK := l.encK + 1 })
    | .error e => .error (.frame e)

/-- decode whatever complete frames the buffer holds; stops at the first error -/
def decodeLoop (c : Framing.Crypto) : Nat → Framing.Dec → Bytes → List Bytes →
    Framing.Dec × Bytes × List Bytes × Option Framing.Err
  | 0, s, b, acc => (s, b, acc, none)
  | fuel + 1, s, b, acc =>
    match Framing.step c s b with
    | none => (s, b, acc, none)
    | some (s', outs, n) =>
      match outs with
      | [Framing.Out.frame pkt] => decodeLoop c fuel s' (b.drop n) (acc ++ [pkt])
      | [Framing.Out.err e] => (s', b.drop n, acc, some e)
      | _ => decodeLoop c fuel s' (b.drop n) acc

/-- feed received bytes; the frame plaintexts decoded, in order, and the frame error if any -/
def Link.recv (l : Link) (chunk : Bytes) (rnd : Nat → Nat := fun _ => Consts.Framing.maxFrameLength) :
    Link × List Bytes × Option Framing.Err :=
  let buf := l.rxBuf ++ chunk
  let (d, rest, pkts, err) := decodeLoop (linkCrypto l.keys.dec rnd) (buf.length + 2) l.dec buf []
  ({ l with dec := d, rxBuf := rest, dead := l.dead || err.isSome }, pkts, err)

/-! ## a man in the middle who knows only the public bridge line (C02) -/

structure Forged where
  yRepr : Bytes
  auth : Bytes
  keySeed : Bytes
  rest : Bytes
deriving Repr

/-- what an impostor can compute for the client representative `xRepr`: an own ephemeral key pair
    (from the tape), DH with its **own** identity private key `bPriv`, and the ntor tags over a
    transcript naming the identity public key `bTranscript` (its own, or the genuine public one) -/
def forgeNtor (nodeID bTranscript bPriv xRepr tape : Bytes) : Option Forged :=
  match newKeypair keypairFuel tape with
  | none => none
  | some (kp, rest) =>
    let X := Prims.real.reprToPublic xRepr
    let exps := Prims.real.x25519 kp.priv X ++ Prims.real.x25519 bPriv X
    let (ks, auth) := Ntor.ntorCommon Prims.real.toPrims exps nodeID bTranscript X kp.pub
    some ⟨kp.repr, auth, ks, rest⟩

/-- anyone who knows `B` and `NODEID` can wrap arbitrary `Y' ‖ AUTH ‖ P_S` into a response with a
    valid mark and MAC -/
def forgeBlob (nodeID idPub yRepr auth pad : Bytes) (hour : Int) : Bytes :=
  serverBlob Prims.real idPub nodeID yRepr auth pad hour

end O4.Ref
