import O4.Model.Crypto.SipHash
import O4.Generated.Consts.Drbg
/-!
# Model of `common/drbg` (C12, C09, framing length masks). Core only.

`HashDrbg` keeps a **running** `siphash.Hash64` (`sip`) and the last output (`ofb`).
`NextBlock` writes `ofb` into the running hash, takes `Sum` (which finalises a copy and does
not reset), stores it as the new `ofb` and returns it.  Hence block *n* is SipHash-2-4 over the
*accumulated* input `IV ‖ out₁ ‖ … ‖ out_{n-1}` (not over the previous block alone, as
doc/obfs4-spec.txt suggests) — `C12.drbg_is_ofb`.
-/
namespace O4.Drbg
open O4.Crypto

/-- `drbg.Size`, `drbg.SeedLength` -/
def size : Nat := O4.Consts.Drbg.size
def seedLength : Nat := O4.Consts.Drbg.seedLength

/-- `SeedFromBytes`: rejects short input, truncates long input to `SeedLength`. -/
def seedFromBytes (src : Bytes) : Option Bytes :=
  if src.length < seedLength then none else some (src.take seedLength)

structure HashDrbg where
  sip : SipHash.Digest
  ofb : Bytes
deriving DecidableEq, Repr

/-- `NewHashDrbg(seed)` for a non-nil seed (24 bytes): SipHash key = first 16 bytes, IV = rest. -/
def newHashDrbg (seed : Bytes) : HashDrbg :=
  let k := sipKey (seed.take 16)
  ⟨SipHash.Digest.new k.1 k.2, (seed.drop 16).take size⟩

/-- `NextBlock` -/
def HashDrbg.nextBlock (d : HashDrbg) : Bytes × HashDrbg :=
  let sip := d.sip.write d.ofb
  let out := SipHash.leBytes sip.sum64
  (out, ⟨sip, out⟩)

/-- `Int63`: big-endian word of the block with the top bit cleared -/
def HashDrbg.int63 (d : HashDrbg) : Nat × HashDrbg :=
  let (b, d') := d.nextBlock
  ((SipHash.beWord b &&& 0x7fffffffffffffff).toNat, d')

/-- the first `n` blocks -/
def HashDrbg.blocks : Nat → HashDrbg → List Bytes
  | 0, _ => []
  | n + 1, d => let (b, d') := d.nextBlock; b :: HashDrbg.blocks n d'

/-- the state after `n` blocks -/
def HashDrbg.after : Nat → HashDrbg → HashDrbg
  | 0, d => d
  | n + 1, d => HashDrbg.after n d.nextBlock.2

end O4.Drbg
