import O4.Model.ScrambleSuit
import O4.Model.Base32
/-!
# `scramblesuit_tickets.json`: `serialize` and `loadTicketStore` on files of that shape. Core only.

`json.Marshal(map[string]*ssTicketJSON)` emits the keys sorted and no white space:
`{"<addr>":{"key-ticket":"<base32>","issuedAt":<int>},…}`.  Addresses are `net.Addr.String()`
values; the model covers those that need no JSON escaping (`serialize` returns `none` otherwise).
`load` is the model of `loadTicketStore` on files of exactly this shape (what `serialize`
writes, possibly with edited field contents); any other shape is outside the model (`none`) —
torn or foreign files are property C18's subject.
-/
namespace O4.SS

/-- characters `encoding/json` copies verbatim into a string literal (ASCII subset) -/
def jsonPlain (c : Char) : Bool :=
  c.toNat ≥ 0x20 ∧ c.toNat < 0x7f ∧ c ≠ '"' ∧ c ≠ '\\' ∧ c ≠ '<' ∧ c ≠ '>' ∧ c ≠ '&'

def strLe (a b : String) : Bool := a < b || a == b

def Ticket.json (t : Ticket) : String :=
  "{\"key-ticket\":\"" ++ Base32.encode (t.key ++ t.ticket) ++ "\",\"issuedAt\":" ++ toString t.issuedAt ++ "}"

/-- `serialize()`: the bytes handed to `os.WriteFile` -/
def Store.serialize (s : Store) : Option String :=
  if s.any (fun e => ¬ e.1.toList.all jsonPlain) then none else
  let es := s.mergeSort (fun a b => strLe a.1 b.1)
  some ("{" ++ ",".intercalate (es.map (fun e => "\"" ++ e.1 ++ "\":" ++ e.2.json)) ++ "}")

namespace FileParse

def lit (p : List Char) (cs : List Char) : Option (List Char) :=
  if p.isPrefixOf cs then some (cs.drop p.length) else none

/-- a string literal without escapes: returns content and the rest after the closing quote -/
def str (cs : List Char) : Option (String × List Char) :=
  match cs with
  | '"' :: r =>
    let body := r.takeWhile (· ≠ '"')
    if body.all jsonPlain then
      match r.drop body.length with
      | '"' :: rest => some (String.ofList body, rest)
      | _ => none
    else none
  | _ => none

def int (cs : List Char) : Option (Int × List Char) :=
  let (neg, r) := match cs with
    | '-' :: r => (true, r)
    | r => (false, r)
  let ds := r.takeWhile Char.isDigit
  if ds.isEmpty then none else
  match (String.ofList ds).toNat? with
  | none => none
  | some n => some (if neg then -(n : Int) else n, r.drop ds.length)

/-- one `"addr":{"key-ticket":"…","issuedAt":n}` -/
def entry (cs : List Char) : Option ((String × String × Int) × List Char) := do
  let (addr, r) ← str cs
  let r ← lit ":{\"key-ticket\":".toList r
  let (kt, r) ← str r
  let r ← lit ",\"issuedAt\":".toList r
  let (n, r) ← int r
  let r ← lit "}".toList r
  pure ((addr, kt, n), r)

def entries : (fuel : Nat) → List Char → Option (List (String × String × Int) × List Char)
  | 0, _ => none
  | fuel + 1, cs => do
    let (e, r) ← entry cs
    match r with
    | ',' :: r' =>
      let (es, r'') ← entries fuel r'
      pure (e :: es, r'')
    | _ => pure ([e], r)

def file (s : String) : Option (List (String × String × Int)) :=
  let cs := s.toList
  if cs = "{}".toList then some [] else do
    let r ← lit "{".toList cs
    let (es, r) ← entries (cs.length + 1) r
    if r = "}".toList then pure es else none

end FileParse

/-- `loadTicketStore` on a file of the `serialize` shape, at wall-clock second `now`: corrupt
    base32 / wrong length and expired tickets are skipped; a later duplicate key wins (as in
    `json.Unmarshal` into a map) -/
def Store.load (file : String) (now : Int) : Option Store := do
  let es ← FileParse.file file
  pure (es.foldl (fun (s : Store) (e : String × String × Int) =>
    let (addr, kt, issued) := e
    match Base32.decode kt with
    | none => s.erase addr   -- the later duplicate replaces the map entry, then is skipped
    | some raw =>
      if raw.length ≠ O4.Consts.Scramblesuit.ticketKeyLength + O4.Consts.Scramblesuit.ticketLength then s.erase addr
      else
        let t : Ticket := ⟨raw.take O4.Consts.Scramblesuit.ticketKeyLength, raw.drop O4.Consts.Scramblesuit.ticketKeyLength, issued⟩
        if t.isValid now then (addr, t) :: s.erase addr else s.erase addr) [])

end O4.SS
