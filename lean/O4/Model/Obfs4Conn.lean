import O4.Model.Framing
import O4.Generated.Consts.Obfs4
/-!
# Model of the obfs4 data phase: packets, `readPackets`, `Read`, the sender's packetisation
(`transports/obfs4/packet.go`, `obfs4.go`).  Core only.  (C01, C05, C10)
-/
namespace O4.Obfs4
open O4.Consts.Obfs4 O4.Framing

/-! ## packets -/

/-- `makePacket`'s plaintext: type ‖ be16 len(data) ‖ data ‖ zero padding.
    `none` = the `panic("BUG: makePacket() …")` precondition failure. -/
def makePacket (ty : Nat) (data : Bytes) (padLen : Nat) : Option Bytes :=
  if data.length + padLen > maxPacketPayloadLength then none
  else some (UInt8.ofNat ty :: putBe16 data.length ++ data ++ Bytes.zeros padLen)

inductive RxErr
  | frame (e : Framing.Err)
  | invalidPacketLength (n : Nat)
  | invalidPayloadLength (n : Nat)
  | net (cls : String)          -- the error the underlying conn's Read returned
deriving DecidableEq, Repr

/-- what the receiver does with one authenticated frame plaintext -/
inductive PktAct
  | payload (b : Bytes)     -- appended to receiveDecodedBuffer
  | seed (b : Bytes)        -- client only: length/IAT distributions are reset from this seed
  | ignored                 -- empty payload, padding only, unknown type, seed on the server
  | bad (e : RxErr)
deriving DecidableEq, Repr

/-- the packet-decoding part of the `readPackets` loop body, with its two range checks
    performed before any slicing -/
def parsePacket (isServer : Bool) (pkt : Bytes) : PktAct :=
  if pkt.length < packetOverhead then .bad (.invalidPacketLength pkt.length)
  else
    let payloadLen := be16 (pkt.drop 1)
    if payloadLen > pkt.length - packetOverhead then .bad (.invalidPayloadLength payloadLen)
    else
      let payload := (pkt.drop 3).take payloadLen
      let ty := (pkt.getD 0 0).toNat
      if ty = packetTypePayload then
        if payloadLen > 0 then .payload payload else .ignored
      else if ty = packetTypePrngSeed then
        if payload.length = seedPacketPayloadLength ∧ !isServer then .seed payload else .ignored
      else .ignored

/-- the application bytes a frame plaintext contributes -/
def payloadOf (isServer : Bool) (pkt : Bytes) : Bytes :=
  match parsePacket isServer pkt with
  | .payload b => b
  | _ => []

/-! ## the receive side as a small-step machine -/

inductive RxOut
  | act (a : PktAct)
  | err (e : RxErr)
deriving DecidableEq, Repr

def liftOut (isServer : Bool) : Framing.Out → RxOut
  | .frame pkt => match parsePacket isServer pkt with
    | .bad e => .err e
    | a => .act a
  | .err e => .err (.frame e)

/-- one decoder phase followed by the packet handling of the frame it may have produced -/
def rxStep (c : Crypto) (isServer : Bool) (s : Dec) (b : Bytes) : Option (Dec × List RxOut × Nat) :=
  match Framing.step c s b with
  | none => none
  | some (s', o, n) => some (s', o.map (liftOut isServer), n)

def rxMachine (c : Crypto) (isServer : Bool) : Machine Dec RxOut := ⟨rxStep c isServer⟩

/-- receive-side connection state -/
structure Rx where
  dec : Dec
  rxBuf : Bytes          -- receiveBuffer
  decoded : Bytes        -- receiveDecodedBuffer
  seeds : List Bytes     -- seeds adopted so far (client), oldest first
deriving DecidableEq, Repr

def Rx.init : Rx := ⟨Dec.init, [], [], []⟩

def Rx.apply (rx : Rx) : RxOut → Rx
  | .act (.payload b) => { rx with decoded := rx.decoded ++ b }
  | .act (.seed b) => { rx with seeds := rx.seeds ++ [b] }
  | _ => rx

def isErr : RxOut → Option RxErr
  | .err e => some e
  | _ => none

/-- the `bufferLoop` of `readPackets`: decode frames out of `receiveBuffer` until it is empty,
    more data is needed (`ErrAgain`), or an error occurs (returned).  `fuel` bounds the number
    of decoder phases; `procFuel` always suffices (`Lemmas/Obfs4Chunk.lean: processBuffer_spec`):
    `2 * |rxBuf| + [pending known]` strictly decreases with every non-error phase.
    (The Go loop condition `receiveBuffer.Len() > 0` needs no separate test: with an empty buffer
    both decoder phases answer `ErrAgain`, because a pending length is never 0 in the real code —
    `csrand.IntRange` stays within `[minFrameLength, maxFrameLength]`; the model is faithful for
    `Crypto.rnd` with values in that range, the theorems hold for every `rnd`.) -/
def processBuffer (c : Crypto) (isServer : Bool) : Nat → Rx → Rx × Option RxErr
  | 0, rx => (rx, none)
  | fuel + 1, rx =>
    match rxStep c isServer rx.dec rx.rxBuf with
    | none => (rx, none)
    | some (d, outs, n) =>
      let rx1 := outs.foldl Rx.apply { rx with dec := d, rxBuf := rx.rxBuf.drop n }
      match outs.findSome? isErr with
      | some e => (rx1, some e)
      | none => processBuffer c isServer fuel rx1

def procFuel (rx : Rx) : Nat := 2 * rx.rxBuf.length + 2

/-- what the underlying `net.Conn.Read` returned: `n, nil` or `n, err` (a `net.Conn` may return
    bytes together with an error; `readPackets` buffers and decodes them before it reports the
    error, so the model does too; EOF/reset/timeout normally come with `chunk = []`) -/
inductive NetEv
  | data (chunk : Bytes)
  | fail (chunk : Bytes) (cls : String)
deriving DecidableEq, Repr

/-- `readPackets`: one network read, then the buffer loop; a network error takes priority -/
def readPackets (c : Crypto) (isServer : Bool) (rx : Rx) : NetEv → Rx × Option RxErr
  | .data chunk =>
    let rx1 := { rx with rxBuf := rx.rxBuf ++ chunk }
    processBuffer c isServer (procFuel rx1) rx1
  | .fail chunk cls =>
    let rx0 := { rx with rxBuf := rx.rxBuf ++ chunk }
    let (rx1, _) := processBuffer c isServer (procFuel rx0) rx0
    (rx1, some (.net cls))

inductive ReadResult
  | ret (rx : Rx) (bytes : Bytes) (err : Option RxErr) (rest : List NetEv)
  | blocked (rx : Rx)      -- nothing decoded and the network has nothing to offer yet
deriving Repr

/-- `obfs4Conn.Read(b)` with `len(b) = n`, against the list of results the network will give. -/
def read (c : Crypto) (isServer : Bool) (n : Nat) : Rx → List NetEv → ReadResult
  | rx, evs =>
    if rx.decoded.length > 0 then
      .ret { rx with decoded := rx.decoded.drop n } (rx.decoded.take n) none evs
    else match evs with
      | [] => .blocked rx
      | ev :: rest =>
        let (rx1, err) := readPackets c isServer rx ev
        match err with
        | some e =>
          .ret { rx1 with decoded := rx1.decoded.drop n } (rx1.decoded.take n) (some e) rest
        | none => read c isServer n rx1 rest

/-! ## the send side: packetisation of one `Write` -/

/-- chop `data` into maximum-size payload chunks -/
def chop (sz : Nat) (data : Bytes) : List Bytes :=
  if h : sz = 0 ∨ data = [] then [] else
    data.take sz :: chop sz (data.drop sz)
termination_by data.length
decreasing_by
  simp only [not_or] at h
  have : data.length ≠ 0 := fun h0 => h.2 (List.eq_nil_of_length_eq_zero h0)
  simp only [List.length_drop]; omega

/-- packets of one `Write(data)` followed by padding packets with the given padding lengths -/
def txPackets (data : Bytes) (pads : List Nat) : List (Option Bytes) :=
  (chop maxPacketPayloadLength data).map (fun ch => makePacket packetTypePayload ch 0) ++
  pads.map (fun p => makePacket packetTypePayload [] p)

end O4.Obfs4
