import O4.Model.Bytes
/-! `bytes.Index` semantics and its stability under buffer growth (core only).
Used by every handshake re-parser that searches a mark/magic in a growing buffer. -/
namespace O4.Idx

/-- bytes.Index: position of the first occurrence of `pat` in `b` -/
def indexOf (pat : Bytes) : Bytes → Option Nat
  | [] => if pat = [] then some 0 else none
  | c :: r =>
    if pat.isPrefixOf (c :: r) then some 0
    else (indexOf pat r).map (· + 1)

/-- `pat` occurs in `w` at offset `q` -/
def OccursAt (pat w : Bytes) (q : Nat) : Prop := pat <+: w.drop q ∧ q + pat.length ≤ w.length

theorem isPrefixOf_iff (p l : Bytes) : p.isPrefixOf l = true ↔ p <+: l := List.isPrefixOf_iff_prefix

/-- characterisation: indexOf = some q iff pat occurs at q and at no earlier offset -/
theorem indexOf_eq_some (pat : Bytes) (hp : pat ≠ []) (w : Bytes) (q : Nat) :
    indexOf pat w = some q ↔ (pat <+: w.drop q ∧ ∀ q' < q, ¬ pat <+: w.drop q') := by
  induction w generalizing q with
  | nil =>
    simp only [indexOf, hp, ↓reduceIte, List.drop_nil, List.prefix_nil, false_and]
    simp
  | cons c r ih =>
    unfold indexOf
    by_cases h0 : pat.isPrefixOf (c :: r) = true
    · simp only [h0, ↓reduceIte, Option.some.injEq]
      constructor
      · rintro rfl; exact ⟨by simpa using (isPrefixOf_iff _ _).mp h0, by simp⟩
      · rintro ⟨_, hmin⟩
        cases q with
        | zero => rfl
        | succ q => exact absurd (by simpa using (isPrefixOf_iff _ _).mp h0) (hmin 0 (by omega))
    · simp only [h0, Bool.false_eq_true, ↓reduceIte]
      have h0' : ¬ pat <+: c :: r := fun h => h0 ((isPrefixOf_iff _ _).mpr h)
      cases q with
      | zero =>
        simp only [Option.map_eq_some_iff, Nat.add_eq_zero_iff, Nat.succ_ne_self, and_false,
          exists_const, List.drop_zero, false_iff]
        exact fun h => h0' h.1
      | succ q =>
        simp only [Option.map_eq_some_iff, Nat.add_right_cancel_iff, exists_eq_right,
          List.drop_succ_cons]
        rw [ih q]
        constructor
        · rintro ⟨h1, h2⟩
          refine ⟨h1, fun q' hq' => ?_⟩
          cases q' with
          | zero => simpa using h0'
          | succ q' => simpa using h2 q' (by omega)
        · rintro ⟨h1, h2⟩
          exact ⟨h1, fun q' hq' => by simpa using h2 (q'+1) (by omega)⟩

/-- occurrences in a prefix are occurrences in the whole -/
theorem prefix_drop_mono (pat p e : Bytes) (q : Nat) (h : pat <+: p.drop q) (hq : q + pat.length ≤ p.length) :
    pat <+: (p ++ e).drop q := by
  rw [List.drop_append_of_le_length (by omega)]
  exact h.trans (List.prefix_append _ _)

/-- and, for a non-empty pattern, an occurrence in the whole that fits inside the prefix is one in the prefix -/
theorem prefix_drop_anti (pat p e : Bytes) (q : Nat) (h : pat <+: (p ++ e).drop q)
    (hq : q + pat.length ≤ p.length) : pat <+: p.drop q := by
  rw [List.drop_append_of_le_length (by omega)] at h
  have hl : pat.length ≤ (p.drop q).length := by simp; omega
  exact List.prefix_of_prefix_length_le h (List.prefix_append _ _) hl

/-- STABILITY: if the first occurrence of `pat` in the full stream `p ++ e` is at `q`
    then every prefix `p` that already contains those bytes finds it at `q`,
    and every prefix that does not yet contain them finds nothing earlier than `q`. -/
theorem indexOf_stable (pat p e : Bytes) (hp : pat ≠ []) (q : Nat)
    (hfull : indexOf pat (p ++ e) = some q) (hq : q + pat.length ≤ p.length) :
    indexOf pat p = some q := by
  rw [indexOf_eq_some pat hp] at hfull ⊢
  obtain ⟨h1, h2⟩ := hfull
  refine ⟨prefix_drop_anti pat p e q h1 hq, fun q' hq' hpre => h2 q' hq' ?_⟩
  have : q' + pat.length ≤ p.length := by omega
  exact prefix_drop_mono pat p e q' hpre this

end O4.Idx
