import O4.Model.Bytes
/-!
# Text encodings of the bridge line: Go's `encoding/base64.StdEncoding` and `encoding/hex`

Core Lean only.  Text is modelled as `Bytes` (ASCII codes), exactly what a Go `string` holds.

* `B64.encode` = `base64.StdEncoding.EncodeToString` (alphabet `A–Za–z0–9+/`, padding `=`).
* `B64.decode` = `base64.StdEncoding.DecodeString` (non-strict: `\r`/`\n` are skipped wherever
  they occur, input is consumed in quanta of four characters, the last quantum may be `xx==`
  or `xxx=`, nothing may follow the padding, an unpadded partial quantum is an error, the
  unused low bits of a padded quantum are ignored).  `none` = any `CorruptInputError`.
* `Hex.encode` = `hex.EncodeToString` (lower case), `Hex.decode` = `hex.DecodeString`
  (either case, even length).
-/
namespace O4

/-- ASCII text literal as bytes (kernel-reducible, unlike `String.toUTF8`). -/
def ascii (s : String) : Bytes := s.toList.map (fun c => UInt8.ofNat c.toNat)

namespace B64

/-- the padding character `=` -/
def pad : UInt8 := 61

/-- character of the 6-bit value `n` (`n < 64`) in the standard alphabet -/
def encChar (n : Nat) : UInt8 :=
  if n < 26 then UInt8.ofNat (65 + n)
  else if n < 52 then UInt8.ofNat (97 + (n - 26))
  else if n < 62 then UInt8.ofNat (48 + (n - 52))
  else if n = 62 then 43 else 47

/-- `decodeMap`: 6-bit value of an alphabet character, `none` (0xff) for everything else -/
def decChar (c : UInt8) : Option Nat :=
  let v := c.toNat
  if 65 ≤ v ∧ v ≤ 90 then some (v - 65)
  else if 97 ≤ v ∧ v ≤ 122 then some (v - 97 + 26)
  else if 48 ≤ v ∧ v ≤ 57 then some (v - 48 + 52)
  else if v = 43 then some 62
  else if v = 47 then some 63
  else none

def encode : Bytes → Bytes
  | [] => []
  | [a] => [encChar (a.toNat / 4), encChar (a.toNat % 4 * 16), pad, pad]
  | [a, b] => [encChar (a.toNat / 4), encChar (a.toNat % 4 * 16 + b.toNat / 16),
               encChar (b.toNat % 16 * 4), pad]
  | a :: b :: c :: rest =>
      encChar (a.toNat / 4) :: encChar (a.toNat % 4 * 16 + b.toNat / 16) ::
      encChar (b.toNat % 16 * 4 + c.toNat / 64) :: encChar (c.toNat % 64) :: encode rest

/-- the three bytes of a quantum of four 6-bit values (`val>>16`, `val>>8`, `val`, each `&0xff`) -/
def byte0 (x y : Nat) : UInt8 := UInt8.ofNat ((x * 4 + y / 16) % 256)
def byte1 (y z : Nat) : UInt8 := UInt8.ofNat ((y * 16 + z / 4) % 256)
def byte2 (z w : Nat) : UInt8 := UInt8.ofNat ((z * 64 + w) % 256)

/-- quantum-wise decoding of newline-free input (`decodeQuantum` in a loop) -/
def decodeQ : Bytes → Option Bytes
  | [] => some []
  | a :: b :: c :: d :: rest =>
    match decChar a, decChar b with
    | some x, some y =>
      if c = pad then
        -- "xx=": a second '=' must follow and end the input
        if d = pad ∧ rest = [] then some [byte0 x y] else none
      else
        match decChar c with
        | none => none
        | some z =>
          if d = pad then
            if rest = [] then some [byte0 x y, byte1 y z] else none
          else
            match decChar d with
            | none => none
            | some w =>
              match decodeQ rest with
              | none => none
              | some r => some (byte0 x y :: byte1 y z :: byte2 z w :: r)
    | _, _ => none
  | _ => none

def notNewline (c : UInt8) : Bool := c != 10 && c != 13

def decode (s : Bytes) : Option Bytes := decodeQ (s.filter notNewline)

end B64

namespace Hex

def digit (n : Nat) : UInt8 := if n < 10 then UInt8.ofNat (48 + n) else UInt8.ofNat (87 + n)

def value (c : UInt8) : Option Nat :=
  let v := c.toNat
  if 48 ≤ v ∧ v ≤ 57 then some (v - 48)
  else if 97 ≤ v ∧ v ≤ 102 then some (v - 87)
  else if 65 ≤ v ∧ v ≤ 70 then some (v - 55)
  else none

def encode : Bytes → Bytes
  | [] => []
  | x :: rest => digit (x.toNat / 16) :: digit (x.toNat % 16) :: encode rest

def decode : Bytes → Option Bytes
  | [] => some []
  | [_] => none
  | a :: b :: rest =>
    match value a, value b, decode rest with
    | some x, some y, some r => some (UInt8.ofNat (x * 16 + y) :: r)
    | _, _, _ => none

end Hex

/-! ## The obfs4 certificate: `base64(nodeID ‖ publicKey)` with the trailing `==` removed -/
namespace Cert

/-- `strings.TrimSuffix` -/
def trimSuffix (s suf : Bytes) : Bytes :=
  if suf.isSuffixOf s then s.take (s.length - suf.length) else s

/-- `obfs4ServerCert.String` -/
def toString (suffix : Bytes) (raw : Bytes) : Bytes := trimSuffix (B64.encode raw) suffix

/-- `serverCertFromString` followed by `unpack`: `(nodeID, publicKey)` -/
def parse (suffix : Bytes) (idLen certLen : Nat) (s : Bytes) : Option (Bytes × Bytes) :=
  match B64.decode (s ++ suffix) with
  | none => none
  | some raw => if raw.length = certLen then some (raw.take idLen, raw.drop idLen) else none

/-- the legacy (≤ 0.0.2) bridge line: `node-id=<hex> public-key=<hex>` -/
def parseLegacy (idLen keyLen : Nat) (nodeIDHex pubHex : Bytes) : Option (Bytes × Bytes) :=
  match Hex.decode nodeIDHex with
  | none => none
  | some id =>
    if id.length ≠ idLen then none else
    match Hex.decode pubHex with
    | none => none
    | some k => if k.length ≠ keyLen then none else some (id, k)

end Cert
end O4
