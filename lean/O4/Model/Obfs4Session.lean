import O4.Model.Obfs4Conn
/-!
# obfs4 data phase: whole reader sessions, the sender's padding policy, the client's
post-handshake state, toy link crypto for non-vacuity examples.  Core only.  (C01, C05)
-/
namespace O4.Obfs4
open O4.Consts.Obfs4 O4.Framing

/-- the honest sender's packet for nonce `n` (1-based; the nonce counter starts at 1) -/
def sentFn (sent : List Bytes) (n : Nat) : Option Bytes := if n = 0 then none else sent[n - 1]?

/-- A reader session: `Read` calls with the given buffer sizes against the list of network
    results; returns everything delivered to the application, the errors reported (in order),
    the final state, and whether it ended blocked (network exhausted, nothing decoded).
    The caller keeps calling `Read` after an error (the relay does not, it closes). -/
def session (c : Crypto) (isServer : Bool) : List Nat → Rx → List NetEv → Bytes × List RxErr × Rx × Bool
  | [], rx, _ => ([], [], rx, false)
  | n :: ns, rx, evs =>
    match read c isServer n rx evs with
    | .blocked rx' => ([], [], rx', true)
    | .ret rx' bytes err rest =>
      let (d, es, rxf, bl) := session c isServer ns rx' rest
      (bytes ++ d, (match err with | some e => [e] | none => []) ++ es, rxf, bl)

/-- The same, but the caller stops at the first `Read` that reports an error (what the relay's
    copy loop does): delivered bytes, that error, the final state, ended-blocked. -/
def sessionUntilErr (c : Crypto) (isServer : Bool) : List Nat → Rx → List NetEv → Bytes × Option RxErr × Rx × Bool
  | [], rx, _ => ([], none, rx, false)
  | n :: ns, rx, evs =>
    match read c isServer n rx evs with
    | .blocked rx' => ([], none, rx', true)
    | .ret rx' bytes (some e) _ => (bytes, some e, rx', false)
    | .ret rx' bytes none rest =>
      let (d, e, rxf, bl) := sessionUntilErr c isServer ns rx' rest
      (bytes ++ d, e, rxf, bl)

/-- the chunk of a network event -/
def NetEv.chunk : NetEv → Bytes
  | .data ch => ch
  | .fail ch _ => ch

/-- feeding chunks with no `Read` draining in between (stops at the first error) -/
def feedAll (c : Crypto) (isServer : Bool) : Rx → List Bytes → Rx × Option RxErr
  | rx, [] => (rx, none)
  | rx, ch :: rest =>
    match readPackets c isServer rx (.data ch) with
    | (rx1, some e) => (rx1, some e)
    | (rx1, none) => feedAll c isServer rx1 rest

/-- all packets well formed (`none` = `makePacket` would panic) -/
def allSome : List (Option Bytes) → Option (List Bytes)
  | [] => some []
  | none :: _ => none
  | some p :: r => (allSome r).map (p :: ·)

/-- the packets of a sequence of `Write(data)` calls, each with the padding lengths of the padding
    packets appended to it (in every IAT mode the payload packets of a `Write` precede its padding
    packets; how the frames are grouped into `Conn.Write` calls does not matter to the receiver) -/
def txAll (ws : List (Bytes × List Nat)) : List (Option Bytes) :=
  ws.flatMap (fun w => txPackets w.1 w.2)

/-- the honest wire stream of a packet list from frame index 0 -/
def wire (c : Crypto) (pkts : List Bytes) : Bytes := encodeAll c 0 pkts

/-- `padBurst(burst, toPadTo)`: the padding lengths of the padding packets it appends
    (`burstLen = burst.Len()`).  `toPadTo` is a sample of the length distribution,
    `0 ≤ toPadTo ≤ MaximumSegmentLength`. -/
def padBurstPads (burstLen toPadTo : Nat) : List Nat :=
  let tailLen := burstLen % Consts.Framing.maximumSegmentLength
  let padLen := if toPadTo ≥ tailLen then toPadTo - tailLen
                else (Consts.Framing.maximumSegmentLength - tailLen) + toPadTo
  if padLen > headerLength then [padLen - headerLength]
  else if padLen > 0 then [maxPacketPayloadLength, padLen]
  else []

/-- The state in which the client's first `Read` finds the receive side.  `surplus` is what
    followed the server's handshake response in the bytes read during the handshake (normally at
    least the inline PRNG-seed frame).
    * `fixed = false` (the unchanged tree): the surplus just sits in `receiveBuffer`; nothing
      looks at it until the *network* has delivered something more (`readPackets` reads first).
    * `fixed = true` (after `fix: obfs4: decode data received with the server handshake`): the
      frame-processing loop runs once at the end of `clientHandshake`; an error other than
      `ErrAgain` fails the handshake. -/
def clientStart (c : Crypto) (fixed : Bool) (surplus : Bytes) : Rx × Option RxErr :=
  let rx0 : Rx := { Rx.init with rxBuf := surplus }
  if fixed then processBuffer c false (procFuel rx0) rx0 else (rx0, none)

/-- The server resets its receive buffer at the end of its handshake. -/
def serverStart : Rx := Rx.init

/-- the receive side needs more input before its next decoder phase can fire: no completely
    received frame is waiting in `receiveBuffer` -/
def Settled (c : Crypto) (srv : Bool) (rx : Rx) : Prop := rxStep c srv rx.dec rx.rxBuf = none

instance (c : Crypto) (srv : Bool) (rx : Rx) : Decidable (Settled c srv rx) := by
  unfold Settled; exact inferInstance

/-! ## `Read` after `fix: obfs4: deliver all decoded payload before reporting a read error`

`read` above is the `Read` of the tree before that repair: it returns the error of
`readPackets` together with the first `n` decoded bytes, even when more decoded bytes remain.  The
repaired `Read` holds the error back in `obfs4Conn.readErr` while decoded payload is pending and
reports it, exactly once, from the call that drains the payload (or the next one); it is not
latched.  Delivered concatenation, blocking and the error reported are unchanged — only the `Read`
call that carries the error moves — so the session theorems about `read` carry over; the driver's
`drain` (what the tie compares) is the same function of the event list for both. -/

/-- reader state of the repaired `Read`: the receive side plus the held-back error -/
structure Rd where
  rx : Rx
  held : Option RxErr
deriving Repr

inductive ReadResultH
  | ret (st : Rd) (bytes : Bytes) (err : Option RxErr) (rest : List NetEv)
  | blocked (st : Rd)
deriving Repr

/-- the repaired `obfs4Conn.Read(b)`, `len b = n` -/
def readHeld (c : Crypto) (isServer : Bool) (n : Nat) (st : Rd) (evs : List NetEv) : ReadResultH :=
  if st.rx.decoded.length > 0 then
    -- payload from earlier calls: no network read; a held error is reported when this call drains it
    let rx' := { st.rx with decoded := st.rx.decoded.drop n }
    if rx'.decoded.length > 0 then .ret ⟨rx', st.held⟩ (st.rx.decoded.take n) none evs
    else .ret ⟨rx', none⟩ (st.rx.decoded.take n) st.held evs
  else match st.held with
    | some e => .ret ⟨st.rx, none⟩ [] (some e) evs
    | none =>
      match read c isServer n st.rx evs with
      | .blocked rx => .blocked ⟨rx, none⟩
      | .ret rx bytes none rest => .ret ⟨rx, none⟩ bytes none rest
      | .ret rx bytes (some e) rest =>
        if rx.decoded.length > 0 then .ret ⟨rx, some e⟩ bytes none rest
        else .ret ⟨rx, none⟩ bytes (some e) rest

/-! ## both directions of one endpoint -/

/-- One endpoint: the reader-side state and the writer-side state (the encoder's frame index).
    The length/IAT distributions (mutex-protected in the Go code; the client's reader resets them
    when a seed packet arrives) influence only the *padding lengths* the writer chooses, which
    are an arbitrary input of `Endpoint.write`. -/
structure Endpoint where
  rx : Rx
  txK : Nat
deriving Repr

/-- `Write(data)` with padding packets `pads`: the wire bytes handed to the underlying conn
    (in one or several `Conn.Write`s, depending on the IAT mode), `none` if `makePacket` panics
    or the encoder refuses. -/
def Endpoint.write (c : Crypto) (ep : Endpoint) (data : Bytes) (pads : List Nat) : Option (Endpoint × Bytes) :=
  match allSome (txPackets data pads) with
  | none => none
  | some pkts =>
    if ep.txK + pkts.length < ctrLimit - 1 then
      some ({ ep with txK := ep.txK + pkts.length }, encodeAll c ep.txK pkts)
    else none

/-- `Read(b)`, `len b = n` -/
def Endpoint.read (c : Crypto) (srv : Bool) (ep : Endpoint) (n : Nat) (evs : List NetEv) :
    Option (Endpoint × Bytes × Option RxErr × List NetEv) :=
  match Obfs4.read c srv n ep.rx evs with
  | .blocked _ => none
  | .ret rx' bytes err rest => some ({ ep with rx := rx' }, bytes, err, rest)

/-! ## toy link crypto (for non-vacuity examples only) -/

/-- 16-byte "tag" = the nonce counter, then the plaintext: satisfies `CryptoOK` -/
def toySeal (n : Nat) (p : Bytes) : Bytes := Bytes.ofNatBE 16 n ++ p

def toyCrypto : Crypto where
  sealB := toySeal
  openB := fun n box =>
    if 16 ≤ box.length ∧ box.take 16 = Bytes.ofNatBE 16 n then some (box.drop 16) else none
  mask := fun k => 40503 * k + 12345
  rnd := fun k => 16 + (k * 37) % 1431

/-- ideal link crypto relative to what the honest sender sealed: a box opens under nonce `n`
    iff it is exactly the sender's `n`-th box: satisfies `BoxAuth c (sentFn sent)` -/
def idealCrypto (sent : List Bytes) : Crypto where
  sealB := toySeal
  openB := fun n box =>
    match sentFn sent n with
    | some pkt => if box = toySeal n pkt then some pkt else none
    | none => none
  mask := fun k => 40503 * k + 12345
  rnd := fun k => 16 + (k * 37) % 1431

end O4.Obfs4
