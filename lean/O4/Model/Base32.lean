import O4.Model.Bytes
/-!
# `encoding/base32` `StdEncoding` (RFC 4648 alphabet, `=` padding). Core only.

`encode` = `EncodeToString`, `decode` = `DecodeString` (`none` = `CorruptInputError`).
As in Go: `\r` and `\n` are stripped before decoding, padding is mandatory and only allowed in
the last 8-character quantum (with 2, 4, 5 or 7 data characters), the unused trailing bits of
the last data character are *not* checked.
-/
namespace O4.Base32

def alphabet : List Char := "ABCDEFGHIJKLMNOPQRSTUVWXYZ234567".toList

def encChar (v : Nat) : Char := alphabet.getD v 'A'

def decChar (c : Char) : Option Nat :=
  if 'A' ≤ c ∧ c ≤ 'Z' then some (c.toNat - 65)
  else if '2' ≤ c ∧ c ≤ '7' then some (c.toNat - 50 + 26)
  else none

/-- number of data characters for `n` (1…5) input bytes of the last quantum -/
def dataChars : Nat → Nat
  | 1 => 2 | 2 => 4 | 3 => 5 | 4 => 7 | _ => 8

/-- one quantum: up to 5 bytes → 8 characters -/
def encQuantum (q : Bytes) : List Char :=
  let v := Bytes.toNatBE (q ++ List.replicate (5 - q.length) 0)
  let cs := (List.range 8).map (fun i => encChar ((v / 32 ^ (7 - i)) % 32))
  if q.length = 5 then cs else cs.take (dataChars q.length) ++ List.replicate (8 - dataChars q.length) '='

def encodeChars : (fuel : Nat) → Bytes → List Char
  | 0, _ => []
  | _, [] => []
  | fuel + 1, b => encQuantum (b.take 5) ++ encodeChars fuel (b.drop 5)

def encode (b : Bytes) : String := String.ofList (encodeChars (b.length + 1) b)

/-- bytes carried by `d` data characters of a quantum -/
def dataBytes : Nat → Option Nat
  | 2 => some 1 | 4 => some 2 | 5 => some 3 | 7 => some 4 | 8 => some 5 | _ => none

/-- one quantum of 8 characters; `last` = padding allowed -/
def decQuantum (q : List Char) (last : Bool) : Option Bytes := do
  let datac := q.takeWhile (· ≠ '=')
  let padc := q.drop datac.length
  if ¬ padc.all (· == '=') then none
  if ¬ last ∧ datac.length ≠ 8 then none
  let nb ← dataBytes datac.length
  let vals ← datac.mapM decChar
  let v := (vals ++ List.replicate (8 - vals.length) 0).foldl (fun a x => a * 32 + x) 0
  pure ((Bytes.ofNatBE 5 v).take nb)

def decodeChars : (fuel : Nat) → List Char → Option Bytes
  | 0, _ => none
  | _, [] => some []
  | fuel + 1, cs =>
    if cs.length < 8 then none else do
      let q ← decQuantum (cs.take 8) (cs.length == 8)
      let r ← decodeChars fuel (cs.drop 8)
      pure (q ++ r)

def decode (s : String) : Option Bytes :=
  let cs := s.toList.filter (fun c => c ≠ '\r' ∧ c ≠ '\n')
  decodeChars (cs.length + 1) cs

end O4.Base32
