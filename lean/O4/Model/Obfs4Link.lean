import O4.Model.Obfs4Session
import O4.Model.Crypto.Secretbox
import O4.Model.Drbg
/-!
# The concrete link crypto of one obfs4 direction (core only): XSalsa20-Poly1305 secretbox
under `key[0:32]` with nonce `key[32:48] ‖ be64 counter`, length masks from the SipHash-2-4 OFB
DRBG seeded with `key[48:72]` (`framing.NewEncoder/NewDecoder`).  Used by the driver
`Driver.O4Data`; `Lemmas/Obfs4Link.lean` proves it satisfies `Framing.CryptoOK`.
-/
namespace O4.Obfs4
open O4.Framing O4.Crypto

/-- the 24-byte nonce of counter value `n` -/
def linkNonce (key : Bytes) (n : Nat) : Bytes :=
  (key.drop Consts.Framing.keyLength).take Consts.Framing.noncePrefixLength ++
    Bytes.ofNatBE Consts.Framing.nonceCounterLength n

/-- the DRBG of the direction -/
def linkDrbg (key : Bytes) : Drbg.HashDrbg :=
  Drbg.newHashDrbg (key.drop (Consts.Framing.keyLength + Consts.Framing.noncePrefixLength))

/-- `binary.BigEndian.Uint16` of a DRBG block -/
def maskOfBlock (b : Bytes) : Nat := be16 b

/-- extend a mask table to at least `n` entries; returns the table and the DRBG state after it -/
def extendMasks : Nat → Array Nat × Drbg.HashDrbg → Array Nat × Drbg.HashDrbg
  | 0, t => t
  | fuel + 1, (tbl, d) =>
    let (b, d') := d.nextBlock
    extendMasks fuel (tbl.push (maskOfBlock b), d')

/-- The link crypto with a precomputed mask table.  `mask k` for `k` beyond the table is 0: the
    driver extends the table before every use and checks that it was never exceeded.  `rnd` (the
    random replacement for an out-of-range length) is a parameter: the real value comes from
    `csrand`, delivered bytes do not depend on it. -/
def linkCrypto (key : Bytes) (masks : Array Nat) (rnd : Nat → Nat) : Crypto where
  sealB := fun n p => secretboxSeal (key.take Consts.Framing.keyLength) (linkNonce key n) p
  openB := fun n b => secretboxOpen (key.take Consts.Framing.keyLength) (linkNonce key n) b
  mask := fun k => masks.getD k 0
  rnd := rnd

end O4.Obfs4
