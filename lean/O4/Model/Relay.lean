import O4.Model.Bytes
/-!
# Model of `copyLoop` (obfs4proxy/obfs4proxy.go) — C19.  Core only.

Two copier goroutines, each running the generic `io.Copy` loop (`src.Read` → `dst.Write`),
then `errChan <- err`, then the deferred closes of *both* conns (own source first), then
`wg.Done()`; the caller waits for both and returns the first error in `errChan`.

The semantics is an explicit small-step interleaving semantics: `step : State → Choice → State`
performs one atomic step of one actor (the environment on side A/B, copier `ab`, copier `ba`,
the caller).  A choice that is not enabled (a `Read` with nothing to read on a live side, a
finished copier, …) leaves the state unchanged, so *every* list of choices is a schedule and
`run` over all lists covers all interleavings.

Conns: a side *produces* bytes into the conn's inbox and may *end* (EOF or error, delivered
after the inbox is drained); `Read` returns a non-empty piece of the inbox (at most
`copyBufLen` bytes), possibly together with the end condition; `Write` is accepted in full,
in part (short write / error after `k` bytes) or fails; after `Close` both fail.
-/
namespace O4.Relay

inductive Side | A | B
deriving DecidableEq, Repr

/-- copier `ab` is `io.Copy(b, a)`: reads side A, writes side B -/
inductive Dir | ab | ba
deriving DecidableEq, Repr

def Dir.src : Dir → Side | .ab => .A | .ba => .B
def Dir.dst : Dir → Side | .ab => .B | .ba => .A
def Dir.other : Dir → Dir | .ab => .ba | .ba => .ab

/-- result of `io.Copy` as sent on `errChan` (`ok` = nil: the source reached EOF) -/
inductive Err
  | ok
  | rerr (c : Side)   -- the source's Read failed
  | werr (c : Side)   -- the destination's Write failed
  | closed            -- Read/Write on a conn that was already closed
  | short             -- io.ErrShortWrite
deriving DecidableEq, Repr

inductive Fin | eof | err
deriving DecidableEq, Repr

def Fin.toErr (c : Side) : Fin → Err
  | .eof => .ok
  | .err => .rerr c

/-- how the destination treats one `Write(buf)` -/
inductive WRes
  | ok                 -- all of it
  | short (k : Nat)    -- `k < len` bytes, nil error (io.Copy turns it into ErrShortWrite)
  | err (k : Nat)      -- `k ≤ len` bytes and an error
deriving DecidableEq, Repr

/-- program counter of a copier goroutine -/
inductive Pc
  | rd                                    -- in (or about to call) `src.Read`
  | wr (buf : Bytes) (fin : Option Fin)   -- in `dst.Write(buf)`; `fin`: that Read also returned EOF/err
  | snd                                   -- io.Copy returned `res`; about to `errChan <- res`
  | cl1                                   -- deferred Close of its own source
  | cl2                                   -- deferred Close of its destination
  | wgd                                   -- deferred wg.Done()
  | done
deriving DecidableEq, Repr

structure Cop where
  pc : Pc := .rd
  res : Err := .ok          -- meaningful from `snd` on
deriving DecidableEq, Repr

structure Conn where
  inbox : Bytes := []       -- produced, not yet read
  fin : Option Fin := none  -- the side has ended (after the inbox)
  closed : Bool := false
  produced : Bytes := []    -- ghost: everything the side produced
deriving DecidableEq, Repr

/-- observable events (what the scripted conns of the harness log) -/
inductive Ev
  | readData (d : Dir) (data : Bytes) (fin : Option Fin)
  | readEnd (d : Dir) (f : Fin)
  | readClosed (d : Dir)
  | write (d : Dir) (buf : Bytes) (n : Nat) (r : Option WRes)   -- `none`: conn was closed
  | close (d : Dir) (c : Side)
  | ret (e : Err)
deriving DecidableEq, Repr

/-- pointwise update of a finite-domain function -/
def upd {α β : Type} [DecidableEq α] (f : α → β) (a : α) (v : β) : α → β :=
  fun x => if x = a then v else f x

structure State where
  conn : Side → Conn := fun _ => {}
  cop : Dir → Cop := fun _ => {}
  fwd : Dir → Bytes := fun _ => []   -- ghost: bytes the destination accepted from copier d
  errs : List Err := []              -- errChan (buffered, capacity 2), oldest first
  ret : Option Err := none           -- copyLoop returned
  log : List Ev := []                -- newest first

def init : State := {}

def State.setConn (s : State) (c : Side) (k : Conn) : State := { s with conn := upd s.conn c k }
def State.setCop (s : State) (d : Dir) (c : Cop) : State := { s with cop := upd s.cop d c }
def State.setFwd (s : State) (d : Dir) (f : Bytes) : State := { s with fwd := upd s.fwd d f }
def State.emit (s : State) (e : Ev) : State := { s with log := e :: s.log }

/-- size of io.Copy's buffer -/
def copyBufLen : Nat := 32768

/-- nondeterministic parameters of one copier step (ignored where they do not apply) -/
structure Param where
  n : Nat := copyBufLen   -- Read: how many bytes the Read returns (clamped to 1 … min(inbox, buffer))
  withFin : Bool := false -- Read: deliver the end condition together with the last piece
  w : WRes := .ok         -- Write: what the destination does
deriving DecidableEq, Repr

inductive Choice
  | produce (c : Side) (data : Bytes)   -- environment: the side sends data
  | finish (c : Side) (f : Fin)         -- environment: the side ends (EOF / error)
  | cop (d : Dir) (p : Param)           -- one step of copier `d`
  | main                                -- the caller: `wg.Wait()` passed, return `<-errChan`
deriving DecidableEq, Repr

def clamp (n len : Nat) : Nat := max 1 (min n (min len copyBufLen))

/-- `src.Read(buf)` returns -/
def stepRd (s : State) (d : Dir) (p : Param) : State :=
  let src := s.conn d.src
  if src.closed then
    ((s.setCop d { pc := .snd, res := .closed }).emit (.readClosed d))
  else if src.inbox ≠ [] then
    let k := clamp p.n src.inbox.length
    let chunk := src.inbox.take k
    let rest := src.inbox.drop k
    let fin := if p.withFin ∧ rest = [] then src.fin else none
    (((s.setConn d.src { src with inbox := rest }).setCop d { (s.cop d) with pc := .wr chunk fin }).emit
      (.readData d chunk fin))
  else match src.fin with
    | some f => ((s.setCop d { pc := .snd, res := f.toErr d.src }).emit (.readEnd d f))
    | none => s        -- blocked in Read

/-- `dst.Write(buf)` returns; `fin`: the Read that produced `buf` also returned EOF / an error -/
def stepWr (s : State) (d : Dir) (p : Param) (buf : Bytes) (fin : Option Fin) : State :=
  let dst := s.conn d.dst
  if dst.closed then
    ((s.setCop d { pc := .snd, res := .closed }).emit (.write d buf 0 none))
  else match p.w with
    | .ok =>
      let s1 := (s.setFwd d (s.fwd d ++ buf)).emit (.write d buf buf.length (some .ok))
      match fin with
      | none => s1.setCop d { (s.cop d) with pc := .rd }
      | some f => s1.setCop d { pc := .snd, res := f.toErr d.src }
    | .short k =>
      let k' := min k (buf.length - 1)
      (((s.setFwd d (s.fwd d ++ buf.take k')).setCop d { pc := .snd, res := .short }).emit
        (.write d buf k' (some (.short k'))))
    | .err k =>
      let k' := min k buf.length
      (((s.setFwd d (s.fwd d ++ buf.take k')).setCop d { pc := .snd, res := .werr d.dst }).emit
        (.write d buf k' (some (.err k'))))

/-- `errChan <- err` -/
def stepSnd (s : State) (d : Dir) : State :=
  ({ s with errs := s.errs ++ [(s.cop d).res] }).setCop d { (s.cop d) with pc := .cl1 }

/-- the deferred `Close` of conn `c`, moving to `next` -/
def stepCl (s : State) (d : Dir) (c : Side) (next : Pc) : State :=
  (((s.setConn c { (s.conn c) with closed := true }).setCop d { (s.cop d) with pc := next }).emit (.close d c))

/-- one step of copier `d` -/
def stepCop (s : State) (d : Dir) (p : Param) : State :=
  match (s.cop d).pc with
  | .rd => stepRd s d p
  | .wr buf fin => stepWr s d p buf fin
  | .snd => stepSnd s d
  | .cl1 => stepCl s d d.src .cl2
  | .cl2 => stepCl s d d.dst .wgd
  | .wgd => s.setCop d { (s.cop d) with pc := .done }
  | .done => s

def step (s : State) : Choice → State
  | .produce c data =>
    let k := s.conn c
    if k.fin = none then s.setConn c { k with inbox := k.inbox ++ data, produced := k.produced ++ data }
    else s
  | .finish c f =>
    let k := s.conn c
    if k.fin = none then s.setConn c { k with fin := some f } else s
  | .cop d p => stepCop s d p
  | .main =>
    if (s.cop .ab).pc = .done ∧ (s.cop .ba).pc = .done ∧ s.ret = none then
      let e := s.errs.head?.getD .ok     -- `if len(errChan) > 0 { return <-errChan }; return nil`
      ({ s with ret := some e }).emit (.ret e)
    else s

def run (s : State) (cs : List Choice) : State := cs.foldl step s

/-- states reachable from the initial state under some schedule -/
def Reachable (s : State) : Prop := ∃ cs, s = run init cs

/-- the choice is a step of copier `d` -/
def Choice.isCop (d : Dir) : Choice → Bool
  | .cop d' _ => d' == d
  | _ => false

/-- number of steps of copier `d` in a schedule -/
def ownSteps (d : Dir) (cs : List Choice) : Nat := (cs.filter (Choice.isCop d)).length

end O4.Relay
