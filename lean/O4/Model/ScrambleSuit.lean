import O4.Model.Bytes
import O4.Model.BytesIndex
import O4.Lemmas.Incremental
import O4.Generated.Consts.Scramblesuit
import O4.Generated.Consts.Uniformdh
import O4.Generated.Consts.Drbg
/-!
# Model of `transports/scramblesuit` (client) and of a conforming server (C15, C10). Core only.

Written line by line from `handshake_uniformdh.go`, `handshake_ticket.go` and `conn.go`.
All cryptography is a parameter (`Prims`): the theorems quantify over every instance (with
explicit, satisfiable hypotheses where needed), the driver instantiates it with the executable
SHA-256 / HMAC / HKDF / AES-CTR / UniformDH.  The repository contains no server; `Server` below
is the reference server derived from the client code (what the client sends must verify, what
the client accepts is what the server sends) and the ScrambleSuit specification.

Go slices are modelled with the checked `slice?` (`none` = the run-time panic "slice bounds out
of range"; conservatively also for "beyond len but within cap", where the real code reads stale
buffer bytes instead).
-/
namespace O4.SS
open O4.Consts.Scramblesuit

/-- `uniformdh.Size` -/
def dhSize : Nat := O4.Consts.Uniformdh.size

/-- the primitives the package calls -/
structure Prims where
  /-- `hmac.New(sha256.New, key)`, `Write msg`, `Sum(nil)` -/
  hmac : Bytes → Bytes → Bytes
  /-- `sha256.Sum256` -/
  sha256 : Bytes → Bytes
  /-- `hkdf.Expand(sha256.New, prk, nil)` read for `n` bytes -/
  hkdfExpand : Bytes → Nat → Bytes
  /-- `cipher.NewCTR(aes.NewCipher(key), iv)`: XOR of `data` with the keystream from byte `off` on -/
  ctrXor : Bytes → Bytes → Nat → Bytes → Bytes
  /-- `uniformdh.generateKey(priv).PublicKey.Bytes()` -/
  dhPublic : Bytes → Option Bytes
  /-- `uniformdh.Handshake(generateKey(priv), SetBytes(peer))` -/
  dhShared : Bytes → Bytes → Option Bytes

/-- HMAC-SHA256-128: `mac.Sum(nil)[:macLength]` -/
def mac128 (P : Prims) (key msg : Bytes) : Bytes := (P.hmac key msg).take macLength

/-- Go `b[lo:hi]` on a slice of length `len b`; `none` = panic -/
def slice? (b : Bytes) (lo hi : Nat) : Option Bytes :=
  if lo ≤ hi ∧ hi ≤ b.length then some ((b.take hi).drop lo) else none

/-- `[]byte(strconv.FormatInt(hour, 10))` -/
def epochHourBytes (hour : Int) : Bytes := Bytes.ofString (toString hour)

def be16At (b : Bytes) (i : Nat) : Nat := (b.getD i 0).toNat * 256 + (b.getD (i + 1) 0).toNat
/-- `binary.BigEndian.PutUint16(_, uint16(n))` -/
def putBe16 (n : Nat) : Bytes := [UInt8.ofNat (n / 256 % 256), UInt8.ofNat (n % 256)]

/-! ## UniformDH handshake (`handshake_uniformdh.go`) -/

/-- `ssDHClientHandshake`; the HMAC instance `mac` (keyed with `k_B`) is represented by the
    bytes written into it since the last `Reset` -/
structure DhHs where
  kB : Bytes
  /-- `keypair`: the 192 private bytes the key pair was generated from … -/
  priv : Bytes
  /-- … and `keypair.PublicKey.Bytes()` -/
  pubX : Bytes
  epochHour : Bytes
  macBuf : Bytes
  /-- `serverPublicKey` (`nil` until the first call that sees `minHandshakeLength` bytes) -/
  serverPub : Option Bytes
  serverMark : Bytes
deriving DecidableEq, Repr

/-- `newDHClientHandshake` (the padding length `padLen` is drawn there; it is an argument of
    `generateHandshake` here) -/
def DhHs.new (kB priv pubX : Bytes) : DhHs :=
  { kB := kB, priv := priv, pubX := pubX, epochHour := [], macBuf := [], serverPub := none, serverMark := [] }

/-- `generateHandshake`: X | P_C | M_C | MAC(X | P_C | M_C | E); `pad` = `makePad(hs.padLen)` -/
def DhHs.generate (P : Prims) (hs : DhHs) (pad : Bytes) (hour : Int) : DhHs × Bytes :=
  let x := hs.pubX
  let mC := mac128 P hs.kB x
  let e := epochHourBytes hour
  let macBuf := x ++ pad ++ mC ++ e
  ({ hs with epochHour := e, macBuf := macBuf }, x ++ pad ++ mC ++ mac128 P hs.kB macBuf)

inductive ParseRes
  | notYet                       -- errMarkNotFoundYet
  | invalid                      -- ErrInvalidHandshake
  | dhErr                        -- SetBytes / Handshake error (unreachable with 192 key bytes)
  | panic                        -- slice bounds out of range
  | ok (n : Nat) (seed : Bytes)
deriving DecidableEq, Repr

/-- first part of `parseServerHandshake`: on the first call that sees enough bytes, pull out the
    public key, reset the HMAC, write Y and derive the server mark. Returns the (cached) Y;
    `none` = panic -/
def DhHs.cache (P : Prims) (hs : DhHs) (resp : Bytes) : Option (DhHs × Bytes) :=
  match hs.serverPub with
  | some y => some (hs, y)
  | none =>
    match slice? resp 0 dhSize with
    | none => none
    | some y => some ({ hs with serverPub := some y, macBuf := y, serverMark := mac128 P hs.kB y }, y)

/-- the rest of `parseServerHandshake`: mark search, length test, MAC, shared secret.
`fixed = false` is the code before the repair of the length test (F3): `len(resp) < pos+2*macLength`
with `pos` still relative to `resp[uniformdh.Size:]`. -/
def DhHs.parseTail (P : Prims) (fixed : Bool) (hs : DhHs) (y resp : Bytes) : DhHs × ParseRes :=
  if y.length ≠ dhSize then (hs, .dhErr) else
  -- Find the mark+MAC, if it exits.
  let endPos := min resp.length (maxHandshakeLength - macLength)
  match slice? resp dhSize endPos with
  | none => (hs, .panic)
  | some window =>
  match Idx.indexOf hs.serverMark window with
  | none => if resp.length ≥ maxHandshakeLength then (hs, .invalid) else (hs, .notYet)
  | some pos =>
    if resp.length < (if fixed then dhSize else 0) + pos + 2 * macLength then (hs, .notYet) else
    let pos := pos + dhSize
    -- Validate the MAC.
    match slice? resp dhSize (pos + macLength), slice? resp (pos + macLength) (pos + 2 * macLength) with
    | some body, some macRx =>
      let hs := { hs with macBuf := hs.macBuf ++ body ++ hs.epochHour }
      if mac128 P hs.kB hs.macBuf ≠ macRx then (hs, .invalid) else
      -- Derive the shared secret.
      match P.dhShared hs.priv y with
      | none => (hs, .dhErr)
      | some ss => (hs, .ok (pos + 2 * macLength) (P.sha256 ss))
    | _, _ => (hs, .panic)

/-- `parseServerHandshake(resp)`, `resp` = everything received so far -/
def DhHs.parse (P : Prims) (fixed : Bool) (hs : DhHs) (resp : Bytes) : DhHs × ParseRes :=
  if resp.length < minHandshakeLength then (hs, .notYet) else
  -- The server response is Y | P_S | M_S | MAC(Y | P_S | M_S | E).
  match hs.cache P resp with
  | none => (hs, .panic)
  | some (hs, y) => hs.parseTail P fixed y resp

inductive HsOutcome
  /-- handshake done: seed, what stays in `receiveBuffer`, segments not read yet -/
  | done (seed : Bytes) (rest : Bytes) (unread : List Bytes)
  | invalid
  | dhErr
  | panic
  /-- every segment consumed, still `errMarkNotFoundYet`: the next `Read` blocks -/
  | blocked (hs : DhHs) (buf : Bytes)
deriving DecidableEq, Repr

/-- the read loop of `clientHandshake`: each element of the list is what one `conn.Read`
    returned; the parser is re-run on the whole buffer after every read -/
def dhLoop (P : Prims) (fixed : Bool) (hs : DhHs) (buf : Bytes) : List Bytes → HsOutcome
  | [] => .blocked hs buf
  | c :: cs =>
    let buf := buf ++ c
    match hs.parse P fixed buf with
    | (hs, .notYet) => dhLoop P fixed hs buf cs
    | (_, .ok n seed) => .done seed (buf.drop n) cs
    | (_, .invalid) => .invalid
    | (_, .dhErr) => .dhErr
    | (_, .panic) => .panic

/-! ## Key schedule (`initCrypto`, `newCryptoState`) -/

structure DirKeys where
  aesKey : Bytes
  iv : Bytes
  macKey : Bytes
deriving DecidableEq, Repr

/-- the 64-bit counter half of the CTR IV starts at 1 -/
def initialCtr : Bytes := [0, 0, 0, 0, 0, 0, 0, 1]

def sl (b : Bytes) (lo hi : Nat) : Bytes := (b.take hi).drop lo

/-- `initCrypto(seed)`: (txCrypto, rxCrypto) of the **client** -/
def initCrypto (P : Prims) (seed : Bytes) : DirKeys × DirKeys :=
  let okm := P.hkdfExpand seed kdfSecretLength
  (⟨sl okm 0 32, sl okm 32 40 ++ initialCtr, sl okm 80 112⟩,
   ⟨sl okm 40 72, sl okm 72 80 ++ initialCtr, sl okm 112 144⟩)

/-! ## Session-ticket handshake (`handshake_ticket.go`) -/

/-- `ssTicketClientHandshake.generateHandshake`: T | P | M | MAC(T | P | M | E) under the
    outgoing HMAC key derived from the ticket's master key -/
def ticketHandshake (P : Prims) (macKey ticket pad : Bytes) (hour : Int) : Bytes :=
  let m := mac128 P macKey ticket
  ticket ++ pad ++ m ++ mac128 P macKey (ticket ++ pad ++ m ++ epochHourBytes hour)

/-! ## Packets (`conn.go`) -/

/-- one direction's `ssCryptoState`: keys and the number of keystream bytes used so far -/
structure CState where
  keys : DirKeys
  off : Nat
deriving DecidableEq, Repr

def xorAt (P : Prims) (k : DirKeys) (off : Nat) (d : Bytes) : Bytes := P.ctrXor k.aesKey k.iv off d

/-- plaintext packet: header (total length, payload length, flags), payload, zero padding -/
def pktPlain (flag : Nat) (data : Bytes) (padLen : Nat) : Bytes :=
  putBe16 (data.length + padLen) ++ putBe16 data.length ++ [UInt8.ofNat flag] ++ data ++ Bytes.zeros padLen

/-- ciphertext of the packet sent at keystream offset `off` -/
def pktCipher (P : Prims) (k : DirKeys) (off : Nat) (flag : Nat) (data : Bytes) (padLen : Nat) : Bytes :=
  xorAt P k off (pktPlain flag data padLen)

/-- MAC | ciphertext, as written by `makePayloadPacket` (there `flag = pktPayload`; the reference
    server also sends `pktNewTicket` and `pktPrngSeed`) -/
def pktWire (P : Prims) (k : DirKeys) (off : Nat) (flag : Nat) (data : Bytes) (padLen : Nat) : Bytes :=
  mac128 P k.macKey (pktCipher P k off flag data padLen) ++ pktCipher P k off flag data padLen

/-- `makePayloadPacket`; `none` = the `panic("BUG: makePacket() …")` -/
def makePacket (P : Prims) (cs : CState) (flag : Nat) (data : Bytes) (padLen : Nat) : Option (CState × Bytes) :=
  if data.length + padLen > maxPayloadLength then none
  else some ({ cs with off := cs.off + (pktHdrLength + data.length + padLen) },
             pktWire P cs.keys cs.off flag data padLen)

/-- the `padLen` computed by `padBurst` (before it is split into packets) for a burst of
    `burstLen` bytes and the sampled target `sampleLen` (`Int`: the code subtracts) -/
def padBurstPadLen (burstLen sampleLen : Nat) : Int :=
  let dataLen : Int := ((burstLen % maxSegmentLength : Nat) : Int)
  let padLen : Int := if (sampleLen : Int) ≥ dataLen then (sampleLen : Int) - dataLen
                      else ((maxSegmentLength : Int) - dataLen) + (sampleLen : Int)
  if padLen < (pktOverhead : Int) then padLen + (maxSegmentLength : Int) else padLen

/-- `padBurst`: the padding-length arguments of the `makePayloadPacket` calls it makes -/
def padBurstLens (burstLen sampleLen : Nat) : List Int :=
  let padLen := padBurstPadLen burstLen sampleLen
  if padLen = 0 then []
  else if padLen > (maxSegmentLength : Int) then
    [700 - (pktOverhead : Int), padLen - (700 + 2 * (pktOverhead : Int))]
  else [padLen - (pktOverhead : Int)]

/-- payload packets of `Write(b)`: as much as fits into each packet -/
def splitPayload : (fuel : Nat) → Bytes → List Bytes
  | 0, _ => []
  | _, [] => []
  | fuel + 1, b => b.take maxPayloadLength :: splitPayload fuel (b.drop maxPayloadLength)

/-- send a list of (flag, data, padLen) packets; `none` = panic in `makePayloadPacket` -/
def sendAll (P : Prims) : CState → List (Nat × Bytes × Nat) → Option (CState × Bytes)
  | cs, [] => some (cs, [])
  | cs, (f, d, p) :: r =>
    match makePacket P cs f d p with
    | none => none
    | some (cs1, w) =>
      match sendAll P cs1 r with
      | none => none
      | some (cs2, w2) => some (cs2, w ++ w2)

/-- `ssConn.Write(b)` with `lenDist.Sample() = sampleLen`: the bytes handed to the one
    `conn.Conn.Write`; `none` = panic (negative padding length or oversize packet) -/
def connWrite (P : Prims) (cs : CState) (b : Bytes) (sampleLen : Nat) : Option (CState × Bytes) :=
  match sendAll P cs ((splitPayload (b.length + 1) b).map (fun d => (pktPayload, d, 0))) with
  | none => none
  | some (cs1, burst) =>
    let pads := padBurstLens burst.length sampleLen
    if pads.any (· < 0) then none else
    match sendAll P cs1 (pads.map (fun p => (pktPayload, [], p.toNat))) with
    | none => none
    | some (cs2, padding) => some (cs2, burst ++ padding)

/-- what a decoded packet means to the client -/
inductive Out
  | payload (d : Bytes)          -- written to `receiveDecodedBuffer`
  | ticket (raw : Bytes)         -- `ticketStore.storeTicket(addr, raw)`
  | seed (raw : Bytes)           -- `lenDist.Reset(seed)`
  | err                          -- `ErrInvalidPacket`
deriving DecidableEq, Repr

/-- `receiveState` + `rxCrypto` (keystream offset, bytes written into the HMAC since `Reset`);
    `failed`: `readPackets` returned `ErrInvalidPacket` (the model stops there) -/
structure Rx where
  mac : Option Bytes
  hdr : Option Bytes
  totalLen : Nat
  payloadLen : Nat
  off : Nat
  macBuf : Bytes
  failed : Bool
deriving DecidableEq, Repr

def Rx.init (off : Nat) : Rx := ⟨none, none, 0, 0, off, [], false⟩

/-- the `switch conn.receiveState.hdr[4]` of `readPackets` (client side: `isServer = false`) -/
def dispatch (flag : Nat) (data : Bytes) : Out :=
  if flag = pktPayload then .payload data
  else if flag = pktNewTicket then
    if data.length ≠ ticketKeyLength + ticketLength then .err else .ticket data
  else if flag = pktPrngSeed then
    if data.length ≠ pktPrngSeedLength then .err
    else if data.length < O4.Consts.Drbg.seedLength then .err   -- drbg.SeedFromBytes
    else .seed data
  else .err

/-- one phase of the packet loop of `readPackets` on the current `receiveBuffer` `b`;
    `none` = `break` (needs more bytes) -/
def rxStep (P : Prims) (k : DirKeys) (s : Rx) (b : Bytes) : Option (Rx × List Out × Nat) :=
  if s.failed then none else
  match s.mac with
  | none =>
    -- Read and store the packet MAC.
    if b.length < macLength then none
    else some ({ s with mac := some (b.take macLength) }, [], macLength)
  | some mac =>
    match s.hdr with
    | none =>
      -- Read, digest and decrypt the packet header.
      if b.length < pktHdrLength then none else
      let hc := b.take pktHdrLength
      let hdr := xorAt P k s.off hc
      let totalLen := be16At hdr 0
      let payloadLen := be16At hdr 2
      let s1 := { s with off := s.off + pktHdrLength, macBuf := hc }
      if payloadLen > totalLen ∨ totalLen > maxPayloadLength then
        some ({ s1 with failed := true }, [.err], pktHdrLength)
      else some ({ s1 with hdr := some hdr, totalLen := totalLen, payloadLen := payloadLen }, [], pktHdrLength)
    | some hdr =>
      -- Read, digest and decrypt the body, authenticate, dispatch on the flags.
      if b.length < s.totalLen then none else
      let dc := b.take s.totalLen
      let data := xorAt P k s.off dc
      let s1 := { s with off := s.off + s.totalLen, macBuf := s.macBuf ++ dc }
      if mac128 P k.macKey s1.macBuf ≠ mac then
        some ({ s1 with failed := true }, [.err], s.totalLen)
      else
        match dispatch (hdr.getD 4 0).toNat (data.take s.payloadLen) with
        | .err => some ({ s1 with failed := true }, [.err], s.totalLen)
        | o => some ({ s1 with mac := none, hdr := none, totalLen := 0, payloadLen := 0 }, [o], s.totalLen)

def rxMachine (P : Prims) (k : DirKeys) : Machine Rx Out := ⟨rxStep P k⟩

/-- run the packet loop until it breaks (executable; `fuel` phases) -/
def rxRun (P : Prims) (k : DirKeys) : Nat → Rx → Bytes → Rx × List Out × Bytes
  | 0, s, b => (s, [], b)
  | fuel + 1, s, b =>
    match rxStep P k s b with
    | none => (s, [], b)
    | some (s', o, n) =>
      let (s'', os, r) := rxRun P k fuel s' (b.drop n)
      (s'', o ++ os, r)

/-- enough phases for a buffer of `n` bytes (every phase but an empty body consumes input) -/
def rxFuel (n : Nat) : Nat := 3 * n + 11

/-- one `readPackets` call: append what `conn.Read` returned, run the loop -/
def readPackets (P : Prims) (k : DirKeys) (s : Rx) (buf chunk : Bytes) : Rx × List Out × Bytes :=
  rxRun P k (rxFuel (buf ++ chunk).length) s (buf ++ chunk)

/-- successive `readPackets` calls, one per segment -/
def feedChunks (P : Prims) (k : DirKeys) : Rx → Bytes → List Bytes → Rx × List Out × Bytes
  | s, buf, [] => (s, [], buf)
  | s, buf, c :: cs =>
    let (s1, o1, b1) := readPackets P k s buf c
    let (s2, o2, b2) := feedChunks P k s1 b1 cs
    (s2, o1 ++ o2, b2)

/-- the bytes `Read` hands to the caller -/
def delivered : List Out → Bytes
  | [] => []
  | .payload d :: r => d ++ delivered r
  | _ :: r => delivered r

/-! ## `ssConn.Read` and errors of the underlying conn -/

/-- why a `Read` fails: the packet reader (`ErrInvalidPacket`) or the underlying conn (class `c`:
    EOF, reset, timeout, … — only carried through) -/
inductive RdErr
  | invalidPacket
  | net (c : Nat)
deriving DecidableEq, Repr

/-- the connection as `Read` sees it: reader state, `receiveBuffer`, `receiveDecodedBuffer`, and
    (repaired code) the pending error of the last `readPackets`, reported once when the decoded bytes are drained -/
structure ConnRd where
  rx : Rx
  buf : Bytes
  dec : Bytes
  err : Option RdErr
deriving Repr

/-- one result of the underlying `conn.Conn.Read`: bytes, possibly TOGETHER with an error -/
abbrev NetRead := Bytes × Option Nat

/-- one `readPackets` call on a given result of the underlying read: the bytes are buffered and
    decoded FIRST, then the read error (or the packet error) is returned -/
def ConnRd.readPackets (P : Prims) (k : DirKeys) (s : ConnRd) (r : NetRead) : ConnRd × Option RdErr :=
  let (rx, os, rest) := SS.readPackets P k s.rx s.buf r.1
  let s' := { s with rx := rx, buf := rest, dec := s.dec ++ delivered os }
  (s', if rx.failed then some .invalidPacket else r.2.map .net)

/-- outcome of one `Read(b)`, `len(b) = n`: bytes handed out, error, underlying reads left;
    `none` = blocked in the underlying read (script exhausted) -/
abbrev ReadOut := Option (ConnRd × Bytes × Option RdErr × List NetRead)

/-- `ssConn.Read` BEFORE the repair: the error of the `readPackets` call that filled the decoded
    buffer is returned with the first `n` bytes, whatever is still buffered -/
def ConnRd.readOld (P : Prims) (k : DirKeys) (n : Nat) : ConnRd → List NetRead → ReadOut
  | s, script =>
    if s.dec ≠ [] then some ({ s with dec := s.dec.drop n }, s.dec.take n, none, script)
    else match script with
      | [] => none
      | r :: rest =>
        match s.readPackets P k r with
        | (s', some e) => some ({ s' with dec := s'.dec.drop n }, s'.dec.take n, some e, rest)
        | (s', none) => ConnRd.readOld P k n s' rest

/-- `ssConn.Read` (repaired): the error is remembered and reported — once, then forgotten — only by
    a call that finds the decoded buffer empty: everything decoded before the error is delivered
    first, and the call after the reported error goes to the network again -/
def ConnRd.read (P : Prims) (k : DirKeys) (n : Nat) : ConnRd → List NetRead → ReadOut
  | s, script =>
    if s.dec ≠ [] then some ({ s with dec := s.dec.drop n }, s.dec.take n, none, script)
    else match s.err with
      | some e => some ({ s with err := none }, [], some e, script)
      | none =>
        match script with
        | [] => none
        | r :: rest =>
          match s.readPackets P k r with
          | (s', some e) =>
            -- remember the error; the loop condition is looked at again
            if s'.dec ≠ [] then some ({ s' with dec := s'.dec.drop n, err := some e }, s'.dec.take n, none, rest)
            else some ({ s' with err := none }, [], some e, rest)
          | (s', none) => ConnRd.read P k n s' rest

/-- a reader that stops at the first error (`io.ReadAll`, `io.Copy`): everything it got -/
def readAll (rd : ConnRd → List NetRead → ReadOut) : (fuel : Nat) → ConnRd → List NetRead → Bytes × Option RdErr
  | 0, _, _ => ([], none)
  | fuel + 1, s, script =>
    match rd s script with
    | none => ([], none)
    | some (_, d, some e, _) => (d, some e)
    | some (s', d, none, rest) =>
      let (d', e) := readAll rd fuel s' rest
      (d ++ d', e)

/-! ## Ticket store (`ssTicketStore`) -/

structure Ticket where
  key : Bytes
  ticket : Bytes
  issuedAt : Int
deriving DecidableEq, Repr

/-- `isValid()` at wall-clock second `now` -/
def Ticket.isValid (t : Ticket) (now : Int) : Bool := decide (t.issuedAt + (ticketLifetime : Int) > now)

/-- `store map[string]*ssTicket` as an association list with distinct keys -/
abbrev Store := List (String × Ticket)

def Store.lookup (s : Store) (addr : String) : Option Ticket := (s.find? (·.1 == addr)).map (·.2)
def Store.erase (s : Store) (addr : String) : Store := s.filter (·.1 != addr)

/-- `newTicket(raw)` + `storeTicket`: a raw blob of the wrong length is silently ignored -/
def Store.storeTicket (s : Store) (addr : String) (raw : Bytes) (now : Int) : Store :=
  if raw.length ≠ ticketKeyLength + ticketLength then s
  else (addr, ⟨raw.take ticketKeyLength, raw.drop ticketKeyLength, now⟩) :: s.erase addr

/-- `getTicket(addr)`: the ticket is removed whether or not it is still valid; an expired one
    is not returned -/
def Store.getTicket (s : Store) (addr : String) (now : Int) : Store × Option Ticket :=
  match s.lookup addr with
  | none => (s, none)
  | some t => (s.erase addr, if t.isValid now then some t else none)

/-- what `loadTicketStore` keeps of a file written by `serialize` when the process restarts at
    `now`: expired tickets are dropped (corrupt entries cannot come out of `serialize`) -/
def Store.reload (s : Store) (now : Int) : Store := s.filter (fun e => e.2.isValid now)

/-- the first flight of `clientHandshake` -/
inductive Flight
  | ticket (t : Ticket)
  | uniformDH
deriving DecidableEq, Repr

/-- the decision at the top of `clientHandshake` (serialisation errors are not modelled here) -/
def Store.connect (s : Store) (addr : String) (now : Int) : Store × Flight :=
  match s.getTicket addr now with
  | (s', some t) => (s', .ticket t)
  | (s', none) => (s', .uniformDH)

/-- one step of a client's life, as far as tickets are concerned -/
inductive HOp
  /-- `Dial` to the bridge `addr` at wall-clock second `now` -/
  | connect (addr : String) (now : Int)
  /-- a `pktNewTicket` packet with payload `raw` arrives on a connection to `addr` -/
  | issue (addr : String) (raw : Bytes) (now : Int)
  /-- the process restarts (new `ClientFactory` on the same state directory); every change of the
      store has been written to the file (write failures and torn files are property C18's) -/
  | restart (now : Int)
deriving Repr

/-- key ‖ ticket, the 144 bytes the server issued -/
def Ticket.raw (t : Ticket) : Bytes := t.key ++ t.ticket

/-- run a history: final store and the tickets presented in handshakes (newest first) -/
def runHist : Store → List Bytes → List HOp → Store × List Bytes
  | s, pres, [] => (s, pres)
  | s, pres, .connect addr now :: r =>
    match s.connect addr now with
    | (s', .ticket t) => runHist s' (t.raw :: pres) r
    | (s', .uniformDH) => runHist s' pres r
  | s, pres, .issue addr raw now :: r => runHist (s.storeTicket addr raw now) pres r
  | s, pres, .restart now :: r => runHist (s.reload now) pres r

/-- the ticket blobs the server issues along a history -/
def issuedRaws : List HOp → List Bytes
  | [] => []
  | .issue _ raw _ :: r => raw :: issuedRaws r
  | _ :: r => issuedRaws r

/-! ### the store with its file, and checkpoints that may fail -/

/-- the in-memory map and what is on disk (`none` = no ticket file yet; otherwise the store the
    last successful `serialize` wrote) -/
structure Disk where
  mem : Store
  file : Option Store
deriving Repr

/-- a checkpoint (`serialize`) of `mem`: the file is replaced atomically when the write succeeds
    and left as it was when it fails -/
def Disk.checkpoint (mem : Store) (d : Disk) (writeOk : Bool) : Disk :=
  ⟨mem, if writeOk then some mem else d.file⟩

/-- outcome of the ticket query at the top of `clientHandshake` -/
inductive FlightF
  | ticket (t : Ticket)
  | uniformDH
  /-- `getTicket` returned the `serialize` error: `clientHandshake` fails, nothing is sent -/
  | error
deriving DecidableEq, Repr

/-- `getTicket` + the decision of `clientHandshake`, with the checkpoint succeeding or not.  A found
    ticket is removed from the map and the map is checkpointed; when that fails the error is
    returned (valid or expired ticket alike) and the connection attempt ends before anything is
    written to the network. -/
def Disk.connect (d : Disk) (addr : String) (now : Int) (writeOk : Bool) : Disk × FlightF :=
  match d.mem.lookup addr with
  | none => (d, .uniformDH)
  | some t =>
    let d' := d.checkpoint (d.mem.erase addr) writeOk
    if ¬ writeOk then (d', .error)
    else if t.isValid now then (d', .ticket t) else (d', .uniformDH)

/-- `storeTicket`: the checkpoint error is ignored -/
def Disk.storeTicket (d : Disk) (addr : String) (raw : Bytes) (now : Int) (writeOk : Bool) : Disk :=
  if raw.length ≠ ticketKeyLength + ticketLength then d
  else d.checkpoint (d.mem.storeTicket addr raw now) writeOk

/-- restart: the map is what `loadTicketStore` keeps of the file -/
def Disk.restart (d : Disk) (now : Int) : Disk :=
  ⟨match d.file with
   | none => []
   | some f => f.reload now, d.file⟩

/-- a client's life with write faults: every checkpoint succeeds (`true`) or fails (`false`) -/
inductive HOpF
  | connect (addr : String) (now : Int) (writeOk : Bool)
  | issue (addr : String) (raw : Bytes) (now : Int) (writeOk : Bool)
  | restart (now : Int)
deriving Repr

def runHistF : Disk → List Bytes → List HOpF → Disk × List Bytes
  | d, pres, [] => (d, pres)
  | d, pres, .connect addr now w :: r =>
    match d.connect addr now w with
    | (d', .ticket t) => runHistF d' (t.raw :: pres) r
    | (d', _) => runHistF d' pres r
  | d, pres, .issue addr raw now w :: r => runHistF (d.storeTicket addr raw now w) pres r
  | d, pres, .restart now :: r => runHistF (d.restart now) pres r

def issuedRawsF : List HOpF → List Bytes
  | [] => []
  | .issue _ raw _ _ :: r => raw :: issuedRawsF r
  | _ :: r => issuedRawsF r

/-! ## The handshake timeout (`newScrambleSuitClientConn`) -/

/-- what `Dial` does to the underlying conn, as far as the 60 s handshake deadline is concerned -/
inductive ConnEv
  /-- `SetDeadline(now + clientHandshakeTimeout)`: read and write half armed -/
  | arm
  /-- `SetDeadline(time.Time{})` -/
  | clear
  | write
  | read
deriving DecidableEq, Repr

/-- a successful `newScrambleSuitClientConn`: start the timeout, `clientHandshake` (ticket: one
    write and done; UniformDH: one write and `reads` ≥ 1 reads until the response is complete),
    stop the timeout — for BOTH kinds, the stop is in the caller of `clientHandshake` -/
def dialTrace (ticket : Bool) (reads : Nat) : List ConnEv :=
  [.arm] ++ (if ticket then [.write] else .write :: List.replicate reads .read) ++ [.clear]

/-- is the deadline armed after a trace (last `arm`/`clear` wins) -/
def armedAfter : List ConnEv → Bool → Bool
  | [], a => a
  | .arm :: r, _ => armedAfter r true
  | .clear :: r, _ => armedAfter r false
  | _ :: r, a => armedAfter r a

/-! ## Reference server (no server exists in the repository) -/

/-- what the server learns from a complete client first flight -/
inductive Accept
  | dh (x : Bytes) (hour : Int)
  | ticket (t : Bytes) (hour : Int)
  | reject
deriving DecidableEq, Repr

/-- verify `id | P | M | MAC(id | P | M | E)` for `E ∈ {hour-1, hour, hour+1}` where `id` is the
    first `idLen` bytes and `M = mac128 key id` is searched from the left -/
def verifyFlight (P : Prims) (key : Bytes) (idLen : Nat) (flight : Bytes) (hour : Int) : Option Int :=
  if flight.length < idLen + 2 * macLength ∨ flight.length > maxHandshakeLength then none else
  let ident := flight.take idLen
  let mark := mac128 P key ident
  match Idx.indexOf mark ((flight.drop idLen).take (flight.length - idLen - macLength)) with
  | none => none
  | some pos =>
    let upto := idLen + pos + macLength
    if flight.length ≠ upto + macLength then none else
    let tag := flight.drop upto
    [hour, hour - 1, hour + 1].find? (fun h => mac128 P key (flight.take upto ++ epochHourBytes h) == tag)

/-- the server's UniformDH response Y | P_S | M_S | MAC(Y | P_S | M_S | E) -/
def serverResponse (P : Prims) (kB y pad : Bytes) (hour : Int) : Bytes :=
  let m := mac128 P kB y
  y ++ pad ++ m ++ mac128 P kB (y ++ pad ++ m ++ epochHourBytes hour)

/-- session keys of the **server** from the master secret: (tx, rx) = the client's (rx, tx) -/
def serverKeys (P : Prims) (seed : Bytes) : DirKeys × DirKeys :=
  let (ctx, crx) := initCrypto P seed
  (crx, ctx)

end O4.SS
