import O4.Model.Bytes
/-!
# Go `math/rand` (v1, go1.23) derivations over an abstract `Int63` source. Core only.

`rand.New(src)` derives everything from `src.Int63()`:

* `Int31  = int32(Int63() >> 32)`
* `Int31n(n)`: `n` a power of two → `Int31() & (n-1)`; otherwise rejection sampling with
  `max = 2^31 - 1 - 2^31 % n`, `v % n`
* `Int63n(n)`: the same over 63 bits
* `Intn(n)`: `n ≤ 2^31-1` → `Int31n`, else `Int63n`   (panics for `n ≤ 0`)
* `Float64 = float64(Int63()) / 2^63`, **retry** when that rounds to `1.0`
* `Perm(n)`: `for i in 0..n-1 { j := Intn(i+1); m[i] = m[j]; m[j] = i }`

The source is a state type `σ` with `int63 : σ → Nat × σ`; the rejection loops take *fuel* and
return `none` when it runs out (the Go loops are unbounded; each round rejects with probability
< 1/2, fuel 256 ⇒ 2⁻²⁵⁶).  Numbers are abstracted by `NumOps` so the same code runs in Lean
`Float` (driver, bit-identical to Go's float64 on amd64) and in an ordered field (theorems).
-/
namespace O4.GoRand

/-- an `Int63` source: `rand.Source` -/
structure Source (σ : Type) where
  int63 : σ → Nat × σ

/-- the arithmetic `probdist` performs on `float64`, abstracted -/
structure NumOps (α : Type) where
  zero : α
  one : α
  /-- `float64(n)` for a small table size `n` -/
  ofNat : Nat → α
  add : α → α → α
  sub : α → α → α
  mul : α → α → α
  div : α → α → α
  /-- `a < b` -/
  lt : α → α → Bool
  /-- `a <= b` -/
  le : α → α → Bool
  /-- `float64(v) / (1 << 63)` -/
  unit : Nat → α
  /-- `f == 1` -/
  isOne : α → Bool

/-- fuel for the rejection loops -/
def fuel : Nat := 256

section
variable {σ : Type} (src : Source σ)

def int31 (s : σ) : Nat × σ :=
  let (v, s') := src.int63 s
  (v >>> 32, s')

def rejectLoop (draw : σ → Nat × σ) (max n : Nat) : Nat → σ → Option (Nat × σ)
  | 0, _ => none
  | f + 1, s =>
    let (v, s') := draw s
    if v > max then rejectLoop draw max n f s' else some (v % n, s')

/-- `Int31n(n)` for `0 < n` -/
def int31n (n : Nat) (s : σ) : Option (Nat × σ) :=
  if n &&& (n - 1) == 0 then
    let (v, s') := int31 src s
    some (v &&& (n - 1), s')
  else
    rejectLoop (int31 src) (2 ^ 31 - 1 - 2 ^ 31 % n) n fuel s

/-- `Int63n(n)` for `0 < n` -/
def int63n (n : Nat) (s : σ) : Option (Nat × σ) :=
  if n &&& (n - 1) == 0 then
    let (v, s') := src.int63 s
    some (v &&& (n - 1), s')
  else
    rejectLoop src.int63 (2 ^ 63 - 1 - 2 ^ 63 % n) n fuel s

/-- `Intn(n)`; `none` also stands for the Go panic on `n ≤ 0` -/
def intn (n : Nat) (s : σ) : Option (Nat × σ) :=
  if n == 0 then none
  else if n ≤ 2 ^ 31 - 1 then int31n src n s
  else int63n src n s

def float64Loop {α : Type} (ops : NumOps α) : Nat → σ → Option (α × σ)
  | 0, _ => none
  | f + 1, s =>
    let (v, s') := src.int63 s
    let x := ops.unit v
    if ops.isOne x then float64Loop ops f s' else some (x, s')

/-- `Float64()` -/
def float64 {α : Type} (ops : NumOps α) (s : σ) : Option (α × σ) := float64Loop src ops fuel s

/-- one iteration of `Perm`'s loop on the already filled prefix `m` (`m.size = i`):
    `m[i] = m[j]; m[j] = i` (for `j = i` this stores `i` at position `i`). -/
def permStep (m : Array Nat) (i j : Nat) : Array Nat :=
  (m.push (m.getD j 0)).setIfInBounds j i

def permAux : (todo i : Nat) → Array Nat → σ → Option (Array Nat × σ)
  | 0, _, m, s => some (m, s)
  | todo + 1, i, m, s =>
    match intn src (i + 1) s with
    | none => none
    | some (j, s') => permAux todo (i + 1) (permStep m i j) s'

/-- `Perm(n)` -/
def perm (n : Nat) (s : σ) : Option (List Nat × σ) :=
  match permAux src n 0 (Array.mkEmpty n) s with
  | none => none
  | some (m, s') => some (m.toList, s')

end

/-- `float64` arithmetic: Lean `Float` is IEEE binary64 with the same round-to-nearest-even
    `+ - * /` and integer conversions as Go on amd64 (checked by the correspondence run). -/
def floatOps : NumOps Float where
  zero := 0.0
  one := 1.0
  ofNat n := n.toFloat
  add a b := a + b
  sub a b := a - b
  mul a b := a * b
  div a b := a / b
  lt a b := a < b
  le a b := a ≤ b
  unit v := v.toUInt64.toFloat / 9223372036854775808.0
  isOne x := x == 1.0

/-- a byte tape standing for `crypto/rand.Reader`; `short` is set when a read ran past its end -/
structure Tape where
  data : Bytes
  short : Bool := false
deriving Repr

/-- source reading a byte tape the way `csrand.csRandSource.Int63` reads `crypto/rand`:
    8 bytes big-endian, top bit cleared.  (An exhausted tape yields zeros and sets `short`;
    the driver rejects such a run.) -/
def tapeSource : Source Tape where
  int63 t :=
    let b := t.data.take 8
    ((Bytes.toNatBE (b ++ Bytes.zeros (8 - b.length))) % 2 ^ 63,
     ⟨t.data.drop 8, t.short || b.length < 8⟩)

end O4.GoRand
