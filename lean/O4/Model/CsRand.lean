import O4.Model.GoRand
/-!
# Model of `common/csrand` (C12, used by C09 and the handshake models). Core only.

`csrand.Rand = rand.New(csRandSource)`; `csRandSource.Int63` reads 8 bytes of `crypto/rand`,
big-endian, top bit cleared (`GoRand.tapeSource`).  The helpers are stated over any source.
-/
namespace O4.CsRand
open O4.GoRand

/-- outcome of `IntRange` -/
inductive RangeResult (σ : Type) where
  | ok (v : Int) (s : σ)
  | panic                -- `max < min`
  | overflow             -- `(max + 1) - min` does not fit a positive `int` (outside the model)
  | fuel
deriving Repr

variable {σ : Type} (src : Source σ)

/-- `csrand.Intn` -/
def intn (n : Nat) (s : σ) : Option (Nat × σ) := GoRand.intn src n s

/-- `csrand.Float64` -/
def float64 {α : Type} (ops : NumOps α) (s : σ) : Option (α × σ) := GoRand.float64 src ops s

/-- `csrand.IntRange(min, max)`: uniformly distributed in `[min, max]` -/
def intRange (min max : Int) (s : σ) : RangeResult σ :=
  if max < min then .panic
  else
    let r := (max + 1 - min).toNat
    if r ≥ 2 ^ 63 then .overflow
    else match GoRand.intn src r s with
      | none => .fuel
      | some (v, s') => .ok (v + min) s'

end O4.CsRand
