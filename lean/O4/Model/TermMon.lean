/-!
# Model of `termMonitor.wait` (obfs4proxy/termmon.go) — C19.  Core only.

`wait(termOnNoHandlers)` as a function of the history of events it receives: the values sent on
`handlerChan` (`onHandlerStart` sends `+1`, `onHandlerFinish` sends `-1`; both channels are
unbuffered, so the history is the order in which `select` receives) and the signals arriving on
`sigChan`.

`fixed = false` is the code as released: the zero-handler test sits *after* the `select`, so it
is only evaluated after an event has been received (defect F5).  `fixed = true` is the repaired
loop, which tests the condition before blocking.
-/
namespace O4.TermMon

inductive Sig | int | term
deriving DecidableEq, Repr

inductive Ev
  | h (δ : Int)       -- a value received from handlerChan
  | sig (s : Sig)     -- a signal received from sigChan
deriving DecidableEq, Repr

def Ev.start : Ev := .h 1
def Ev.finish : Ev := .h (-1)

inductive Res
  | returned (s : Sig) (consumed : Nat) (n : Int)  -- returned `s` after receiving `consumed` events
  | blocked (n : Int)                              -- all events received, parked in `select`
deriving DecidableEq, Repr

def Res.bump : Res → Res
  | .returned s k n => .returned s (k + 1) n
  | .blocked n => .blocked n

/-- `m.wait(flag)` started with `numHandlers = n` on the event history -/
def wait (fixed flag : Bool) : Int → List Ev → Res
  | n, [] => if fixed && flag && n == 0 then .returned .term 0 n else .blocked n
  | n, e :: rest =>
    if fixed && flag && n == 0 then .returned .term 0 n else
    match e with
    | .sig s => .returned s 1 n
    | .h δ =>
      if !fixed && flag && n + δ == 0 then .returned .term 1 (n + δ)
      else (wait fixed flag (n + δ) rest).bump

def Res.count : Res → Int
  | .returned _ _ n => n
  | .blocked n => n

def Res.consumed (total : Nat) : Res → Nat
  | .returned _ k _ => k
  | .blocked _ => total

/-- sum of the handler deltas of a history -/
def delta : List Ev → Int
  | [] => 0
  | .h δ :: rest => δ + delta rest
  | .sig _ :: rest => delta rest

def starts (evs : List Ev) : Nat := (evs.filter (· == Ev.start)).length
def finishes (evs : List Ev) : Nat := (evs.filter (· == Ev.finish)).length

/-- which variant the code under test is (the correspondence check compares the real
    `termMonitor.wait` with `wait codeFixed`).  `true` since the repair
    "fix: termMonitor.wait checks the no-handlers condition before blocking";
    the released loop (`false`) is kept for the counterexample and as a regression target. -/
def codeFixed : Bool := true

/-- the shutdown sequence of `main`: `wait(false)`; on SIGTERM exit; on SIGINT close the
    listeners and `wait(true)` with the same monitor (the count carries over). -/
inductive MainRes
  | exited (s : Sig) (consumed : Nat) (n : Int)   -- the process leaves `main`
  | blocked (phase : Nat) (n : Int)               -- parked in the first / second wait
deriving DecidableEq, Repr

def mainSeq (fixed : Bool) (evs : List Ev) : MainRes :=
  match wait fixed false 0 evs with
  | .blocked n => .blocked 1 n
  | .returned .term k n => .exited .term k n
  | .returned .int k n =>
    match wait fixed true n (evs.drop k) with
    | .blocked m => .blocked 2 m
    | .returned s j m => .exited s (k + j) m

end O4.TermMon
