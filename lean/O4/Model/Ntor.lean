import O4.Model.Bytes
import O4.Generated.Consts.Ntor
/-!
# Model of `common/ntor` (C08, C02). Core only, parametric in the primitives.

`ntorCommon` builds `secret_input = EXP(…) ‖ EXP(…) ‖ B ‖ B ‖ X ‖ Y ‖ PROTOID ‖ ID` exactly as the
code does (the identity key appears twice: `bytes.NewBuffer(b)` followed by `Write(b)`).
-/
namespace O4.Ntor
open O4.Consts.Ntor

structure Prims where
  /-- HMAC-SHA256 (key, message) -/
  hmac : Bytes → Bytes → Bytes
  /-- `curve25519.ScalarMult(scalar, point)`: the raw ladder (all-zero on low-order points) -/
  x25519 : Bytes → Bytes → Bytes
  /-- `hkdf.New(sha256.New, secret, salt, info)` read for `n` bytes -/
  hkdf : Bytes → Bytes → Bytes → Nat → Bytes

def bs (s : String) : Bytes := Bytes.ofString s

/-- `constantTimeIsZero` -/
def isZero (x : Bytes) : Bool := x.all (· == 0)

/-- the part of `secret_input` / `auth_input` after the two DH results -/
def suffix (id b x y : Bytes) : Bytes := b ++ b ++ x ++ y ++ bs protoID ++ id

/-- `ntorCommon`: (KEY_SEED, AUTH) -/
def ntorCommon (P : Prims) (exps : Bytes) (id b x y : Bytes) : Bytes × Bytes :=
  let secretInput := exps ++ suffix id b x y
  let keySeed := P.hmac (bs tKey) secretInput
  let verify := P.hmac (bs tVerify) secretInput
  let auth := P.hmac (bs tMac) (verify ++ suffix id b x y ++ bs "Server")
  (keySeed, auth)

/-- `ServerHandshake(clientPublic X, serverKeypair (y,Y), idKeypair (b,B), id)` -/
def serverHandshake (P : Prims) (X yPriv Y bPriv B id : Bytes) : Bool × Bytes × Bytes :=
  let e1 := P.x25519 yPriv X
  let e2 := P.x25519 bPriv X
  let (ks, auth) := ntorCommon P (e1 ++ e2) id B X Y
  (!(isZero e1) && !(isZero e2), ks, auth)

/-- `ClientHandshake(clientKeypair (x,X), serverPublic Y, idPublic B, id)` -/
def clientHandshake (P : Prims) (xPriv X Y B id : Bytes) : Bool × Bytes × Bytes :=
  let e1 := P.x25519 xPriv Y
  let e2 := P.x25519 xPriv B
  let (ks, auth) := ntorCommon P (e1 ++ e2) id B X Y
  (!(isZero e1) && !(isZero e2), ks, auth)

/-- `Kdf(keySeed, okmLen)` -/
def kdf (P : Prims) (keySeed : Bytes) (n : Nat) : Bytes :=
  P.hkdf keySeed (bs tKey) (bs mExpand) n

end O4.Ntor
