import O4.Model.Bytes
import O4.Model.BytesIndex
import O4.Model.StreamConn
import O4.Model.TapeRand
import O4.Model.Crypto.Hmac
import O4.Model.Crypto.Aes
import O4.Model.UniformDH
import O4.Generated.Consts.Obfs3
/-!
# obfs3 endpoint (`transports/obfs3/obfs3.go`), line by line — core Lean only

Parametric in the primitives (`Prims`: HMAC-SHA256, the CTR stream function, what `aes.NewCipher` /
`cipher.NewCTR` accept, and the two UniformDH functions) so that the theorems of `O4.Props.C13` hold
for every keystream and every DH; `Prims.real` is the executable instantiation of the driver
(`O4.UniformDH`, 1536-bit modexp).

What the code does (and the model follows):
* `handshake()`: 192 private-key bytes, `padLen = csrand.IntRange(0, maxPadding/2)` and `padLen`
  padding bytes from `crypto/rand`; one write `PUB ‖ pad`; `io.ReadFull` of exactly 192 bytes (the
  peer's padding stays unread on the socket); `uniformdh.Handshake`; `kdf`:
  `INIT/RESP_SECRET = HMAC(secret, label)` (key = first `keyLen` bytes, counter = the rest),
  `INIT/RESP_MAGIC = HMAC(secret, magic label)`; the initiator sends with the INIT stream, scans for
  the RESP magic and sends the INIT magic; `rx` reads from the (empty) `rxBuf`.
* first `Write`: `padLen2 = IntRange(0, maxPadding/2)`, one write `pad2 ‖ txMagic`, then one write
  with the ciphertext; later `Write`s: ciphertext only.
* first `Read`: `findPeerMagic` — loop { `conn.Read` of at most `maxPadding + sha256.Size` bytes,
  append to `rxBuf`, `bytes.Index(rxBuf, rxMagic)`; not found: error once
  `len(rxBuf) ≥ maxPadding + sha256.Size`, else loop; found at `pos > maxPadding`: error; otherwise
  drop `pos + len(magic)` bytes and stop }. On error the conn is closed. Then, and on every later
  `Read`: if `rxBuf` is empty it is released and `rx` reads the network directly, otherwise the
  call returns decrypted bytes **from `rxBuf` only** (the bytes that followed the magic).

A `Read` that blocks inside `findPeerMagic` keeps what it accumulated in `rxBuf`; the next `read`
of the model continues from there (the loop has no other state).
Explicit `panic` outcomes (for C10): `secret[:keyLen]` on a short digest, `cipher.NewCTR` on a bad
counter length. `peak` is a ghost field: the largest `rxBuf` ever held.
-/
namespace O4.Obfs3
open O4.SC
open O4.Consts.Obfs3

inductive Err
  /-- `io.ReadFull` / `conn.Read` hit EOF or a read error -/
  | eof
  /-- `aes.NewCipher` rejected the key length -/
  | cipherKey
  /-- "failed to find peer magic value" -/
  | noMagic
  /-- "peer sent too much pre-magic-padding" -/
  | tooMuchPadding
  /-- `uniformdh.GenerateKey` / `SetBytes` error (wrong length) -/
  | dhKey
  /-- use of the connection after it was closed -/
  | closed
deriving Repr, DecidableEq

inductive Stop
  | fail (e : Err)
  | panic
deriving Repr, DecidableEq

structure Prims where
  /-- `hmac.New(sha256.New, key)` over `msg` -/
  hmac : Bytes → Bytes → Bytes
  sxor : SXor
  keyOk : Bytes → Bool
  ivOk : Bytes → Bool
  /-- `uniformdh.GenerateKey` on the private bytes: the public key bytes that are sent -/
  dhPub : Bytes → Option Bytes
  /-- `PublicKey.SetBytes` + `uniformdh.Handshake`: own private bytes, peer's public bytes -/
  dhShared : Bytes → Bytes → Option Bytes

def Prims.real : Prims where
  hmac := Crypto.hmacSha256
  sxor := Crypto.aesCtrXor
  keyOk := Crypto.aesKeyOk
  ivOk := Crypto.aesIvOk
  dhPub p := (UniformDH.generateKey p).map (·.pubBytes)
  dhShared := UniformDH.sharedSecret

variable (P : Prims)

/-- the scan window / read size of `findPeerMagic`: `maxPadding + sha256.Size` -/
def window : Nat := maxPadding + sha256Size

inductive Phase
  /-- in `io.ReadFull(conn.Conn, rawPeerPublicKey)` -/
  | pubkey
  /-- `handshake()` returned nil -/
  | established
  | failed (e : Err)
  | panicked
deriving Repr, DecidableEq

structure Conn where
  initiator : Bool
  /-- the 192 private bytes drawn -/
  priv : Bytes
  phase : Phase
  /-- `nil` once the magic was found -/
  rxMagic : Option Bytes
  /-- `nil` once the magic was sent -/
  txMagic : Option Bytes
  /-- `nil` (`none`) once released -/
  rxBuf : Option Bytes
  rx : Stream
  tx : Stream
  /-- `conn.Close()` was called by an error path of `Read`/`Write` -/
  closed : Bool
  /-- ghost: largest `rxBuf` length so far -/
  peak : Nat
deriving Repr, DecidableEq

def noStream : Stream := { key := [], iv := [], off := 0 }

/-- the randomness `handshake()` draws: private key, `IntRange(0, maxPadding/2)`, padding.
Returns them and the number of tape bytes consumed. -/
def drawRandom (tape : Bytes) : Option (Bytes × Nat × Bytes × Nat) :=
  if tape.length < uniformdhSize then none else
  match TapeRand.intRange 0 (maxPadding / 2) (tape.drop uniformdhSize) with
  | none => none
  | some (padLen, rest) =>
    if rest.length < padLen then none
    else some (tape.take uniformdhSize, padLen, rest.take padLen, tape.length - rest.length + padLen)

/-- first half of `handshake()`: the connection waiting for the peer's key, and the single write -/
def startWith (initiator : Bool) (priv pad : Bytes) : Except Stop (Conn × List Bytes) :=
  match P.dhPub priv with
  | none => .error (.fail .dhKey)
  | some pub =>
    .ok ({ initiator := initiator, priv := priv, phase := .pubkey, rxMagic := none, txMagic := none,
           rxBuf := some [], rx := noStream, tx := noStream, closed := false, peak := 0 },
         [pub ++ pad])

/-- `secret[:keyLen]`, `secret[keyLen:]`, `aes.NewCipher`, `cipher.NewCTR` -/
def newStream (secret : Bytes) : Except Stop Stream :=
  if secret.length < keyLen then .error .panic
  else if !P.keyOk (secret.take keyLen) then .error (.fail .cipherKey)
  else if !P.ivOk (secret.drop keyLen) then .error .panic
  else .ok { key := secret.take keyLen, iv := secret.drop keyLen, off := 0 }

structure Keys where
  initStream : Stream
  respStream : Stream
  initMagic : Bytes
  respMagic : Bytes
deriving Repr, DecidableEq

/-- everything `kdf` derives from the shared secret -/
def deriveKeys (secret : Bytes) : Except Stop Keys := do
  let initSecret := P.hmac secret (Bytes.ofString initiatorKdfString)
  let initMagic := P.hmac secret (Bytes.ofString initiatorMagicString)
  let respSecret := P.hmac secret (Bytes.ofString responderKdfString)
  let respMagic := P.hmac secret (Bytes.ofString responderMagicString)
  let i ← newStream P initSecret
  let r ← newStream P respSecret
  pure { initStream := i, respStream := r, initMagic := initMagic, respMagic := respMagic }

/-- `conn.kdf(sharedSecret)` -/
def kdf (c : Conn) (secret : Bytes) : Conn :=
  match deriveKeys P secret with
  | .ok k =>
    if c.initiator then
      { c with phase := .established, tx := k.initStream, rx := k.respStream,
               txMagic := some k.initMagic, rxMagic := some k.respMagic }
    else
      { c with phase := .established, tx := k.respStream, rx := k.initStream,
               txMagic := some k.respMagic, rxMagic := some k.initMagic }
  | .error (.fail e) => { c with phase := .failed e }
  | .error .panic => { c with phase := .panicked }

/-- the `io.ReadFull` of the handshake on the unread bytes `b`: `none` = not enough bytes yet -/
def hsStep (c : Conn) (b : Bytes) : Option (Conn × Nat) :=
  match c.phase with
  | .pubkey =>
    if b.length < uniformdhSize then none else
    match P.dhShared c.priv (b.take uniformdhSize) with
    | none => some ({ c with phase := .failed .dhKey }, uniformdhSize)
    | some secret => some (kdf P c secret, uniformdhSize)
  | _ => none

/-- let the pending `ReadFull` complete if the queued bytes allow -/
def progress (c : Conn) (q : Net) : Conn × Net :=
  match hsStep P c q.flatten with
  | none => (c, q)
  | some (c', n) => (c', Net.dropBytes n q)

/-- chunks arrive one after the other during the handshake -/
def feedAll (c : Conn) (q : Net) : List Bytes → Conn × Net
  | [] => progress P c q
  | ch :: cs => feedAll (progress P c q).1 ((progress P c q).2.push ch) cs

/-- the read side ends while the handshake's `ReadFull` waits -/
def eof (c : Conn) : Conn :=
  match c.phase with
  | .pubkey => { c with phase := .failed .eof }
  | _ => c

/-! ## first `Write`: padding and magic -/

/-- the randomness of the first `Write`: `IntRange(0, maxPadding/2)` and the padding -/
def drawWriteRandom (tape : Bytes) : Option (Nat × Bytes × Nat) :=
  match TapeRand.intRange 0 (maxPadding / 2) tape with
  | none => none
  | some (padLen, rest) =>
    if rest.length < padLen then none
    else some (padLen, rest.take padLen, tape.length - rest.length + padLen)

/-- `obfs3Conn.Write(b)` on an established connection; `pad` is used by the first call only.
Returns the net writes. -/
def write (c : Conn) (data pad : Bytes) : Conn × List Bytes :=
  let (tx, wire) := c.tx.xor P.sxor data
  match c.txMagic with
  | some m => ({ c with tx := tx, txMagic := none }, [pad ++ m, wire])
  | none => ({ c with tx := tx }, [wire])

/-! ## `findPeerMagic` and `Read` -/

inductive ScanRes
  /-- blocked in `conn.Read`: `rxBuf` so far, the (empty) queue -/
  | block (buf : Bytes) (q : Net)
  /-- magic at `pos ≤ maxPadding` in `buf` -/
  | found (buf : Bytes) (pos : Nat) (q : Net)
  | fail (e : Err) (buf : Bytes) (q : Net)
deriving Repr, DecidableEq

/-- the loop of `findPeerMagic`; `fuel` bounds the number of `conn.Read`s (each takes ≥ 1 byte) -/
def findPeerMagic (magic : Bytes) : Nat → Bytes → Net → ScanRes
  | 0, buf, q => .block buf q
  | fuel + 1, buf, q =>
    match Net.read window q with
    | none => .block buf q
    | some (chunk, q') =>
      let buf' := buf ++ chunk
      match Idx.indexOf magic buf' with
      | none => if buf'.length ≥ window then .fail .noMagic buf' q' else findPeerMagic magic fuel buf' q'
      | some pos => if pos > maxPadding then .fail .tooMuchPadding buf' q' else .found buf' pos q'

inductive ReadRes
  /-- the call returned `out` (n > 0, nil) -/
  | data (c : Conn) (out : Bytes) (q : Net)
  /-- the call is blocked in `conn.Read` -/
  | block (c : Conn) (q : Net)
  /-- the call returned an error -/
  | fail (c : Conn) (e : Err) (q : Net)
deriving Repr, DecidableEq

/-- `rx` still reads the (non-empty) handshake buffer: only its bytes are returned -/
def readBuf (c : Conn) (max : Nat) (buf : Bytes) (q : Net) : ReadRes :=
  .data { c with rx := (c.rx.xor P.sxor (buf.take max)).1, rxBuf := some (buf.drop max) }
    (c.rx.xor P.sxor (buf.take max)).2 q

/-- the buffer is empty or already released: `rx` is (re)wired to the network -/
def readNet (c : Conn) (max : Nat) (q : Net) : ReadRes :=
  match Net.read max q with
  | none => .block { c with rxBuf := none } q
  | some (chunk, q') =>
    .data { c with rxBuf := none, rx := (c.rx.xor P.sxor chunk).1 } (c.rx.xor P.sxor chunk).2 q'

/-- the part of `Read` after the magic scan -/
def readData (c : Conn) (max : Nat) (q : Net) : ReadRes :=
  match c.rxBuf with
  | some (b :: bs) => readBuf P c max (b :: bs) q
  | _ => readNet P c max q

/-- `obfs3Conn.Read(b)`, `len(b) = max > 0`, on an established connection -/
def read (c : Conn) (max : Nat) (q : Net) : ReadRes :=
  if c.closed then .fail c .closed q else
  match c.rxMagic with
  | some m =>
    match findPeerMagic m (q.size + 1) (c.rxBuf.getD []) q with
    | .block buf q' => .block { c with rxBuf := some buf, peak := Nat.max c.peak buf.length } q'
    | .fail e buf q' =>
      .fail { c with rxBuf := some buf, peak := Nat.max c.peak buf.length, closed := true } e q'
    | .found buf pos q' =>
      readData P { c with rxMagic := none, rxBuf := some (buf.drop (pos + m.length)),
                          peak := Nat.max c.peak buf.length } max q'
  | none => readData P c max q

/-- outcome of the `Read` that meets the final chunk of the stream, handed out by `conn.Read`
**together with an error** (n > 0 and err ≠ nil from one call, which `io.Reader` permits) -/
inductive LastRes
  /-- bytes from `rxBuf`, nil error; the final chunk is still on the socket -/
  | data (c : Conn) (out : Bytes)
  /-- `out` returned together with the error -/
  | dataErr (c : Conn) (out : Bytes)
  /-- only the error is returned -/
  | fail (c : Conn) (e : Err)
deriving Repr, DecidableEq

/-- `Read` (buffer `max ≥ |chunk|`) when the socket queue is empty and the next `conn.Read` returns
`chunk` with an error.
* after the magic: `cipher.StreamReader.Read` decrypts and returns the bytes with the error;
* **inside `findPeerMagic`**: `if err != nil { return err }` — the code comments "Read can return
  partial data and an error, but continuing past that is nonsensical": the n bytes are discarded
  (even if they contain the magic and data), the conn is closed, the error returned. -/
def readLast (c : Conn) (max : Nat) (chunk : Bytes) : LastRes :=
  if c.closed then .fail c .closed else
  match c.rxMagic with
  | some _ => .fail { c with closed := true } .eof
  | none =>
    match c.rxBuf with
    | some (b :: bs) =>
      .data { c with rx := (c.rx.xor P.sxor ((b :: bs).take max)).1, rxBuf := some ((b :: bs).drop max) }
        (c.rx.xor P.sxor ((b :: bs).take max)).2
    | _ => .dataErr { c with rxBuf := none, rx := (c.rx.xor P.sxor chunk).1 } (c.rx.xor P.sxor chunk).2

/-- the network reports EOF to a `Read` that is blocked / about to block: inside `findPeerMagic`
the conn is closed, otherwise the error is just returned -/
def readEof (c : Conn) : Conn :=
  match c.rxMagic with
  | some _ => { c with closed := true }
  | none => c

/-! ## histories: arrivals and `Read` calls in any interleaving -/

/-- an event at the receiving side of an established connection -/
inductive Ev
  /-- the network delivers a chunk (one future `conn.Read` result, unless larger than the buffer) -/
  | arrive (ch : Bytes)
  /-- the user calls `Read` with a buffer of `max` bytes; a call that blocks inside `findPeerMagic`
  keeps its progress in `rxBuf` and is continued by the next `read` event -/
  | read (max : Nat)
deriving Repr, DecidableEq

structure Run where
  c : Conn
  q : Net
  /-- what the `Read` calls returned so far -/
  outs : List Bytes
  /-- the first error a `Read` returned -/
  failed : Option Err
deriving Repr, DecidableEq

/-- record the result of a `Read` call -/
def Run.afterRead (s : Run) : ReadRes → Run
  | .data c o q => { s with c := c, q := q, outs := s.outs ++ [o] }
  | .block c q => { s with c := c, q := q }
  | .fail c e q => { s with c := c, q := q, failed := some e }

def stepEv (s : Run) : Ev → Run
  | .arrive ch => { s with q := s.q.push ch }
  | .read max =>
    match s.failed with
    | some _ => s
    | none => s.afterRead (read P s.c max s.q)

def runEvs (s : Run) (evs : List Ev) : Run := evs.foldl (stepEv P) s

/-- the bytes that arrive during a history, concatenated -/
def arrivals : List Ev → Bytes
  | [] => []
  | .arrive ch :: r => ch ++ arrivals r
  | .read _ :: r => arrivals r

/-- a sequence of `Write` calls (`pad` is used by the first): final state and the net writes -/
def writeAll (c : Conn) (pad : Bytes) : List Bytes → Conn × List Bytes
  | [] => (c, [])
  | w :: ws => ((writeAll (write P c w pad).1 pad ws).1, (write P c w pad).2 ++ (writeAll (write P c w pad).1 pad ws).2)

end O4.Obfs3
