import O4.Model.Bytes
import O4.Generated.Consts.Socks5
/-!
# Model of `common/socks5` (C17). Core only.

* `parsePairs` / `parseClientParameters` — `args.go`, the escape state machine byte for byte.
* `Reader` — the `bufio.Reader` over the connection: the connection is a list of chunks (one
  chunk per `conn.Read`), a refill takes the next chunk, `Buffered()` is what is left of it.
* `Prog` — the handshake as a *program* over three primitive actions (`ReadByte`,
  `Write`+`flushBuffers`, return); `handshake` is `Handshake` of `socks5.go` (with
  `negotiateAuth`, `authenticate`, `authRFC1929`, `readCommand`) written in that vocabulary.
* `exec` runs a program over a `Reader` (what the Go code does); `spec` runs the same program
  over the plain concatenated byte stream (no chunks, hence no trailing-data notion): the
  *specification parse of the concatenation*.
* Go slice indexing (`addr[0]`, `passwd[0]`, `rawPort[1]`) is modelled by the checked accessor
  `l[i]?`; a failed access yields the explicit outcome `panic`.
-/
namespace O4.Socks5
open O4

/-! ## constants (regenerated from the Go tree) as bytes -/
def cVersion : UInt8 := UInt8.ofNat Consts.Socks5.version
def cRsv : UInt8 := UInt8.ofNat Consts.Socks5.rsv
def cCmdConnect : UInt8 := UInt8.ofNat Consts.Socks5.cmdConnect
def cAtypIPv4 : UInt8 := UInt8.ofNat Consts.Socks5.atypIPv4
def cAtypDomainName : UInt8 := UInt8.ofNat Consts.Socks5.atypDomainName
def cAtypIPv6 : UInt8 := UInt8.ofNat Consts.Socks5.atypIPv6
def cAuthNone : UInt8 := UInt8.ofNat Consts.Socks5.authNoneRequired
def cAuthUserPass : UInt8 := UInt8.ofNat Consts.Socks5.authUsernamePassword
def cAuthNoAcceptable : UInt8 := UInt8.ofNat Consts.Socks5.authNoAcceptableMethods
def cAuthVer : UInt8 := UInt8.ofNat Consts.Socks5.authRFC1929Ver
def cAuthSuccess : UInt8 := UInt8.ofNat Consts.Socks5.authRFC1929Success
def cAuthFail : UInt8 := UInt8.ofNat Consts.Socks5.authRFC1929Fail
def cReplyGeneralFailure : UInt8 := UInt8.ofNat Consts.Socks5.replyGeneralFailure
def cReplyCommandNotSupported : UInt8 := UInt8.ofNat Consts.Socks5.replyCommandNotSupported
def cReplyAddressNotSupported : UInt8 := UInt8.ofNat Consts.Socks5.replyAddressNotSupported

/-! ## `parseClientParameters` (args.go) -/

def BS : UInt8 := 92   -- '\\'
def EQ : UInt8 := 61   -- '='
def SC : UInt8 := 59   -- ';'

/-- loop state of `parseClientParameters` -/
structure PS where
  key : Bytes            -- `key` ("" = no key yet)
  acc : Bytes            -- `acc`
  esc : Bool             -- `prevIsEscape`
  out : List (Bytes × Bytes)   -- the `args.Add` calls so far, in order
deriving DecidableEq, Repr

def PS.init : PS := ⟨[], [], false, []⟩

/-- one loop iteration; `last` is `idx == len(argStr)-1`; `none` = the `return nil, err` exits -/
def step (s : PS) (ch : UInt8) (last : Bool) : Option PS :=
  if ch = BS then
    if !s.esc then some { s with esc := true }                       -- `continue`
    else some { s with esc := false, acc := s.acc ++ [ch] }
  else if ch = EQ then
    if !s.esc then
      if s.key ≠ [] then some { s with esc := false, acc := s.acc ++ [ch] }   -- `break`
      else if s.acc = [] then none
      else some { s with key := s.acc, acc := [] }                   -- `continue`
    else some { s with esc := false, acc := s.acc ++ [ch] }
  else if ch = SC then
    if !s.esc then
      if s.key = [] ∨ last then none
      else some { s with out := s.out ++ [(s.key, s.acc)], key := [], acc := [] }
    else some { s with esc := false, acc := s.acc ++ [ch] }
  else
    if s.esc then none else some { s with acc := s.acc ++ [ch] }

def loop (s : PS) : Bytes → Option PS
  | [] => some s
  | [c] => step s c true
  | c :: d :: r => (step s c false).bind (fun s' => loop s' (d :: r))

def finish (s : PS) : Option (List (Bytes × Bytes)) :=
  if s.esc then none else if s.key = [] then none else some (s.out ++ [(s.key, s.acc)])

/-- the sequence of `args.Add(key, value)` calls, or `none` for an error return -/
def parsePairs (str : Bytes) : Option (List (Bytes × Bytes)) :=
  if str = [] then some [] else (loop PS.init str).bind finish

/-- `pt.Args` (a `map[string][]string`), keys in order of first insertion -/
abbrev Args := List (Bytes × List Bytes)

/-- `args.Add(k, v)`: `args[k] = append(args[k], v)` -/
def addArg : Args → Bytes → Bytes → Args
  | [], k, v => [(k, [v])]
  | (k', vs) :: r, k, v => if k' = k then (k', vs ++ [v]) :: r else (k', vs) :: addArg r k v

def group (l : List (Bytes × Bytes)) : Args := l.foldl (fun a kv => addArg a kv.1 kv.2) []

def parseClientParameters (str : Bytes) : Option Args := (parsePairs str).map group

/-! ### the encoder a client uses (tor / goptlib: `\` and `;` escaped, `=` too inside keys) -/
def escWith (special : UInt8 → Bool) : Bytes → Bytes
  | [] => []
  | c :: r => if special c then BS :: c :: escWith special r else c :: escWith special r

def keySpecial (c : UInt8) : Bool := c = BS || c = EQ || c = SC
def valSpecial (c : UInt8) : Bool := c = BS || c = SC

def encPair (kv : Bytes × Bytes) : Bytes := escWith keySpecial kv.1 ++ [EQ] ++ escWith valSpecial kv.2

def encode : List (Bytes × Bytes) → Bytes
  | [] => []
  | [kv] => encPair kv
  | kv :: kv' :: r => encPair kv ++ [SC] ++ encode (kv' :: r)

/-- how tor spreads the argument string over the RFC 1929 fields: the first 255 bytes are the
    username, the rest the password; an empty rest is sent as the single byte NUL -/
def splitUserPass (s : Bytes) : Bytes × Bytes :=
  if s.length ≤ 255 then (s, [0]) else (s.take 255, s.drop 255)

/-- what `authRFC1929` reassembles (`plen` is the length byte read from the wire):
    `argStr := uname; if !(plen == 1 && passwd[0] == 0x00) { argStr += passwd }`;
    `none` stands for the Go runtime panic of `passwd[0]` on an empty slice -/
def joinUserPass (uname passwd : Bytes) (plen : UInt8) : Option Bytes :=
  if plen = 1 then
    match passwd[0]? with
    | none => none
    | some b => if b = 0 then some uname else some (uname ++ passwd)
  else some (uname ++ passwd)

/-! ## rendering of the target -/

/-- `%d` -/
def decAux : Nat → Nat → Bytes → Bytes
  | 0, _, acc => acc
  | f + 1, n, acc =>
    let acc' := UInt8.ofNat (48 + n % 10) :: acc
    if n < 10 then acc' else decAux f (n / 10) acc'

def dec (n : Nat) : Bytes := decAux (n + 1) n []

def DOT : UInt8 := 46
def COLON : UInt8 := 58

/-- `net.IPv4(a,b,c,d).String()` -/
def ipv4String (a b c d : UInt8) : Bytes :=
  dec a.toNat ++ [DOT] ++ dec b.toNat ++ [DOT] ++ dec c.toNat ++ [DOT] ++ dec d.toNat

def hexDigitB (n : Nat) : UInt8 := if n < 10 then UInt8.ofNat (48 + n) else UInt8.ofNat (87 + n)

/-- `netip.appendHex`: no leading zeros -/
def appendHex (x : Nat) : Bytes :=
  (if x ≥ 0x1000 then [hexDigitB (x / 4096 % 16)] else []) ++
  (if x ≥ 0x100 then [hexDigitB (x / 256 % 16)] else []) ++
  (if x ≥ 0x10 then [hexDigitB (x / 16 % 16)] else []) ++ [hexDigitB (x % 16)]

def groups16 (b : Bytes) : List Nat :=
  (List.range 8).map fun i => (b.getD (2 * i) 0).toNat * 256 + (b.getD (2 * i + 1) 0).toNat

/-- `j := i; for j < 8 && v6u16(j) == 0 { j++ }` -/
def zeroRunEnd (g : List Nat) : Nat → Nat → Nat
  | 0, j => j
  | f + 1, j => if j < 8 ∧ g.getD j 1 = 0 then zeroRunEnd g f (j + 1) else j

/-- first loop of `netip.Addr.appendTo6`: the first longest run of ≥ 2 zero groups -/
def findZeroRun (g : List Nat) : Nat × Nat :=
  (List.range 8).foldl (fun (z : Nat × Nat) i =>
    let j := zeroRunEnd g 8 i
    let l := j - i
    if l ≥ 2 ∧ l > z.2 - z.1 then (i, j) else z) (255, 255)

/-- second loop of `appendTo6` -/
def print6 (g : List Nat) (zs ze : Nat) : Nat → Nat → Bytes
  | 0, _ => []
  | f + 1, i =>
    if i ≥ 8 then []
    else if i = zs then
      [COLON, COLON] ++ (if ze ≥ 8 then [] else appendHex (g.getD ze 0) ++ print6 g zs ze f (ze + 1))
    else (if i > 0 then [COLON] else []) ++ appendHex (g.getD i 0) ++ print6 g zs ze f (i + 1)

def string6 (g : List Nat) : Bytes :=
  let z := findZeroRun g
  print6 g z.1 z.2 9 0

/-- `net.IP(b).String()` for a 16-byte `b`: the IPv4-mapped form prints as a dotted quad -/
def ipString16 (b : Bytes) : Bytes :=
  if (b.take 10).all (· = 0) ∧ b.getD 10 0 = 255 ∧ b.getD 11 0 = 255 then
    ipv4String (b.getD 12 0) (b.getD 13 0) (b.getD 14 0) (b.getD 15 0)
  else string6 (groups16 b)

def LBR : UInt8 := 91
def RBR : UInt8 := 93

/-- `fmt.Sprintf("%s:%d", host, port)` -/
def joinTarget (host : Bytes) (port : Nat) : Bytes := host ++ [COLON] ++ dec port

/-! ## the bufio reader over a scripted connection -/

/-- `bufio.defaultBufSize` (Go standard library): one refill takes at most this many bytes -/
def bufioSize : Nat := 4096

structure Reader where
  buf : Bytes          -- unread part of the bufio buffer; `Buffered()` = `buf.length`
  rest : List Bytes    -- what the following `conn.Read` calls return, one chunk per call
  eof : Bool           -- after `rest`: `true` = `Read` returns io.EOF, `false` = `Read` blocks
deriving DecidableEq, Repr

inductive ReadRes
  | byte (b : UInt8) (r : Reader)
  | eof
  | blocked
deriving DecidableEq, Repr

/-- the connection never returns zero bytes: empty chunks do not exist on the wire -/
def refill (eof : Bool) : List Bytes → ReadRes
  | [] => if eof then .eof else .blocked
  | [] :: cs => refill eof cs
  | (b :: bs) :: cs => .byte b ⟨bs, cs, eof⟩

/-- `bufio.Reader.ReadByte` (and, byte by byte, `io.ReadFull`): refill only when the buffer is empty -/
def Reader.readByte (r : Reader) : ReadRes :=
  match r.buf with
  | b :: bs => .byte b { r with buf := bs }
  | [] => refill r.eof r.rest

/-- the unread stream -/
def Reader.stream (r : Reader) : Bytes := r.buf ++ r.rest.flatten

/-- a chunk longer than the bufio buffer takes several refills -/
def chop : Nat → Bytes → List Bytes
  | 0, _ => []
  | f + 1, c => if c = [] then [] else c.take bufioSize :: chop f (c.drop bufioSize)

def norm (cs : List Bytes) : List Bytes := cs.flatMap (fun c => chop c.length c)

/-! ## outcomes -/

inductive FailClass
  | eof      -- io.EOF / io.ErrUnexpectedEOF: the peer closed the exchange
  | proto    -- any other error return of `Handshake`
deriving DecidableEq, Repr

inductive Outcome
  | request (target : Bytes) (args : Args)   -- `Handshake` returned a `*Request`
  | failed (c : FailClass)                   -- `Handshake` returned an error
  | blocked                                  -- `Handshake` waits in `Read` (nothing to read, no EOF)
  | panic                                    -- a Go runtime panic (index out of range)
deriving DecidableEq, Repr

structure Result where
  outcome : Outcome
  writes : List Bytes     -- the non-empty flushes, in order
deriving DecidableEq, Repr

def Result.pre (bs : Bytes) (res : Result) : Result :=
  if bs = [] then res else { res with writes := bs :: res.writes }

/-! ## programs -/

/-- The three things the handshake code does with its `bufio.ReadWriter`. -/
inductive Prog where
  /-- return from `Handshake` -/
  | done (o : Outcome)
  /-- `ReadByte`: `onEof` is what the code does when the read fails with EOF -/
  | read (onEof : Prog) (k : UInt8 → Prog)
  /-- `Write(bs)` … `flushBuffers()`: the bytes go out; if `checked`, a non-empty
      `Reader.Buffered()` makes `Handshake` return an error (otherwise the result of
      `flushBuffers` is ignored by the caller) -/
  | flush (bs : Bytes) (checked : Bool) (k : Prog)

/-- the Go code: over the bufio reader -/
def exec : Prog → Reader → Result
  | .done o, _ => ⟨o, []⟩
  | .read e k, r =>
    match r.readByte with
    | .byte b r' => exec (k b) r'
    | .eof => exec e r
    | .blocked => ⟨.blocked, []⟩
  | .flush bs checked k, r =>
    if checked ∧ r.buf ≠ [] then Result.pre bs ⟨.failed .proto, []⟩
    else Result.pre bs (exec k r)

/-- the specification: the same protocol over the concatenated stream -/
def spec : Prog → Bytes → Bool → Result
  | .done o, _, _ => ⟨o, []⟩
  | .read e _, [], eof => if eof then spec e [] eof else ⟨.blocked, []⟩
  | .read _ k, b :: s, eof => spec (k b) s eof
  | .flush bs _ k, s, eof => Result.pre bs (spec k s eof)

/-- stream offsets (relative to the current position) at which the specification run passes a
    *checked* flush: the points at which the server answers and expects the client to have
    sent nothing further yet -/
def flushPoints : Prog → Bytes → Bool → List Nat
  | .done _, _, _ => []
  | .read e _, [], eof => if eof then flushPoints e [] eof else []
  | .read _ k, b :: s, eof => (flushPoints (k b) s eof).map (· + 1)
  | .flush _ checked k, s, eof => (if checked then [0] else []) ++ flushPoints k s eof

/-! ## the handshake (socks5.go, rfc1929.go) -/

/-- `readByteVerify`; every call site does the same thing for a read error and for a mismatch -/
def readByteVerify (expected : UInt8) (onErr : FailClass → Prog) (k : Prog) : Prog :=
  .read (onErr .eof) (fun v => if v = expected then k else onErr .proto)

/-- `readBytes(n)`: `io.ReadFull` over the bufio reader (no read at all for `n = 0`) -/
def readBytes : Nat → Prog → (Bytes → Prog) → Prog
  | 0, _, k => k []
  | n + 1, e, k => .read e (fun b => readBytes n e (fun bs => k (b :: bs)))

/-- `Reply(code)`: BND.ADDR/BND.PORT are always 0.0.0.0:0 -/
def replyBytes (code : UInt8) : Bytes := [cVersion, code, cRsv, cAtypIPv4, 0, 0, 0, 0, 0, 0]

/-- `_ = req.Reply(code); return err` -/
def failReply (code : UInt8) (c : FailClass) : Prog :=
  .flush (replyBytes code) false (.done (.failed c))

def pickMethod (methods : Bytes) : UInt8 :=
  if methods.contains cAuthUserPass then cAuthUserPass
  else if methods.contains cAuthNone then cAuthNone
  else cAuthNoAcceptable

def negotiateAuth (k : UInt8 → Prog) : Prog :=
  let err := fun c => Prog.done (.failed c)
  readByteVerify cVersion err <|
  .read (err .eof) fun nmethods =>
  readBytes nmethods.toNat (err .eof) fun methods =>
  let method := pickMethod methods
  .flush [cVersion, method] true (k method)

def authRFC1929 (k : Args → Prog) : Prog :=
  let sendErrResp := fun c => Prog.flush [cAuthVer, cAuthFail] false (.done (.failed c))
  readByteVerify cAuthVer sendErrResp <|
  .read (sendErrResp .eof) fun ulen =>
  if ulen < 1 then sendErrResp .proto else
  readBytes ulen.toNat (sendErrResp .eof) fun uname =>
  .read (sendErrResp .eof) fun plen =>
  if plen < 1 then sendErrResp .proto else
  readBytes plen.toNat (sendErrResp .eof) fun passwd =>
  let argStr : Option Bytes := joinUserPass uname passwd plen
  match argStr with
  | none => .done .panic
  | some s =>
    match parseClientParameters s with
    | none => sendErrResp .proto
    | some args => k args

def readCommand (args : Args) : Prog :=
  let gen := failReply cReplyGeneralFailure
  let fin := fun (host : Bytes) =>
    readBytes 2 (gen .eof) fun rawPort =>
      match rawPort[0]?, rawPort[1]? with
      | some hi, some lo =>
        .flush [] true (.done (.request (joinTarget host (hi.toNat * 256 + lo.toNat)) args))
      | _, _ => .done .panic
  readByteVerify cVersion gen <|
  readByteVerify cCmdConnect (failReply cReplyCommandNotSupported) <|
  readByteVerify cRsv gen <|
  .read (gen .eof) fun atyp =>
  if atyp = cAtypIPv4 then
    readBytes 4 (gen .eof) fun addr =>
      match addr[0]?, addr[1]?, addr[2]?, addr[3]? with
      | some a, some b, some c, some d => fin (ipv4String a b c d)
      | _, _, _, _ => .done .panic
  else if atyp = cAtypDomainName then
    .read (gen .eof) fun alen =>
    if alen = 0 then gen .proto else
    readBytes alen.toNat (gen .eof) fun addr => fin addr
  else if atyp = cAtypIPv6 then
    readBytes 16 (gen .eof) fun raw => fin ([LBR] ++ ipString16 raw ++ [RBR])
  else failReply cReplyAddressNotSupported .proto

/-- `authenticate(method)` followed by `readCommand` -/
def afterNegotiate (method : UInt8) : Prog :=
  if method = cAuthNone then .flush [] true (readCommand [])
  else if method = cAuthUserPass then
    -- `authRFC1929` writes the success response, `authenticate` flushes it
    authRFC1929 fun args => .flush [cAuthVer, cAuthSuccess] true (readCommand args)
  else .done (.failed .proto)   -- "no acceptable authentication methods" / unsupported method

def handshake : Prog := negotiateAuth afterNegotiate

/-- `Handshake(conn)` where the successive `conn.Read` calls return `chunks` and then either
    io.EOF (`eof = true`) or block -/
def run (chunks : List Bytes) (eof : Bool) : Result := exec handshake ⟨[], norm chunks, eof⟩

/-- the specification parse of a byte stream -/
def specRun (stream : Bytes) (eof : Bool) : Result := spec handshake stream eof

/-- offsets at which the server expects the client to pause -/
def flushOffsets (stream : Bytes) (eof : Bool) : List Nat := flushPoints handshake stream eof

/-! ## what a conforming client sends (RFC 1928 / RFC 1929) -/

inductive Addr
  | v4 (a b c d : UInt8)
  | domain (name : Bytes)
  | v6 (raw : Bytes)
deriving DecidableEq, Repr

def Addr.Valid : Addr → Prop
  | .v4 _ _ _ _ => True
  | .domain n => 1 ≤ n.length ∧ n.length ≤ 255
  | .v6 raw => raw.length = 16

/-- the ATYP byte -/
def Addr.atyp : Addr → UInt8
  | .v4 _ _ _ _ => cAtypIPv4
  | .domain _ => cAtypDomainName
  | .v6 _ => cAtypIPv6

def Addr.wire : Addr → Bytes
  | .v4 a b c d => [cAtypIPv4, a, b, c, d]
  | .domain n => [cAtypDomainName, UInt8.ofNat n.length] ++ n
  | .v6 raw => cAtypIPv6 :: raw

/-- the host part of `Request.Target` -/
def Addr.host : Addr → Bytes
  | .v4 a b c d => ipv4String a b c d
  | .domain n => n
  | .v6 raw => [LBR] ++ ipString16 raw ++ [RBR]

def msgMethods (methods : Bytes) : Bytes := [cVersion, UInt8.ofNat methods.length] ++ methods

def msgAuth (uname passwd : Bytes) : Bytes :=
  [cAuthVer, UInt8.ofNat uname.length] ++ uname ++ [UInt8.ofNat passwd.length] ++ passwd

def msgConnect (a : Addr) (port : Nat) : Bytes :=
  [cVersion, cCmdConnect, cRsv] ++ a.wire ++ [UInt8.ofNat (port / 256), UInt8.ofNat (port % 256)]

end O4.Socks5
