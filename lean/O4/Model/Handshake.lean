import O4.Model.Ntor
import O4.Model.BytesIndex
import O4.Model.ReplayFilter
import O4.Generated.Consts.Obfs4
import O4.Generated.Consts.Framing
/-!
# Model of `transports/obfs4/handshake_ntor.go` (C02, C03, C04, C06, C10). Core only.

Handshake parsers are re-run on the whole growing receive buffer; their per-connection cache
(`serverRepresentative`/`serverAuth`/`serverMark`, `clientRepresentative`/`clientMark`) is
explicit state.  Time enters only as the epoch hour (an `Int`) and the replay filter's `now`.
-/
namespace O4.Handshake
open O4.Consts.Obfs4 O4.Consts.Ntor

structure Prims extends Ntor.Prims where
  /-- `Representative.ToPublic` (Elligator 2 direct map; ignores the two top bits) -/
  reprToPublic : Bytes → Bytes

/-- `strconv.FormatInt(h, 10)`: the ASCII decimal digits, most significant first (bytes directly,
    so that `C06.epoch_decimal` needs no UTF-8 reasoning) -/
def natDigits : Nat → Nat → Bytes
  | 0, _ => []
  | fuel + 1, n => if n < 10 then [UInt8.ofNat (48 + n)] else natDigits fuel (n / 10) ++ [UInt8.ofNat (48 + n % 10)]

def epochStr (h : Int) : Bytes :=
  let body := natDigits (h.natAbs + 1) h.natAbs
  if h < 0 then 45 :: body else body

/-- key of the mark/MAC HMAC: `B ‖ NODEID` -/
def macKey (idPub nodeID : Bytes) : Bytes := idPub ++ nodeID

def mark (P : Prims) (idPub nodeID repr : Bytes) : Bytes :=
  (P.hmac (macKey idPub nodeID) repr).take markLength

def mac (P : Prims) (idPub nodeID : Bytes) (body : Bytes) (hour : Int) : Bytes :=
  (P.hmac (macKey idPub nodeID) (body ++ epochStr hour)).take macLength

/-- `clientHandshake.generateHandshake`: `X' ‖ P_C ‖ M_C ‖ MAC_C` -/
def clientBlob (P : Prims) (idPub nodeID repr pad : Bytes) (hour : Int) : Bytes :=
  let body := repr ++ pad ++ mark P idPub nodeID repr
  body ++ mac P idPub nodeID body hour

/-- `serverHandshake.generateHandshake`: `Y' ‖ AUTH ‖ P_S ‖ M_S ‖ MAC_S`; `hour` is the hour
    the *client* used (set by `parseClientHandshake`) -/
def serverBlob (P : Prims) (idPub nodeID repr auth pad : Bytes) (hour : Int) : Bytes :=
  let body := repr ++ auth ++ pad ++ mark P idPub nodeID repr
  body ++ mac P idPub nodeID body hour

/-- `findMarkMac`; `none` = -1 -/
def findMarkMac (mk buf : Bytes) (startPos maxPos : Nat) (fromTail : Bool) : Option Nat :=
  if startPos > buf.length then none else
  let endPos := min buf.length maxPos
  if endPos < startPos + (markLength + macLength) then none else   -- endPos-startPos < 32, in ℕ
  if fromTail then
    let pos := endPos - (markLength + macLength)
    if (buf.drop pos).take markLength = mk then some pos else none
  else
    match Idx.indexOf mk ((buf.take endPos).drop startPos) with
    | none => none
    | some pos =>
      if startPos + pos + markLength + macLength > endPos then none else some (startPos + pos)

inductive HsErr
  | markNotFoundYet      -- retry with more data
  | invalidHandshake
  | invalidMac
  | ntorFailed
  | invalidAuth
  | replayed
deriving DecidableEq, Repr

/-! ## client side -/

/-- what `parseServerHandshake` caches from the first call with ≥ 96 bytes -/
structure ClientCache where
  repr : Bytes
  auth : Bytes
  mrk : Bytes
deriving DecidableEq, Repr

structure Client where
  xPriv : Bytes
  xPub : Bytes
  xRepr : Bytes
  idPub : Bytes
  nodeID : Bytes
  hour : Int               -- epochHour used in the client's own blob
  cache : Option ClientCache
deriving DecidableEq, Repr

inductive ClientResult
  | err (e : HsErr)
  | ok (n : Nat) (keySeed : Bytes)      -- bytes of `resp` consumed, KEY_SEED
deriving DecidableEq, Repr

/-- `clientHandshake.parseServerHandshake(resp)` -/
def parseServerHandshake (P : Prims) (c : Client) (resp : Bytes) : Client × ClientResult :=
  if resp.length < serverMinHandshakeLength then (c, .err .markNotFoundYet) else
  let cache := match c.cache with
    | some k => k
    | none =>
      let r := resp.take representativeLength
      { repr := r, auth := (resp.drop representativeLength).take authLength,
        mrk := mark P c.idPub c.nodeID r }
  let c := { c with cache := some cache }
  match findMarkMac cache.mrk resp (representativeLength + authLength + serverMinPadLength)
      maxHandshakeLength false with
  | none =>
    if resp.length ≥ maxHandshakeLength then (c, .err .invalidHandshake)
    else (c, .err .markNotFoundYet)
  | some pos =>
    let macCmp := mac P c.idPub c.nodeID (resp.take (pos + markLength)) c.hour
    let macRx := (resp.drop (pos + markLength)).take macLength
    if macCmp ≠ macRx then (c, .err .invalidMac) else
    let serverPublic := P.reprToPublic cache.repr
    let (ok, seed, auth) := Ntor.clientHandshake P.toPrims c.xPriv c.xPub serverPublic c.idPub c.nodeID
    if !ok then (c, .err .ntorFailed)
    else if auth ≠ cache.auth then (c, .err .invalidAuth)
    else (c, .ok (pos + markLength + macLength) seed)

/-! ## server side -/

structure ServerCache where
  repr : Bytes
  mrk : Bytes
deriving DecidableEq, Repr

structure Server where
  yPriv : Bytes
  yPub : Bytes
  yRepr : Bytes
  idPriv : Bytes
  idPub : Bytes
  nodeID : Bytes
  cache : Option ServerCache
  hour : Option Int        -- the client's hour, set on success
  auth : Option Bytes
deriving DecidableEq, Repr

inductive ServerResult
  | err (e : HsErr)
  | ok (keySeed : Bytes)
deriving DecidableEq, Repr

/-- the loop over hour offsets `{0, -1, +1}`: every offset whose MAC matches is submitted to
    the replay filter; a hit aborts with `replayed`.  Returns the filter, the last matching
    hour (if any) or the replay verdict. -/
def macLoop (P : Prims) (s : Server) (body macRx : Bytes) (nowHour : Int) (nowNs : Int) :
    List Int → RF.Filter → Option Int → RF.Filter × Except Unit (Option Int)
  | [], f, found => (f, .ok found)
  | off :: rest, f, found =>
    if mac P s.idPub s.nodeID body (nowHour + off) = macRx then
      let (f', seen) := f.testAndSet nowNs (Bytes.toNatBE macRx)
      if seen then (f', .error ()) else macLoop P s body macRx nowHour nowNs rest f' (some (nowHour + off))
    else macLoop P s body macRx nowHour nowNs rest f found

/-- `serverHandshake.parseClientHandshake(filter, resp)`; `nowHour = getEpochHour()`,
    `nowNs` = the clock read **under the replay filter's lock** (`ReplayFilter.TestAndSetNow`), so the filter
    sees its clock readings in lock order -/
def parseClientHandshake (P : Prims) (s : Server) (f : RF.Filter) (nowHour nowNs : Int) (resp : Bytes) :
    Server × RF.Filter × ServerResult :=
  if resp.length < clientMinHandshakeLength then (s, f, .err .markNotFoundYet) else
  let cache := match s.cache with
    | some k => k
    | none =>
      let r := resp.take representativeLength
      { repr := r, mrk := mark P s.idPub s.nodeID r }
  let s := { s with cache := some cache }
  match findMarkMac cache.mrk resp (representativeLength + clientMinPadLength) maxHandshakeLength true with
  | none =>
    if resp.length ≥ maxHandshakeLength then (s, f, .err .invalidHandshake)
    else (s, f, .err .markNotFoundYet)
  | some pos =>
    let body := resp.take (pos + markLength)
    let macRx := (resp.drop (pos + markLength)).take macLength
    match macLoop P s body macRx nowHour nowNs [0, -1, 1] f none with
    | (f', .error ()) => (s, f', .err .replayed)
    | (f', .ok none) => (s, f', .err .invalidHandshake)
    | (f', .ok (some h)) =>
      let s := { s with hour := some h }
      if resp.length ≠ pos + markLength + macLength then (s, f', .err .invalidHandshake) else
      let clientPublic := P.reprToPublic cache.repr
      let (ok, seed, auth) := Ntor.serverHandshake P.toPrims clientPublic s.yPriv s.yPub s.idPriv s.idPub s.nodeID
      if !ok then (s, f', .err .ntorFailed)
      else ({ s with auth := some auth }, f', .ok seed)

/-! ## key schedule and the link keys -/

/-- `ntor.Kdf(seed, framing.KeyLength*2)`: 144 bytes -/
def okm (P : Prims) (keySeed : Bytes) : Bytes := Ntor.kdf P.toPrims keySeed (Consts.Framing.KeyLength * 2)

/-- client: encoder = okm[0:72], decoder = okm[72:144]; server the other way round -/
def clientEncKey (o : Bytes) : Bytes := o.take Consts.Framing.KeyLength
def clientDecKey (o : Bytes) : Bytes := o.drop Consts.Framing.KeyLength
def serverEncKey (o : Bytes) : Bytes := o.drop Consts.Framing.KeyLength
def serverDecKey (o : Bytes) : Bytes := o.take Consts.Framing.KeyLength

end O4.Handshake
