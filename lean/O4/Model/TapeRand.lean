import O4.Model.Bytes
/-!
# `csrand.IntRange` over a recorded random tape (core only)

`common/csrand`: `csRandSource.Int63` reads 8 bytes of `crypto/rand.Reader` big-endian and clears
the top bit; `math/rand.(*Rand).Intn → Int31n` (go1.23) on a plain `Source`:
`Int31 = Int63 >> 32`, power-of-two `n` masks, otherwise the rejection loop
`max = 2^31 − 1 − 2^31 % n; v = Int31(); for v > max { v = Int31() }; v % n`.
The model consumes the tape the harness recorded, so model and code use the same randomness.
Every function returns the value and the rest of the tape; `none` = the tape ran out.
-/
namespace O4.TapeRand

/-- `csRandSource.Int63` -/
def int63 (tape : Bytes) : Option (Nat × Bytes) :=
  if tape.length < 8 then none
  else some (Bytes.toNatBE (tape.take 8) % 2 ^ 63, tape.drop 8)

/-- `Rand.Int31` -/
def int31 (tape : Bytes) : Option (Nat × Bytes) :=
  (int63 tape).map fun (v, r) => (v / 2 ^ 32, r)

/-- the rejection loop of `Int31n`; fuel = number of draws the tape can still serve -/
def int31nLoop (n max : Nat) : Nat → Bytes → Option (Nat × Bytes)
  | 0, _ => none
  | fuel + 1, tape =>
    match int31 tape with
    | none => none
    | some (v, r) => if v > max then int31nLoop n max fuel r else some (v % n, r)

/-- `Rand.Int31n(n)` for `0 < n` -/
def int31n (n : Nat) (tape : Bytes) : Option (Nat × Bytes) :=
  if n &&& (n - 1) == 0 then (int31 tape).map fun (v, r) => (v &&& (n - 1), r)
  else int31nLoop n (2 ^ 31 - 1 - 2 ^ 31 % n) (tape.length / 8 + 1) tape

/-- `Rand.Intn(n)` for `0 < n ≤ 2^31 − 1` (larger `n` take the `Int63n` path, not needed here;
`n ≤ 0` panics in Go) -/
def intn (n : Nat) (tape : Bytes) : Option (Nat × Bytes) :=
  if 0 < n ∧ n ≤ 2 ^ 31 - 1 then int31n n tape else none

/-- `csrand.IntRange(lo, hi)` (`hi < lo` panics in Go) -/
def intRange (lo hi : Nat) (tape : Bytes) : Option (Nat × Bytes) :=
  if hi < lo then none else (intn (hi + 1 - lo) tape).map fun (v, r) => (v + lo, r)

end O4.TapeRand
