/-!
# C10 — the deadline discipline as a decidable verdict on a trace of conn operations (core only)

One alphabet for what an endpoint does to its `net.Conn` during a handshake call, and one verdict
function per kind of handshake wrapper.  The theorems of `O4/Props/C10.lean` show that the
modelled wrappers (and, through C03, every run of the obfs4 server machine) only produce traces
with verdict `true`; the Go harness sends the trace it observed on the real code for every
handshake case to the driver `c10` (`dd <kind> <ok> <ops>`) and compares.
-/
namespace O4.C10

inductive Op
  | arm      -- `SetDeadline(t)`, t ≠ zero: arms the read AND the write half          'a'
  | clear    -- `SetDeadline(time.Time{})`: clears both halves                         'c'
  | rarm     -- `SetReadDeadline(t)`, t ≠ zero (obfs4 server close delay)              'r'
  | rclear   -- `SetReadDeadline(time.Time{})`: clears the read half only              'e'
  | warm     -- `SetWriteDeadline(t)`, t ≠ zero                                        'w'
  | wclear   -- `SetWriteDeadline(time.Time{})`: clears the write half only            'v'
  | close    -- 'x'
  | read     -- a `Read` call                                                          'R'
  | write    -- a `Write` call                                                         'W'
deriving DecidableEq, Repr

def Op.ofChar : Char → Option Op
  | 'a' => some .arm
  | 'c' => some .clear
  | 'r' => some .rarm
  | 'e' => some .rclear
  | 'w' => some .warm
  | 'v' => some .wclear
  | 'x' => some .close
  | 'R' => some .read
  | 'W' => some .write
  | _ => none

def parseOps (s : String) : Option (List Op) := s.toList.mapM Op.ofChar

def Op.isDeadline : Op → Bool
  | .arm | .clear | .rarm | .rclear | .warm | .wclear => true
  | _ => false

/-- the deadline state of a `net.Conn`: (read half armed, write half armed) -/
abbrev Halves := Bool × Bool

/-- effect of one operation on the two halves -/
def Halves.step (h : Halves) : Op → Halves
  | .arm => (true, true)
  | .clear => (false, false)
  | .rarm => (true, h.2)
  | .rclear => (false, h.2)
  | .warm => (h.1, true)
  | .wclear => (h.1, false)
  | _ => h

/-- the halves left armed after a trace (a fresh conn has none) -/
def finalHalves (ops : List Op) : Halves := ops.foldl Halves.step (false, false)

/-- the deadline operations of a trace, in order -/
def dls (ops : List Op) : List Op := ops.filter Op.isDeadline

/-- obfs2 / obfs3 (both roles), obfs4 client, ScrambleSuit client: the first operation is the arm
    (hence before the first `Read`); on success the deadline operations are exactly arm, clear (the
    last one is the clear); on failure exactly the arm -/
def ddPlain (ops : List Op) (ok : Bool) : Bool :=
  ops.head? == some .arm && dls ops == (if ok then [.arm, .clear] else [.arm])

/-- `socks5.Handshake`: arm first; arm, clear on every return -/
def ddSocks (ops : List Op) (_ok : Bool) : Bool :=
  ops.head? == some .arm && dls ops == [.arm, .clear]

/-- obfs4 server `WrapConn`, on the operations other than `Read`: success is arm, clear, one
    write; failure is arm, then optionally the close-delay read deadline, then optionally close
    (the five shapes of `C03.deadline_discipline`) -/
def ddSrv (ops : List Op) (ok : Bool) : Bool :=
  let w := ops.filter (· ≠ .read)
  ops.head? == some .arm &&
  (if ok then w == [.arm, .clear, .write]
   else w == [.arm] || w == [.arm, .rarm] || w == [.arm, .rarm, .close] || w == [.arm, .close])

def verdict (kind : String) (ops : List Op) (ok : Bool) : Option Bool :=
  if kind = "plain" then some (ddPlain ops ok)
  else if kind = "socks" then some (ddSocks ops ok)
  else if kind = "obfs4srv" then some (ddSrv ops ok)
  else none

end O4.C10
