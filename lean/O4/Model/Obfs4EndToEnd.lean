import O4.Model.Handshake
import O4.Model.Obfs4Session
/-!
# obfs4 end to end: handshake read loop ∘ key schedule ∘ data phase (C01, C02).  Core only.

`obfs4.go` after the F1 repair (`fix: obfs4: decode frames received along with the server
handshake`), as functions of the list of chunks the network delivers (each chunk = what one
`Conn.Read` returned; network errors are not modelled here, they abort the handshake):

* `hsLoop` / `clientConnect` — `obfs4Conn.clientHandshake` after the write of the client's own
  handshake: `receiveBuffer.Write(chunk)`, `parseServerHandshake` on the WHOLE buffer, `continue` on
  `ErrMarkNotFoundYet`, any other error is fatal; on success `receiveBuffer.Next(n)`, link crypto
  from `ntor.Kdf(seed, 144)` (encoder = `okm[:72]`, decoder = `okm[72:]`), then the frame loop runs
  once over the surplus (`Obfs4.clientStart … true`); a frame error other than `ErrAgain` fails
  the handshake.
* `srvLoop` / `serverConnect` — `obfs4Conn.serverHandshake`: the same loop with
  `parseClientHandshake` (replay filter threaded through), then `receiveBuffer.Reset()`,
  encoder = `okm[72:]`, decoder = `okm[:72]`, the response and the inline seed frame.

The link crypto of a 72-byte key block is a parameter `link : Bytes → Framing.Crypto`
(instances: `Ref.linkCrypto`, a toy).  The epoch hour and the clock are constant during one
handshake (the code reads them per call; a handshake that straddles an hour boundary is outside
this model).
-/
namespace O4.E2E
open O4.Handshake O4.Obfs4 O4.Framing O4.Consts.Obfs4

/-- the handshake read loop of the client: final handshake state, the receive buffer, the result
    of the last `parseServerHandshake` (`none`: all chunks consumed, still waiting) and the chunks
    not yet read -/
def hsLoop (P : Prims) : Client → Bytes → List Bytes → Client × Bytes × Option ClientResult × List Bytes
  | c, buf, [] => (c, buf, none, [])
  | c, buf, ch :: rest =>
    match parseServerHandshake P c (buf ++ ch) with
    | (c', .err .markNotFoundYet) => hsLoop P c' (buf ++ ch) rest
    | (c', r) => (c', buf ++ ch, some r, rest)

inductive ClientOutcome
  /-- every chunk consumed, `M_S` not found yet: `Dial` is still blocked in `Read` -/
  | waiting (hs : Client) (buf : Bytes)
  /-- `parseServerHandshake` failed: `Dial` returns the error, no keys -/
  | failed (e : HsErr)
  /-- the handshake was accepted but the frames that came with it do not decode -/
  | frameError (e : RxErr)
  /-- `Dial` returned the connection: key blocks, receive side, chunks still on the network -/
  | established (encKey decKey : Bytes) (rx : Rx) (rest : List Bytes)
deriving Repr

/-- `clientHandshake` from the first `Read` on -/
def clientConnect (P : Prims) (link : Bytes → Crypto) (c : Client) (cs : List Bytes) : ClientOutcome :=
  match hsLoop P c [] cs with
  | (c', buf, none, _) => .waiting c' buf
  | (_, _, some (.err e), _) => .failed e
  | (_, buf, some (.ok n seed), rest) =>
    let o := okm P seed
    match clientStart (link (clientDecKey o)) true (buf.drop n) with
    | (rx, none) => .established (clientEncKey o) (clientDecKey o) rx rest
    | (_, some e) => .frameError e

/-- the handshake read loop of the server (`nowHour = getEpochHour()`, `nowNs = time.Now()`) -/
def srvLoop (P : Prims) (nowHour nowNs : Int) :
    Server → RF.Filter → Bytes → List Bytes → Server × RF.Filter × Bytes × Option ServerResult × List Bytes
  | s, f, buf, [] => (s, f, buf, none, [])
  | s, f, buf, ch :: rest =>
    match parseClientHandshake P s f nowHour nowNs (buf ++ ch) with
    | (s', f', .err .markNotFoundYet) => srvLoop P nowHour nowNs s' f' (buf ++ ch) rest
    | (s', f', r) => (s', f', buf ++ ch, some r, rest)

/-- the PRNG-seed packet of the inline seed frame: `makePacket(packetTypePrngSeed, seed, 0)` -/
def seedPkt (seed : Bytes) : Bytes := UInt8.ofNat packetTypePrngSeed :: putBe16 seed.length ++ seed

inductive ServerOutcome
  | waiting (hs : Server) (f : RF.Filter) (buf : Bytes)
  /-- the handshake failed (the connection then goes through `closeAfterDelay`, C03) -/
  | failed (e : HsErr) (f : RF.Filter)
  /-- `WrapConn` returned the connection: what it wrote (response ‖ seed frame), key blocks, the
      receive side (`receiveBuffer.Reset()`: empty), the chunks still on the network -/
  | established (hs : Server) (f : RF.Filter) (written : Bytes) (encKey decKey : Bytes) (rx : Rx)
      (rest : List Bytes)
deriving Repr

/-- `serverHandshake`: `pad` is the response padding (`makePad(padLen)`), `lenSeed` the factory's
    drbg seed sent in the inline seed frame -/
def serverConnect (P : Prims) (link : Bytes → Crypto) (s : Server) (f : RF.Filter) (nowHour nowNs : Int)
    (pad lenSeed : Bytes) (cs : List Bytes) : ServerOutcome :=
  match srvLoop P nowHour nowNs s f [] cs with
  | (s', f', buf, none, _) => .waiting s' f' buf
  | (_, f', _, some (.err e), _) => .failed e f'
  | (s', f', _, some (.ok seed), rest) =>
    let o := okm P seed
    let resp := serverBlob P s'.idPub s'.nodeID s'.yRepr (s'.auth.getD []) pad (s'.hour.getD 0)
    .established s' f' (resp ++ frameOf (link (serverEncKey o)) 0 (seedPkt lenSeed))
      (serverEncKey o) (serverDecKey o) serverStart rest

end O4.E2E
