import O4.Model.Crypto.Salsa
import O4.Model.Crypto.Poly1305
/-!
# NaCl secretbox (XSalsa20-Poly1305), exactly `golang.org/x/crypto/nacl/secretbox`.

`Seal` output = 16-byte Poly1305 tag ++ ciphertext. The XSalsa20 keystream's first 32 bytes are the
one-time Poly1305 key, the message is XORed with the keystream from byte 32 on. Seal and open share
`Secretbox.polyKey` / `Secretbox.stream`, so `open (seal m) = some m` reduces to XOR being an
involution and `==` on the tag being reflexive (`secretboxOpen_seal` in `O4.Lemmas.CryptoBasic`).
Go's `Open` compares the tag in constant time; the result is the same Boolean.
-/
namespace O4.Crypto
namespace Secretbox

def overhead : Nat := 16

/-- one-time Poly1305 key: keystream bytes `[0, 32)` -/
def polyKey (key nonce24 : Bytes) : Bytes := xsalsa20Stream key nonce24 0 32

/-- keystream bytes `[32, 32+len)`, XORed onto the message -/
def stream (key nonce24 : Bytes) (len : Nat) : Bytes := xsalsa20Stream key nonce24 32 len

end Secretbox

def secretboxSeal (key nonce24 msg : Bytes) : Bytes :=
  let ct := xorBytes msg (Secretbox.stream key nonce24 msg.length)
  poly1305 (Secretbox.polyKey key nonce24) ct ++ ct

def secretboxOpen (key nonce24 box : Bytes) : Option Bytes :=
  if box.length < Secretbox.overhead then none else
  let tag := box.take Secretbox.overhead
  let ct := box.drop Secretbox.overhead
  if poly1305 (Secretbox.polyKey key nonce24) ct == tag then
    some (xorBytes ct (Secretbox.stream key nonce24 ct.length))
  else none

end O4.Crypto
