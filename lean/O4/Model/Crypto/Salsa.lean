import O4.Model.Crypto.Stream
/-!
# Salsa20 core, HSalsa20, Salsa20 / XSalsa20 keystream — executable, core Lean only.

Matches `golang.org/x/crypto/salsa20` (`XORKeyStream` with an 8- or 24-byte nonce, 64-bit block
counter starting at 0) and `salsa20/salsa.HSalsa20` / `salsa.Core` with the `Sigma` constant.
The state is a structure of sixteen `UInt32`; blocks are serialised by an explicit 64-element list,
so block lengths are `simp` facts.
-/
namespace O4.Crypto
namespace Salsa

structure S16 where
  x0 : UInt32
  x1 : UInt32
  x2 : UInt32
  x3 : UInt32
  x4 : UInt32
  x5 : UInt32
  x6 : UInt32
  x7 : UInt32
  x8 : UInt32
  x9 : UInt32
  x10 : UInt32
  x11 : UInt32
  x12 : UInt32
  x13 : UInt32
  x14 : UInt32
  x15 : UInt32

@[inline] def rotl (x : UInt32) (n : UInt32) : UInt32 := (x <<< n) ||| (x >>> (32 - n))

/-- quarter round on `(a, b, c, d)`: `b ^= (a+d)<<<7; c ^= (b+a)<<<9; d ^= (c+b)<<<13; a ^= (d+c)<<<18` -/
@[inline] def qr (a b c d : UInt32) : UInt32 × UInt32 × UInt32 × UInt32 :=
  let b := b ^^^ rotl (a + d) 7
  let c := c ^^^ rotl (b + a) 9
  let d := d ^^^ rotl (c + b) 13
  let a := a ^^^ rotl (d + c) 18
  (a, b, c, d)

/-- column round followed by row round -/
def doubleRound (s : S16) : S16 :=
  let (x0, x4, x8, x12) := qr s.x0 s.x4 s.x8 s.x12
  let (x5, x9, x13, x1) := qr s.x5 s.x9 s.x13 s.x1
  let (x10, x14, x2, x6) := qr s.x10 s.x14 s.x2 s.x6
  let (x15, x3, x7, x11) := qr s.x15 s.x3 s.x7 s.x11
  let (x0, x1, x2, x3) := qr x0 x1 x2 x3
  let (x5, x6, x7, x4) := qr x5 x6 x7 x4
  let (x10, x11, x8, x9) := qr x10 x11 x8 x9
  let (x15, x12, x13, x14) := qr x15 x12 x13 x14
  ⟨x0, x1, x2, x3, x4, x5, x6, x7, x8, x9, x10, x11, x12, x13, x14, x15⟩

/-- the 20 rounds -/
def rounds (s : S16) : S16 := Nat.repeat doubleRound 10 s

def S16.add (a b : S16) : S16 :=
  ⟨a.x0 + b.x0, a.x1 + b.x1, a.x2 + b.x2, a.x3 + b.x3, a.x4 + b.x4, a.x5 + b.x5, a.x6 + b.x6,
   a.x7 + b.x7, a.x8 + b.x8, a.x9 + b.x9, a.x10 + b.x10, a.x11 + b.x11, a.x12 + b.x12,
   a.x13 + b.x13, a.x14 + b.x14, a.x15 + b.x15⟩

def wordBytes (x : UInt32) : Bytes :=
  [x.toUInt8, (x >>> 8).toUInt8, (x >>> 16).toUInt8, (x >>> 24).toUInt8]

def S16.bytes (s : S16) : Bytes :=
  wordBytes s.x0 ++ wordBytes s.x1 ++ wordBytes s.x2 ++ wordBytes s.x3 ++
  wordBytes s.x4 ++ wordBytes s.x5 ++ wordBytes s.x6 ++ wordBytes s.x7 ++
  wordBytes s.x8 ++ wordBytes s.x9 ++ wordBytes s.x10 ++ wordBytes s.x11 ++
  wordBytes s.x12 ++ wordBytes s.x13 ++ wordBytes s.x14 ++ wordBytes s.x15

/-- little-endian word `i` of a byte array (missing bytes read as 0) -/
@[inline] def le32 (a : ByteArray) (i : Nat) : UInt32 :=
  (a.get! (4*i)).toUInt32 ||| ((a.get! (4*i+1)).toUInt32 <<< 8) |||
  ((a.get! (4*i+2)).toUInt32 <<< 16) ||| ((a.get! (4*i+3)).toUInt32 <<< 24)

/-- bytes → byte array padded with zeros to at least `n` bytes (so that `le32` never reads outside) -/
def padTo (b : Bytes) (n : Nat) : ByteArray := ⟨(b ++ List.replicate (n - b.length) 0).toArray⟩

/-- the Salsa20 core on a 64-byte input: `x + rounds x` -/
def coreS (s : S16) : S16 := s.add (rounds s)

def ofBytes64 (inp : Bytes) : S16 :=
  let a := padTo inp 64
  ⟨le32 a 0, le32 a 1, le32 a 2, le32 a 3, le32 a 4, le32 a 5, le32 a 6, le32 a 7,
   le32 a 8, le32 a 9, le32 a 10, le32 a 11, le32 a 12, le32 a 13, le32 a 14, le32 a 15⟩

/-- "expand 32-byte k" state: key words `k` (8 words), the 16 bytes `n0..n3` in positions 6..9 -/
@[inline] def expand32 (k : ByteArray) (n0 n1 n2 n3 : UInt32) : S16 :=
  ⟨0x61707865, le32 k 0, le32 k 1, le32 k 2, le32 k 3, 0x3320646e, n0, n1, n2, n3,
   0x79622d32, le32 k 4, le32 k 5, le32 k 6, le32 k 7, 0x6b206574⟩

/-- keystream block number `ctr` (64-bit little-endian counter) under key `k`, nonce words `n0 n1` -/
def block (k : ByteArray) (n0 n1 : UInt32) (ctr : Nat) : Bytes :=
  let c := UInt64.ofNat ctr
  (coreS (expand32 k n0 n1 c.toUInt32 (c >>> 32).toUInt32)).bytes

end Salsa

open Salsa in
/-- Salsa20 core: 64 bytes → 64 bytes -/
def salsa20Core (inp : Bytes) : Bytes := (coreS (ofBytes64 inp)).bytes

open Salsa in
/-- HSalsa20 (`salsa.HSalsa20` with `Sigma`): 32-byte key, 16-byte input → 32-byte subkey -/
def hsalsa20 (key nonce16 : Bytes) : Bytes :=
  let n := padTo nonce16 16
  let z := rounds (expand32 (padTo key 32) (le32 n 0) (le32 n 1) (le32 n 2) (le32 n 3))
  wordBytes z.x0 ++ wordBytes z.x5 ++ wordBytes z.x10 ++ wordBytes z.x15 ++
  wordBytes z.x6 ++ wordBytes z.x7 ++ wordBytes z.x8 ++ wordBytes z.x9

open Salsa in
/-- Salsa20 keystream bytes `[off, off+len)` for a 32-byte key and an 8-byte nonce -/
def salsa20Stream (key nonce8 : Bytes) (off len : Nat) : Bytes :=
  let k := padTo key 32
  let n := padTo nonce8 8
  blockStream 64 (block k (le32 n 0) (le32 n 1)) off len

/-- XSalsa20 keystream bytes `[off, off+len)`: 32-byte key, 24-byte nonce
(= `salsa20.XORKeyStream` over zeros with a 24-byte nonce) -/
def xsalsa20Stream (key nonce24 : Bytes) (off len : Nat) : Bytes :=
  salsa20Stream (hsalsa20 key (nonce24.take 16)) (nonce24.drop 16) off len

end O4.Crypto
