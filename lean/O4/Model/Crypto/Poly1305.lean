import O4.Model.Bytes
/-!
# Poly1305 one-time authenticator (RFC 8439 §2.5), arithmetic over `Nat` modulo `2^130 - 5`.
-/
namespace O4.Crypto
namespace Poly1305

def p : Nat := 2 ^ 130 - 5

def clampMask : Nat := 0x0ffffffc0ffffffc0ffffffc0fffffff

/-- absorb the message 16 bytes at a time: `acc := (acc + le(chunk ++ [1])) * r mod p`.
`fuel` only has to be at least the number of chunks (`msg.length` always suffices). -/
def absorb (r : Nat) : (fuel : Nat) → Bytes → Nat → Nat
  | 0, _, acc => acc
  | fuel + 1, m, acc =>
    if m.isEmpty then acc else
    let c := m.take 16
    absorb r fuel (m.drop 16) ((acc + Bytes.toNatLE c + 2 ^ (8 * c.length)) * r % p)

end Poly1305

/-- `poly1305.Sum`: 32-byte one-time key `r ‖ s`, 16-byte tag -/
def poly1305 (key32 msg : Bytes) : Bytes :=
  let r := Bytes.toNatLE (key32.take 16) &&& Poly1305.clampMask
  let s := Bytes.toNatLE ((key32.drop 16).take 16)
  Bytes.ofNatLE 16 (Poly1305.absorb r msg.length msg 0 + s)

end O4.Crypto
