import O4.Model.Bytes
/-!
# Poly1305 one-time authenticator (RFC 8439 §2.5), arithmetic over `Nat` modulo `2^130 - 5`.
-/
namespace O4.Crypto
namespace Poly1305

def p : Nat := 2 ^ 130 - 5

def clampMask : Nat := 0x0ffffffc0ffffffc0ffffffc0fffffff

@[inline] def le64 (b0 b1 b2 b3 b4 b5 b6 b7 : UInt8) : UInt64 :=
  b0.toUInt64 ||| (b1.toUInt64 <<< 8) ||| (b2.toUInt64 <<< 16) ||| (b3.toUInt64 <<< 24) |||
  (b4.toUInt64 <<< 32) ||| (b5.toUInt64 <<< 40) ||| (b6.toUInt64 <<< 48) ||| (b7.toUInt64 <<< 56)

/-- absorb the message 16 bytes at a time: `acc := (acc + le(chunk ++ [1])) * r mod p`
(full chunks through two 64-bit words, the final short chunk through `toNatLE`).
`fuel` only has to be at least the number of chunks (`msg.length` always suffices). -/
def absorb (r : Nat) : (fuel : Nat) → Bytes → Nat → Nat
  | 0, _, acc => acc
  | _ + 1, [], acc => acc
  | fuel + 1, b0 :: b1 :: b2 :: b3 :: b4 :: b5 :: b6 :: b7 :: b8 :: b9 :: b10 :: b11 :: b12 :: b13
      :: b14 :: b15 :: rest, acc =>
    let n := (le64 b0 b1 b2 b3 b4 b5 b6 b7).toNat + ((le64 b8 b9 b10 b11 b12 b13 b14 b15).toNat <<< 64)
              + 0x100000000000000000000000000000000
    absorb r fuel rest ((acc + n) * r % p)
  | _ + 1, m, acc => (acc + Bytes.toNatLE m + 2 ^ (8 * m.length)) * r % p

end Poly1305

/-- `poly1305.Sum`: 32-byte one-time key `r ‖ s`, 16-byte tag -/
def poly1305 (key32 msg : Bytes) : Bytes :=
  let r := Bytes.toNatLE (key32.take 16) &&& Poly1305.clampMask
  let s := Bytes.toNatLE ((key32.drop 16).take 16)
  Bytes.ofNatLE 16 (Poly1305.absorb r msg.length msg 0 + s)

end O4.Crypto
