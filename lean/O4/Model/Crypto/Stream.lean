import O4.Model.Bytes
/-!
# Block-generated keystreams (shared by Salsa20 and AES-CTR)

`blockStream bs blk off len` = bytes `[off, off+len)` of `blk 0 ++ blk 1 ++ blk 2 ++ …` when every
`blk i` has exactly `bs` bytes. Only the blocks overlapping the window are computed.
`O4.Lemmas.CryptoBasic` characterises it position-wise (`blockStream_eq_map`), which gives the
additivity of stream ciphers in the offset.
-/
namespace O4.Crypto

def blockStream (bs : Nat) (blk : Nat → Bytes) (off len : Nat) : Bytes :=
  (((List.range' (off / bs) ((off % bs + len + bs - 1) / bs)).flatMap blk).drop (off % bs)).take len

/-- `data XOR ks` for a keystream at least as long as the data (`zipWith`, so never longer than `data`). -/
def xorBytes (data ks : Bytes) : Bytes := List.zipWith (· ^^^ ·) data ks

end O4.Crypto
