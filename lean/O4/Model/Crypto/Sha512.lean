import O4.Model.Bytes
/-!
# SHA-512 (FIPS 180-4), executable, core Lean only.
Needed by `common/ntor.NewKeypair` (`sha512.Sum512` of the CSPRNG output). Same shape as `Sha256`.
-/
namespace O4.Crypto
namespace Sha512

def K : Array UInt64 := #[
 0x428a2f98d728ae22, 0x7137449123ef65cd, 0xb5c0fbcfec4d3b2f, 0xe9b5dba58189dbbc,
 0x3956c25bf348b538, 0x59f111f1b605d019, 0x923f82a4af194f9b, 0xab1c5ed5da6d8118,
 0xd807aa98a3030242, 0x12835b0145706fbe, 0x243185be4ee4b28c, 0x550c7dc3d5ffb4e2,
 0x72be5d74f27b896f, 0x80deb1fe3b1696b1, 0x9bdc06a725c71235, 0xc19bf174cf692694,
 0xe49b69c19ef14ad2, 0xefbe4786384f25e3, 0x0fc19dc68b8cd5b5, 0x240ca1cc77ac9c65,
 0x2de92c6f592b0275, 0x4a7484aa6ea6e483, 0x5cb0a9dcbd41fbd4, 0x76f988da831153b5,
 0x983e5152ee66dfab, 0xa831c66d2db43210, 0xb00327c898fb213f, 0xbf597fc7beef0ee4,
 0xc6e00bf33da88fc2, 0xd5a79147930aa725, 0x06ca6351e003826f, 0x142929670a0e6e70,
 0x27b70a8546d22ffc, 0x2e1b21385c26c926, 0x4d2c6dfc5ac42aed, 0x53380d139d95b3df,
 0x650a73548baf63de, 0x766a0abb3c77b2a8, 0x81c2c92e47edaee6, 0x92722c851482353b,
 0xa2bfe8a14cf10364, 0xa81a664bbc423001, 0xc24b8b70d0f89791, 0xc76c51a30654be30,
 0xd192e819d6ef5218, 0xd69906245565a910, 0xf40e35855771202a, 0x106aa07032bbd1b8,
 0x19a4c116b8d2d0c8, 0x1e376c085141ab53, 0x2748774cdf8eeb99, 0x34b0bcb5e19b48a8,
 0x391c0cb3c5c95a63, 0x4ed8aa4ae3418acb, 0x5b9cca4f7763e373, 0x682e6ff3d6b2b8a3,
 0x748f82ee5defb2fc, 0x78a5636f43172f60, 0x84c87814a1f0ab72, 0x8cc702081a6439ec,
 0x90befffa23631e28, 0xa4506cebde82bde9, 0xbef9a3f7b2c67915, 0xc67178f2e372532b,
 0xca273eceea26619c, 0xd186b8c721c0c207, 0xeada7dd6cde0eb1e, 0xf57d4f7fee6ed178,
 0x06f067aa72176fba, 0x0a637dc5a2c898a6, 0x113f9804bef90dae, 0x1b710b35131c471b,
 0x28db77f523047d84, 0x32caab7b40c72493, 0x3c9ebe0a15c9bebc, 0x431d67c49c100d4c,
 0x4cc5d4becb3e42b6, 0x597f299cfc657e2a, 0x5fcb6fab3ad6faec, 0x6c44198c4a475817]

structure State where
  a : UInt64
  b : UInt64
  c : UInt64
  d : UInt64
  e : UInt64
  f : UInt64
  g : UInt64
  h : UInt64

def init : State :=
  ⟨0x6a09e667f3bcc908, 0xbb67ae8584caa73b, 0x3c6ef372fe94f82b, 0xa54ff53a5f1d36f1,
   0x510e527fade682d1, 0x9b05688c2b3e6c1f, 0x1f83d9abfb41bd6b, 0x5be0cd19137e2179⟩

@[inline] def rotr (x : UInt64) (n : UInt64) : UInt64 := (x >>> n) ||| (x <<< (64 - n))

@[inline] def be64 (m : ByteArray) (i : Nat) : UInt64 :=
  ((m.get! i).toUInt64 <<< 56) ||| ((m.get! (i+1)).toUInt64 <<< 48) |||
  ((m.get! (i+2)).toUInt64 <<< 40) ||| ((m.get! (i+3)).toUInt64 <<< 32) |||
  ((m.get! (i+4)).toUInt64 <<< 24) ||| ((m.get! (i+5)).toUInt64 <<< 16) |||
  ((m.get! (i+6)).toUInt64 <<< 8) ||| (m.get! (i+7)).toUInt64

def schedule (m : ByteArray) (off : Nat) : Array UInt64 := Id.run do
  let mut w : Array UInt64 := Array.mkEmpty 80
  for i in [0:16] do
    w := w.push (be64 m (off + 8*i))
  for i in [16:80] do
    let w15 := w[i-15]!
    let w2 := w[i-2]!
    let s0 := rotr w15 1 ^^^ rotr w15 8 ^^^ (w15 >>> 7)
    let s1 := rotr w2 19 ^^^ rotr w2 61 ^^^ (w2 >>> 6)
    w := w.push (w[i-16]! + s0 + w[i-7]! + s1)
  return w

def compress (s : State) (m : ByteArray) (off : Nat) : State := Id.run do
  let w := schedule m off
  let mut a := s.a; let mut b := s.b; let mut c := s.c; let mut d := s.d
  let mut e := s.e; let mut f := s.f; let mut g := s.g; let mut h := s.h
  for i in [0:80] do
    let s1 := rotr e 14 ^^^ rotr e 18 ^^^ rotr e 41
    let ch := (e &&& f) ^^^ ((~~~ e) &&& g)
    let t1 := h + s1 + ch + K[i]! + w[i]!
    let s0 := rotr a 28 ^^^ rotr a 34 ^^^ rotr a 39
    let mj := (a &&& b) ^^^ (a &&& c) ^^^ (b &&& c)
    let t2 := s0 + mj
    h := g; g := f; f := e; e := d + t1; d := c; c := b; b := a; a := t1 + t2
  return ⟨s.a + a, s.b + b, s.c + c, s.d + d, s.e + e, s.f + f, s.g + g, s.h + h⟩

/-- `80 00* <bit length, 16 bytes BE>` bringing the total to a multiple of 128 -/
def padding (len : Nat) : Bytes :=
  0x80 :: (List.replicate ((239 - len % 128) % 128) 0 ++ Bytes.ofNatBE 16 (8 * len))

def wordBytes (x : UInt64) : Bytes :=
  [(x >>> 56).toUInt8, (x >>> 48).toUInt8, (x >>> 40).toUInt8, (x >>> 32).toUInt8,
   (x >>> 24).toUInt8, (x >>> 16).toUInt8, (x >>> 8).toUInt8, x.toUInt8]

def State.bytes (s : State) : Bytes :=
  wordBytes s.a ++ wordBytes s.b ++ wordBytes s.c ++ wordBytes s.d ++
  wordBytes s.e ++ wordBytes s.f ++ wordBytes s.g ++ wordBytes s.h

def absorb (m : ByteArray) : State := Id.run do
  let mut s := init
  for i in [0:m.size / 128] do
    s := compress s m (128 * i)
  return s

end Sha512

def sha512 (m : Bytes) : Bytes :=
  (Sha512.absorb ⟨(m ++ Sha512.padding m.length).toArray⟩).bytes

end O4.Crypto
