import O4.Model.Crypto.Stream
/-!
# AES (FIPS 197) block encryption and CTR mode — executable, core Lean only.

* `aesEncryptBlock key block` = `aes.NewCipher(key).Encrypt` for 16/24/32-byte keys.
* CTR exactly as Go's `cipher.NewCTR(block, iv)`: the 16-byte IV is a big-endian 128-bit counter,
  incremented by one per block, wrapping modulo `2^128`; keystream block `i` is
  `E_k((iv + i) mod 2^128)`. `aesCtrKeystream key iv off len` are the keystream bytes `[off, off+len)`,
  `aesCtrXor key iv off data` what a `cipher.Stream` that has already processed `off` bytes
  produces for `data`.

Users in the tree: obfs2 and obfs3 (AES-128, 16-byte IV from the KDF), scramblesuit (AES-256,
IV = 8-byte KDF prefix ‖ `00 00 00 00 00 00 00 01`).

Go rejects other key sizes (`aes.KeySizeError`) and panics on an IV that is not 16 bytes;
`aesKeyOk` / `aesIvOk` are those tests. `aesEncryptBlock` returns `[]` when they fail; the CTR
functions are total and always return `len` bytes (meaningless for a rejected key/IV — callers test
`aesKeyOk`/`aesIvOk` where the Go code can fail), which keeps the stream lemmas unconditional.
-/
namespace O4.Crypto
namespace Aes

def sbox : Array UInt8 := #[
 0x63,0x7c,0x77,0x7b,0xf2,0x6b,0x6f,0xc5,0x30,0x01,0x67,0x2b,0xfe,0xd7,0xab,0x76,
 0xca,0x82,0xc9,0x7d,0xfa,0x59,0x47,0xf0,0xad,0xd4,0xa2,0xaf,0x9c,0xa4,0x72,0xc0,
 0xb7,0xfd,0x93,0x26,0x36,0x3f,0xf7,0xcc,0x34,0xa5,0xe5,0xf1,0x71,0xd8,0x31,0x15,
 0x04,0xc7,0x23,0xc3,0x18,0x96,0x05,0x9a,0x07,0x12,0x80,0xe2,0xeb,0x27,0xb2,0x75,
 0x09,0x83,0x2c,0x1a,0x1b,0x6e,0x5a,0xa0,0x52,0x3b,0xd6,0xb3,0x29,0xe3,0x2f,0x84,
 0x53,0xd1,0x00,0xed,0x20,0xfc,0xb1,0x5b,0x6a,0xcb,0xbe,0x39,0x4a,0x4c,0x58,0xcf,
 0xd0,0xef,0xaa,0xfb,0x43,0x4d,0x33,0x85,0x45,0xf9,0x02,0x7f,0x50,0x3c,0x9f,0xa8,
 0x51,0xa3,0x40,0x8f,0x92,0x9d,0x38,0xf5,0xbc,0xb6,0xda,0x21,0x10,0xff,0xf3,0xd2,
 0xcd,0x0c,0x13,0xec,0x5f,0x97,0x44,0x17,0xc4,0xa7,0x7e,0x3d,0x64,0x5d,0x19,0x73,
 0x60,0x81,0x4f,0xdc,0x22,0x2a,0x90,0x88,0x46,0xee,0xb8,0x14,0xde,0x5e,0x0b,0xdb,
 0xe0,0x32,0x3a,0x0a,0x49,0x06,0x24,0x5c,0xc2,0xd3,0xac,0x62,0x91,0x95,0xe4,0x79,
 0xe7,0xc8,0x37,0x6d,0x8d,0xd5,0x4e,0xa9,0x6c,0x56,0xf4,0xea,0x65,0x7a,0xae,0x08,
 0xba,0x78,0x25,0x2e,0x1c,0xa6,0xb4,0xc6,0xe8,0xdd,0x74,0x1f,0x4b,0xbd,0x8b,0x8a,
 0x70,0x3e,0xb5,0x66,0x48,0x03,0xf6,0x0e,0x61,0x35,0x57,0xb9,0x86,0xc1,0x1d,0x9e,
 0xe1,0xf8,0x98,0x11,0x69,0xd9,0x8e,0x94,0x9b,0x1e,0x87,0xe9,0xce,0x55,0x28,0xdf,
 0x8c,0xa1,0x89,0x0d,0xbf,0xe6,0x42,0x68,0x41,0x99,0x2d,0x0f,0xb0,0x54,0xbb,0x16]

@[inline] def sub (x : UInt32) : UInt32 := (sbox[(x &&& 0xff).toNat]!).toUInt32

/-- S-box on each byte of a word -/
@[inline] def subWord (w : UInt32) : UInt32 :=
  (sub (w >>> 24) <<< 24) ||| (sub (w >>> 16) <<< 16) ||| (sub (w >>> 8) <<< 8) ||| sub w

@[inline] def rotWord (w : UInt32) : UInt32 := (w <<< 8) ||| (w >>> 24)

def rcon : Array UInt32 := #[0x01000000, 0x02000000, 0x04000000, 0x08000000, 0x10000000,
  0x20000000, 0x40000000, 0x80000000, 0x1b000000, 0x36000000]

/-- big-endian word `i` of a byte array -/
@[inline] def be32 (a : ByteArray) (i : Nat) : UInt32 :=
  ((a.get! (4*i)).toUInt32 <<< 24) ||| ((a.get! (4*i+1)).toUInt32 <<< 16) |||
  ((a.get! (4*i+2)).toUInt32 <<< 8) ||| (a.get! (4*i+3)).toUInt32

/-- key schedule: `4*(nk+7)` round-key words for a key of `nk` words (`nk` = 4, 6, 8) -/
def expandKey (key : Bytes) : Array UInt32 := Id.run do
  let nk := key.length / 4
  let kb : ByteArray := ⟨key.toArray⟩
  let mut w : Array UInt32 := Array.mkEmpty (4 * (nk + 7))
  for i in [0:nk] do
    w := w.push (be32 kb i)
  for i in [nk:4 * (nk + 7)] do
    let mut t := w[i-1]!
    if i % nk == 0 then
      t := subWord (rotWord t) ^^^ rcon[i / nk - 1]!
    else if nk > 6 && i % nk == 4 then
      t := subWord t
    w := w.push (w[i-nk]! ^^^ t)
  return w

/-- multiplication by `x` in GF(2^8) on a byte held in a word -/
@[inline] def xtime (b : UInt32) : UInt32 :=
  ((b <<< 1) ^^^ (if b &&& 0x80 != 0 then 0x1b else 0)) &&& 0xff

/-- one output column of SubBytes ∘ ShiftRows ∘ MixColumns: inputs are the four state columns
starting at the column itself (`c0` supplies row 0, `c1` row 1, …) -/
@[inline] def mixCol (c0 c1 c2 c3 : UInt32) : UInt32 :=
  let s0 := sub (c0 >>> 24)
  let s1 := sub (c1 >>> 16)
  let s2 := sub (c2 >>> 8)
  let s3 := sub c3
  let t0 := xtime s0 ^^^ (xtime s1 ^^^ s1) ^^^ s2 ^^^ s3
  let t1 := s0 ^^^ xtime s1 ^^^ (xtime s2 ^^^ s2) ^^^ s3
  let t2 := s0 ^^^ s1 ^^^ xtime s2 ^^^ (xtime s3 ^^^ s3)
  let t3 := (xtime s0 ^^^ s0) ^^^ s1 ^^^ s2 ^^^ xtime s3
  (t0 <<< 24) ||| (t1 <<< 16) ||| (t2 <<< 8) ||| t3

/-- last round: SubBytes ∘ ShiftRows only -/
@[inline] def lastCol (c0 c1 c2 c3 : UInt32) : UInt32 :=
  (sub (c0 >>> 24) <<< 24) ||| (sub (c1 >>> 16) <<< 16) ||| (sub (c2 >>> 8) <<< 8) ||| sub c3

structure Cols where
  c0 : UInt32
  c1 : UInt32
  c2 : UInt32
  c3 : UInt32

def wordBytes (x : UInt32) : Bytes :=
  [(x >>> 24).toUInt8, (x >>> 16).toUInt8, (x >>> 8).toUInt8, x.toUInt8]

def Cols.bytes (s : Cols) : Bytes :=
  wordBytes s.c0 ++ wordBytes s.c1 ++ wordBytes s.c2 ++ wordBytes s.c3

/-- middle rounds `r, r+1, …` (`n` of them) -/
def midRounds (rk : Array UInt32) : (n : Nat) → (r : Nat) → Cols → Cols
  | 0, _, s => s
  | n + 1, r, s =>
    midRounds rk n (r + 1)
      ⟨mixCol s.c0 s.c1 s.c2 s.c3 ^^^ rk[4*r]!, mixCol s.c1 s.c2 s.c3 s.c0 ^^^ rk[4*r+1]!,
       mixCol s.c2 s.c3 s.c0 s.c1 ^^^ rk[4*r+2]!, mixCol s.c3 s.c0 s.c1 s.c2 ^^^ rk[4*r+3]!⟩

/-- encrypt one block given as four big-endian column words under the expanded key `rk` -/
def encryptCols (rk : Array UInt32) (s : Cols) : Cols :=
  let nr := rk.size / 4 - 1
  let s : Cols := ⟨s.c0 ^^^ rk[0]!, s.c1 ^^^ rk[1]!, s.c2 ^^^ rk[2]!, s.c3 ^^^ rk[3]!⟩
  let s := midRounds rk (nr - 1) 1 s
  ⟨lastCol s.c0 s.c1 s.c2 s.c3 ^^^ rk[4*nr]!, lastCol s.c1 s.c2 s.c3 s.c0 ^^^ rk[4*nr+1]!,
   lastCol s.c2 s.c3 s.c0 s.c1 ^^^ rk[4*nr+2]!, lastCol s.c3 s.c0 s.c1 s.c2 ^^^ rk[4*nr+3]!⟩

/-- the 128-bit number `n mod 2^128` as four big-endian words -/
def colsOfNat (n : Nat) : Cols :=
  ⟨UInt32.ofNat (n >>> 96), UInt32.ofNat (n >>> 64), UInt32.ofNat (n >>> 32), UInt32.ofNat n⟩

/-- CTR keystream block `i` -/
def ctrBlock (rk : Array UInt32) (iv : Nat) (i : Nat) : Bytes :=
  (encryptCols rk (colsOfNat (iv + i))).bytes

end Aes

/-- `aes.NewCipher` accepts the key -/
def aesKeyOk (key : Bytes) : Bool := key.length == 16 || key.length == 24 || key.length == 32

/-- `cipher.NewCTR` accepts the IV -/
def aesIvOk (iv : Bytes) : Bool := iv.length == 16

open Aes in
def aesEncryptBlock (key block : Bytes) : Bytes :=
  if aesKeyOk key && block.length == 16 then
    (encryptCols (expandKey key) (colsOfNat (Bytes.toNatBE block))).bytes
  else []

open Aes in
def aesCtrKeystream (key iv : Bytes) (off len : Nat) : Bytes :=
  blockStream 16 (ctrBlock (expandKey key) (Bytes.toNatBE iv)) off len

def aesCtrXor (key iv : Bytes) (off : Nat) (data : Bytes) : Bytes :=
  xorBytes data (aesCtrKeystream key iv off data.length)

end O4.Crypto
