import O4.Model.Crypto.Field25519
/-!
# X25519 exactly as `golang.org/x/crypto/curve25519` (Go ≥ 1.20: a wrapper of `crypto/ecdh`)

`crypto/ecdh.x25519ScalarMult` line by line: the scalar is clamped (`e[0] &= 248; e[31] &= 127;
e[31] |= 64`), the point goes through `field.Element.SetBytes` (bit 255 masked, non-canonical values
accepted and reduced), 255 ladder steps from bit 254 down to 0, final swap, `x2/z2` with `Invert(0)=0`.

* `x25519 k u` — the raw ladder output = `curve25519.ScalarMult` (the deprecated entry point that
  `common/ntor` uses: on a low-order point it *returns* all-zero bytes, and ntor then tests the
  bytes with `constantTimeIsZero`).
* `x25519Checked k u` — `curve25519.X25519`: `none` when the output is all-zero ("low order point" error).
* `x25519Base k` — `curve25519.ScalarBaseMult` / `X25519(k, Basepoint)`.
Core Lean only.
-/
namespace O4.Crypto
open F25519

namespace X25519

/-- `e[0] &= 248; e[31] &= 127; e[31] |= 64` on a 32-byte scalar, as the little-endian number -/
def clampScalar (scalar : Bytes) : Nat :=
  let e := scalar.take 32
  let e := e.set 0 (e.getD 0 0 &&& 248)
  let e := e.set 31 ((e.getD 31 0 &&& 127) ||| 64)
  Bytes.toNatLE e

structure Ladder where
  x1 : Nat
  x2 : Nat
  z2 : Nat
  x3 : Nat
  z3 : Nat
  swap : Nat

/-- one iteration of the `for pos := 254; pos >= 0; pos--` loop with key bit `b` -/
def step (s : Ladder) (b : Nat) : Ladder :=
  let swap := s.swap ^^^ b
  -- x2.Swap(&x3, swap); z2.Swap(&z3, swap)
  let x2 := select s.x3 s.x2 swap
  let x3 := select s.x2 s.x3 swap
  let z2 := select s.z3 s.z2 swap
  let z3 := select s.z2 s.z3 swap
  let tmp0 := sub x3 z3
  let tmp1 := sub x2 z2
  let x2 := add x2 z2
  let z2 := add x3 z3
  let z3 := mul tmp0 x2
  let z2 := mul z2 tmp1
  let tmp0 := sq tmp1
  let tmp1 := sq x2
  let x3 := add z3 z2
  let z2 := sub z3 z2
  let x2 := mul tmp1 tmp0
  let tmp1 := sub tmp1 tmp0
  let z2 := sq z2
  let z3 := mul tmp1 121666
  let x3 := sq x3
  let tmp0 := add tmp0 z3
  let z3 := mul s.x1 z2
  let z2 := mul tmp1 tmp0
  { x1 := s.x1, x2 := x2, z2 := z2, x3 := x3, z3 := z3, swap := b }

/-- positions `n−1, n−2, …, 0` of the scalar `e` -/
def loop (e : Nat) : Nat → Ladder → Ladder
  | 0, s => s
  | n + 1, s => loop e n (step s (if e.testBit n then 1 else 0))

/-- the ladder on an already decoded scalar `e` (bits `0 … nbits−1` used) and u-coordinate `x1`:
the projective result `(X2, Z2)` after the final swap -/
def ladderProj (e nbits x1 : Nat) : Nat × Nat :=
  let s := loop e nbits { x1 := x1, x2 := 1, z2 := 0, x3 := x1, z3 := 1, swap := 0 }
  let x2 := select s.x3 s.x2 s.swap
  let z2 := select s.z3 s.z2 s.swap
  (x2, z2)

/-- `x2 · z2⁻¹` (0 for the point at infinity, since `Invert(0) = 0`) -/
def ladder (e nbits x1 : Nat) : Nat :=
  let (x2, z2) := ladderProj e nbits x1
  mul x2 (inv z2)

end X25519

/-- `crypto/ecdh.x25519ScalarMult` = `curve25519.ScalarMult`: raw ladder output, all-zero on low-order input -/
def x25519 (scalar point : Bytes) : Bytes :=
  toBytes (X25519.ladder (X25519.clampScalar scalar) 255 (ofBytes point))

def isZeroBytes (b : Bytes) : Bool := b.all (· == 0)

/-- `curve25519.X25519`: error (here `none`) when the shared value is all-zero -/
def x25519Checked (scalar point : Bytes) : Option Bytes :=
  let out := x25519 scalar point
  if isZeroBytes out then none else some out

/-- `curve25519.Basepoint` -/
def x25519Basepoint : Bytes := 9 :: List.replicate 31 0

/-- `curve25519.ScalarBaseMult` -/
def x25519Base (scalar : Bytes) : Bytes := x25519 scalar x25519Basepoint

end O4.Crypto
