import O4.Model.Crypto.Field25519
/-!
# Edwards25519 (−x² + y² = 1 + d·x²·y²) in extended coordinates over `Nat`

The group law only — `filippo.io/edwards25519`'s table-driven, constant-time scalar multiplication is
*not* transcribed; what the callers observe (`(Z+Y)/(Z−Y)`, the compressed encoding, equality of points)
depends on the group element only, not on its projective representative, and the unified
addition formula used here (add-2008-hwcd-3, complete for a = −1 and non-square d) is the one the Go
library implements as well. Core Lean only.
-/
namespace O4.Crypto
open F25519

/-- extended coordinates: x = X/Z, y = Y/Z, T = XY/Z -/
structure EdPoint where
  X : Nat
  Y : Nat
  Z : Nat
  T : Nat
  deriving Repr

namespace Ed

/-- d = −121665/121666 -/
def d : Nat := 0x52036cee2b6ffe738cc740797779e89800700a4d4141d8ab75eb4dca135978a3
def d2 : Nat := add d d

def identity : EdPoint := ⟨0, 1, 1, 0⟩

/-- the base point: y = 4/5, x even -/
def baseX : Nat := 15112221349535400772501151409588531511454012693041857206046113283949847762202
def baseY : Nat := 46316835694926478169428394003475163141307993866256225615783033603165251855960
def base : EdPoint := ⟨baseX, baseY, 1, mul baseX baseY⟩

/-- order of the prime-order subgroup, ℓ = 2^252 + 27742317777372353535851937790883648493 -/
def ell : Nat := 2^252 + 27742317777372353535851937790883648493

/-- affine point → extended (`SetExtendedCoordinates(x, y, 1, x·y)`) -/
def ofAffine (x y : Nat) : EdPoint := ⟨red x, red y, 1, mul x y⟩

/-- `−x² + y² = 1 + d x² y²` for the affine pair -/
def onCurveAffine (x y : Nat) : Bool :=
  let xx := sq x
  let yy := sq y
  sub yy xx == F25519.add 1 (mul d (mul xx yy))

/-- the validity test of `Point.SetExtendedCoordinates` (`isOnCurve` in extra.go):
`−X² + Y² = Z² + d·T²` and `X·Y = T·Z` -/
def isOnCurve (P : EdPoint) : Bool :=
  let xx := sq P.X
  let yy := sq P.Y
  let zz := sq P.Z
  let tt := sq P.T
  sub yy xx == F25519.add (mul d tt) zz && mul P.X P.Y == mul P.T P.Z

/-- unified addition (add-2008-hwcd-3) -/
def add (P Q : EdPoint) : EdPoint :=
  let a := mul (sub P.Y P.X) (sub Q.Y Q.X)
  let b := mul (F25519.add P.Y P.X) (F25519.add Q.Y Q.X)
  let c := mul (mul P.T d2) Q.T
  let dd := mul (F25519.add P.Z P.Z) Q.Z
  let e := sub b a
  let f := sub dd c
  let g := F25519.add dd c
  let h := F25519.add b a
  ⟨mul e f, mul g h, mul f g, mul e h⟩

/-- doubling (dbl-2008-hwcd, a = −1) -/
def double (P : EdPoint) : EdPoint :=
  let a := sq P.X
  let b := sq P.Y
  let zz := sq P.Z
  let c := F25519.add zz zz
  let dd := neg a
  let xy := F25519.add P.X P.Y
  let e := sub (sub (sq xy) a) b
  let g := F25519.add dd b
  let f := sub g c
  let h := sub dd b
  ⟨mul e f, mul g h, mul f g, mul e h⟩

def negate (P : EdPoint) : EdPoint := ⟨neg P.X, red P.Y, red P.Z, neg P.T⟩

/-- double-and-add over the bits `n−1 … 0` of `k` -/
def mulLoop (k : Nat) (P : EdPoint) : Nat → EdPoint → EdPoint
  | 0, acc => acc
  | n + 1, acc =>
    let acc := double acc
    mulLoop k P n (if k.testBit n then add acc P else acc)

/-- `k · P` for any natural `k` -/
def scalarMul (k : Nat) (P : EdPoint) : EdPoint :=
  mulLoop k P (k.log2 + 1) identity

/-- `k · B` -/
def scalarBaseMul (k : Nat) : EdPoint := scalarMul k base

/-- equality of the group elements (projective) -/
def eq (P Q : EdPoint) : Bool :=
  mul P.X Q.Z == mul Q.X P.Z && mul P.Y Q.Z == mul Q.Y P.Z

/-- affine coordinates -/
def toAffine (P : EdPoint) : Nat × Nat :=
  let zi := inv P.Z
  (mul P.X zi, mul P.Y zi)

/-- `Point.Bytes`: y with the sign of x in bit 255 -/
def encode (P : EdPoint) : Bytes :=
  let (x, y) := toAffine P
  Bytes.ofNatLE 32 (y + 2^255 * isNegative x)

/-- Montgomery u = (Z+Y)/(Z−Y) (0 for the identity, since `inv 0 = 0`), as `scalarBaseMultDirty`
and `Point.BytesMontgomery` compute it -/
def toMontgomeryU (P : EdPoint) : Nat :=
  mul (F25519.add P.Z P.Y) (inv (sub P.Z P.Y))

/-- `scalar.SetBytesWithClamping`: `b[0] &= 248; b[31] &= 63; b[31] |= 64` (then reduced mod ℓ by the
library, which does not change `k·B` because `ℓ·B = 0`) -/
def clampScalar (scalar : Bytes) : Nat :=
  let e := scalar.take 32
  let e := e.set 0 (e.getD 0 0 &&& 248)
  let e := e.set 31 ((e.getD 31 0 &&& 63) ||| 64)
  Bytes.toNatLE e

end Ed
end O4.Crypto
