import O4.Model.Bytes
/-!
# GF(2^255 − 19) over `Nat`, with the conventions of `filippo.io/edwards25519/field`

Core Lean only. A field element is a `Nat`; every operation returns its canonical
representative in `[0, p)` and accepts arbitrary naturals (they are reduced first), so the
non-reduced limb states of the Go `field.Element` are not observable: `Bytes`, `Equal`,
`IsNegative` all go through the canonical encoding in the Go code too.

Modelled API (Go name → here): `Add/Subtract/Negate/Multiply/Square/Mult32` → `add/sub/neg/mul/sq`,
`Invert` → `inv` (`x^(p−2)`, hence `inv 0 = 0` as in Go), `Pow22523` → `pow22523` (`x^((p−5)/8)`),
`SqrtRatio` → `sqrtRatio`, `IsNegative` → `isNegative`, `Absolute` → `abs`, `Select` → `select`,
`Equal` → `==` on canonical values, `SetBytes` → `ofBytes` (bit 255 ignored, values `≥ p` accepted and
reduced), `Bytes` → `toBytes` (32 bytes little-endian, canonical).
-/
namespace O4.Crypto.F25519

/-- the prime 2^255 − 19 -/
def p : Nat := 2^255 - 19

@[inline] def red (a : Nat) : Nat := a % p
@[inline] def add (a b : Nat) : Nat := (a + b) % p
/-- `a − b`; `b` is reduced first so the natural subtraction cannot truncate -/
@[inline] def sub (a b : Nat) : Nat := (a + (p - b % p)) % p
@[inline] def neg (a : Nat) : Nat := (p - a % p) % p
@[inline] def mul (a b : Nat) : Nat := (a * b) % p
@[inline] def sq (a : Nat) : Nat := (a * a) % p

/-- square-and-multiply, least significant bit first; `fuel` bounds the number of exponent bits -/
def powAux : Nat → Nat → Nat → Nat → Nat
  | 0, _, _, acc => acc
  | fuel + 1, b, e, acc =>
    if e = 0 then acc else
    powAux fuel (b * b % p) (e / 2) (if e % 2 = 1 then acc * b % p else acc)

/-- `b^e mod p` -/
def pow (b e : Nat) : Nat := powAux (e.log2 + 1) (b % p) e 1

/-- `field.Element.Invert`: `z^(p−2)`; `inv 0 = 0` -/
def inv (z : Nat) : Nat := pow z (p - 2)

/-- `field.Element.Pow22523`: `x^((p−5)/8) = x^(2^252 − 3)` -/
def pow22523 (x : Nat) : Nat := pow x (2^252 - 3)

/-- sqrt(−1), the constant `sqrtM1` of the Go package (also `feSqrtM1`, `montgomery.SQRT_M1`):
little-endian bytes `b0 a0 0e 4a … 24 83 2b` -/
def sqrtM1 : Nat := 0x2b8324804fc1df0b2b4d00993dfbd7a72f431806ad2fe478c4ee1b274a0ea0b0

/-- `field.Element.IsNegative`: low bit of the canonical encoding -/
@[inline] def isNegative (a : Nat) : Nat := (a % p) % 2

/-- `field.Element.Select(a, b, cond)`: `a` if `cond == 1`, `b` if `cond == 0` -/
@[inline] def select (a b : Nat) (cond : Nat) : Nat := if cond = 1 then a else b

/-- `field.Element.Absolute` -/
def abs (u : Nat) : Nat := select (neg u) (red u) (isNegative u)

/-- `Equal` as 0/1 -/
@[inline] def eqI (a b : Nat) : Nat := if a % p = b % p then 1 else 0

/-- `field.Element.SqrtRatio(u, v)`: `(r, wasSquare)`. If `u/v` is a square, `r` is its non-negative
square root and `wasSquare = 1`; otherwise `r = |sqrt(i·u/v)|` and `wasSquare = 0`
(in particular `(0, 0)` when `v = 0 ≠ u` and `(0, 1)` when `u = 0`). Line by line after fe.go. -/
def sqrtRatio (u v : Nat) : Nat × Nat :=
  -- r = (u * v3) * (u * v7)^((p-5)/8)
  let v2 := sq v
  let uv3 := mul u (mul v2 v)
  let uv7 := mul uv3 (sq v2)
  let rr := mul uv3 (pow22523 uv7)
  let check := mul v (sq rr)            -- check = v * r^2
  let uNeg := neg u
  let correctSignSqrt := eqI check u
  let flippedSignSqrt := eqI check uNeg
  let flippedSignSqrtI := eqI check (mul uNeg sqrtM1)
  let rPrime := mul rr sqrtM1           -- r_prime = SQRT_M1 * r
  let rr := select rPrime rr (flippedSignSqrt ||| flippedSignSqrtI)
  (abs rr, correctSignSqrt ||| flippedSignSqrt)

/-- `field.Element.SetBytes` on a 32-byte string: little-endian, bit 255 ignored, the 19 values
`p … 2^255−1` accepted (non-canonical) and equal to `0 … 18` in every later operation. -/
def ofBytes (b : Bytes) : Nat := (Bytes.toNatLE b % 2^255) % p

/-- `field.Element.Bytes`: canonical 32-byte little-endian encoding -/
def toBytes (a : Nat) : Bytes := Bytes.ofNatLE 32 (a % p)

/-- Legendre symbol by Euler's criterion: `0`, `1` or `p − 1` -/
def chi (a : Nat) : Nat := pow a ((p - 1) / 2)

end O4.Crypto.F25519
