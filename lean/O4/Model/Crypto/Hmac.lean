import O4.Model.Crypto.Sha256
/-!
# HMAC-SHA256 (RFC 2104) and HKDF-SHA256 (RFC 5869), executable, core Lean only.

Go usage covered:
* `hmac.New(sha256.New, key)` … `Sum(nil)`            → `hmacSha256 key msg`
* `hkdf.New(sha256.New, secret, salt, info)` + `io.ReadFull(_, okm[:n])` (ntor `Kdf`)
                                                      → `hkdf secret salt info n`
* `hkdf.Expand(sha256.New, prk, info)` + `io.ReadFull` (scramblesuit `initCrypto`, `info = nil`)
                                                      → `hkdfExpand prk info n`
The Go reader is a stream: successive `Read`s return successive pieces of the same output, i.e.
`take`/`drop` of `hkdfExpand prk info (total)` (see `hkdfExpand_take` in `O4.Lemmas.CryptoBasic`).
The reader fails (`hkdf: entropy limit reached`) once more than `255*32` bytes are requested;
`hkdfExpand` then returns only the `255*32` available bytes — callers that can reach the limit
must test `n ≤ hkdfMax` themselves (`hkdfExpand?`).
-/
namespace O4.Crypto

namespace Hmac
/-- key brought to the 64-byte block size: hashed if longer, then zero padded -/
def blockKey (key : Bytes) : Bytes :=
  let k := if key.length > 64 then sha256 key else key
  k ++ List.replicate (64 - k.length) 0
end Hmac

def hmacSha256 (key msg : Bytes) : Bytes :=
  let k := Hmac.blockKey key
  sha256 (k.map (· ^^^ 0x5c) ++ sha256 (k.map (· ^^^ 0x36) ++ msg))

/-- RFC 5869 §2.2; an empty salt means `HashLen` zero bytes (as in Go: `salt == nil`). -/
def hkdfExtract (salt ikm : Bytes) : Bytes :=
  hmacSha256 (if salt.isEmpty then List.replicate 32 0 else salt) ikm

namespace Hkdf
/-- `T(i) ++ T(i+1) ++ …` (`cnt` blocks), `T(i) = HMAC(prk, T(i-1) ++ info ++ [i])`, `prev = T(i-1)` -/
def blocks (prk info : Bytes) : (cnt : Nat) → (prev : Bytes) → (i : Nat) → Bytes
  | 0, _, _ => []
  | cnt + 1, prev, i =>
    let t := hmacSha256 prk (prev ++ info ++ [UInt8.ofNat i])
    t ++ blocks prk info cnt t (i + 1)
end Hkdf

/-- maximal HKDF-SHA256 output length -/
def hkdfMax : Nat := 255 * 32

/-- RFC 5869 §2.3: the first `n` bytes of the output keying material (at most `hkdfMax`). -/
def hkdfExpand (prk info : Bytes) (n : Nat) : Bytes :=
  (Hkdf.blocks prk info (min ((n + 31) / 32) 255) [] 1).take n

/-- as `io.ReadFull` on the Go reader: `none` past the entropy limit -/
def hkdfExpand? (prk info : Bytes) (n : Nat) : Option Bytes :=
  if n ≤ hkdfMax then some (hkdfExpand prk info n) else none

/-- `hkdf.New(sha256.New, secret, salt, info)` read for `n` bytes -/
def hkdf (secret salt info : Bytes) (n : Nat) : Bytes :=
  hkdfExpand (hkdfExtract salt secret) info n

end O4.Crypto
