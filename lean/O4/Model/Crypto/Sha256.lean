import O4.Model.Bytes
/-!
# SHA-256 (FIPS 180-4), executable, core Lean only.

`sha256 : Bytes → Bytes` over `List UInt8`; internally `UInt32` arithmetic on a `ByteArray`.
The digest is serialised from a structure of eight words by an explicit 32-element list, so
`(sha256 m).length = 32` is a one-line `simp` fact (see `O4.Lemmas.CryptoBasic`).
-/
namespace O4.Crypto
namespace Sha256

def K : Array UInt32 := #[
 0x428a2f98,0x71374491,0xb5c0fbcf,0xe9b5dba5,0x3956c25b,0x59f111f1,0x923f82a4,0xab1c5ed5,
 0xd807aa98,0x12835b01,0x243185be,0x550c7dc3,0x72be5d74,0x80deb1fe,0x9bdc06a7,0xc19bf174,
 0xe49b69c1,0xefbe4786,0x0fc19dc6,0x240ca1cc,0x2de92c6f,0x4a7484aa,0x5cb0a9dc,0x76f988da,
 0x983e5152,0xa831c66d,0xb00327c8,0xbf597fc7,0xc6e00bf3,0xd5a79147,0x06ca6351,0x14292967,
 0x27b70a85,0x2e1b2138,0x4d2c6dfc,0x53380d13,0x650a7354,0x766a0abb,0x81c2c92e,0x92722c85,
 0xa2bfe8a1,0xa81a664b,0xc24b8b70,0xc76c51a3,0xd192e819,0xd6990624,0xf40e3585,0x106aa070,
 0x19a4c116,0x1e376c08,0x2748774c,0x34b0bcb5,0x391c0cb3,0x4ed8aa4a,0x5b9cca4f,0x682e6ff3,
 0x748f82ee,0x78a5636f,0x84c87814,0x8cc70208,0x90befffa,0xa4506ceb,0xbef9a3f7,0xc67178f2]

structure State where
  a : UInt32
  b : UInt32
  c : UInt32
  d : UInt32
  e : UInt32
  f : UInt32
  g : UInt32
  h : UInt32

def init : State :=
  ⟨0x6a09e667, 0xbb67ae85, 0x3c6ef372, 0xa54ff53a, 0x510e527f, 0x9b05688c, 0x1f83d9ab, 0x5be0cd19⟩

@[inline] def rotr (x : UInt32) (n : UInt32) : UInt32 := (x >>> n) ||| (x <<< (32 - n))

@[inline] def be32 (m : ByteArray) (i : Nat) : UInt32 :=
  ((m.get! i).toUInt32 <<< 24) ||| ((m.get! (i+1)).toUInt32 <<< 16) |||
  ((m.get! (i+2)).toUInt32 <<< 8) ||| (m.get! (i+3)).toUInt32

/-- message schedule of the 64-byte block at offset `off` -/
def schedule (m : ByteArray) (off : Nat) : Array UInt32 := Id.run do
  let mut w : Array UInt32 := Array.mkEmpty 64
  for i in [0:16] do
    w := w.push (be32 m (off + 4*i))
  for i in [16:64] do
    let w15 := w[i-15]!
    let w2 := w[i-2]!
    let s0 := rotr w15 7 ^^^ rotr w15 18 ^^^ (w15 >>> 3)
    let s1 := rotr w2 17 ^^^ rotr w2 19 ^^^ (w2 >>> 10)
    w := w.push (w[i-16]! + s0 + w[i-7]! + s1)
  return w

def compress (s : State) (m : ByteArray) (off : Nat) : State := Id.run do
  let w := schedule m off
  let mut a := s.a; let mut b := s.b; let mut c := s.c; let mut d := s.d
  let mut e := s.e; let mut f := s.f; let mut g := s.g; let mut h := s.h
  for i in [0:64] do
    let s1 := rotr e 6 ^^^ rotr e 11 ^^^ rotr e 25
    let ch := (e &&& f) ^^^ ((~~~ e) &&& g)
    let t1 := h + s1 + ch + K[i]! + w[i]!
    let s0 := rotr a 2 ^^^ rotr a 13 ^^^ rotr a 22
    let mj := (a &&& b) ^^^ (a &&& c) ^^^ (b &&& c)
    let t2 := s0 + mj
    h := g; g := f; f := e; e := d + t1; d := c; c := b; b := a; a := t1 + t2
  return ⟨s.a + a, s.b + b, s.c + c, s.d + d, s.e + e, s.f + f, s.g + g, s.h + h⟩

/-- the padding appended to a message of `len` bytes: `80 00* <bit length, 8 bytes BE>` -/
def padding (len : Nat) : Bytes :=
  0x80 :: (List.replicate ((119 - len % 64) % 64) 0 ++ Bytes.ofNatBE 8 (8 * len))

def wordBytes (x : UInt32) : Bytes :=
  [(x >>> 24).toUInt8, (x >>> 16).toUInt8, (x >>> 8).toUInt8, x.toUInt8]

def State.bytes (s : State) : Bytes :=
  wordBytes s.a ++ wordBytes s.b ++ wordBytes s.c ++ wordBytes s.d ++
  wordBytes s.e ++ wordBytes s.f ++ wordBytes s.g ++ wordBytes s.h

/-- hash state after absorbing every complete 64-byte block of `m` -/
def absorb (m : ByteArray) : State := Id.run do
  let mut s := init
  for i in [0:m.size / 64] do
    s := compress s m (64 * i)
  return s

end Sha256

def sha256 (m : Bytes) : Bytes :=
  (Sha256.absorb ⟨(m ++ Sha256.padding m.length).toArray⟩).bytes

end O4.Crypto
