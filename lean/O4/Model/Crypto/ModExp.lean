/-!
# Modular exponentiation over `Nat` (square-and-multiply), as `math/big.Int.Exp(x, y, m)` for `y ≥ 0`, `m > 0`

Core Lean only; total by fuel = number of exponent bits.
-/
namespace O4.Crypto

/-- least significant bit first; `b` is the running square, `acc` the product so far -/
def modExpAux : Nat → Nat → Nat → Nat → Nat → Nat
  | 0, _, _, _, acc => acc
  | fuel + 1, b, e, m, acc =>
    if e = 0 then acc else
    modExpAux fuel (b * b % m) (e / 2) m (if e % 2 = 1 then acc * b % m else acc)

/-- `b^e mod m` (`big.Int.Exp` with a non-zero modulus: `x^0 = 1 mod m`, also for `x = 0`;
`x ≥ m` is reduced first). For `m = 0` Lean's `% 0` is the identity, so this is `b^e` — which is
also what `big.Int.Exp` returns for `m == 0`. -/
def modExp (b e m : Nat) : Nat := modExpAux (e.log2 + 1) (b % m) e m (1 % m)

end O4.Crypto
