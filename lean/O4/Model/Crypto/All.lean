import O4.Model.Crypto.Sha256
import O4.Model.Crypto.Sha512
import O4.Model.Crypto.Hmac
import O4.Model.Crypto.Salsa
import O4.Model.Crypto.Poly1305
import O4.Model.Crypto.Secretbox
import O4.Model.Crypto.Aes
/-!
# Executable symmetric primitives (core Lean only), all in namespace `O4.Crypto`

  sha256 sha512 : Bytes → Bytes
  hmacSha256 (key msg : Bytes) : Bytes
  hkdfExtract (salt ikm : Bytes) : Bytes
  hkdfExpand (prk info : Bytes) (n : Nat) : Bytes        -- `hkdfExpand?` = none past 255*32
  hkdf (secret salt info : Bytes) (n : Nat) : Bytes       -- hkdf.New(sha256.New, secret, salt, info)
  salsa20Core (in64 : Bytes) : Bytes
  hsalsa20 (key32 in16 : Bytes) : Bytes
  salsa20Stream (key32 nonce8 : Bytes) (off len : Nat) : Bytes
  xsalsa20Stream (key32 nonce24 : Bytes) (off len : Nat) : Bytes
  poly1305 (key32 msg : Bytes) : Bytes
  secretboxSeal (key32 nonce24 msg : Bytes) : Bytes       -- tag ++ ciphertext
  secretboxOpen (key32 nonce24 box : Bytes) : Option Bytes
  aesKeyOk (key : Bytes) : Bool ; aesIvOk (iv : Bytes) : Bool
  aesEncryptBlock (key block : Bytes) : Bytes
  aesCtrKeystream (key iv : Bytes) (off len : Nat) : Bytes
  aesCtrXor (key iv : Bytes) (off : Nat) (data : Bytes) : Bytes

Tied byte-for-byte to the Go libraries by `./check PRIMS` (driver `Driver.Prim`, harness
`harness/prims`). Structural lemmas: `O4.Lemmas.CryptoBasic`.
-/
