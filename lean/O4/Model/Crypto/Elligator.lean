import O4.Model.Crypto.Edwards
import O4.Model.Crypto.X25519
/-!
# `internal/x25519ell2` (obfuscated X25519 keys via Elligator 2), line by line

Go source modelled: `internal/x25519ell2/x25519ell2.go` (`selectLowOrderPoint`, `scalarBaseMultDirty`,
`uToRepresentative`, `ScalarBaseMult`, `RepresentativeToPublicKey`) and the dependency
`gitlab.com/yawning/edwards25519-extra/elligator2` (`MontgomeryFlavor`, `EdwardsFlavor`) with
`internal/montgomery` (`ToEdwardsPoint`). Variable names follow the Go code. Core Lean only.

Besides the transcription there is `specMap`, the *textbook* Elligator 2 direct map written from the
formula (`w = −A/(1+2r²)`; `u = w` if `w³+Aw²+w` is a square, `−w−A` otherwise), which shares nothing
with the Monocypher-style computation of `montgomeryFlavor` except field arithmetic.
-/
namespace O4.Crypto
open F25519

namespace Ell2

/-! ## constants of x25519ell2.go (little-endian byte strings there) -/

def feOne : Nat := 1
/-- `eb ff … ff 7f` -/
def feNegTwo : Nat := 0x7fffffffffffffffffffffffffffffffffffffffffffffffffffffffffffffeb
def feA : Nat := 486662
def feSqrtM1 : Nat := 0x2b8324804fc1df0b2b4d00993dfbd7a72f431806ad2fe478c4ee1b274a0ea0b0
/-- low order point, Edwards x: `4a d1 45 c5 … b9 d5 1f` -/
def feLopX : Nat := 0x1fd5b9a006394a28e933993238de4abb5c193c7013e5e238dea14646c545d14a
/-- low order point, Edwards y: `26 e8 95 8f … 53 fc 05` -/
def feLopY : Nat := 0x05fc536d880238b13933c6d305acdfd5f098eff289f4c345b027b2c28f95e826

/-! ## constants of edwards25519-extra/internal/montgomery -/

def mONE : Nat := 1
def mTWO : Nat := 2
def mA : Nat := 486662
def mA_SQUARED : Nat := 486662 * 486662
/-- `e7 92 f8 ff … ff 7f` -/
def mNEG_A : Nat := 0x7ffffffffffffffffffffffffffffffffffffffffffffffffffffffffff892e7
/-- `06 7e 45 ff … ed 26 0f` -/
def mSQRT_NEG_A_PLUS_TWO : Nat := 0x0f26edf460a006bbd27b08dc03fc4f7ec5a1d3d14b7d1a82cc6e04aaff457e06
/-- `8d be e2 6b … b6 f9 28` (= −2·sqrt(−1)) -/
def mU_FACTOR : Nat := 0x28f9b6ff607c41e9a965fecd840850b1a179cff2a5a0370e7623c9b16be2be8d
/-- `3e 5f f1 b5 … db 7c 54` (= sqrt(1/U_FACTOR)) -/
def mV_FACTOR : Nat := 0x547cdb7fb03e20f4d4b2ff66c2042858d0bce7f952d01b873b11e4d8b5f15f3e

/-! ## x25519ell2.go -/

/-- `selectLowOrderPoint(out, x, k, cofactor)` -/
def selectLowOrderPoint (x k : Nat) (cofactor : UInt8) : Nat :=
  let out := 0
  let out := select k out ((cofactor >>> 1) &&& 1).toNat   -- bit 1
  let out := select x out ((cofactor >>> 0) &&& 1).toNat   -- bit 0
  let tmp := neg out
  select tmp out ((cofactor >>> 2) &&& 1).toNat            -- bit 2

/-- the low-order point `scalarBaseMultDirty` adds, selected by `privateKey[0]`
(`lopY` is selected with the *byte* `privateKey[0]+2`, wrapping) -/
def lowOrderPoint (priv0 : UInt8) : Nat × Nat :=
  let lopX := selectLowOrderPoint feLopX feSqrtM1 priv0
  let lopY := selectLowOrderPoint feLopY feOne (priv0 + 2)
  (lopX, lopY)

/-- the Edwards point `pk` of `scalarBaseMultDirty` after `pk.Add(pk, lop)`;
`none` models the panic of `SetExtendedCoordinates` on an invalid low-order point -/
def dirtyPoint (privateKey : Bytes) : Option EdPoint :=
  -- Compute clean scalar multiplication
  let scalar := Ed.clampScalar privateKey
  let pk := Ed.scalarBaseMul scalar
  -- Compute low order point
  let (lopX, lopY) := lowOrderPoint (privateKey.getD 0 0)
  let lopT := mul lopX lopY
  let lop : EdPoint := ⟨lopX, lopY, feOne, lopT⟩
  if !Ed.isOnCurve lop then none else
  -- Add low order point to the public key
  some (Ed.add pk lop)

/-- `scalarBaseMultDirty`: Montgomery u of the dirty point (sign ignored) -/
def scalarBaseMultDirtyU (privateKey : Bytes) : Option Nat :=
  match dirtyPoint privateKey with
  | none => none
  | some pk =>
    -- Convert to Montgomery u coordinate (we ignore the sign)
    let t1 := add pk.Z pk.Y
    let t2 := sub pk.Z pk.Y
    let t2 := inv t2
    some (mul t1 t2)

/-- `uToRepresentative(representative, u, tweak)`: `none` = `false` -/
def uToRepresentative (u : Nat) (tweak : UInt8) : Option Bytes :=
  let t1 := red u
  let t2 := add t1 feA
  let t3 := mul t1 t2
  let t3 := mul t3 feNegTwo
  let (t3, isSquare) := sqrtRatio feOne t3
  if isSquare = 1 then
    let t1 := select t2 t1 (tweak &&& 1).toNat
    let t3 := mul t1 t3
    let t1 := mul t3 2
    let t2 := neg t3
    let tmp := toBytes t1
    let t3 := select t2 t3 (tmp.getD 0 0 &&& 1).toNat
    let representative := toBytes t3
    -- Pad with two random bits
    let representative := representative.set 31 (representative.getD 31 0 ||| (tweak &&& 0xc0))
    some representative
  else
    none

/-- `x25519ell2.ScalarBaseMult(publicKey, representative, privateKey, tweak)`:
`some (publicKey, representative)` when it returns `true`, `none` when `false` -/
def scalarBaseMult (privateKey : Bytes) (tweak : UInt8) : Option (Bytes × Bytes) :=
  -- u := scalarBaseMultDirty(privateKey); if !uToRepresentative(representative, u, tweak) { return false }
  -- copy(publicKey[:], u.Bytes()); return true
  -- (written with bind/map rather than nested matches so that proofs never make the kernel
  --  normalise the discriminants)
  (scalarBaseMultDirtyU privateKey).bind fun u =>
    (uToRepresentative u tweak).map fun representative => (toBytes u, representative)

/-- `elligator2.MontgomeryFlavor(r)`: `(u, v)` -/
def montgomeryFlavor (r : Nat) : Nat × Nat :=
  -- r1
  let t1 := sq r
  let t1 := mul t1 mTWO
  -- r2
  let u := add t1 mONE
  let t2 := sq u
  -- numerator
  let t3 := mul mA_SQUARED t1
  let t3 := sub t3 t2
  let t3 := mul t3 mA
  -- denominator
  let t1 := mul t2 u
  let t1 := mul t1 t3
  let (t1, isSquare) := sqrtRatio mONE t1
  let u := sq r
  let u := mul u mU_FACTOR
  let v := mul r mV_FACTOR
  let u := select mONE u isSquare
  let v := select mONE v isSquare
  let v := mul v t3
  let v := mul v t1
  let t1 := sq t1
  let u := mul u mNEG_A
  let u := mul u t3
  let u := mul u t2
  let u := mul u t1
  let negV := neg v
  let v := select negV v (isSquare ^^^ isNegative v)
  (u, v)

/-- `clamped[31] &= 63` -/
def maskRepresentative (representative : Bytes) : Bytes :=
  let clamped := representative.take 32
  clamped.set 31 (clamped.getD 31 0 &&& 63)

/-- `x25519ell2.RepresentativeToPublicKey` = `ntor.Representative.ToPublic` -/
def representativeToPublicKey (representative : Bytes) : Bytes :=
  -- Representatives are encoded in 254 bits.
  let clamped := maskRepresentative representative
  let fe := ofBytes clamped
  let (u, _) := montgomeryFlavor fe
  toBytes u

/-- `montgomery.ToEdwardsPoint(u, v)` -/
def toEdwardsPoint (u v : Nat) : EdPoint :=
  -- Per RFC 7748: (x, y) = (sqrt(-486664)*u/v, (u-1)/(u+1))
  let x := inv v
  let x := mul x u
  let x := mul x mSQRT_NEG_A_PLUS_TWO
  let uMinusOne := sub u mONE
  let uPlusOne := add u mONE
  let uPlusOneIsZero := eqI uPlusOne 0
  let uPlusOne := inv uPlusOne
  let y := mul uMinusOne uPlusOne
  let resultUndefined := eqI v 0 ||| uPlusOneIsZero
  let x := select 0 x resultUndefined
  let y := select mONE y resultUndefined
  ⟨x, y, 1, mul x y⟩

/-- `elligator2.EdwardsFlavor` of the masked representative (what `TestPublicKeySubgroup` uses) -/
def representativeToEdwards (representative : Bytes) : EdPoint :=
  let (u, v) := montgomeryFlavor (ofBytes (maskRepresentative representative))
  toEdwardsPoint u v

/-! ## the textbook map, independently -/

/-- Curve25519: `v² = u³ + A u² + u` -/
def curveRhs (u : Nat) : Nat := add (add (mul (sq u) u) (mul 486662 (sq u))) u

/-- Elligator 2 direct map on a field element `r` (Bernstein–Hamburg–Krasnova–Lange §5, with the
non-square 2): `w = −A/(1+2r²)`; the result is `w` if `w³+Aw²+w` is a square and `−w−A` otherwise. -/
def specMap (r : Nat) : Nat :=
  let w := mul (neg 486662) (inv (add 1 (mul 2 (sq r))))
  let e := chi (curveRhs w)
  if e = p - 1 then sub (neg w) 486662 else w

/-- decoding as the property states it: the two top bits are ignored (`r mod 2^254`), then the map -/
def specRepresentativeToPublic (representative : Bytes) : Bytes :=
  toBytes (specMap (Bytes.toNatLE (representative.take 32) % 2^254))

/-! ## cosets of the prime-order subgroup -/

/-- the eight points `scalarBaseMultDirty` selects among, indexed by the three low key bits -/
def lowOrderTable : List EdPoint :=
  (List.range 8).map fun c =>
    let (x, y) := lowOrderPoint (UInt8.ofNat c)
    Ed.ofAffine x y

/-- index `c` with `ℓ·P = lowOrderPoint c` (so `P` lies in the coset of that point… up to the factor
`ℓ mod 8 = 5`, a bijection of ℤ/8); `none` if `ℓ·P` is not one of the eight points (P not on the curve) -/
def cosetIndex (P : EdPoint) : Option Nat :=
  let Q := Ed.scalarMul Ed.ell P
  (List.range 8).find? fun c =>
    match lowOrderTable[c]? with
    | some L => Ed.eq Q L
    | none => false

/-- class of a Montgomery u-coordinate (a public key carries no sign, so only five classes of the
eight cosets can be told apart): which low-order point `ℓ·P` is, computed with the unclamped ladder.
`1`: identity (P in the prime-order subgroup), `2`: the point of order 2 (u = 0), `4`: order 4
(u = 1), `8a` / `8b`: order 8 with u = 325606… / 39382…, `x`: none of these (u on the twist).
The ladder is degenerate for `x1 = 0`, which is the order-2 point itself. -/
def cosetClassU (u : Nat) : String :=
  let u := red u
  if u = 0 then "2" else
  let (x2, z2) := X25519.ladderProj Ed.ell 253 u
  if z2 = 0 then "1" else
  let q := mul x2 (inv z2)
  if q = 0 then "2"
  else if q = 1 then "4"
  else if q = 325606250916557431795983626356110631294008115727848805560023387167927233504 then "8a"
  else if q = 39382357235489614581723060781553021112529911719440698176882885853963445705823 then "8b"
  else "x"

end Ell2

/-- obfuscated key generation: `(publicKey, representative)` or `none` ("no representative") -/
def scalarBaseMultDirty (priv : Bytes) (tweak : UInt8) : Option (Bytes × Bytes) :=
  Ell2.scalarBaseMult priv tweak

/-- `ntor.Representative.ToPublic` -/
def representativeToPublic (repr : Bytes) : Bytes := Ell2.representativeToPublicKey repr

end O4.Crypto
