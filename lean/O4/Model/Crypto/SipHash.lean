import O4.Model.Bytes
/-!
# SipHash-2-4 (64-bit output), executable, core Lean only.

Mirrors `github.com/dchest/siphash` v1.2.3: the one-shot `Hash(k0, k1, p)` (`sipHash24`) and
the streaming `digest` (`Digest.new / write / sum64`) that `common/drbg` keeps *running*:
`Write` absorbs bytes (compressing every full 8-byte block), `Sum64` finalises a **copy**
(last block = pending bytes, zero padding, total length mod 256 in the top byte) and leaves the
running state untouched.

`write` is a left fold of `writeByte`, so `(d.write a).write b = d.write (a ++ b)` is
`List.foldl_append` — the lemma the DRBG's "OFB over the accumulated input" reading rests on.
-/
namespace O4.Crypto
namespace SipHash

structure State where
  v0 : UInt64
  v1 : UInt64
  v2 : UInt64
  v3 : UInt64
deriving DecidableEq, Repr

@[inline] def rotl (x : UInt64) (n : UInt64) : UInt64 := (x <<< n) ||| (x >>> (64 - n))

/-- one SipRound -/
def sipRound (s : State) : State :=
  let v0 := s.v0 + s.v1
  let v1 := rotl s.v1 13
  let v1 := v1 ^^^ v0
  let v0 := rotl v0 32
  let v2 := s.v2 + s.v3
  let v3 := rotl s.v3 16
  let v3 := v3 ^^^ v2
  let v0 := v0 + v3
  let v3 := rotl v3 21
  let v3 := v3 ^^^ v0
  let v2 := v2 + v1
  let v1 := rotl v1 17
  let v1 := v1 ^^^ v2
  let v2 := rotl v2 32
  ⟨v0, v1, v2, v3⟩

/-- compression of one 64-bit message word (c = 2 rounds) -/
def compress (s : State) (m : UInt64) : State :=
  let s := { s with v3 := s.v3 ^^^ m }
  let s := sipRound (sipRound s)
  { s with v0 := s.v0 ^^^ m }

def init (k0 k1 : UInt64) : State :=
  ⟨k0 ^^^ 0x736f6d6570736575, k1 ^^^ 0x646f72616e646f6d,
   k0 ^^^ 0x6c7967656e657261, k1 ^^^ 0x7465646279746573⟩

/-- finalisation (d = 4 rounds) -/
def finish (s : State) : UInt64 :=
  let s := { s with v2 := s.v2 ^^^ 0xff }
  let s := sipRound (sipRound (sipRound (sipRound s)))
  s.v0 ^^^ s.v1 ^^^ s.v2 ^^^ s.v3

/-- little-endian word of (up to) 8 bytes -/
def leWord (b : Bytes) : UInt64 :=
  b.foldr (fun x acc => (acc <<< 8) ||| x.toUInt64) 0

/-- the 8 little-endian bytes of a word (`digest.Sum`) -/
def leBytes (w : UInt64) : Bytes :=
  [w.toUInt8, (w >>> 8).toUInt8, (w >>> 16).toUInt8, (w >>> 24).toUInt8,
   (w >>> 32).toUInt8, (w >>> 40).toUInt8, (w >>> 48).toUInt8, (w >>> 56).toUInt8]

/-- the 8 big-endian bytes of a word -/
def beBytes (w : UInt64) : Bytes := (leBytes w).reverse

/-- big-endian word of 8 bytes (`binary.BigEndian.Uint64`) -/
def beWord (b : Bytes) : UInt64 :=
  b.foldl (fun acc x => (acc <<< 8) ||| x.toUInt64) 0

/-- running digest: compression state, pending bytes (fewer than 8), bytes written so far -/
structure Digest where
  s : State
  buf : Bytes
  len : Nat
deriving DecidableEq, Repr

def Digest.new (k0 k1 : UInt64) : Digest := ⟨init k0 k1, [], 0⟩

def Digest.writeByte (d : Digest) (x : UInt8) : Digest :=
  let buf := d.buf ++ [x]
  if buf.length == 8 then ⟨compress d.s (leWord buf), [], d.len + 1⟩
  else ⟨d.s, buf, d.len + 1⟩

/-- `digest.Write` -/
def Digest.write (d : Digest) (p : Bytes) : Digest := p.foldl Digest.writeByte d

/-- `digest.Sum64`: finalises a copy; the running digest is unchanged. -/
def Digest.sum64 (d : Digest) : UInt64 :=
  let last := leWord d.buf ||| ((UInt64.ofNat (d.len % 256)) <<< 56)
  finish (compress d.s last)

theorem Digest.write_append (d : Digest) (a b : Bytes) :
    (d.write a).write b = d.write (a ++ b) := by
  simp [Digest.write, List.foldl_append]

end SipHash

/-- key halves as `siphash.New` reads them: two little-endian words of the 16-byte key -/
def sipKey (key : Bytes) : UInt64 × UInt64 :=
  (SipHash.leWord (key.take 8), SipHash.leWord ((key.drop 8).take 8))

/-- SipHash-2-4 of `msg` under the key `(k0, k1)` -/
def sipHash24 (k0 k1 : UInt64) (msg : Bytes) : UInt64 :=
  ((SipHash.Digest.new k0 k1).write msg).sum64

end O4.Crypto
