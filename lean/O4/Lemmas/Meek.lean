import O4.Model.Meek
/-! Invariants of the meek_lite interleaving model (core only). -/
namespace O4.Meek
open O4.Consts.Meeklite

/-- concatenation of the request bodies issued so far -/
def bodies (s : State) : Bytes := (s.reqs.map (·.2)).flatten

structure Inv (s : State) : Prop where
  up : s.failed = false → bodies s ++ pendingUp s ++ s.wrQ.flatten = s.accepted.flatten
  down : s.readOut.flatten ++ s.rdBuf ++ s.rdQ.flatten ++ pendingDown s ++ s.dropped.flatten
    = s.resps.flatten
  drop : s.dropped ≠ [] → s.closed = true ∧ exited s = true
  rdwait : ∀ n, s.rd = .wait n → s.rdBuf = []
  bound : ∀ r ∈ s.reqs, r.2.length ≤ maxPayloadLength
  flight : s.reqs.length = s.answered + (if inFlight s then 1 else 0)
  sidc : ∀ r ∈ s.reqs, r.1 = s.sid
  qcap : s.wrQ.length ≤ maxChanBacklog ∧ s.rdQ.length ≤ maxChanBacklog
  fl : ∀ snd wrSz k, s.wpc = .flight snd wrSz k → wrSz ≤ maxPayloadLength
  rt : ∀ snd wrSz k, s.wpc = .retry snd wrSz k → s.failed = true ∧ wrSz ≤ maxPayloadLength

theorem drop_nil {s : State} (h : Inv s) (hne : exited s = false) : s.dropped = [] := by
  by_cases hd : s.dropped = []
  · exact hd
  · have := (h.drop hd).2; rw [hne] at this; cases this

theorem inv_init (sid : Nat) : Inv (init sid) := by
  constructor <;> simp [init, bodies, pendingUp, pendingDown, inFlight]

/-- a step that changes only the worker's program counter, `leftBuf` and the closed flags -/
theorem inv_pc (s t : State) (h : Inv s)
    (e1 : t.wrQ = s.wrQ) (e2 : t.rdQ = s.rdQ) (e3 : t.rdBuf = s.rdBuf) (e4 : t.rd = s.rd)
    (e5 : t.accepted = s.accepted) (e6 : t.reqs = s.reqs) (e7 : t.resps = s.resps)
    (e8 : t.answered = s.answered) (e9 : t.failed = s.failed) (e10 : t.readOut = s.readOut)
    (e11 : t.sid = s.sid) (e12 : t.dropped = s.dropped) (e13 : s.closed = true → t.closed = true)
    (e14 : exited s = true → exited t = true)
    (hup : pendingUp t = pendingUp s) (hdown : pendingDown t = pendingDown s)
    (hfl : inFlight t = inFlight s)
    (hflb : ∀ snd wrSz k, t.wpc = .flight snd wrSz k → wrSz ≤ maxPayloadLength)
    (hrtb : ∀ snd wrSz k, t.wpc ≠ .retry snd wrSz k) : Inv t := by
  constructor
  · rw [e9, bodies, e6, hup, e1, e5]; exact h.up
  · rw [e10, e3, e2, hdown, e7, e12]; exact h.down
  · rw [e12]; exact fun hd => ⟨e13 (h.drop hd).1, e14 (h.drop hd).2⟩
  · rw [e4, e3]; exact h.rdwait
  · rw [e6]; exact h.bound
  · rw [e6, e8, hfl]; exact h.flight
  · rw [e6, e11]; exact h.sidc
  · rw [e1, e2]; exact h.qcap
  · exact hflb
  · intro snd wrSz k hk; exact absurd hk (hrtb snd wrSz k)

theorem inv_writeCall (s : State) (b : Bytes) (h : Inv s) : Inv (stepWriteCall s b) := by
  unfold stepWriteCall
  split
  · exact h
  · split
    · exact ⟨h.up, h.down, h.drop, h.rdwait, h.bound, h.flight, h.sidc, h.qcap, h.fl, h.rt⟩
    · split
      · exact ⟨h.up, h.down, h.drop, h.rdwait, h.bound, h.flight, h.sidc, h.qcap, h.fl, h.rt⟩
      · exact ⟨h.up, h.down, h.drop, h.rdwait, h.bound, h.flight, h.sidc, h.qcap, h.fl, h.rt⟩

theorem inv_writeEnq (s : State) (h : Inv s) : Inv (stepWriteEnq s) := by
  unfold stepWriteEnq
  split
  · exact h
  · next b _ =>
    split
    · exact ⟨h.up, h.down, h.drop, h.rdwait, h.bound, h.flight, h.sidc, h.qcap, h.fl, h.rt⟩
    · split
      · next hlen =>
        refine ⟨?_, h.down, h.drop, h.rdwait, h.bound, h.flight, h.sidc, ?_, h.fl, h.rt⟩
        · intro hf
          have := h.up hf
          simp only [say, bodies, pendingUp] at this ⊢
          rw [List.flatten_append, List.flatten_append, ← List.append_assoc, this]
        · simp only [say, List.length_append, List.length_cons, List.length_nil]
          exact ⟨by omega, h.qcap.2⟩
      · exact h

theorem inv_readCall (fixed : Bool) (s : State) (n : Nat) (h : Inv s) :
    Inv (stepReadCall fixed s n) := by
  unfold stepReadCall
  split
  · exact h
  · next hrd =>
    split
    · exact ⟨h.up, h.down, h.drop, h.rdwait, h.bound, h.flight, h.sidc, h.qcap, h.fl, h.rt⟩
    · split
      · refine ⟨h.up, ?_, h.drop, ?_, h.bound, h.flight, h.sidc, h.qcap, h.fl, h.rt⟩
        · have := h.down
          simp only [say, pendingDown] at this ⊢
          rw [List.flatten_append, ← this]
          simp only [List.flatten_cons, List.flatten_nil, List.append_nil, List.append_assoc]
          rw [← List.append_assoc (s.rdBuf.take n), List.take_append_drop]
        · intro m hm; simp only [say] at hm; rw [hrd] at hm; cases hm
      · next hbuf =>
        refine ⟨h.up, h.down, h.drop, ?_, h.bound, h.flight, h.sidc, h.qcap, h.fl, h.rt⟩
        intro m _; simpa using hbuf

theorem inv_readDeq (s : State) (h : Inv s) : Inv (stepReadDeq s) := by
  unfold stepReadDeq
  split
  · exact h
  · next n hrd =>
    have hb := h.rdwait n hrd
    split
    · next b rest hq =>
      refine ⟨?_, ?_, h.drop, ?_, h.bound, h.flight, h.sidc, ?_, h.fl, h.rt⟩
      · intro hf; have := h.up hf; simpa [say, bodies, pendingUp] using this
      · have := h.down
        simp only [say, pendingDown] at this ⊢
        rw [hq, hb] at this
        rw [List.flatten_append, ← this]
        simp only [List.flatten_cons, List.flatten_nil, List.append_nil, List.append_assoc]
        rw [← List.append_assoc (b.take n), List.take_append_drop]
      · intro m hm; simp [say] at hm
      · have := h.qcap; rw [hq] at this; simp only [say, List.length_cons] at this ⊢
        exact ⟨this.1, by omega⟩
    · split
      · refine ⟨h.up, h.down, h.drop, ?_, h.bound, h.flight, h.sidc, h.qcap, h.fl, h.rt⟩
        intro m hm; simp [say] at hm
      · exact h

theorem inv_close (s : State) (h : Inv s) : Inv (stepClose s) := by
  unfold stepClose
  split
  · exact ⟨h.up, h.down, h.drop, h.rdwait, h.bound, h.flight, h.sidc, h.qcap, h.fl, h.rt⟩
  · exact ⟨h.up, h.down, fun hd => ⟨rfl, (h.drop hd).2⟩, h.rdwait, h.bound, h.flight, h.sidc, h.qcap, h.fl, h.rt⟩

theorem bodies_snoc (s : State) (r : Nat × Bytes) (t : State) (ht : t.reqs = s.reqs ++ [r]) :
    bodies t = bodies s ++ r.2 := by
  simp [bodies, ht, List.flatten_append]

/-- the worker issues the request for `sndBuf = snd` -/
theorem inv_issue (s : State) (snd : Bytes) (h : Inv s) (hpc : s.wpc = .coal snd) :
    Inv { s with reqs := s.reqs ++ [(s.sid, snd.take (min snd.length maxPayloadLength))],
                 wpc := .flight snd (min snd.length maxPayloadLength) 1 } := by
  refine ⟨?_, ?_, (fun hd => absurd (drop_nil h (by simp [exited, hpc])) hd), h.rdwait, ?_, ?_, ?_, h.qcap, ?_, ?_⟩
  · intro hf
    have := h.up hf
    simp only [pendingUp, hpc] at this
    simp only [pendingUp]
    rw [bodies_snoc s (s.sid, snd.take (min snd.length maxPayloadLength)) _ rfl, ← this]
    simp only [List.append_assoc]
    rw [← List.append_assoc (snd.take _), List.take_append_drop]
  · have := h.down; simp only [pendingDown, hpc] at this; simpa [pendingDown] using this
  · intro r hr
    rcases List.mem_append.mp hr with hr | hr
    · exact h.bound r hr
    · simp at hr; subst hr; simp only [List.length_take]; omega
  · have := h.flight; simp only [inFlight, hpc] at this
    simp only [inFlight, List.length_append, List.length_cons, List.length_nil]; simp at this ⊢; omega
  · intro r hr
    rcases List.mem_append.mp hr with hr | hr
    · exact h.sidc r hr
    · simp at hr; subst hr; rfl
  · intro snd' wrSz k hk; simp at hk; omega
  · intro snd' wrSz' k' hk; simp at hk

theorem inv_worker (s : State) (h : Inv s) : Inv (stepWorker s) := by
  unfold stepWorker
  split
  · next snd hpc =>
    split
    · next b rest hq =>
      split
      · refine ⟨?_, ?_, (fun hd => absurd (drop_nil h (by simp [exited, hpc])) hd), h.rdwait, h.bound, ?_, h.sidc, ?_, ?_, ?_⟩
        · intro hf
          have := h.up hf
          simp only [pendingUp, hpc, hq] at this
          simp only [pendingUp, bodies] at this ⊢
          rw [← this]; simp [List.append_assoc]
        · have := h.down; simp only [pendingDown, hpc] at this; simpa [pendingDown] using this
        · have := h.flight; simp only [inFlight, hpc] at this; simpa [inFlight] using this
        · have := h.qcap; rw [hq] at this; simp only [List.length_cons] at this
          exact ⟨by simp only; omega, this.2⟩
        · intro snd' wrSz k hk; simp at hk
        · intro snd' wrSz' k' hk; simp at hk
      · exact inv_issue s snd h hpc
    · exact inv_issue s snd h hpc
  · next snd wrSz body hpc =>
    split
    · next hb =>
      subst hb
      apply inv_pc s _ h <;> first | rfl | simp [pendingUp, pendingDown, inFlight, exited, hpc]
    · apply inv_pc s _ h <;> first | rfl | simp [pendingUp, pendingDown, inFlight, exited, hpc]
  · next body hpc =>
    split
    · refine ⟨?_, ?_, (fun hd => absurd (drop_nil h (by simp [exited, hpc])) hd), h.rdwait, h.bound, ?_, h.sidc, ?_, ?_, ?_⟩
      · intro hf; have := h.up hf; simp only [pendingUp, hpc] at this; simpa [pendingUp, bodies] using this
      · have := h.down
        simp only [pendingDown, hpc] at this
        simp only [pendingDown, List.flatten_append, List.flatten_cons, List.flatten_nil, List.append_nil]
        rw [← this]; simp [List.append_assoc]
      · have := h.flight; simp only [inFlight, hpc] at this; simpa [inFlight] using this
      · simp only [List.length_append, List.length_cons, List.length_nil]; exact ⟨h.qcap.1, by omega⟩
      · intro snd' wrSz k hk; simp at hk
      · intro snd' wrSz' k' hk; simp at hk
    · exact h
  · next snd wrSz k hpc =>
    -- the retry delay has passed: the same body is sent again
    obtain ⟨hfail, hw⟩ := h.rt snd wrSz k hpc
    refine ⟨?_, ?_, (fun hd => absurd (drop_nil h (by simp [exited, hpc])) hd), h.rdwait, ?_, ?_, ?_, h.qcap, ?_, ?_⟩
    · intro hf; simp only at hf; rw [hfail] at hf; cases hf
    · have := h.down; simp only [pendingDown, hpc] at this; simpa [pendingDown] using this
    · intro r hr
      rcases List.mem_append.mp hr with hr | hr
      · exact h.bound r hr
      · simp at hr; subst hr; simp only [List.length_take]; omega
    · have := h.flight; simp only [inFlight, hpc] at this
      simp only [inFlight, List.length_append, List.length_cons, List.length_nil]; simp at this ⊢; omega
    · intro r hr
      rcases List.mem_append.mp hr with hr | hr
      · exact h.sidc r hr
      · simp at hr; subst hr; rfl
    · intro snd' wrSz' k' hk; simp at hk; omega
    · intro snd' wrSz' k' hk; simp at hk
  · next hpc => apply inv_pc s _ h <;> first | rfl | simp [pendingUp, pendingDown, inFlight, exited, hpc]
  · next hpc => apply inv_pc s _ h <;> first | rfl | simp [pendingUp, pendingDown, inFlight, exited, hpc]
  · next hpc => apply inv_pc s _ h <;> first | rfl | simp [pendingUp, pendingDown, inFlight, exited, hpc]
  · exact h
  · exact h
  · exact h

theorem inv_step (fixed : Bool) (s : State) (c : Choice) (h : Inv s) : Inv (step fixed s c) := by
  cases c with
  | writeCall b => exact inv_writeCall s b h
  | writeEnq => exact inv_writeEnq s h
  | readCall n => exact inv_readCall fixed s n h
  | readDeq => exact inv_readDeq s h
  | close => exact inv_close s h
  | wStep => exact inv_worker s h
  | wTimer =>
    simp only [step]
    split
    · next hpc => apply inv_pc s _ h <;> first | rfl | simp [pendingUp, pendingDown, inFlight, exited, hpc]
    · exact h
  | wRecv =>
    simp only [step]
    split
    · next b rest hpc hq =>
      refine ⟨?_, ?_, (fun hd => absurd (drop_nil h (by simp [exited, hpc])) hd), h.rdwait, h.bound, ?_, h.sidc, ?_, ?_, ?_⟩
      · intro hf
        have := h.up hf
        simp only [pendingUp, hpc, hq] at this
        simp only [pendingUp, bodies] at this ⊢
        rw [← this]; simp [List.append_assoc]
      · have := h.down; simp only [pendingDown, hpc] at this; simpa [pendingDown] using this
      · have := h.flight; simp only [inFlight, hpc] at this; simpa [inFlight] using this
      · have := h.qcap; rw [hq] at this; simp only [List.length_cons] at this
        exact ⟨by simp only; omega, this.2⟩
      · intro snd' wrSz k hk; simp at hk
      · intro snd' wrSz' k' hk; simp at hk
    · exact h
  | wClose =>
    simp only [step]
    split
    · next hpc =>
      split
      · apply inv_pc s _ h <;> first | rfl | simp [pendingUp, pendingDown, inFlight, exited, hpc]
      · exact h
    · next body hpc =>
      split
      · next hcl =>
        have hd0 : s.dropped = [] := by
          by_cases hd : s.dropped = []
          · exact hd
          · have := (h.drop hd).2; simp [exited, hpc] at this
        refine ⟨?_, ?_, fun _ => ⟨hcl, rfl⟩, h.rdwait, h.bound, ?_, h.sidc, h.qcap, ?_, ?_⟩
        · intro hf; have := h.up hf; simp only [pendingUp, hpc] at this; simpa [pendingUp, bodies] using this
        · have := h.down
          simp only [pendingDown, hpc, hd0] at this
          simp only [pendingDown, hd0]
          simpa using this
        · have := h.flight; simp only [inFlight, hpc] at this; simpa [inFlight] using this
        · intro snd' wrSz k hk; simp at hk
        · intro snd' wrSz' k' hk; simp at hk
      · exact h
    · next snd wrSz k hpc =>
      obtain ⟨hfail, _⟩ := h.rt snd wrSz k hpc
      split
      · refine ⟨?_, ?_, (fun hd => absurd (drop_nil h (by simp [exited, hpc])) hd), h.rdwait, h.bound, ?_, h.sidc, h.qcap, ?_, ?_⟩
        · intro hf; simp only at hf; rw [hfail] at hf; cases hf
        · have := h.down; simp only [pendingDown, hpc] at this; simpa [pendingDown] using this
        · have := h.flight; simp only [inFlight, hpc] at this; simpa [inFlight] using this
        · intro snd' wrSz' k' hk; simp at hk
        · intro snd' wrSz' k' hk; simp at hk
      · exact h
    · exact h
  | sOk body =>
    simp only [step]
    split
    · next snd wrSz k hpc =>
      split
      · refine ⟨?_, ?_, (fun hd => absurd (drop_nil h (by simp [exited, hpc])) hd), h.rdwait, h.bound, ?_, h.sidc, h.qcap, ?_, ?_⟩
        · intro hf; have := h.up hf; simp only [pendingUp, hpc] at this; simpa [pendingUp, bodies] using this
        · have := h.down
          have hd0 := drop_nil h (by simp [exited, hpc])
          simp only [pendingDown, hpc, hd0] at this
          simp only [pendingDown, hd0, List.flatten_append, List.flatten_cons, List.flatten_nil, List.append_nil]
          rw [← this]; simp
        · have := h.flight; simp only [inFlight, hpc] at this
          simp only [inFlight]; simp at this ⊢; omega
        · intro snd' wrSz' k' hk; simp at hk
        · intro snd' wrSz' k' hk; simp at hk
      · exact h
    · exact h
  | sNon200 =>
    simp only [step]
    split
    · next snd wrSz k hpc =>
      have hw := h.fl snd wrSz k hpc
      split
      · refine ⟨?_, ?_, (fun hd => absurd (drop_nil h (by simp [exited, hpc])) hd), h.rdwait, h.bound, ?_, h.sidc, h.qcap, ?_, ?_⟩
        · intro hf; cases hf
        · have := h.down; simp only [pendingDown, hpc] at this; simpa [pendingDown] using this
        · have := h.flight; simp only [inFlight, hpc] at this
          simp only [inFlight]; simp at this ⊢; omega
        · intro snd' wrSz' k' hk; simp at hk
        · intro snd' wrSz' k' hk; simp at hk; exact ⟨rfl, by omega⟩
      · refine ⟨?_, ?_, (fun hd => absurd (drop_nil h (by simp [exited, hpc])) hd), h.rdwait, h.bound, ?_, h.sidc, h.qcap, ?_, ?_⟩
        · intro hf; cases hf
        · have := h.down; simp only [pendingDown, hpc] at this; simpa [pendingDown] using this
        · have := h.flight; simp only [inFlight, hpc] at this
          simp only [inFlight]; simp at this ⊢; omega
        · intro snd' wrSz' k' hk; simp at hk
        · intro snd' wrSz' k' hk; simp at hk
    · exact h
  | sFail =>
    simp only [step]
    split
    · next snd wrSz k hpc =>
      refine ⟨?_, ?_, (fun hd => absurd (drop_nil h (by simp [exited, hpc])) hd), h.rdwait, h.bound, ?_, h.sidc, h.qcap, ?_, ?_⟩
      · intro hf; cases hf
      · have := h.down; simp only [pendingDown, hpc] at this; simpa [pendingDown] using this
      · have := h.flight; simp only [inFlight, hpc] at this
        simp only [inFlight]; simp at this ⊢; omega
      · intro snd' wrSz' k' hk; simp at hk
      · intro snd' wrSz' k' hk; simp at hk
    · exact h

theorem inv_run (fixed : Bool) (s : State) (cs : List Choice) (h : Inv s) : Inv (run fixed s cs) := by
  induction cs generalizing s with
  | nil => exact h
  | cons c cs ih => exact ih _ (inv_step fixed s c h)

end O4.Meek

namespace O4.Meek
open O4.Consts.Meeklite

theorem closed_step (fixed : Bool) (s : State) (c : Choice) (h : s.closed = true) :
    (step fixed s c).closed = true := by
  cases c <;> simp only [step, stepWriteCall, stepWriteEnq, stepReadCall, stepReadDeq, stepClose, stepWorker]
    <;> (repeat' split) <;> simp_all [say]

theorem closed_run (fixed : Bool) (s : State) (cs : List Choice) (h : s.closed = true) :
    (run fixed s cs).closed = true := by
  induction cs generalizing s with
  | nil => exact h
  | cons c cs ih => exact ih _ (closed_step fixed s c h)

theorem sid_step (fixed : Bool) (s : State) (c : Choice) : (step fixed s c).sid = s.sid := by
  cases c <;> simp only [step, stepWriteCall, stepWriteEnq, stepReadCall, stepReadDeq, stepClose, stepWorker]
    <;> (repeat' split) <;> simp_all [say]

theorem sid_run (fixed : Bool) (s : State) (cs : List Choice) : (run fixed s cs).sid = s.sid := by
  induction cs generalizing s with
  | nil => rfl
  | cons c cs ih => exact (ih _).trans (sid_step fixed s c)

/-- once the worker has left its loop it stays out and issues no request -/
theorem exited_step (fixed : Bool) (s : State) (c : Choice) (h : exited s = true) :
    exited (step fixed s c) = true ∧ (step fixed s c).reqs = s.reqs := by
  cases c <;> simp only [step, stepWriteCall, stepWriteEnq, stepReadCall, stepReadDeq, stepClose, stepWorker]
    <;> (repeat' split) <;> simp_all [say, exited]

theorem exited_run (fixed : Bool) (s : State) (cs : List Choice) (h : exited s = true) :
    exited (run fixed s cs) = true ∧ (run fixed s cs).reqs = s.reqs := by
  induction cs generalizing s with
  | nil => exact ⟨h, rfl⟩
  | cons c cs ih =>
    obtain ⟨h1, h2⟩ := exited_step fixed s c h
    obtain ⟨h3, h4⟩ := ih _ h1
    exact ⟨h3, h4.trans h2⟩

end O4.Meek
