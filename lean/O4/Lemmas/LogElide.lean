import O4.Model.LogElide
/-!
# Lemmas for C20 (core only): the shape relation, the walk invariant, `SplitHostPort` facts
-/
set_option linter.unusedSimpArgs false
namespace O4.LogElide
open O4

/-- **Equal up to the address-bearing fields**: `AddrError.Addr`, `DNSError.Name/Server`, the
    strings of `InvalidAddrError`/`UnknownNetworkError`, `OpError.Source/Addr` (including whether
    they are nil), `url.Error.URL`, and the text of a `net.Error` of unknown type.  Everything
    else — error kinds, nesting, operation / network / syscall names, cause words, the free text
    of `fmt` wrappers and plain errors — is the same. -/
inductive SameShape : Err → Err → Prop
  | addrError (err a a' : Str) : SameShape (.addrError err a) (.addrError err a')
  | dnsError (err n s n' s' : Str) : SameShape (.dnsError err n s) (.dnsError err n' s')
  | invalidAddrError (s s' : Str) (p : Bool) :
      SameShape (.invalidAddrError s p) (.invalidAddrError s' p)
  | unknownNetworkError (s s' : Str) (p : Bool) :
      SameShape (.unknownNetworkError s p) (.unknownNetworkError s' p)
  | opError (op net : Str) (src a src' a' : Option Str) (i i' : Err) :
      SameShape i i' → SameShape (.opError op net src a i) (.opError op net src' a' i')
  | urlError (op u u' : Str) (i i' : Err) :
      SameShape i i' → SameShape (.urlError op u i) (.urlError op u' i')
  | syscallError (sc : Str) (i i' : Err) :
      SameShape i i' → SameShape (.syscallError sc i) (.syscallError sc i')
  | wrap (pre post : Str) (i i' : Err) :
      SameShape i i' → SameShape (.wrap pre post i) (.wrap pre post i')
  | errno (t : Str) : SameShape (.errno t) (.errno t)
  | otherNet (ty t t' : Str) : SameShape (.otherNet ty t) (.otherNet ty t')
  | plain (t : Str) : SameShape (.plain t) (.plain t)

theorem SameShape.refl (e : Err) : SameShape e e := by
  induction e with
  | addrError => exact .addrError ..
  | dnsError => exact .dnsError ..
  | invalidAddrError => exact .invalidAddrError ..
  | unknownNetworkError => exact .unknownNetworkError ..
  | opError _ _ _ _ _ ih => exact .opError _ _ _ _ _ _ _ _ ih
  | urlError _ _ _ ih => exact .urlError _ _ _ _ _ ih
  | syscallError _ _ ih => exact .syscallError _ _ _ ih
  | wrap _ _ _ ih => exact .wrap _ _ _ _ ih
  | errno => exact .errno _
  | otherNet => exact .otherNet ..
  | plain => exact .plain _

/-- the test of the repaired `OpError` branch does not depend on addresses -/
theorem verbatimInner_sameShape {i i' : Err} (h : SameShape i i') :
    verbatimInner i = verbatimInner i' := by
  induction h with
  | syscallError sc i i' _ ih => simpa [verbatimInner, findNet] using ih
  | wrap pre post i i' _ ih => simpa [verbatimInner, findNet] using ih
  | _ => simp [verbatimInner, findNet]

/-- when the inner error is printed as is, it carries no address field at all -/
theorem verbatimInner_error {i i' : Err} (h : SameShape i i') (hv : verbatimInner i = true) :
    i.error = i'.error := by
  induction h with
  | syscallError sc i i' _ ih =>
    have : verbatimInner i = true := by simpa [verbatimInner, findNet] using hv
    simp [Err.error, ih this]
  | wrap pre post i i' _ ih =>
    have : verbatimInner i = true := by simpa [verbatimInner, findNet] using hv
    simp [Err.error, ih this]
  | errno t => rfl
  | plain t => rfl
  | _ => simp [verbatimInner, findNet] at hv

/-- the walk invariant: if `top`'s text is `pre ++ cur.error ++ post` (every node passed so far
    is a `fmt`/`os.SyscallError` wrapper) then the result only depends on the shape -/
theorem walk_sameShape {cur cur' : Err} (h : SameShape cur cur') :
    ∀ (top top' : Err) (pre post : Str),
      top.error = pre ++ cur.error ++ post → top'.error = pre ++ cur'.error ++ post →
      walk true top cur = walk true top' cur' := by
  induction h with
  | addrError => intros; simp [walk]
  | dnsError => intros; simp [walk]
  | invalidAddrError => intros; simp [walk]
  | unknownNetworkError => intros; simp [walk]
  | urlError => intros; simp [walk]
  | errno => intros; simp [walk]
  | otherNet => intros; simp [walk]
  | opError op net src a src' a' i i' hi ih =>
    intro top top' pre post _ _
    simp only [walk, Bool.true_and]
    rw [← verbatimInner_sameShape hi]
    cases hv : verbatimInner i with
    | true => simp [verbatimInner_error hi hv]
    | false =>
      simp only [Bool.not_false, ↓reduceIte]
      rw [ih i i' [] [] (by simp) (by simp)]
  | syscallError sc i i' _ ih =>
    intro top top' pre post h1 h2
    simp only [walk]
    apply ih top top' (pre ++ sc ++ asc ": ") post
    · rw [h1]; simp [Err.error, List.append_assoc]
    · rw [h2]; simp [Err.error, List.append_assoc]
  | wrap p q i i' _ ih =>
    intro top top' pre post h1 h2
    simp only [walk]
    apply ih top top' (pre ++ p) (q ++ post)
    · rw [h1]; simp [Err.error, List.append_assoc]
    · rw [h2]; simp [Err.error, List.append_assoc]
  | plain t =>
    intro top top' pre post h1 h2
    simp only [walk]
    rw [h1, h2]

/-! ## `SplitHostPort` -/

theorem indexOf_none {c : UInt8} {s : Bytes} : indexOf c s = none ↔ c ∉ s := by
  induction s with
  | nil => simp [indexOf]
  | cons x r ih =>
    by_cases h : x = c
    · simp [indexOf, h]
    · simp only [indexOf, h, ↓reduceIte, Option.map_eq_none_iff, ih, List.mem_cons, not_or]
      exact ⟨fun hr => ⟨fun hc => h hc.symm, hr⟩, fun hr => hr.2⟩

theorem indexOf_isSome {c : UInt8} {s : Bytes} : (indexOf c s).isSome = true ↔ c ∈ s := by
  cases h : indexOf c s with
  | none => simp [indexOf_none.mp h]
  | some i =>
    simp only [Option.isSome_some, true_iff]
    apply Classical.byContradiction
    intro hn; rw [indexOf_none.mpr hn] at h; cases h

theorem lastIndexOf_none {c : UInt8} {s : Bytes} : lastIndexOf c s = none ↔ c ∉ s := by
  induction s with
  | nil => simp [lastIndexOf]
  | cons x r ih =>
    simp only [lastIndexOf, List.mem_cons, not_or]
    cases hl : lastIndexOf c r with
    | some i =>
      simp only [reduceCtorEq, false_iff, not_and, Classical.not_not]
      intro _
      apply Classical.byContradiction
      intro hn; rw [ih.mpr hn] at hl; cases hl
    | none =>
      by_cases h : x = c
      · simp [h]
      · simp only [h, ↓reduceIte, true_iff]
        exact ⟨fun hc => h hc.symm, ih.mp hl⟩

/-- the port is what follows the last colon -/
theorem lastIndexOf_some {c : UInt8} {s : Bytes} {i : Nat} (h : lastIndexOf c s = some i) :
    s = s.take i ++ [c] ++ s.drop (i + 1) ∧ c ∉ s.drop (i + 1) := by
  induction s generalizing i with
  | nil => simp [lastIndexOf] at h
  | cons x r ih =>
    simp only [lastIndexOf] at h
    cases hl : lastIndexOf c r with
    | some j =>
      rw [hl] at h
      have hj : i = j + 1 := by simpa using h.symm
      subst hj
      obtain ⟨h1, h2⟩ := ih hl
      refine ⟨?_, by simpa using h2⟩
      simp only [List.take_succ_cons, List.drop_succ_cons, List.cons_append]
      rw [List.append_assoc] at h1
      simpa using h1
    | none =>
      rw [hl] at h
      by_cases hx : x = c
      · simp only [hx, ↓reduceIte, Option.some.injEq] at h
        subst h
        subst hx
        exact ⟨by simp, by simpa using lastIndexOf_none.mp hl⟩
      · simp [hx] at h

theorem lastIndexOf_append_cons {c : UInt8} (h p : Bytes) (hp : c ∉ p) :
    lastIndexOf c (h ++ c :: p) = some h.length := by
  induction h with
  | nil => simp [lastIndexOf, lastIndexOf_none.mpr hp]
  | cons x r ih => simp [lastIndexOf, ih]

theorem splitHostPort_port {a host port : Bytes} (h : splitHostPort a = some (host, port)) :
    ∃ pre, a = pre ++ [COLON] ++ port ∧ COLON ∉ port := by
  unfold splitHostPort at h
  cases hl : lastIndexOf COLON a with
  | none => simp [hl] at h
  | some i =>
    obtain ⟨h1, h2⟩ := lastIndexOf_some hl
    have hport : port = a.drop (i + 1) := by
      simp only [hl] at h
      split at h
      · split at h
        · cases h
        · split at h
          · cases h
          · split at h
            · split at h
              · cases h
              · split at h
                · cases h
                · simp only [Option.some.injEq, Prod.mk.injEq] at h; exact h.2.symm
            · cases h
      · split at h
        · cases h
        · split at h
          · cases h
          · split at h
            · cases h
            · simp only [Option.some.injEq, Prod.mk.injEq] at h; exact h.2.symm
    exact ⟨a.take i, by rw [hport]; exact h1, by rw [hport]; exact h2⟩


theorem indexOf_append_cons {c : UInt8} (pre rest : Bytes) (h : c ∉ pre) :
    indexOf c (pre ++ c :: rest) = some pre.length := by
  induction pre with
  | nil => simp [indexOf]
  | cons x r ih =>
    have hx : x ≠ c := fun e => h (by simp [e])
    have hr : c ∉ r := fun e => h (by simp [e])
    simp [indexOf, hx, ih hr]

theorem isSome_false_of_not_mem {c : UInt8} {s : Bytes} (h : c ∉ s) : (indexOf c s).isSome = false := by
  rw [indexOf_none.mpr h]; rfl

/-- `host:port` with a host free of `:`, `[`, `]` -/
theorem splitHostPort_plain (h p : Bytes)
    (hh : COLON ∉ h ∧ LBR ∉ h ∧ RBR ∉ h) (hp : COLON ∉ p ∧ LBR ∉ p ∧ RBR ∉ p) :
    splitHostPort (h ++ COLON :: p) = some (h, p) := by
  unfold splitHostPort
  rw [lastIndexOf_append_cons h p hp.1]
  have hhead : (h ++ COLON :: p).head? ≠ some LBR := by
    cases h with
    | nil => simp [COLON, LBR]
    | cons x r =>
      have : x ≠ LBR := fun e => hh.2.1 (by simp [e])
      simpa using this
  have h1 : LBR ∉ h ++ COLON :: p := by
    simp only [List.mem_append, List.mem_cons, not_or]
    exact ⟨hh.2.1, by decide, hp.2.1⟩
  have h2 : RBR ∉ h ++ COLON :: p := by
    simp only [List.mem_append, List.mem_cons, not_or]
    exact ⟨hh.2.2, by decide, hp.2.2⟩
  simp only [if_neg hhead, List.take_left', isSome_false_of_not_mem hh.1, List.drop_zero,
    isSome_false_of_not_mem h1, isSome_false_of_not_mem h2, Bool.false_eq_true, ↓reduceIte]
  simp

/-- `[host]:port` with a host free of `[`, `]` (colons allowed: IPv6 literals) -/
theorem splitHostPort_bracket (h p : Bytes)
    (hh : LBR ∉ h ∧ RBR ∉ h) (hp : COLON ∉ p ∧ LBR ∉ p ∧ RBR ∉ p) :
    splitHostPort (LBR :: h ++ RBR :: COLON :: p) = some (h, p) := by
  unfold splitHostPort
  have e1 : LBR :: h ++ RBR :: COLON :: p = (LBR :: h ++ [RBR]) ++ COLON :: p := by simp
  have hl : lastIndexOf COLON (LBR :: h ++ RBR :: COLON :: p) = some (h.length + 2) := by
    rw [e1, lastIndexOf_append_cons _ p hp.1]; simp
  have e2 : LBR :: h ++ RBR :: COLON :: p = (LBR :: h) ++ RBR :: (COLON :: p) := by simp
  have hr : indexOf RBR (LBR :: h ++ RBR :: COLON :: p) = some (h.length + 1) := by
    have hmem : RBR ∉ LBR :: h := by
      simp only [List.mem_cons, not_or]; exact ⟨by decide, hh.2⟩
    have := indexOf_append_cons (c := RBR) (LBR :: h) (COLON :: p) hmem
    rw [e2, this]; simp
  rw [hl]
  simp only [List.cons_append, List.head?_cons, ↓reduceIte]
  simp only [List.cons_append] at hr
  rw [hr]
  have hlen : ¬ (h.length + 1 + 1 = (LBR :: (h ++ RBR :: COLON :: p)).length) := by
    simp
  have h1 : LBR ∉ h ++ RBR :: COLON :: p := by
    simp only [List.mem_append, List.mem_cons, not_or]
    exact ⟨hh.1, by decide, by decide, hp.2.1⟩
  have h2 : RBR ∉ COLON :: p := by
    simp only [List.mem_cons, not_or]; exact ⟨by decide, hp.2.2⟩
  have hd2 : (LBR :: (h ++ RBR :: COLON :: p)).drop (h.length + 1 + 1) = COLON :: p := by
    simp
  have hd3 : (LBR :: (h ++ RBR :: COLON :: p)).drop (h.length + 2 + 1) = p := by
    simp
  simp only [if_neg hlen, ↓reduceIte, List.drop_succ_cons, List.drop_zero,
    isSome_false_of_not_mem h1, Bool.false_eq_true]
  simp only [List.drop_succ_cons] at hd2 hd3
  rw [hd2, isSome_false_of_not_mem h2, hd3]
  simp

end O4.LogElide
