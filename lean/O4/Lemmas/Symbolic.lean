import O4.Model.Symbolic
/-!
# Lemmas about the symbolic ntor model (C02)

* the order on names, sorted insertion commutes (`ins_comm`) — the Diffie–Hellman equation;
* `Synth`: derivations without projections; for a knowledge set without pairs
  `Derivable = Synth` (`synth_of_derivable`);
* inversion lemmas (subterm property): a synthesised `hmac k m` is a member of the knowledge or
  has synthesised key **and** message; a synthesised scalar is a known scalar; a synthesised
  group element is known or a synthesised one raised to a known scalar;
* `synth_gexp_count`: if the attacker knows no secret scalar and every known group element has at
  most one secret scalar in its exponent, the same holds for every derivable group element;
* `nested_mac_secret`: the generic shape of the ntor argument;
* `interp_clientAuth`: the symbolic client AUTH denotes the bytes `Ntor.clientHandshake` computes.
-/
namespace O4.SymLemmas
open O4 O4.Sym O4.Sym.Term

/-! ## the order on names -/

theorem le_total (a c : Name) : a.le c = true ∨ c.le a = true := by
  cases a <;> cases c <;> simp only [Name.le, Nat.ble_eq, true_or, or_true, or_self] <;> omega

theorem le_antisymm (a c : Name) (h1 : a.le c = true) (h2 : c.le a = true) : a = c := by
  cases a <;> cases c <;> simp only [Name.le, Nat.ble_eq, Bool.false_eq_true] at h1 h2 ⊢ <;>
    first | rfl | (congr 1; omega)

theorem le_trans (a c d : Name) (h1 : a.le c = true) (h2 : c.le d = true) : a.le d = true := by
  cases a <;> cases c <;> cases d <;>
    simp only [Name.le, Nat.ble_eq, Bool.false_eq_true] at h1 h2 ⊢ <;> omega

theorem le_x (a : Name) : a.le .x = true := by cases a <;> rfl

/-! ## sorted insertion -/

theorem ins_comm (a c : Name) (s : List Name) : ins a (ins c s) = ins c (ins a s) := by
  induction s with
  | nil =>
    simp only [ins]
    by_cases h1 : a.le c = true <;> by_cases h2 : c.le a = true
    · rw [le_antisymm a c h1 h2]
    · simp [h1, h2]
    · simp [h1, h2]
    · rcases le_total a c with h | h <;> contradiction
  | cons h t ih =>
    by_cases hah : a.le h = true <;> by_cases hch : c.le h = true
    · by_cases h1 : a.le c = true <;> by_cases h2 : c.le a = true
      · rw [le_antisymm a c h1 h2]
      · simp [ins, hah, hch, h1, h2]
      · simp [ins, hah, hch, h1, h2]
      · rcases le_total a c with h | h <;> contradiction
    · -- a ≤ h < c
      have hca : ¬ c.le a = true := fun hca => hch (le_trans c a h hca hah)
      simp [ins, hah, hch, hca]
    · have hac : ¬ a.le c = true := fun hac => hah (le_trans a c h hac hch)
      simp [ins, hah, hch, hac]
    · simp [ins, hah, hch, ih]

theorem countP_ins (p : Name → Bool) (a : Name) (s : List Name) :
    (ins a s).countP p = s.countP p + (if p a then 1 else 0) := by
  induction s with
  | nil => simp [ins, List.countP_cons]
  | cons h t ih =>
    unfold ins
    split
    · simp only [List.countP_cons]
    · simp only [List.countP_cons, ih]; omega

theorem secretCount_ins (a : Name) (s : List Name) :
    secretCount (ins a s) = secretCount s + (if a.secret then 1 else 0) := countP_ins _ a s

/-- sortedness of an exponent -/
def Sorted (s : List Name) : Prop := s.Pairwise (fun a c => a.le c = true)

theorem mem_ins (a c : Name) (s : List Name) : c ∈ ins a s ↔ c = a ∨ c ∈ s := by
  induction s with
  | nil => simp [ins]
  | cons h t ih =>
    unfold ins
    split
    · simp
    · simp only [List.mem_cons, ih]
      constructor
      · rintro (h | h | h) <;> simp [h]
      · rintro (h | h | h) <;> simp [h]

theorem sorted_ins (a : Name) (s : List Name) (hs : Sorted s) : Sorted (ins a s) := by
  induction s with
  | nil => simp [ins, Sorted]
  | cons h t ih =>
    unfold Sorted at hs ⊢
    rw [List.pairwise_cons] at hs
    unfold ins
    split
    · rename_i hah
      rw [List.pairwise_cons, List.pairwise_cons]
      refine ⟨?_, hs.1, hs.2⟩
      intro c hc
      rcases List.mem_cons.mp hc with rfl | hc
      · exact hah
      · exact le_trans a h c hah (hs.1 c hc)
    · rename_i hah
      rw [List.pairwise_cons]
      refine ⟨?_, ih hs.2⟩
      intro c hc
      rcases (mem_ins a c t).mp hc with rfl | hc
      · rcases le_total c h with h' | h'
        · exact absurd h' hah
        · exact h'
      · exact hs.1 c hc

/-- raising a sorted exponent by the largest name appends it: the client's
    `ScalarMult(x, ·)` is the last ladder step -/
theorem ins_x_sorted (s : List Name) (hs : Sorted s) : ins .x s = s ++ [.x] := by
  induction s with
  | nil => rfl
  | cons h t ih =>
    unfold Sorted at hs
    rw [List.pairwise_cons] at hs
    unfold ins
    split
    · rename_i hxh
      -- x ≤ h, so h = x and everything behind it is x as well
      have hh : h = .x := (le_antisymm _ _ hxh (le_x h)).symm
      subst hh
      have : ∀ t : List Name, (∀ c ∈ t, Name.le .x c = true) → Name.x :: t = t ++ [.x] := by
        intro t
        induction t with
        | nil => intro _; rfl
        | cons c t iht =>
          intro hall
          have hc : c = .x := (le_antisymm _ _ (hall c (List.mem_cons_self)) (le_x c)).symm
          subst hc
          rw [List.cons_append, ← iht (fun d hd => hall d (List.mem_cons_of_mem _ hd))]
      rw [List.cons_append, ← this t hs.1]
    · rw [ih hs.2, List.cons_append]

/-! ## exponentiation -/

theorem exp_gexp (s : List Name) (n : Name) : exp (.gexp s) n = .gexp (ins n s) := rfl

/-- either the base is a group element (normal form) or the exponentiation is stuck -/
theorem exp_cases (t : Term) (n : Name) :
    (∃ s, t = .gexp s ∧ exp t n = .gexp (ins n s)) ∨ exp t n = .xp t n := by
  cases t <;> first | exact Or.inr rfl | exact Or.inl ⟨_, rfl, rfl⟩

/-- **the Diffie–Hellman equation** on group elements -/
theorem exp_comm (s : List Name) (a c : Name) : exp (exp (.gexp s) a) c = exp (exp (.gexp s) c) a := by
  simp only [exp_gexp, ins_comm]

theorem exp_ne_pair (t : Term) (n : Name) (a c : Term) : exp t n ≠ .pair a c := by
  rcases exp_cases t n with ⟨s, _, h⟩ | h <;> rw [h] <;> exact Term.noConfusion

theorem exp_ne_hmac (t : Term) (n : Name) (a c : Term) : exp t n ≠ .hmac a c := by
  rcases exp_cases t n with ⟨s, _, h⟩ | h <;> rw [h] <;> exact Term.noConfusion

theorem exp_ne_nm (t : Term) (n m : Name) : exp t n ≠ .nm m := by
  rcases exp_cases t n with ⟨s, _, h⟩ | h <;> rw [h] <;> exact Term.noConfusion

/-! ## derivations without projections -/

/-- terms built from the knowledge with the constructors only -/
inductive Synth (K : Term → Prop) : Term → Prop
  | ax {t} : K t → Synth K t
  | pair {a b} : Synth K a → Synth K b → Synth K (.pair a b)
  | hmac {k m} : Synth K k → Synth K m → Synth K (.hmac k m)
  | exp {t n} : Synth K t → Synth K (.nm n) → Synth K (exp t n)

theorem derivable_of_synth {K : Term → Prop} {t : Term} (h : Synth K t) : Derivable K t := by
  induction h with
  | ax h => exact .ax h
  | pair _ _ ih1 ih2 => exact .pair ih1 ih2
  | hmac _ _ ih1 ih2 => exact .hmac ih1 ih2
  | exp _ _ ih1 ih2 => exact .exp ih1 ih2

theorem synth_pair_inv {K : Term → Prop} {a c : Term} (h : Synth K (.pair a c)) :
    K (.pair a c) ∨ (Synth K a ∧ Synth K c) := by
  generalize hu : Term.pair a c = u at h
  cases h with
  | ax h => exact Or.inl (hu ▸ h)
  | pair h1 h2 => cases hu; exact Or.inr ⟨h1, h2⟩
  | hmac _ _ => cases hu
  | exp _ _ => exact absurd hu.symm (exp_ne_pair _ _ _ _)

/-- subterm property for `hmac`: known as such, or key and message both synthesised -/
theorem synth_hmac_inv {K : Term → Prop} {k m : Term} (h : Synth K (.hmac k m)) :
    K (.hmac k m) ∨ (Synth K k ∧ Synth K m) := by
  generalize hu : Term.hmac k m = u at h
  cases h with
  | ax h => exact Or.inl (hu ▸ h)
  | pair _ _ => cases hu
  | hmac h1 h2 => cases hu; exact Or.inr ⟨h1, h2⟩
  | exp _ _ => exact absurd hu.symm (exp_ne_hmac _ _ _ _)

/-- a synthesised scalar is a known scalar: nothing produces scalars -/
theorem synth_nm_inv {K : Term → Prop} {n : Name} (h : Synth K (.nm n)) : K (.nm n) := by
  generalize hu : Term.nm n = u at h
  cases h with
  | ax h => exact hu ▸ h
  | pair _ _ => cases hu
  | hmac _ _ => cases hu
  | exp _ _ => exact absurd hu.symm (exp_ne_nm _ _ _)

/-- for a knowledge set without pairs, projections add nothing -/
theorem synth_of_derivable {K : Term → Prop} (hK : ∀ a c, ¬ K (.pair a c)) {t : Term}
    (h : Derivable K t) : Synth K t := by
  induction h with
  | ax h => exact .ax h
  | pair _ _ ih1 ih2 => exact .pair ih1 ih2
  | fst _ ih =>
    rcases synth_pair_inv ih with h | h
    · exact absurd h (hK _ _)
    · exact h.1
  | snd _ ih =>
    rcases synth_pair_inv ih with h | h
    · exact absurd h (hK _ _)
    · exact h.2
  | hmac _ _ ih1 ih2 => exact .hmac ih1 ih2
  | exp _ _ ih1 ih2 => exact .exp ih1 ih2

theorem derivable_iff_synth {K : Term → Prop} (hK : ∀ a c, ¬ K (.pair a c)) (t : Term) :
    Derivable K t ↔ Synth K t := ⟨synth_of_derivable hK, derivable_of_synth⟩

/-- more knowledge, more derivable terms -/
theorem derivable_mono {K K' : Term → Prop} (hsub : ∀ t, K t → K' t) {t : Term} (h : Derivable K t) :
    Derivable K' t := by
  induction h with
  | ax h => exact .ax (hsub _ h)
  | pair _ _ ih1 ih2 => exact .pair ih1 ih2
  | fst _ ih => exact .fst ih
  | snd _ ih => exact .snd ih
  | hmac _ _ ih1 ih2 => exact .hmac ih1 ih2
  | exp _ _ ih1 ih2 => exact .exp ih1 ih2

/-- derivable group elements stay in normal form -/
theorem synth_gexp_sorted {K : Term → Prop} (hg : ∀ s, K (.gexp s) → Sorted s) {t : Term} (h : Synth K t) :
    ∀ s, t = .gexp s → Sorted s := by
  induction h with
  | ax h => intro s hs; exact hg s (hs ▸ h)
  | pair _ _ _ _ => intro s hs; cases hs
  | hmac _ _ _ _ => intro s hs; cases hs
  | @exp t n _ _ ih1 _ =>
    intro s hs
    rcases exp_cases t n with ⟨s', ht, he⟩ | he
    · rw [he] at hs
      cases hs
      exact sorted_ins n s' (ih1 s' ht)
    · rw [he] at hs; cases hs


/-- **characterisation of the derivable group elements**: if no known scalar is secret and every
    known group element carries at most one secret scalar, then every synthesised group element
    carries at most one secret scalar (exponents are never extracted, only attacker scalars added) -/
theorem synth_gexp_count {K : Term → Prop} (hnm : ∀ n, K (.nm n) → n.secret = false)
    (hg : ∀ s, K (.gexp s) → secretCount s ≤ 1) {t : Term} (h : Synth K t) :
    ∀ s, t = .gexp s → secretCount s ≤ 1 := by
  induction h with
  | ax h => intro s hs; exact hg s (hs ▸ h)
  | pair _ _ _ _ => intro s hs; cases hs
  | hmac _ _ _ _ => intro s hs; cases hs
  | @exp t n _ h2 ih1 _ =>
    intro s hs
    rcases exp_cases t n with ⟨s', ht, he⟩ | he
    · rw [he] at hs
      cases hs
      rw [secretCount_ins, hnm n (synth_nm_inv h2)]
      exact ih1 s' ht
    · rw [he] at hs; cases hs

/-- **the ntor argument, generically**: a tag `hmac k1 (hmac k2 (e1 ‖ gexp s ‖ r2) ‖ r1)` whose
    inner message contains a group element with two secret scalars in the exponent is derivable
    only if the tag itself or the inner tag is literally a member of the knowledge -/
theorem nested_mac_secret {K : Term → Prop} (hpair : ∀ a c, ¬ K (.pair a c))
    (hnm : ∀ n, K (.nm n) → n.secret = false) (hg : ∀ s, K (.gexp s) → secretCount s ≤ 1)
    (k1 k2 e1 r1 r2 : Term) (s : List Name) (hs : 2 ≤ secretCount s)
    (h : Derivable K (.hmac k1 (.hmac k2 (e1 ∥ .gexp s ∥ r2) ∥ r1))) :
    K (.hmac k1 (.hmac k2 (e1 ∥ .gexp s ∥ r2) ∥ r1)) ∨ K (.hmac k2 (e1 ∥ .gexp s ∥ r2)) := by
  rcases synth_hmac_inv (synth_of_derivable hpair h) with h | ⟨_, h⟩
  · exact Or.inl h
  rcases synth_pair_inv h with h | ⟨h, _⟩
  · exact absurd h (hpair _ _)
  rcases synth_hmac_inv h with h | ⟨_, h⟩
  · exact Or.inr h
  exfalso
  rcases synth_pair_inv h with h | ⟨_, h⟩
  · exact hpair _ _ h
  rcases synth_pair_inv h with h | ⟨h, _⟩
  · exact hpair _ _ h
  have := synth_gexp_count hnm hg h s rfl
  omega

/-! ## the knowledge set `K0` -/

theorem srvAuth_eq (Xin : Term) (j : Nat) :
    srvAuth Xin j = .hmac (.const .tMac)
      (.hmac (.const .tVerify)
          (exp Xin (.y j) ∥ exp Xin .b ∥ suffix (.const .nodeID) (pub .b) Xin (pub (.y j))) ∥
        suffix (.const .nodeID) (pub .b) Xin (pub (.y j)) ∥ .const .server) := rfl

theorem srvKeySeed_eq (Xin : Term) (j : Nat) :
    srvKeySeed Xin j = .hmac (.const .tKey)
      (exp Xin (.y j) ∥ exp Xin .b ∥ suffix (.const .nodeID) (pub .b) Xin (pub (.y j))) := rfl

theorem clientAuth_eq (Y : Term) :
    clientAuth Y = .hmac (.const .tMac)
      (.hmac (.const .tVerify)
          (exp Y .x ∥ .gexp [.b, .x] ∥ suffix (.const .nodeID) (pub .b) (pub .x) Y) ∥
        suffix (.const .nodeID) (pub .b) (pub .x) Y ∥ .const .server) := rfl

theorem K0_no_pair (srvIn : Nat → Term) (a c : Term) : ¬ K0 srvIn (.pair a c) := by
  rintro (⟨_, h⟩ | h | h | h | ⟨_, h⟩ | ⟨_, h⟩ | ⟨_, h⟩ | ⟨_, h⟩) <;> cases h

theorem K0_nm (srvIn : Nat → Term) (n : Name) (h : K0 srvIn (.nm n)) : n.secret = false := by
  rcases h with ⟨_, h⟩ | h | h | h | ⟨_, h⟩ | ⟨_, h⟩ | ⟨_, h⟩ | ⟨_, h⟩ <;> cases h
  rfl

theorem K0_gexp (srvIn : Nat → Term) (s : List Name) (h : K0 srvIn (.gexp s)) : secretCount s ≤ 1 := by
  rcases h with ⟨_, h⟩ | h | h | h | ⟨_, h⟩ | ⟨_, h⟩ | ⟨_, h⟩ | ⟨_, h⟩ <;> cases h <;>
    simp [secretCount, Name.secret]

theorem K0_sorted (srvIn : Nat → Term) (s : List Name) (h : K0 srvIn (.gexp s)) : Sorted s := by
  rcases h with ⟨_, h⟩ | h | h | h | ⟨_, h⟩ | ⟨_, h⟩ | ⟨_, h⟩ | ⟨_, h⟩ <;> cases h <;> simp [Sorted]

/-- every group element the attacker derives from `K0` is in normal form -/
theorem K0_derivable_sorted (srvIn : Nat → Term) (s : List Name) (h : Derivable (K0 srvIn) (.gexp s)) :
    Sorted s :=
  synth_gexp_sorted (K0_sorted srvIn) (synth_of_derivable (K0_no_pair srvIn) h) s rfl

/-- the only `hmac` terms the attacker is handed are the AUTH fields and KEY_SEEDs of the
    sessions of the honest bridge -/
theorem K0_hmac (srvIn : Nat → Term) (k m : Term) (h : K0 srvIn (.hmac k m)) :
    (∃ j, .hmac k m = srvAuth (srvIn j) j) ∨ (∃ j, .hmac k m = srvKeySeed (srvIn j) j) := by
  rcases h with ⟨_, h⟩ | h | h | h | ⟨_, h⟩ | ⟨_, h⟩ | ⟨j, h⟩ | ⟨j, h⟩
  all_goals first | exact Or.inl ⟨j, h⟩ | exact Or.inr ⟨j, h⟩ | cases h

/-! ## the symbolic terms denote what the code computes -/

section interp
variable (P : Ntor.Prims) (ρ : Name → Bytes) (base id : Bytes) (dat : Nat → Bytes)

theorem interp_suffix (B X Y : Term) :
    interp P ρ base id dat (suffix (.const .nodeID) B X Y) =
      Ntor.suffix id (interp P ρ base id dat B) (interp P ρ base id dat X) (interp P ρ base id dat Y) := by
  simp only [suffix, Ntor.suffix, interp, List.append_assoc]

/-- the client's exponentiation is one ladder step on the received point -/
theorem interp_exp_x (s : List Name) (hs : Sorted s) :
    interp P ρ base id dat (exp (.gexp s) .x) = P.x25519 (ρ .x) (interp P ρ base id dat (.gexp s)) := by
  rw [exp_gexp, ins_x_sorted s hs]
  simp only [interp, List.foldl_append, List.foldl_cons, List.foldl_nil]

/-- for a received value that is not a group element the same holds by definition -/
theorem interp_exp_x_stuck (t : Term) (h : exp t .x = .xp t .x) :
    interp P ρ base id dat (exp t .x) = P.x25519 (ρ .x) (interp P ρ base id dat t) := by
  rw [h]; rfl

/-- **bytes ↔ terms on the client side**: for ANY received server public key term `Y` whose
    exponent (if it is a group element) is in normal form, the symbolic `clientAuth Y` denotes
    exactly the AUTH bytes `Ntor.clientHandshake` computes from the client's private key `ρ x`,
    its public key, the bytes of `Y`, the bridge public key and the node ID — no hypothesis on the
    primitives at all.  Likewise for the KEY_SEED. -/
theorem interp_clientAuth (Y : Term) (hY : ∀ s, Y = .gexp s → Sorted s) :
    interp P ρ base id dat (clientAuth Y) =
      (Ntor.clientHandshake P (ρ .x) (interp P ρ base id dat (pub .x)) (interp P ρ base id dat Y)
        (interp P ρ base id dat (pub .b)) id).2.2 ∧
    interp P ρ base id dat (clientKeySeed Y) =
      (Ntor.clientHandshake P (ρ .x) (interp P ρ base id dat (pub .x)) (interp P ρ base id dat Y)
        (interp P ρ base id dat (pub .b)) id).2.1 := by
  have h1 : interp P ρ base id dat (exp Y .x) = P.x25519 (ρ .x) (interp P ρ base id dat Y) := by
    rcases exp_cases Y .x with ⟨s, rfl, _⟩ | h
    · exact interp_exp_x P ρ base id dat s (hY s rfl)
    · exact interp_exp_x_stuck P ρ base id dat Y h
  have h2 : interp P ρ base id dat (exp (pub .b) .x) =
      P.x25519 (ρ .x) (interp P ρ base id dat (pub .b)) := rfl
  constructor
  · show interp P ρ base id dat (.hmac (.const .tMac)
        (.hmac (.const .tVerify) (exp Y .x ∥ exp (pub .b) .x ∥ suffix (.const .nodeID) (pub .b) (pub .x) Y) ∥
          suffix (.const .nodeID) (pub .b) (pub .x) Y ∥ .const .server)) = _
    simp only [interp, interp_suffix, h1, h2, Ntor.clientHandshake, Ntor.ntorCommon, List.append_assoc]
  · show interp P ρ base id dat (.hmac (.const .tKey)
        (exp Y .x ∥ exp (pub .b) .x ∥ suffix (.const .nodeID) (pub .b) (pub .x) Y)) = _
    simp only [interp, interp_suffix, h1, h2, Ntor.clientHandshake, Ntor.ntorCommon, List.append_assoc]

end interp

end O4.SymLemmas
