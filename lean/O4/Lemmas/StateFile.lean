import O4.Model.StateFile
import O4.Lemmas.Base64
/-!
# Lemmas about the state-directory model (core Lean only)
-/
namespace O4.SF
open O4

/-! ## directory -/

theorem get_del_self (d : Dir) (n : Name) : get (del d n) n = none := by
  induction d with
  | nil => rfl
  | cons e rest ih =>
    obtain ⟨k, c⟩ := e
    by_cases h : k = n
    · subst h; simpa [del, List.filter_cons] using ih
    · have hkn : (k != n) = true := bne_iff_ne.mpr h
      have hnk : (n == k) = false := by simp [Ne.symm h]
      simp only [del, get] at ih ⊢
      simp [List.filter_cons, hkn, List.lookup_cons, hnk, ih]

theorem get_del_ne (d : Dir) (n m : Name) (h : m ≠ n) : get (del d n) m = get d m := by
  induction d with
  | nil => rfl
  | cons e rest ih =>
    obtain ⟨k, c⟩ := e
    simp only [del, get] at ih ⊢
    by_cases hk : k = n
    · subst hk
      have : (m == k) = false := by simp [h]
      simp [List.filter_cons, List.lookup_cons, this, ih]
    · have hkn : (k != n) = true := bne_iff_ne.mpr hk
      simp only [List.filter_cons, hkn, if_true, List.lookup_cons, ih]

theorem get_set_self (d : Dir) (n : Name) (c : Bytes) : get (set d n c) n = some c := by
  simp [set, get, List.lookup_cons]

theorem get_set_ne (d : Dir) (n m : Name) (c : Bytes) (h : m ≠ n) : get (set d n c) m = get d m := by
  have : (m == n) = false := by simp [h]
  have h2 := get_del_ne d n m h
  simp only [get, del] at h2
  simp [set, get, del, List.lookup_cons, this, h2]

/-! ## run, crash states -/

theorem run_append (d : Dir) (xs ys : List Op) : run d (xs ++ ys) = run (run d xs) ys := by
  simp [run, List.foldl_append]

theorem run_cons (d : Dir) (op : Op) (ops : List Op) : run d (op :: ops) = run (op.apply d) ops := rfl

theorem self_mem_crashStates (d : Dir) (ops : List Op) : d ∈ crashStates d ops := by
  cases ops <;> simp [crashStates]

theorem run_mem_crashStates (d : Dir) (ops : List Op) : run d ops ∈ crashStates d ops := by
  induction ops generalizing d with
  | nil => simp [crashStates, run]
  | cons op rest ih =>
    simp only [crashStates, run_cons, List.mem_cons, List.mem_append]
    exact Or.inr (Or.inr (ih _))

theorem mem_crashStates_append (d : Dir) (xs ys : List Op) (s : Dir) :
    s ∈ crashStates d (xs ++ ys) ↔ s ∈ crashStates d xs ∨ s ∈ crashStates (run d xs) ys := by
  induction xs generalizing d with
  | nil =>
    simp only [List.nil_append, crashStates, run, List.foldl_nil, List.mem_singleton]
    constructor
    · intro h; exact Or.inr h
    · rintro (h | h)
      · subst h; exact self_mem_crashStates _ _
      · exact h
  | cons op rest ih =>
    simp only [List.cons_append, crashStates, List.mem_cons, List.mem_append, run_cons, ih]
    constructor
    · rintro (h | h | h | h)
      · exact Or.inl (Or.inl h)
      · exact Or.inl (Or.inr (Or.inl h))
      · exact Or.inl (Or.inr (Or.inr h))
      · exact Or.inr h
    · rintro ((h | h | h) | h)
      · exact Or.inl h
      · exact Or.inr (Or.inl h)
      · exact Or.inr (Or.inr (Or.inl h))
      · exact Or.inr (Or.inr (Or.inr h))

theorem mem_torn (d : Dir) (op : Op) (s : Dir) (h : s ∈ torn d op) :
    ∃ n bs j, op = .write n bs ∧ 0 < j ∧ j < bs.length ∧ s = Op.apply d (.write n (bs.take j)) := by
  cases op with
  | write n bs =>
    simp only [torn, List.mem_map, List.mem_range] at h
    obtain ⟨j, hj, rfl⟩ := h
    exact ⟨n, bs, j + 1, rfl, by omega, by omega, rfl⟩
  | _ => simp [torn] at h

/-- every addressable crash point is one of the enumerated crash states -/
theorem crashAt_mem (d : Dir) (ops : List Op) (k j : Nat) (s : Dir)
    (h : crashAt d ops k j = some s) : s ∈ crashStates d ops := by
  induction ops generalizing d k with
  | nil =>
    unfold crashAt at h
    by_cases hk : k > 0
    · simp [hk] at h
    · have : k = 0 := by omega
      subst this
      by_cases hj : j = 0
      · simp [hj, run] at h; simp [crashStates, h]
      · simp [hj] at h
  | cons op rest ih =>
    cases k with
    | zero =>
      unfold crashAt at h
      by_cases hj : j = 0
      · simp [hj, run] at h; subst h; exact self_mem_crashStates _ _
      · simp only [hj, if_false, List.take_zero, run, List.foldl_nil, List.getElem?_cons_zero] at h
        have h0 : ¬ (0 > (op :: rest).length) := by simp
        simp only [h0, if_false] at h
        cases op with
        | write n bs =>
          simp only at h
          by_cases hl : j < bs.length
          · simp only [hl, if_true, Option.some.injEq] at h
            subst h
            simp only [crashStates, List.mem_cons, List.mem_append]
            refine Or.inr (Or.inl ?_)
            simp only [torn, List.mem_map, List.mem_range]
            exact ⟨j - 1, by omega, by have : j - 1 + 1 = j := by omega
                                       rw [this]⟩
          · simp [hl] at h
        | _ => simp at h
    | succ k =>
      have : crashAt (op.apply d) rest k j = some s := by
        unfold crashAt at h ⊢
        by_cases hk : k > rest.length
        · exfalso
          have : k + 1 > (op :: rest).length := by simp; omega
          simp only [this, if_true] at h
          exact absurd h (by simp)
        · have hk' : ¬ (k + 1 > (op :: rest).length) := by simp; omega
          simp only [hk', if_false, List.take_succ_cons, run_cons, List.getElem?_cons_succ] at h
          simp only [hk, if_false]
          exact h
      simp only [crashStates, List.mem_cons, List.mem_append]
      exact Or.inr (Or.inr (ih _ _ this))

theorem crashAt_succ (d : Dir) (op : Op) (rest : List Op) (k j : Nat) :
    crashAt d (op :: rest) (k + 1) j = crashAt (op.apply d) rest k j := by
  unfold crashAt
  by_cases hk : k > rest.length
  · have : k + 1 > (op :: rest).length := by simp; omega
    simp [hk]
  · have hk' : ¬ (k + 1 > (op :: rest).length) := by simp; omega
    simp only [hk', hk, if_false, List.take_succ_cons, run_cons, List.getElem?_cons_succ]

/-- every enumerated crash state is a genuine crash point: `k` calls completed and, if `j > 0`,
    exactly `j` bytes of the write in flight reached the file -/
theorem crashStates_sound (d : Dir) (ops : List Op) (s : Dir) (h : s ∈ crashStates d ops) :
    ∃ k j, crashAt d ops k j = some s := by
  induction ops generalizing d with
  | nil =>
    simp only [crashStates, List.mem_singleton] at h
    subst h; exact ⟨0, 0, by simp [crashAt, run]⟩
  | cons op rest ih =>
    simp only [crashStates, List.mem_cons, List.mem_append] at h
    rcases h with rfl | h | h
    · exact ⟨0, 0, by simp [crashAt, run]⟩
    · obtain ⟨n, bs, j, rfl, hj0, hjl, rfl⟩ := mem_torn _ _ _ h
      refine ⟨0, j, ?_⟩
      have : j ≠ 0 := by omega
      simp [crashAt, run, this, hjl]
    · obtain ⟨k, j, hk⟩ := ih _ h
      exact ⟨k + 1, j, by rw [crashAt_succ]; exact hk⟩

/-! ## the discipline -/

theorem safeOps_append (n : Name) (good : Bytes → Bool) (d : Dir) (xs ys : List Op) :
    safeOps n good d (xs ++ ys) = (safeOps n good d xs && safeOps n good (run d xs) ys) := by
  induction xs generalizing d with
  | nil => simp [safeOps, run]
  | cons op rest ih => simp [safeOps, run_cons, ih, Bool.and_assoc]

/-- one step of a disciplined op list keeps the protected file `good` -/
theorem safe_step (n : Name) (good : Bytes → Bool) (d : Dir) (op : Op) (rest : List Op) (c0 : Bytes)
    (h0 : get d n = some c0) (hg : good c0 = true) (hs : safeOps n good d (op :: rest) = true) :
    (∃ c, get (op.apply d) n = some c ∧ good c = true) ∧ safeOps n good (op.apply d) rest = true := by
  simp only [safeOps, Bool.and_eq_true] at hs
  obtain ⟨hop, hrest⟩ := hs
  refine ⟨?_, hrest⟩
  cases op with
  | openTrunc m =>
    have : n ≠ m := fun e => by subst e; simp at hop
    exact ⟨c0, by simp [Op.apply, get_set_ne _ _ _ _ this, h0], hg⟩
  | write m bs =>
    have : n ≠ m := fun e => by subst e; simp at hop
    exact ⟨c0, by simp [Op.apply, get_set_ne _ _ _ _ this, h0], hg⟩
  | close m => exact ⟨c0, h0, hg⟩
  | fsync m => exact ⟨c0, h0, hg⟩
  | mkdir m => exact ⟨c0, h0, hg⟩
  | unlink m =>
    have : n ≠ m := fun e => by subst e; simp at hop
    exact ⟨c0, by simp [Op.apply, get_del_ne _ _ _ this, h0], hg⟩
  | rename a b =>
    simp only [Bool.and_eq_true, Bool.or_eq_true, bne_iff_ne] at hop
    obtain ⟨han, hb⟩ := hop
    have hna : n ≠ a := fun e => han e.symm
    simp only [Op.apply]
    cases hga : get d a with
    | none => exact ⟨c0, h0, hg⟩
    | some c =>
      simp only [hga] at hb ⊢
      by_cases hbn : b = n
      · subst hbn
        refine ⟨c, get_set_self _ _ _, ?_⟩
        rcases hb with hb | hb
        · exact absurd rfl hb
        · exact hb
      · have hnb : n ≠ b := fun e => hbn e.symm
        exact ⟨c0, by rw [get_set_ne _ _ _ _ hnb, get_del_ne _ _ _ hna, h0], hg⟩

/-- **the write-temp-then-rename discipline is crash safe**: in every crash state (every prefix,
    every torn write) of a disciplined op list the protected file exists and is `good`. -/
theorem safeOps_crash (n : Name) (good : Bytes → Bool) (d : Dir) (ops : List Op) (c0 : Bytes)
    (h0 : get d n = some c0) (hg : good c0 = true) (hs : safeOps n good d ops = true) :
    ∀ s ∈ crashStates d ops, ∃ c, get s n = some c ∧ good c = true := by
  induction ops generalizing d c0 with
  | nil =>
    intro s hsm
    simp only [crashStates, List.mem_singleton] at hsm
    subst hsm; exact ⟨c0, h0, hg⟩
  | cons op rest ih =>
    intro s hsm
    simp only [crashStates, List.mem_cons, List.mem_append] at hsm
    rcases hsm with rfl | hsm | hsm
    · exact ⟨c0, h0, hg⟩
    · obtain ⟨m, bs, j, rfl, _, _, rfl⟩ := mem_torn _ _ _ hsm
      have hop : (m != n) = true := by
        simp only [safeOps, Bool.and_eq_true] at hs; exact hs.1
      have : n ≠ m := fun e => by subst e; simp at hop
      exact ⟨c0, by simp [Op.apply, get_set_ne _ _ _ _ this, h0], hg⟩
    · obtain ⟨⟨c, hc, hgc⟩, hrest⟩ := safe_step n good d op rest c0 h0 hg hs
      exact ih _ c hc hgc hrest s hsm

/-! ## one file written by `writeFile` -/

theorem tmp_ne (n : Name) : tmpName n ≠ n := by
  intro h
  have := congrArg String.length h
  simp [tmpName, String.length_append] at this

/-- files other than the target and its temp file are untouched in every crash state -/
theorem writeFile_other (fx : Bool) (d : Dir) (n m : Name) (c : Bytes) (h1 : m ≠ n) (h2 : m ≠ tmpName n) :
    ∀ s ∈ crashStates d (writeFile fx n c), get s m = get d m := by
  intro s hs
  cases fx with
  | false =>
    simp only [writeFile, Bool.false_eq_true, if_false, crashStates, torn, List.mem_cons, List.mem_append,
      List.mem_map, List.mem_range, List.not_mem_nil, or_false, false_or, List.nil_append] at hs
    rcases hs with rfl | rfl | ⟨j, _, rfl⟩ | rfl | rfl <;>
      simp [Op.apply, get_set_ne _ _ _ _ h1]
  | true =>
    simp only [writeFile, if_true, crashStates, torn, List.mem_cons, List.mem_append,
      List.mem_map, List.mem_range, List.not_mem_nil, or_false, false_or, List.nil_append] at hs
    rcases hs with rfl | rfl | ⟨j, _, rfl⟩ | rfl | rfl | rfl | rfl <;>
      simp [Op.apply, get_set_ne _ _ _ _ h2, get_set_self]
    all_goals simp [get_set_ne _ _ _ _ h1, get_del_ne _ _ _ h2, get_set_ne _ _ _ _ h2]

/-- **atomic replace: old or new.**  In every crash state of write-temp-then-rename the target
    holds exactly its old content or exactly the complete new content. -/
theorem writeFile_fixed_old_or_new (d : Dir) (n : Name) (c : Bytes) :
    ∀ s ∈ crashStates d (writeFile true n c), get s n = get d n ∨ get s n = some c := by
  intro s hs
  have h := (tmp_ne n).symm
  simp only [writeFile, if_true, crashStates, torn, List.mem_cons, List.mem_append,
    List.mem_map, List.mem_range, List.not_mem_nil, or_false, false_or, List.nil_append] at hs
  rcases hs with rfl | rfl | ⟨j, _, rfl⟩ | rfl | rfl | rfl | rfl
  · exact Or.inl rfl
  · exact Or.inl (by simp [Op.apply, get_set_ne _ _ _ _ h])
  · exact Or.inl (by simp [Op.apply, get_set_ne _ _ _ _ h])
  · exact Or.inl (by simp [Op.apply, get_set_ne _ _ _ _ h])
  · exact Or.inl (by simp [Op.apply, get_set_ne _ _ _ _ h])
  · exact Or.inl (by simp [Op.apply, get_set_ne _ _ _ _ h])
  · exact Or.inr (by simp [Op.apply, get_set_self])

theorem run_writeFile_self (fx : Bool) (d : Dir) (n : Name) (c : Bytes) :
    get (run d (writeFile fx n c)) n = some c := by
  cases fx <;> simp [writeFile, run, Op.apply, get_set_self]

theorem run_writeFile_other (fx : Bool) (d : Dir) (n m : Name) (c : Bytes) (h1 : m ≠ n) (h2 : m ≠ tmpName n) :
    get (run d (writeFile fx n c)) m = get d m :=
  writeFile_other fx d n m c h1 h2 _ (run_mem_crashStates _ _)

theorem safeOps_writeFile_other (n m : Name) (good : Bytes → Bool) (d : Dir) (c : Bytes)
    (h1 : m ≠ n) (h2 : tmpName m ≠ n) : safeOps n good d (writeFile true m c) = true := by
  simp [writeFile, safeOps, h1, h2]

theorem safeOps_writeFile_self (n : Name) (good : Bytes → Bool) (d : Dir) (c : Bytes)
    (hg : good c = true) : safeOps n good d (writeFile true n c) = true := by
  have h := tmp_ne n
  simp [writeFile, safeOps, h, Op.apply, get_set_self, hg]

/-! ## write faults -/

theorem writeFileLim_ok (k : Nat) (n : Name) (c : Bytes) (h : c.length ≤ k) :
    writeFileLim k n c = (writeFile true n c, true) := by
  unfold writeFileLim; simp [h]

theorem writeFileLim_fault (k : Nat) (n : Name) (c : Bytes) (h : ¬ c.length ≤ k) :
    writeFileLim k n c =
      (.openTrunc (tmpName n) ::
        ((if k = 0 then [] else [.write (tmpName n) (c.take k)]) ++ [.close (tmpName n), .unlink (tmpName n)]),
       false) := by
  unfold writeFileLim; simp [h]

/-- a faulted `atomicfile.WriteFile` leaves every file but its temp file untouched, in every
    crash state -/
theorem writeFileLim_fault_untouched (d : Dir) (k : Nat) (n m : Name) (c : Bytes)
    (hf : (writeFileLim k n c).2 = false) (hm : m ≠ tmpName n) :
    ∀ s ∈ crashStates d (writeFileLim k n c).1, get s m = get d m := by
  have hlen : ¬ c.length ≤ k := by
    intro h; rw [writeFileLim_ok k n c h] at hf; cases hf
  rw [writeFileLim_fault k n c hlen]
  intro s hs
  by_cases hk : k = 0
  · simp only [hk, if_true, List.nil_append, crashStates, torn, List.mem_cons, List.mem_append,
      List.not_mem_nil, or_false, false_or] at hs
    rcases hs with rfl | rfl | rfl | rfl <;>
      simp [Op.apply, get_set_ne _ _ _ _ hm, get_del_ne _ _ _ hm]
  · simp only [hk, if_false, List.cons_append, List.nil_append, crashStates, torn, List.mem_cons,
      List.mem_append, List.mem_map, List.mem_range, List.not_mem_nil, or_false, false_or] at hs
    rcases hs with rfl | rfl | ⟨j, _, rfl⟩ | rfl | rfl | rfl <;>
      simp [Op.apply, get_set_ne _ _ _ _ hm, get_del_ne _ _ _ hm]

/-- … and removes the temp file -/
theorem writeFileLim_fault_tmp_removed (d : Dir) (k : Nat) (n : Name) (c : Bytes)
    (hf : (writeFileLim k n c).2 = false) :
    get (run d (writeFileLim k n c).1) (tmpName n) = none := by
  have hlen : ¬ c.length ≤ k := by
    intro h; rw [writeFileLim_ok k n c h] at hf; cases hf
  rw [writeFileLim_fault k n c hlen]
  by_cases hk : k = 0 <;> simp [hk, run, Op.apply, get_del_self]

theorem writeFileLim_other (d : Dir) (k : Nat) (n m : Name) (c : Bytes) (h1 : m ≠ n) (h2 : m ≠ tmpName n) :
    ∀ s ∈ crashStates d (writeFileLim k n c).1, get s m = get d m := by
  by_cases hlen : c.length ≤ k
  · rw [writeFileLim_ok k n c hlen]; exact writeFile_other true d n m c h1 h2
  · exact writeFileLim_fault_untouched d k n m c (by rw [writeFileLim_fault k n c hlen]) h2

/-- old or new under write faults: the target holds its old content, or — only if the write
    succeeded — the complete new content -/
theorem writeFileLim_old_or_new (d : Dir) (k : Nat) (n : Name) (c : Bytes) :
    ∀ s ∈ crashStates d (writeFileLim k n c).1,
      get s n = get d n ∨ ((writeFileLim k n c).2 = true ∧ get s n = some c) := by
  by_cases hlen : c.length ≤ k
  · rw [writeFileLim_ok k n c hlen]
    intro s hs
    rcases writeFile_fixed_old_or_new d n c s hs with h | h
    · exact Or.inl h
    · exact Or.inr ⟨rfl, h⟩
  · intro s hs
    exact Or.inl (writeFileLim_fault_untouched d k n n c (by rw [writeFileLim_fault k n c hlen])
      (tmp_ne n).symm s hs)

end O4.SF
