import O4.Model.GoRand
import O4.Model.CsRand
/-!
# Lemmas about the `math/rand` derivations (C12): ranges of `Intn`, `Perm` is a permutation.
Core only.  All statements hold for an arbitrary `Int63` source.
-/
namespace O4.GoRand

variable {σ : Type} (src : Source σ)

theorem rejectLoop_lt (draw : σ → Nat × σ) (max n : Nat) (hn : 0 < n) :
    ∀ (f : Nat) (s : σ) (v : Nat) (s' : σ), rejectLoop draw max n f s = some (v, s') → v < n := by
  intro f
  induction f with
  | zero => intro s v s' h; simp [rejectLoop] at h
  | succ f ih =>
    intro s v s' h
    simp only [rejectLoop] at h
    split at h
    · exact ih _ _ _ h
    · simp only [Option.some.injEq, Prod.mk.injEq] at h
      rw [← h.1]; exact Nat.mod_lt _ hn

theorem and_pred_lt (v n : Nat) (hn : 0 < n) : v &&& (n - 1) < n := by
  have := @Nat.and_le_right v (n - 1)
  omega

theorem int31n_lt (n : Nat) (hn : 0 < n) (s : σ) (v : Nat) (s' : σ)
    (h : int31n src n s = some (v, s')) : v < n := by
  unfold int31n at h
  split at h
  · simp only [Option.some.injEq, Prod.mk.injEq] at h
    rw [← h.1]; exact and_pred_lt _ _ hn
  · exact rejectLoop_lt _ _ _ hn _ _ _ _ h

theorem int63n_lt (n : Nat) (hn : 0 < n) (s : σ) (v : Nat) (s' : σ)
    (h : int63n src n s = some (v, s')) : v < n := by
  unfold int63n at h
  split at h
  · simp only [Option.some.injEq, Prod.mk.injEq] at h
    rw [← h.1]; exact and_pred_lt _ _ hn
  · exact rejectLoop_lt _ _ _ hn _ _ _ _ h

/-- `Intn(n)` returns a value in `[0, n)` — for every source. -/
theorem intn_lt (n : Nat) (s : σ) (v : Nat) (s' : σ) (h : intn src n s = some (v, s')) : v < n := by
  unfold intn at h
  split at h
  · simp at h
  · rename_i hn
    have hn : 0 < n := by
      rcases Nat.eq_zero_or_pos n with h0 | h0
      · simp [h0] at hn
      · exact h0
    split at h
    · exact int31n_lt src n hn _ _ _ h
    · exact int63n_lt src n hn _ _ _ h

/-! ### `Perm` -/

theorem set_append_getElem_perm {α : Type} (a : α) :
    ∀ (L : List α) (j : Nat) (h : j < L.length), (L.set j a ++ [L[j]]).Perm (L ++ [a]) := by
  intro L
  induction L with
  | nil => intro j h; simp at h
  | cons x xs ih =>
    intro j h
    cases j with
    | zero =>
      simp only [List.set_cons_zero, List.getElem_cons_zero, List.cons_append]
      have h1 : (a :: (xs ++ [x])).Perm (a :: x :: xs) :=
        List.Perm.cons a (List.perm_append_comm (l₁ := xs) (l₂ := [x]))
      have h2 : (a :: x :: xs).Perm (x :: a :: xs) := List.Perm.swap x a xs
      have h3 : (x :: a :: xs).Perm (x :: (xs ++ [a])) :=
        List.Perm.cons x (List.perm_append_comm (l₁ := [a]) (l₂ := xs))
      exact h1.trans (h2.trans h3)
    | succ k =>
      simp only [List.set_cons_succ, List.getElem_cons_succ, List.cons_append]
      exact List.Perm.cons x (ih k (by simpa using h))

theorem permStep_spec (m : Array Nat) (i j : Nat) (hsz : m.size = i) (hj : j < i + 1)
    (hp : m.toList.Perm (List.range i)) :
    (permStep m i j).size = i + 1 ∧ (permStep m i j).toList.Perm (List.range (i + 1)) := by
  constructor
  · simp [permStep, hsz]
  · have hlen : m.toList.length = i := by simpa using hsz
    unfold permStep
    rw [Array.toList_setIfInBounds, Array.toList_push, List.range_succ]
    by_cases hji : j = i
    · subst hji
      rw [List.set_append]
      simp only [hlen, Nat.lt_irrefl, ↓reduceIte, Nat.sub_self, List.set_cons_zero]
      exact List.Perm.append_right _ hp
    · have hjl : j < m.toList.length := by omega
      have hget : m.getD j 0 = m.toList[j] := by
        have : j < m.size := by omega
        simp [Array.getD, this]
      rw [List.set_append, if_pos hjl, hget]
      exact (set_append_getElem_perm i m.toList j hjl).trans (List.Perm.append_right _ hp)

theorem permAux_perm : ∀ (todo i : Nat) (m : Array Nat) (s : σ) (r : Array Nat) (s' : σ),
    m.size = i → m.toList.Perm (List.range i) → permAux src todo i m s = some (r, s') →
    r.toList.Perm (List.range (i + todo)) := by
  intro todo
  induction todo with
  | zero =>
    intro i m s r s' _ hp h
    simp only [permAux, Option.some.injEq, Prod.mk.injEq] at h
    rw [← h.1]; simpa using hp
  | succ todo ih =>
    intro i m s r s' hsz hp h
    simp only [permAux] at h
    split at h
    · simp at h
    · rename_i j s1 hj
      have hlt := intn_lt src (i + 1) s j s1 hj
      obtain ⟨h1, h2⟩ := permStep_spec m i j hsz hlt hp
      have := ih (i + 1) _ s1 r s' h1 h2 h
      rwa [Nat.add_assoc, Nat.add_comm 1 todo] at this

/-- `Perm(n)` returns a permutation of `[0, n)` — for every source. -/
theorem perm_perm (n : Nat) (s : σ) (p : List Nat) (s' : σ) (h : perm src n s = some (p, s')) :
    p.Perm (List.range n) := by
  unfold perm at h
  split at h
  · simp at h
  · rename_i m s1 hm
    simp only [Option.some.injEq, Prod.mk.injEq] at h
    rw [← h.1]
    have := permAux_perm src n 0 (Array.mkEmpty n) s m s1 (by simp) (by simp) hm
    simpa using this

end O4.GoRand

namespace O4.CsRand
open O4.GoRand

/-- `min ≤ IntRange(min, max) ≤ max` — for every source. -/
theorem intRange_bounds {σ : Type} (src : Source σ) (min max : Int) (s : σ) (v : Int) (s' : σ)
    (h : intRange src min max s = .ok v s') : min ≤ v ∧ v ≤ max := by
  unfold intRange at h
  split at h
  · cases h
  · rename_i hmm
    simp only at h
    split at h
    · cases h
    · split at h
      · cases h
      · rename_i w s1 hw
        have hlt := intn_lt src _ s w s1 hw
        cases h
        omega

end O4.CsRand
