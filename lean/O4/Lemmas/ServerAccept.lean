import O4.Lemmas.Obfs4Server
/-!
Helper lemmas for C04 (core only): the replay filter under a monotone clock below capacity as seen
through `macLoop` / `parseClientHandshake` / `serverAccept`; honest client blobs.
-/
namespace O4.RF

/-- well-formed at time `t`: insertion times sorted, none later than `t`, positive TTL -/
def WF (f : Filter) (t : Int) : Prop := Sorted f.fifo ∧ (∀ e ∈ f.fifo, e.t ≤ t) ∧ 0 < f.ttl

theorem WF.mono {f : Filter} {t t' : Int} (h : WF f t) (ht : t ≤ t') : WF f t' :=
  ⟨h.1, fun e he => Int.le_trans (h.2.1 e he) ht, h.2.2⟩

/-- a young entry for `d` -/
def Young (f : Filter) (now : Int) (d : Nat) : Prop := ∃ e ∈ f.fifo, e.d = d ∧ now - e.t < f.ttl

/-- `testAndSet` below capacity under a monotone clock, spelled out -/
theorem tas_spec (f : Filter) (now : Int) (d : Nat) (hw : WF f now) (hl : f.fifo.length < f.cap) :
    let r := f.testAndSet now d
    r.1.ttl = f.ttl ∧ r.1.cap = f.cap ∧ WF r.1 now ∧ r.1.fifo.length ≤ f.fifo.length + 1 ∧
    (∀ e ∈ f.fifo, now - e.t < f.ttl → e ∈ r.1.fifo) ∧
    (r.2 = true ↔ Young f now d) ∧
    (∃ e ∈ r.1.fifo, e.d = d ∧ now - e.t < f.ttl) ∧
    (r.2 = false → (⟨d, now⟩ : Entry) ∈ r.1.fifo) ∧
    (r.2 = true → r.1.fifo.length ≤ f.fifo.length) := by
  intro r
  have href := testAndSet_refines f now d hw.1 hw.2.1 hl hw.2.2
  have hcap := testAndSet_cap f now d (by omega) (by omega)
  have h1 : r.1.fifo = (specStep f.ttl f.fifo now d).1 := congrArg Prod.fst href
  have h2 : r.2 = (specStep f.ttl f.fifo now d).2 := congrArg Prod.snd href
  have hfs : Sorted (f.fifo.filter (fun e => decide (now - e.t < f.ttl))) :=
    List.Pairwise.sublist List.filter_sublist hw.1
  have hflen := List.length_filter_le (fun e => decide (now - e.t < f.ttl)) f.fifo
  unfold specStep at h1 h2
  simp only at h1 h2
  by_cases hany : (f.fifo.filter (fun e => decide (now - e.t < f.ttl))).any (fun e => e.d == d) = true
  · rw [if_pos hany] at h1 h2
    simp only at h1 h2
    have hy : Young f now d := by
      simp only [List.any_eq_true, List.mem_filter, beq_iff_eq, decide_eq_true_eq] at hany
      obtain ⟨e, ⟨he, hyg⟩, hd⟩ := hany
      exact ⟨e, he, hd, hyg⟩
    refine ⟨hcap.2.2, hcap.2.1, ⟨by rw [h1]; exact hfs, ?_, by rw [hcap.2.2]; exact hw.2.2⟩, by rw [h1]; omega, ?_, ?_, ?_, ?_, by intro _; rw [h1]; omega⟩
    · intro e he; rw [h1] at he; exact hw.2.1 e (List.mem_filter.mp he).1
    · intro e he hyg; rw [h1]; exact List.mem_filter.mpr ⟨he, by simpa using hyg⟩
    · rw [h2]; simp [hy]
    · obtain ⟨e, he, hd, hyg⟩ := hy
      exact ⟨e, by rw [h1]; exact List.mem_filter.mpr ⟨he, by simpa using hyg⟩, hd, hyg⟩
    · rw [h2]; simp
  · rw [if_neg hany] at h1 h2
    simp only at h1 h2
    have hny : ¬ Young f now d := by
      intro ⟨e, he, hd, hyg⟩
      apply hany
      simp only [List.any_eq_true, List.mem_filter, beq_iff_eq, decide_eq_true_eq]
      exact ⟨e, ⟨he, hyg⟩, hd⟩
    refine ⟨hcap.2.2, hcap.2.1, ⟨?_, ?_, by rw [hcap.2.2]; exact hw.2.2⟩, by rw [h1]; simp; omega, ?_, ?_, ?_, ?_, by rw [h2]; simp⟩
    · rw [h1]
      simp only [Sorted, List.pairwise_append, List.pairwise_cons, List.Pairwise.nil]
      refine ⟨hfs, ⟨by simp, trivial⟩, ?_⟩
      intro a ha b hb; simp at hb; subst hb
      exact hw.2.1 a (List.mem_filter.mp ha).1
    · intro e he; rw [h1] at he
      rcases List.mem_append.mp he with he | he
      · exact hw.2.1 e (List.mem_filter.mp he).1
      · simp at he; subst he; exact Int.le_refl _
    · intro e he hyg; rw [h1]
      exact List.mem_append_left _ (List.mem_filter.mpr ⟨he, by simpa using hyg⟩)
    · rw [h2]; simp [hny]
    · refine ⟨⟨d, now⟩, by rw [h1]; simp, rfl, ?_⟩
      have := hw.2.2; simp; omega
    · intro _; rw [h1]; simp

/-- a value absent from the filter is answered "new" — at any fill level, for any clock -/
theorem tas_absent (f : Filter) (now : Int) (d : Nat) (h : ∀ e ∈ f.fifo, e.d ≠ d) :
    (f.testAndSet now d).2 = false := by
  unfold Filter.testAndSet Filter.compact
  simp only
  have hs := compactList_sublist f.ttl f.cap now f.fifo
  rw [if_neg]
  simp only [List.any_eq_true, beq_iff_eq, not_exists, not_and]
  intro e he
  exact h e (hs.subset he)

end O4.RF

namespace O4.Handshake
open O4.Consts.Obfs4 O4.Consts.Ntor O4.RF

/-- the MAC loop as seen by the replay filter (monotone clock, room for one more entry): the filter
    stays well-formed, young entries survive, and a found hour means the received MAC was **inserted
    now** and had **no young entry before**. -/
theorem macLoop_filter (P : Prims) (s : Server) (body macRx : Bytes) (H now : Int) :
    ∀ (offs : List Int) (f : Filter) (found : Option Int), WF f now →
      ((found = none ∧ f.fifo.length + 1 < f.cap) ∨
        (found ≠ none ∧ f.fifo.length < f.cap ∧ (⟨Bytes.toNatBE macRx, now⟩ : Entry) ∈ f.fifo)) →
      let r := macLoop P s body macRx H now offs f found
      r.1.ttl = f.ttl ∧ r.1.cap = f.cap ∧ WF r.1 now ∧
      (∀ e ∈ f.fifo, now - e.t < f.ttl → e ∈ r.1.fifo) ∧
      (∀ h, r.2 = .ok (some h) →
        (⟨Bytes.toNatBE macRx, now⟩ : Entry) ∈ r.1.fifo ∧ (found = none → ¬ Young f now (Bytes.toNatBE macRx))) := by
  intro offs
  induction offs with
  | nil =>
    intro f found hw hJ
    simp only [macLoop]
    refine ⟨trivial, trivial, hw, fun e he _ => he, ?_⟩
    intro h hh
    simp only [Except.ok.injEq] at hh
    rcases hJ with ⟨hn, _⟩ | ⟨_, _, hmem⟩
    · rw [hn] at hh; simp at hh
    · exact ⟨hmem, fun hn => by rw [hn] at hh; simp at hh⟩
  | cons off rest ih =>
    intro f found hw hJ
    have hl : f.fifo.length < f.cap := by rcases hJ with ⟨_, h⟩ | ⟨_, h, _⟩ <;> omega
    have hts := tas_spec f now (Bytes.toNatBE macRx) hw hl
    simp only at hts
    obtain ⟨t1, t2, t3, t4, t5, t6, _, t8, t9⟩ := hts
    unfold macLoop
    by_cases hm : mac P s.idPub s.nodeID body (H + off) = macRx
    · rw [if_pos hm]
      simp only
      cases hseen : (f.testAndSet now (Bytes.toNatBE macRx)).2 with
      | true =>
        simp only [if_true]
        exact ⟨t1, t2, t3, t5, by intro h hh; simp at hh⟩
      | false =>
        simp only [Bool.false_eq_true, if_false]
        have hny : ¬ Young f now (Bytes.toNatBE macRx) := by
          intro hy; have := t6.mpr hy; rw [hseen] at this; simp at this
        have hfn : found = none := by
          rcases hJ with ⟨hn, _⟩ | ⟨_, _, hmem⟩
          · exact hn
          · exfalso; apply hny
            exact ⟨_, hmem, rfl, by have := hw.2.2; simp; omega⟩
        have hl1 : f.fifo.length + 1 < f.cap := by
          rcases hJ with ⟨_, h⟩ | ⟨hne, _, _⟩
          · exact h
          · exact absurd hfn hne
        have ih' := ih (f.testAndSet now (Bytes.toNatBE macRx)).1 (some (H + off)) t3
          (Or.inr ⟨by simp, by rw [t2]; omega, t8 hseen⟩)
        simp only at ih'
        obtain ⟨i1, i2, i3, i4, i5⟩ := ih'
        refine ⟨by rw [i1, t1], by rw [i2, t2], i3, ?_, ?_⟩
        · intro e he hy
          exact i4 e (t5 e he hy) (by rw [t1]; exact hy)
        · intro h hh
          exact ⟨(i5 h hh).1, fun _ => hny⟩
    · rw [if_neg hm]
      exact ih f found hw hJ

/-- what an accepting parse tells about the replay filter and the hour -/
theorem parse_filter (P : Prims) (s : Server) (f : Filter) (H now : Int) (resp : Bytes)
    (hw : WF f now) (hl : f.fifo.length + 1 < f.cap) :
    let r := parseClientHandshake P s f H now resp
    r.2.1.ttl = f.ttl ∧ r.2.1.cap = f.cap ∧ WF r.2.1 now ∧
    (∀ e ∈ f.fifo, now - e.t < f.ttl → e ∈ r.2.1.fifo) ∧
    (∀ seed, r.2.2 = .ok seed → ∃ pos, markPos P s resp = some pos ∧
      resp.length = pos + markLength + macLength ∧
      (⟨Bytes.toNatBE (macAt resp pos), now⟩ : Entry) ∈ r.2.1.fifo ∧
      ¬ Young f now (Bytes.toNatBE (macAt resp pos)) ∧
      ∃ off ∈ ([0, -1, 1] : List Int),
        mac P s.idPub s.nodeID (bodyAt resp pos) (H + off) = macAt resp pos ∧ r.1.hour = some (H + off)) := by
  intro r
  have triv : (f.ttl = f.ttl ∧ f.cap = f.cap ∧ WF f now ∧ (∀ e ∈ f.fifo, now - e.t < f.ttl → e ∈ f.fifo)) :=
    ⟨rfl, rfl, hw, fun e he _ => he⟩
  have hr : r = parseClientHandshake P s f H now resp := rfl
  rw [parse_unfold] at hr
  split at hr
  · rw [hr]; exact ⟨triv.1, triv.2.1, triv.2.2.1, triv.2.2.2, by intro seed h; simp at h⟩
  · cases hp : markPos P s resp with
    | none =>
      rw [hp] at hr
      simp only at hr
      split at hr <;> rw [hr] <;> exact ⟨triv.1, triv.2.1, triv.2.2.1, triv.2.2.2, by intro seed h; simp at h⟩
    | some pos =>
      rw [hp] at hr
      simp only at hr
      have hml := macLoop_filter P (withCache P s resp) (bodyAt resp pos) (macAt resp pos) H now [0, -1, 1] f none hw
        (Or.inl ⟨rfl, hl⟩)
      simp only at hml
      obtain ⟨m1, m2, m3, m4, m5⟩ := hml
      rcases hm : macLoop P (withCache P s resp) (bodyAt resp pos) (macAt resp pos) H now [0, -1, 1] f none with ⟨f', v⟩
      rw [hm] at hr m1 m2 m3 m4 m5
      simp only at m1 m2 m3 m4 m5
      rcases v with e | o
      · cases e
        simp only at hr
        rw [hr]; exact ⟨m1, m2, m3, m4, by intro seed h; simp at h⟩
      · cases o with
        | none =>
          simp only at hr
          rw [hr]; exact ⟨m1, m2, m3, m4, by intro seed h; simp at h⟩
        | some h =>
          simp only at hr
          have hh := m5 h rfl
          have hoff : ∃ off ∈ ([0, -1, 1] : List Int),
              mac P s.idPub s.nodeID (bodyAt resp pos) (H + off) = macAt resp pos ∧ h = H + off := by
            rcases macLoop_some P _ _ _ H now _ f f' none h hm with h0 | ⟨off, ho, h1, h2⟩
            · simp at h0
            · exact ⟨off, ho, h2, h1⟩
          split at hr
          · rw [hr]; exact ⟨m1, m2, m3, m4, by intro seed h; simp at h⟩
          · rename_i hnt
            split at hr
            · rw [hr]; exact ⟨m1, m2, m3, m4, by intro seed h; simp at h⟩
            · rw [hr]
              refine ⟨m1, m2, m3, m4, ?_⟩
              intro seed _
              obtain ⟨off, ho, h1, h2⟩ := hoff
              exact ⟨pos, rfl, by simpa using hnt, hh.1, hh.2 trivial, off, ho, h1, by simp [h2]⟩

end O4.Handshake

namespace O4.Handshake
open O4.Consts.Obfs4 O4.Consts.Ntor O4.RF

/-- an accepting parse, without any assumption on the filter: `M_C ‖ MAC_C` end the buffer, the
    received MAC equals the MAC for an hour `H+off` of the window, and that hour is the one stored
    for the reply (`hs.epochHour`) -/
theorem parse_ok_hour (P : Prims) (s s' : Server) (f f' : Filter) (H now : Int) (resp seed : Bytes)
    (h : parseClientHandshake P s f H now resp = (s', f', .ok seed)) :
    ∃ pos, markPos P s resp = some pos ∧ resp.length = pos + markLength + macLength ∧
      ∃ off ∈ ([0, -1, 1] : List Int),
        mac P s.idPub s.nodeID (bodyAt resp pos) (H + off) = macAt resp pos ∧ s'.hour = some (H + off) := by
  rw [parse_unfold] at h
  split at h
  · simp at h
  · cases hp : markPos P s resp with
    | none => rw [hp] at h; simp only at h; split at h <;> simp at h
    | some pos =>
      rw [hp] at h
      simp only at h
      rcases hm : macLoop P (withCache P s resp) (bodyAt resp pos) (macAt resp pos) H now [0, -1, 1] f none with ⟨g, v⟩
      rw [hm] at h
      rcases v with e | o
      · cases e; simp at h
      · cases o with
        | none => simp at h
        | some h0 =>
          simp only at h
          rcases macLoop_some P _ _ _ H now _ f g none h0 hm with hx | ⟨off, ho, h1, h2⟩
          · simp at hx
          · split at h
            · simp at h
            · rename_i hnt
              split at h
              · simp at h
              · simp only [Prod.mk.injEq] at h
                refine ⟨pos, rfl, by simpa using hnt, off, ho, h2, ?_⟩
                rw [← h.1]; simp [h1]

/-- HMAC outputs are at least as long as the truncations the handshake takes of them -/
def HmacLong (P : Prims) : Prop :=
  ∀ k m, markLength ≤ (P.hmac k m).length ∧ macLength ≤ (P.hmac k m).length

/-- the part of an honest client handshake that is MACed: `X' ‖ P_C ‖ M_C` -/
def clientBody (P : Prims) (idPub nodeID repr pad : Bytes) : Bytes := repr ++ pad ++ mark P idPub nodeID repr

theorem clientBlob_eq (P : Prims) (idPub nodeID repr pad : Bytes) (h : Int) :
    clientBlob P idPub nodeID repr pad h
      = clientBody P idPub nodeID repr pad ++ mac P idPub nodeID (clientBody P idPub nodeID repr pad) h := rfl

theorem mac_length (P : Prims) (hl : HmacLong P) (idPub nodeID body : Bytes) (h : Int) :
    (mac P idPub nodeID body h).length = macLength := by
  unfold mac; rw [List.length_take]; have := (hl (macKey idPub nodeID) (body ++ epochStr h)).2; omega

/-- where `M_C ‖ MAC_C` end an honest blob, the parser's body and MAC are the client's -/
theorem clientBlob_parts (P : Prims) (hl : HmacLong P) (idPub nodeID repr pad : Bytes) (h : Int) (pos : Nat)
    (hpos : (clientBlob P idPub nodeID repr pad h).length = pos + markLength + macLength) :
    bodyAt (clientBlob P idPub nodeID repr pad h) pos = clientBody P idPub nodeID repr pad ∧
    macAt (clientBlob P idPub nodeID repr pad h) pos = mac P idPub nodeID (clientBody P idPub nodeID repr pad) h := by
  rw [clientBlob_eq] at *
  have hm := mac_length P hl idPub nodeID (clientBody P idPub nodeID repr pad) h
  rw [List.length_append, hm] at hpos
  have hb : pos + markLength = (clientBody P idPub nodeID repr pad).length := by omega
  unfold bodyAt macAt
  rw [hb]
  constructor
  · simp
  · simp [List.take_of_length_le (Nat.le_of_eq hm)]

/-- two MAC inputs that differ collide under the truncated keyed hash -/
def MacCollision (P : Prims) (key a b : Bytes) : Prop :=
  a ≠ b ∧ (P.hmac key a).take macLength = (P.hmac key b).take macLength

/-- equal MACs over one body for two different hours *are* an explicit collision -/
theorem collision_of_mac_eq (P : Prims) (idPub nodeID body : Bytes) (h1 h2 : Int) (hne : h1 ≠ h2)
    (heq : mac P idPub nodeID body h1 = mac P idPub nodeID body h2) :
    MacCollision P (macKey idPub nodeID) (body ++ epochStr h1) (body ++ epochStr h2) := by
  refine ⟨?_, heq⟩
  intro h
  exact hne (epochStr_injective _ _ (List.append_cancel_left h))

end O4.Handshake
