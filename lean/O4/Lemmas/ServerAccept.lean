import O4.Lemmas.Obfs4Server
/-!
Helper lemmas for C04 (core only): the replay filter under a monotone clock below capacity as seen
through `macLoop` / `parseClientHandshake` / `serverAccept`; honest client blobs.
-/
namespace O4.RF

/-- well-formed at time `t`: insertion times sorted, none later than `t`, positive TTL -/
def WF (f : Filter) (t : Int) : Prop := Sorted f.fifo ∧ (∀ e ∈ f.fifo, e.t ≤ t) ∧ 0 < f.ttl

theorem WF.mono {f : Filter} {t t' : Int} (h : WF f t) (ht : t ≤ t') : WF f t' :=
  ⟨h.1, fun e he => Int.le_trans (h.2.1 e he) ht, h.2.2⟩

/-- a young entry for `d` -/
def Young (f : Filter) (now : Int) (d : Nat) : Prop := ∃ e ∈ f.fifo, e.d = d ∧ now - e.t < f.ttl

/-- `testAndSet` below capacity under a monotone clock, spelled out -/
theorem tas_spec (f : Filter) (now : Int) (d : Nat) (hw : WF f now) (hl : f.fifo.length < f.cap) :
    let r := f.testAndSet now d
    r.1.ttl = f.ttl ∧ r.1.cap = f.cap ∧ WF r.1 now ∧ r.1.fifo.length ≤ f.fifo.length + 1 ∧
    (∀ e ∈ f.fifo, now - e.t < f.ttl → e ∈ r.1.fifo) ∧
    (r.2 = true ↔ Young f now d) ∧
    (∃ e ∈ r.1.fifo, e.d = d ∧ now - e.t < f.ttl) ∧
    (r.2 = false → (⟨d, now⟩ : Entry) ∈ r.1.fifo) ∧
    (r.2 = true → r.1.fifo.length ≤ f.fifo.length) := by
  intro r
  have href := testAndSet_refines f now d hw.1 hw.2.1 hl hw.2.2
  have hcap := testAndSet_cap f now d (by omega) (by omega)
  have h1 : r.1.fifo = (specStep f.ttl f.fifo now d).1 := congrArg Prod.fst href
  have h2 : r.2 = (specStep f.ttl f.fifo now d).2 := congrArg Prod.snd href
  have hfs : Sorted (f.fifo.filter (fun e => decide (now - e.t < f.ttl))) :=
    List.Pairwise.sublist List.filter_sublist hw.1
  have hflen := List.length_filter_le (fun e => decide (now - e.t < f.ttl)) f.fifo
  unfold specStep at h1 h2
  simp only at h1 h2
  by_cases hany : (f.fifo.filter (fun e => decide (now - e.t < f.ttl))).any (fun e => e.d == d) = true
  · rw [if_pos hany] at h1 h2
    simp only at h1 h2
    have hy : Young f now d := by
      simp only [List.any_eq_true, List.mem_filter, beq_iff_eq, decide_eq_true_eq] at hany
      obtain ⟨e, ⟨he, hyg⟩, hd⟩ := hany
      exact ⟨e, he, hd, hyg⟩
    refine ⟨hcap.2.2, hcap.2.1, ⟨by rw [h1]; exact hfs, ?_, by rw [hcap.2.2]; exact hw.2.2⟩, by rw [h1]; omega, ?_, ?_, ?_, ?_, by intro _; rw [h1]; omega⟩
    · intro e he; rw [h1] at he; exact hw.2.1 e (List.mem_filter.mp he).1
    · intro e he hyg; rw [h1]; exact List.mem_filter.mpr ⟨he, by simpa using hyg⟩
    · rw [h2]; simp [hy]
    · obtain ⟨e, he, hd, hyg⟩ := hy
      exact ⟨e, by rw [h1]; exact List.mem_filter.mpr ⟨he, by simpa using hyg⟩, hd, hyg⟩
    · rw [h2]; simp
  · rw [if_neg hany] at h1 h2
    simp only at h1 h2
    have hny : ¬ Young f now d := by
      intro ⟨e, he, hd, hyg⟩
      apply hany
      simp only [List.any_eq_true, List.mem_filter, beq_iff_eq, decide_eq_true_eq]
      exact ⟨e, ⟨he, hyg⟩, hd⟩
    refine ⟨hcap.2.2, hcap.2.1, ⟨?_, ?_, by rw [hcap.2.2]; exact hw.2.2⟩, by rw [h1]; simp; omega, ?_, ?_, ?_, ?_, by rw [h2]; simp⟩
    · rw [h1]
      simp only [Sorted, List.pairwise_append, List.pairwise_cons, List.Pairwise.nil]
      refine ⟨hfs, ⟨by simp, trivial⟩, ?_⟩
      intro a ha b hb; simp at hb; subst hb
      exact hw.2.1 a (List.mem_filter.mp ha).1
    · intro e he; rw [h1] at he
      rcases List.mem_append.mp he with he | he
      · exact hw.2.1 e (List.mem_filter.mp he).1
      · simp at he; subst he; exact Int.le_refl _
    · intro e he hyg; rw [h1]
      exact List.mem_append_left _ (List.mem_filter.mpr ⟨he, by simpa using hyg⟩)
    · rw [h2]; simp [hny]
    · refine ⟨⟨d, now⟩, by rw [h1]; simp, rfl, ?_⟩
      have := hw.2.2; simp; omega
    · intro _; rw [h1]; simp

/-- a value absent from the filter is answered "new" — at any fill level, for any clock -/
theorem tas_absent (f : Filter) (now : Int) (d : Nat) (h : ∀ e ∈ f.fifo, e.d ≠ d) :
    (f.testAndSet now d).2 = false := by
  unfold Filter.testAndSet Filter.compact
  simp only
  have hs := compactList_sublist f.ttl f.cap now f.fifo
  rw [if_neg]
  simp only [List.any_eq_true, beq_iff_eq, not_exists, not_and]
  intro e he
  exact h e (hs.subset he)

end O4.RF

namespace O4.Handshake
open O4.Consts.Obfs4 O4.Consts.Ntor O4.RF

/-- the MAC loop as seen by the replay filter (monotone clock, room for one more entry): the filter
    stays well-formed, young entries survive, and a found hour means the received MAC was **inserted
    now** and had **no young entry before**. -/
theorem macLoop_filter (P : Prims) (s : Server) (body macRx : Bytes) (H now : Int) :
    ∀ (offs : List Int) (f : Filter) (found : Option Int), WF f now →
      ((found = none ∧ f.fifo.length + 1 < f.cap) ∨
        (found ≠ none ∧ f.fifo.length < f.cap ∧ (⟨Bytes.toNatBE macRx, now⟩ : Entry) ∈ f.fifo)) →
      let r := macLoop P s body macRx H now offs f found
      r.1.ttl = f.ttl ∧ r.1.cap = f.cap ∧ WF r.1 now ∧
      (∀ e ∈ f.fifo, now - e.t < f.ttl → e ∈ r.1.fifo) ∧
      (∀ h, r.2 = .ok (some h) →
        (⟨Bytes.toNatBE macRx, now⟩ : Entry) ∈ r.1.fifo ∧ (found = none → ¬ Young f now (Bytes.toNatBE macRx))) := by
  intro offs
  induction offs with
  | nil =>
    intro f found hw hJ
    simp only [macLoop]
    refine ⟨trivial, trivial, hw, fun e he _ => he, ?_⟩
    intro h hh
    simp only [Except.ok.injEq] at hh
    rcases hJ with ⟨hn, _⟩ | ⟨_, _, hmem⟩
    · rw [hn] at hh; simp at hh
    · exact ⟨hmem, fun hn => by rw [hn] at hh; simp at hh⟩
  | cons off rest ih =>
    intro f found hw hJ
    have hl : f.fifo.length < f.cap := by rcases hJ with ⟨_, h⟩ | ⟨_, h, _⟩ <;> omega
    have hts := tas_spec f now (Bytes.toNatBE macRx) hw hl
    simp only at hts
    obtain ⟨t1, t2, t3, t4, t5, t6, _, t8, t9⟩ := hts
    unfold macLoop
    by_cases hm : mac P s.idPub s.nodeID body (H + off) = macRx
    · rw [if_pos hm]
      simp only
      cases hseen : (f.testAndSet now (Bytes.toNatBE macRx)).2 with
      | true =>
        simp only [if_true]
        exact ⟨t1, t2, t3, t5, by intro h hh; simp at hh⟩
      | false =>
        simp only [Bool.false_eq_true, if_false]
        have hny : ¬ Young f now (Bytes.toNatBE macRx) := by
          intro hy; have := t6.mpr hy; rw [hseen] at this; simp at this
        have hfn : found = none := by
          rcases hJ with ⟨hn, _⟩ | ⟨_, _, hmem⟩
          · exact hn
          · exfalso; apply hny
            exact ⟨_, hmem, rfl, by have := hw.2.2; simp; omega⟩
        have hl1 : f.fifo.length + 1 < f.cap := by
          rcases hJ with ⟨_, h⟩ | ⟨hne, _, _⟩
          · exact h
          · exact absurd hfn hne
        have ih' := ih (f.testAndSet now (Bytes.toNatBE macRx)).1 (some (H + off)) t3
          (Or.inr ⟨by simp, by rw [t2]; omega, t8 hseen⟩)
        simp only at ih'
        obtain ⟨i1, i2, i3, i4, i5⟩ := ih'
        refine ⟨by rw [i1, t1], by rw [i2, t2], i3, ?_, ?_⟩
        · intro e he hy
          exact i4 e (t5 e he hy) (by rw [t1]; exact hy)
        · intro h hh
          exact ⟨(i5 h hh).1, fun _ => hny⟩
    · rw [if_neg hm]
      exact ih f found hw hJ

/-- what an accepting parse tells about the replay filter and the hour -/
theorem parse_filter (P : Prims) (s : Server) (f : Filter) (H now : Int) (resp : Bytes)
    (hw : WF f now) (hl : f.fifo.length + 1 < f.cap) :
    let r := parseClientHandshake P s f H now resp
    r.2.1.ttl = f.ttl ∧ r.2.1.cap = f.cap ∧ WF r.2.1 now ∧
    (∀ e ∈ f.fifo, now - e.t < f.ttl → e ∈ r.2.1.fifo) ∧
    (∀ seed, r.2.2 = .ok seed → ∃ pos, markPos P s resp = some pos ∧
      resp.length = pos + markLength + macLength ∧
      (⟨Bytes.toNatBE (macAt resp pos), now⟩ : Entry) ∈ r.2.1.fifo ∧
      ¬ Young f now (Bytes.toNatBE (macAt resp pos)) ∧
      ∃ off ∈ ([0, -1, 1] : List Int),
        mac P s.idPub s.nodeID (bodyAt resp pos) (H + off) = macAt resp pos ∧ r.1.hour = some (H + off)) := by
  intro r
  have triv : (f.ttl = f.ttl ∧ f.cap = f.cap ∧ WF f now ∧ (∀ e ∈ f.fifo, now - e.t < f.ttl → e ∈ f.fifo)) :=
    ⟨rfl, rfl, hw, fun e he _ => he⟩
  have hr : r = parseClientHandshake P s f H now resp := rfl
  rw [parse_unfold] at hr
  split at hr
  · rw [hr]; exact ⟨triv.1, triv.2.1, triv.2.2.1, triv.2.2.2, by intro seed h; simp at h⟩
  · cases hp : markPos P s resp with
    | none =>
      rw [hp] at hr
      simp only at hr
      split at hr <;> rw [hr] <;> exact ⟨triv.1, triv.2.1, triv.2.2.1, triv.2.2.2, by intro seed h; simp at h⟩
    | some pos =>
      rw [hp] at hr
      simp only at hr
      have hml := macLoop_filter P (withCache P s resp) (bodyAt resp pos) (macAt resp pos) H now [0, -1, 1] f none hw
        (Or.inl ⟨rfl, hl⟩)
      simp only at hml
      obtain ⟨m1, m2, m3, m4, m5⟩ := hml
      rcases hm : macLoop P (withCache P s resp) (bodyAt resp pos) (macAt resp pos) H now [0, -1, 1] f none with ⟨f', v⟩
      rw [hm] at hr m1 m2 m3 m4 m5
      simp only at m1 m2 m3 m4 m5
      rcases v with e | o
      · cases e
        simp only at hr
        rw [hr]; exact ⟨m1, m2, m3, m4, by intro seed h; simp at h⟩
      · cases o with
        | none =>
          simp only at hr
          rw [hr]; exact ⟨m1, m2, m3, m4, by intro seed h; simp at h⟩
        | some h =>
          simp only at hr
          have hh := m5 h rfl
          have hoff : ∃ off ∈ ([0, -1, 1] : List Int),
              mac P s.idPub s.nodeID (bodyAt resp pos) (H + off) = macAt resp pos ∧ h = H + off := by
            rcases macLoop_some P _ _ _ H now _ f f' none h hm with h0 | ⟨off, ho, h1, h2⟩
            · simp at h0
            · exact ⟨off, ho, h2, h1⟩
          split at hr
          · rw [hr]; exact ⟨m1, m2, m3, m4, by intro seed h; simp at h⟩
          · rename_i hnt
            split at hr
            · rw [hr]; exact ⟨m1, m2, m3, m4, by intro seed h; simp at h⟩
            · rw [hr]
              refine ⟨m1, m2, m3, m4, ?_⟩
              intro seed _
              obtain ⟨off, ho, h1, h2⟩ := hoff
              exact ⟨pos, rfl, by simpa using hnt, hh.1, hh.2 trivial, off, ho, h1, by simp [h2]⟩

end O4.Handshake

namespace O4.Handshake
open O4.Consts.Obfs4 O4.Consts.Ntor O4.RF

/-- an accepting parse, without any assumption on the filter: `M_C ‖ MAC_C` end the buffer, the
    received MAC equals the MAC for an hour `H+off` of the window, and that hour is the one stored
    for the reply (`hs.epochHour`) -/
theorem parse_ok_hour (P : Prims) (s s' : Server) (f f' : Filter) (H now : Int) (resp seed : Bytes)
    (h : parseClientHandshake P s f H now resp = (s', f', .ok seed)) :
    ∃ pos, markPos P s resp = some pos ∧ resp.length = pos + markLength + macLength ∧
      ∃ off ∈ ([0, -1, 1] : List Int),
        mac P s.idPub s.nodeID (bodyAt resp pos) (H + off) = macAt resp pos ∧ s'.hour = some (H + off) := by
  rw [parse_unfold] at h
  split at h
  · simp at h
  · cases hp : markPos P s resp with
    | none => rw [hp] at h; simp only at h; split at h <;> simp at h
    | some pos =>
      rw [hp] at h
      simp only at h
      rcases hm : macLoop P (withCache P s resp) (bodyAt resp pos) (macAt resp pos) H now [0, -1, 1] f none with ⟨g, v⟩
      rw [hm] at h
      rcases v with e | o
      · cases e; simp at h
      · cases o with
        | none => simp at h
        | some h0 =>
          simp only at h
          rcases macLoop_some P _ _ _ H now _ f g none h0 hm with hx | ⟨off, ho, h1, h2⟩
          · simp at hx
          · split at h
            · simp at h
            · rename_i hnt
              split at h
              · simp at h
              · simp only [Prod.mk.injEq] at h
                refine ⟨pos, rfl, by simpa using hnt, off, ho, h2, ?_⟩
                rw [← h.1]; simp [h1]

/-- HMAC outputs are at least as long as the truncations the handshake takes of them -/
def HmacLong (P : Prims) : Prop :=
  ∀ k m, markLength ≤ (P.hmac k m).length ∧ macLength ≤ (P.hmac k m).length

/-- the part of an honest client handshake that is MACed: `X' ‖ P_C ‖ M_C` -/
def clientBody (P : Prims) (idPub nodeID repr pad : Bytes) : Bytes := repr ++ pad ++ mark P idPub nodeID repr

theorem clientBlob_eq (P : Prims) (idPub nodeID repr pad : Bytes) (h : Int) :
    clientBlob P idPub nodeID repr pad h
      = clientBody P idPub nodeID repr pad ++ mac P idPub nodeID (clientBody P idPub nodeID repr pad) h := rfl

theorem mac_length (P : Prims) (hl : HmacLong P) (idPub nodeID body : Bytes) (h : Int) :
    (mac P idPub nodeID body h).length = macLength := by
  unfold mac; rw [List.length_take]; have := (hl (macKey idPub nodeID) (body ++ epochStr h)).2; omega

/-- where `M_C ‖ MAC_C` end an honest blob, the parser's body and MAC are the client's -/
theorem clientBlob_parts (P : Prims) (hl : HmacLong P) (idPub nodeID repr pad : Bytes) (h : Int) (pos : Nat)
    (hpos : (clientBlob P idPub nodeID repr pad h).length = pos + markLength + macLength) :
    bodyAt (clientBlob P idPub nodeID repr pad h) pos = clientBody P idPub nodeID repr pad ∧
    macAt (clientBlob P idPub nodeID repr pad h) pos = mac P idPub nodeID (clientBody P idPub nodeID repr pad) h := by
  rw [clientBlob_eq] at *
  have hm := mac_length P hl idPub nodeID (clientBody P idPub nodeID repr pad) h
  rw [List.length_append, hm] at hpos
  have hb : pos + markLength = (clientBody P idPub nodeID repr pad).length := by omega
  unfold bodyAt macAt
  rw [hb]
  constructor
  · simp
  · simp [List.take_of_length_le (Nat.le_of_eq hm)]

/-- two MAC inputs that differ collide under the truncated keyed hash -/
def MacCollision (P : Prims) (key a b : Bytes) : Prop :=
  a ≠ b ∧ (P.hmac key a).take macLength = (P.hmac key b).take macLength

/-- equal MACs over one body for two different hours *are* an explicit collision -/
theorem collision_of_mac_eq (P : Prims) (idPub nodeID body : Bytes) (h1 h2 : Int) (hne : h1 ≠ h2)
    (heq : mac P idPub nodeID body h1 = mac P idPub nodeID body h2) :
    MacCollision P (macKey idPub nodeID) (body ++ epochStr h1) (body ++ epochStr h2) := by
  refine ⟨?_, heq⟩
  intro h
  exact hne (epochStr_injective _ _ (List.append_cancel_left h))

end O4.Handshake

namespace O4.Obfs4Server
open O4.Consts.Obfs4 O4.Consts.Ntor O4.RF O4.Handshake

/-- the mark search of a fresh connection depends on the bridge identity and the bytes only -/
theorem markPos_fresh (P : Prims) (F : Factory) (c c' : Conn) (blob : Bytes) :
    markPos P (newServer F c) blob = markPos P (newServer F c') blob := rfl

/-- the received MAC as the replay filter sees it -/
def digestAt (blob : Bytes) (pos : Nat) : Nat := Bytes.toNatBE (macAt blob pos)

/-- `serverAccept` as seen by the replay filter -/
theorem serverAccept_filter (P : Prims) (F : Factory) (c : Conn) (f : Filter) (blob : Bytes) (H now : Int)
    (hw : WF f now) (hl : f.fifo.length + 1 < f.cap) :
    let r := serverAccept P F c f blob H now
    r.1.ttl = f.ttl ∧ r.1.cap = f.cap ∧ WF r.1 now ∧
    (∀ e ∈ f.fifo, now - e.t < f.ttl → e ∈ r.1.fifo) ∧
    (∀ seed ch, r.2 = .accepted seed ch → ∃ pos, markPos P (newServer F c) blob = some pos ∧
      blob.length = pos + markLength + macLength ∧
      (⟨digestAt blob pos, now⟩ : Entry) ∈ r.1.fifo ∧ ¬ Young f now (digestAt blob pos) ∧
      ∃ off ∈ ([0, -1, 1] : List Int),
        mac P F.idPub F.nodeID (bodyAt blob pos) (H + off) = macAt blob pos ∧ ch = some (H + off)) := by
  intro r
  have hp := parse_filter P (newServer F c) f H now blob hw hl
  simp only at hp
  obtain ⟨p1, p2, p3, p4, p5⟩ := hp
  have hr : r = serverAccept P F c f blob H now := rfl
  unfold serverAccept at hr
  rcases hq : parseClientHandshake P (newServer F c) f H now blob with ⟨hs', f', res⟩
  rw [hq] at hr p1 p2 p3 p4 p5
  simp only at p1 p2 p3 p4 p5
  cases res with
  | ok seed =>
    simp only at hr
    rw [hr]
    refine ⟨p1, p2, p3, p4, ?_⟩
    intro seed' ch hacc
    simp only [Outcome.accepted.injEq] at hacc
    obtain ⟨pos, q1, q2, q3, q4, off, ho, q5, q6⟩ := p5 seed rfl
    exact ⟨pos, q1, q2, q3, q4, off, ho, q5, by rw [← hacc.2]; exact q6⟩
  | err e =>
    simp only at hr
    rw [hr]
    exact ⟨p1, p2, p3, p4, by intro seed ch h; simp at h⟩

/-- the clock never runs backwards along the history, starting at `t` -/
def MonotoneFrom : Int → List Submission → Prop
  | _, [] => True
  | t, s :: rest => t ≤ s.now ∧ MonotoneFrom s.now rest

/-- at every submission the replay filter has room (fewer than `cap − 1` remembered entries) -/
def Below (P : Prims) (F : Factory) : Filter → List Submission → Prop
  | _, [] => True
  | f, s :: rest => f.fifo.length + 1 < f.cap ∧ Below P F (serverAccept P F s.conn f s.blob s.hour s.now).1 rest

/-- time of the last submission (or `t`) -/
def lastNow : Int → List Submission → Int
  | t, [] => t
  | _, s :: rest => lastNow s.now rest

theorem runHistory_cons (P : Prims) (F : Factory) (f : Filter) (s : Submission) (rest : List Submission) :
    runHistory P F f (s :: rest) =
      ((runHistory P F (serverAccept P F s.conn f s.blob s.hour s.now).1 rest).1,
       (serverAccept P F s.conn f s.blob s.hour s.now).2 ::
        (runHistory P F (serverAccept P F s.conn f s.blob s.hour s.now).1 rest).2) := rfl

theorem runHistory_append (P : Prims) (F : Factory) (f : Filter) (x y : List Submission) :
    runHistory P F f (x ++ y) =
      ((runHistory P F (runHistory P F f x).1 y).1,
       (runHistory P F f x).2 ++ (runHistory P F (runHistory P F f x).1 y).2) := by
  induction x generalizing f with
  | nil => rfl
  | cons s rest ih => simp only [List.cons_append, runHistory_cons, ih]

theorem runHistory_length (P : Prims) (F : Factory) (f : Filter) (x : List Submission) :
    (runHistory P F f x).2.length = x.length := by
  induction x generalizing f with
  | nil => rfl
  | cons s rest ih => simp [runHistory_cons, ih]

theorem MonotoneFrom.append {t : Int} {x y : List Submission} (h : MonotoneFrom t (x ++ y)) :
    MonotoneFrom t x ∧ MonotoneFrom (lastNow t x) y := by
  induction x generalizing t with
  | nil => exact ⟨trivial, h⟩
  | cons s rest ih =>
    simp only [List.cons_append, MonotoneFrom] at h
    have := ih h.2
    exact ⟨⟨h.1, this.1⟩, this.2⟩

theorem MonotoneFrom.le_last {t : Int} {x : List Submission} (h : MonotoneFrom t x) : t ≤ lastNow t x := by
  induction x generalizing t with
  | nil => exact Int.le_refl _
  | cons s rest ih => simp only [MonotoneFrom] at h; exact Int.le_trans h.1 (ih h.2)

theorem MonotoneFrom.le_all {t : Int} {x : List Submission} (h : MonotoneFrom t x) :
    ∀ s ∈ x, t ≤ s.now ∧ s.now ≤ lastNow t x := by
  induction x generalizing t with
  | nil => intro s hs; simp at hs
  | cons s0 rest ih =>
    simp only [MonotoneFrom] at h
    intro s hs
    simp only [List.mem_cons] at hs
    rcases hs with rfl | hs
    · exact ⟨h.1, h.2.le_last⟩
    · have := ih h.2 s hs
      exact ⟨Int.le_trans h.1 this.1, this.2⟩

theorem Below.append {P : Prims} {F : Factory} {f : Filter} {x y : List Submission}
    (h : Below P F f (x ++ y)) : Below P F f x ∧ Below P F (runHistory P F f x).1 y := by
  induction x generalizing f with
  | nil => exact ⟨trivial, h⟩
  | cons s rest ih =>
    simp only [List.cons_append, Below] at h
    have := ih h.2
    exact ⟨⟨h.1, this.1⟩, by rw [runHistory_cons]; exact this.2⟩

/-- **the filter along a history** (monotone clock, room at every step): it stays well-formed with
    its TTL, and an entry that is still young at the *end* of the history is still remembered -/
theorem history_keeps (P : Prims) (F : Factory) :
    ∀ (x : List Submission) (f : Filter) (t : Int), WF f t → MonotoneFrom t x → Below P F f x →
      (runHistory P F f x).1.ttl = f.ttl ∧ WF (runHistory P F f x).1 (lastNow t x) ∧
      (∀ e ∈ f.fifo, lastNow t x - e.t < f.ttl → e ∈ (runHistory P F f x).1.fifo) := by
  intro x
  induction x with
  | nil => intro f t hw _ _; exact ⟨rfl, hw, fun e he _ => he⟩
  | cons s rest ih =>
    intro f t hw hm hb
    simp only [MonotoneFrom] at hm
    simp only [Below] at hb
    have hsa := serverAccept_filter P F s.conn f s.blob s.hour s.now (hw.mono hm.1) hb.1
    simp only at hsa
    obtain ⟨a1, a2, a3, a4, _⟩ := hsa
    have := ih _ s.now a3 hm.2 hb.2
    rw [runHistory_cons]
    simp only [lastNow]
    refine ⟨by rw [this.1, a1], this.2.1, ?_⟩
    intro e he hy
    have hle := hm.2.le_last
    exact this.2.2 e (a4 e he (by omega)) (by rw [a1]; exact hy)

end O4.Obfs4Server

namespace O4.Handshake
open O4.Consts.Obfs4 O4.Consts.Ntor O4.RF

/-- the key seed of an accepting parse is the ntor result — it does not depend on the filter -/
theorem parse_ok_seed (P : Prims) (s : Server) (f : Filter) (H now : Int) (resp seed : Bytes)
    (h : (parseClientHandshake P s f H now resp).2.2 = .ok seed) :
    seed = (ntorOf P s (cacheOn P s resp)).2.1 := by
  rw [parse_unfold] at h
  split at h
  · simp at h
  · cases hp : markPos P s resp with
    | none => rw [hp] at h; simp only at h; split at h <;> simp at h
    | some pos =>
      rw [hp] at h
      simp only at h
      rcases hm : macLoop P (withCache P s resp) (bodyAt resp pos) (macAt resp pos) H now [0, -1, 1] f none with ⟨g, v⟩
      rw [hm] at h
      rcases v with e | o
      · cases e; simp at h
      · cases o with
        | none => simp at h
        | some h0 =>
          simp only at h
          split at h
          · simp at h
          · split at h
            · simp at h
            · simp only [ServerResult.ok.injEq] at h; exact h.symm

/-- the loop over `[0, -1, 1]` when the received MAC is not in the filter: it is accepted unless two
    different offsets both match -/
theorem macLoop_fresh (P : Prims) (s : Server) (body macRx : Bytes) (H now : Int) (g : Filter)
    (hfresh : ∀ e ∈ g.fifo, e.d ≠ Bytes.toNatBE macRx)
    (hvalid : ∃ off ∈ ([0, -1, 1] : List Int), mac P s.idPub s.nodeID body (H + off) = macRx) :
    (macLoop P s body macRx H now [0, -1, 1] g none).2 ≠ .error () ∨
    ∃ o1 ∈ ([0, -1, 1] : List Int), ∃ o2 ∈ ([0, -1, 1] : List Int), o1 ≠ o2 ∧
      mac P s.idPub s.nodeID body (H + o1) = mac P s.idPub s.nodeID body (H + o2) := by
  have hts : (g.testAndSet now (Bytes.toNatBE macRx)).2 = false := tas_absent g now _ hfresh
  have e0 : H + 0 = H := Int.add_zero H
  by_cases h0 : mac P s.idPub s.nodeID body H = macRx <;>
  by_cases h1 : mac P s.idPub s.nodeID body (H + -1) = macRx <;>
  by_cases h2 : mac P s.idPub s.nodeID body (H + 1) = macRx
  · right; exact ⟨0, by simp, -1, by simp, by decide, by rw [e0, h0, h1]⟩
  · right; exact ⟨0, by simp, -1, by simp, by decide, by rw [e0, h0, h1]⟩
  · right; exact ⟨0, by simp, 1, by simp, by decide, by rw [e0, h0, h2]⟩
  · left; simp [macLoop, h0, h1, h2, hts]
  · right; exact ⟨-1, by simp, 1, by simp, by decide, by rw [h1, h2]⟩
  · left; simp [macLoop, h0, h1, h2, hts]
  · left; simp [macLoop, h0, h1, h2, hts]
  · exfalso
    obtain ⟨off, ho, hm⟩ := hvalid
    simp only [List.mem_cons, List.not_mem_nil, or_false] at ho
    rcases ho with rfl | rfl | rfl
    · rw [e0] at hm; exact h0 hm
    · exact h1 hm
    · exact h2 hm

/-- a MAC with a young entry in the filter is never accepted: the verdict is `replayed` if some
    hour of the window (still) matches and `invalidHandshake` otherwise -/
theorem parse_seen (P : Prims) (s : Server) (f : Filter) (H now : Int) (resp : Bytes) (pos : Nat)
    (hw : WF f now) (hl : f.fifo.length + 1 < f.cap)
    (hlen : clientMinHandshakeLength ≤ resp.length) (hpos : markPos P s resp = some pos)
    (hy : Young f now (Bytes.toNatBE (macAt resp pos))) :
    (parseClientHandshake P s f H now resp).2.2 = .err .replayed ∨
    (parseClientHandshake P s f H now resp).2.2 = .err .invalidHandshake := by
  rw [parse_unfold, if_neg (by omega), hpos]
  simp only
  have hml := macLoop_filter P (withCache P s resp) (bodyAt resp pos) (macAt resp pos) H now [0, -1, 1] f none hw
    (Or.inl ⟨rfl, hl⟩)
  simp only at hml
  rcases hm : macLoop P (withCache P s resp) (bodyAt resp pos) (macAt resp pos) H now [0, -1, 1] f none with ⟨f', v⟩
  rw [hm] at hml
  rcases v with e | o
  · cases e; left; rfl
  · cases o with
    | none => right; rfl
    | some h => exact absurd hy ((hml.2.2.2.2 h rfl).2 trivial)

end O4.Handshake

namespace O4.Obfs4Server
open O4.Consts.Obfs4 O4.Handshake O4.RF

theorem splitReads_small (b : Bytes) (h : b.length ≤ maxHandshakeLength) : splitReads b.length b = [b] := by
  cases hb : b.length with
  | zero => rfl
  | succ n => unfold splitReads; rw [if_pos (by omega)]

/-- one read delivering a buffer the parser rejects for good: the deadline, then `closeAfterDelay` -/
theorem run_single_fatal (P : Prims) (F : Factory) (c : Conn) (f : Filter) (H now : Int) (chunk : Bytes)
    (hs' : Server) (f' : Filter) (er : HsErr)
    (hlen : chunk.length ≤ maxHandshakeLength)
    (hp : parseClientHandshake P (newServer F c) f H now chunk = (hs', f', .err er))
    (hne : er ≠ .markNotFoundYet) :
    (run P F c f [⟨now, H, .recv chunk⟩]).2 = initOuts c ++ (fail F c now (.hs er) false).2 := by
  simp only [run, trace, normalize, List.flatMap_cons, List.flatMap_nil, normalizeEv, splitReads_small chunk hlen,
    List.map_cons, List.map_nil, List.append_nil, runFrom, initState, step, List.nil_append, hp, if_neg hne,
    List.flatten_cons, List.flatten_nil]

/-- what the peer sees of `closeAfterDelay` does not depend on *which* fatal error it was -/
theorem fail_wire_uniform (F : Factory) (c : Conn) (now : Int) (e1 e2 : Err) (sticky : Bool) :
    wire (fail F c now e1 sticky).2 = wire (fail F c now e2 sticky).2 := by
  unfold fail
  simp only
  split
  · simp [wire, List.filter, Out.isWire]
  · split <;> simp [wire, List.filter, Out.isWire]

end O4.Obfs4Server

namespace O4.RF

/-- compaction leaves a non-full filter alone when its eldest entry is young (and not in the future) -/
theorem compactList_front_young (ttl : Int) (cap : Nat) (now : Int) (l : List Entry)
    (httl : 0 < ttl) (hl : l.length < cap)
    (hfront : ∀ e, l.head? = some e → e.t ≤ now ∧ now - e.t < ttl) :
    compactList ttl cap now l = l := by
  cases l with
  | nil => rfl
  | cons e rest =>
    have := hfront e rfl
    unfold compactList
    rw [if_pos ⟨hl, httl⟩]
    simp only
    rw [if_neg (by omega), if_pos this.2]

/-- **`fillFresh` is `TestAndSet` repeated**: for pairwise distinct values that are not in the filter,
    below capacity, with a young eldest entry, submitting them one by one at `now` answers "new" every
    time and leaves exactly the filter with the values appended. (Justifies the fast path of the
    driver op `fac.fill`.) -/
theorem fillFresh_eq_run (now : Int) :
    ∀ (ds : List Nat) (f : Filter), 0 < f.ttl → f.fifo.length + ds.length ≤ f.cap →
      (∀ e, f.fifo.head? = some e → e.t ≤ now ∧ now - e.t < f.ttl) →
      ds.Nodup → (∀ d ∈ ds, ∀ e ∈ f.fifo, e.d ≠ d) →
      f.run (ds.map (fun d => (now, d))) = (f.fillFresh now ds, ds.map (fun _ => false)) := by
  intro ds
  induction ds with
  | nil => intro f _ _ _ _ _; simp [Filter.run, Filter.fillFresh]
  | cons d rest ih =>
    intro f httl hroom hfront hnd hfresh
    have hl : f.fifo.length < f.cap := by simp at hroom; omega
    have hc : compactList f.ttl f.cap now f.fifo = f.fifo :=
      compactList_front_young f.ttl f.cap now f.fifo httl hl hfront
    have hts : f.testAndSet now d = ({ f with fifo := f.fifo ++ [⟨d, now⟩] }, false) := by
      unfold Filter.testAndSet Filter.compact
      simp only [hc]
      rw [if_neg]
      simp only [List.any_eq_true, beq_iff_eq, not_exists, not_and]
      intro e he; exact hfresh d (by simp) e he
    simp only [List.map_cons, Filter.run, hts]
    have hnd' := List.nodup_cons.mp hnd
    rw [ih { f with fifo := f.fifo ++ [⟨d, now⟩] } httl (by simp at hroom ⊢; omega) ?_ hnd'.2 ?_]
    · simp [Filter.fillFresh, List.append_assoc]
    · intro e he
      cases hf : f.fifo with
      | nil => simp [hf] at he; subst he; simp; omega
      | cons e0 r0 =>
        simp [hf] at he; subst he
        exact hfront e0 (by simp [hf])
    · intro d' hd' e he
      simp only [List.mem_append, List.mem_singleton] at he
      rcases he with he | rfl
      · exact hfresh d' (by simp [hd']) e he
      · simp only; intro h; exact hnd'.1 (h ▸ hd')

/-- **a full filter forgets only its eldest entry**: at capacity, `TestAndSet` of a value remembered
    anywhere but at the front still answers "seen" (the forced eviction takes exactly the front
    entry, then TTL-based compaction resumes and stops at the young new front). -/
theorem full_keeps_all_but_eldest (f : Filter) (e0 : Entry) (rest : List Entry) (now : Int) (d : Nat)
    (hf : f.fifo = e0 :: rest) (hfull : f.fifo.length = f.cap) (httl : 0 < f.ttl)
    (hfront : ∀ e, rest.head? = some e → e.t ≤ now ∧ now - e.t < f.ttl)
    (hmem : ∃ e ∈ rest, e.d = d) :
    (f.testAndSet now d).2 = true := by
  have hc : compactList f.ttl f.cap now f.fifo = rest := by
    rw [hf]; unfold compactList
    rw [if_neg (by rw [hf] at hfull; simp at hfull ⊢; omega)]
    exact compactList_front_young f.ttl f.cap now rest httl (by rw [hf] at hfull; simp at hfull; omega) hfront
  unfold Filter.testAndSet Filter.compact
  simp only [hc]
  rw [if_pos]
  obtain ⟨e, he, hd⟩ := hmem
  simp only [List.any_eq_true, beq_iff_eq]
  exact ⟨e, he, hd⟩

end O4.RF

namespace O4.Handshake
open O4.RF

/-- once the filter answers "seen" for the received MAC, the MAC loop never finds an hour -/
theorem macLoop_seen (P : Prims) (s : Server) (body macRx : Bytes) (H now : Int) (f : Filter)
    (hseen : (f.testAndSet now (Bytes.toNatBE macRx)).2 = true) :
    ∀ (offs : List Int), (macLoop P s body macRx H now offs f none).2 = .error () ∨
      (macLoop P s body macRx H now offs f none).2 = .ok none := by
  intro offs
  induction offs with
  | nil => right; rfl
  | cons off rest ih =>
    unfold macLoop
    by_cases hm : mac P s.idPub s.nodeID body (H + off) = macRx
    · rw [if_pos hm]; simp only [hseen, if_true]; left; trivial
    · rw [if_neg hm]; exact ih

/-- … hence the parser does not accept -/
theorem parse_not_ok_of_seen (P : Prims) (s : Server) (f : Filter) (H now : Int) (resp : Bytes) (pos : Nat)
    (hpos : markPos P s resp = some pos)
    (hseen : (f.testAndSet now (Bytes.toNatBE (macAt resp pos))).2 = true) :
    ∀ seed, (parseClientHandshake P s f H now resp).2.2 ≠ .ok seed := by
  intro seed
  rw [parse_unfold]
  split
  · simp
  · rw [hpos]
    simp only
    rcases hm : macLoop P (withCache P s resp) (bodyAt resp pos) (macAt resp pos) H now [0, -1, 1] f none with ⟨f', v⟩
    have := macLoop_seen P (withCache P s resp) (bodyAt resp pos) (macAt resp pos) H now f hseen [0, -1, 1]
    rw [hm] at this
    simp only at this
    rcases this with h | h <;> subst h <;> simp

end O4.Handshake
