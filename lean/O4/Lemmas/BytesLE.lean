import O4.Model.Bytes
import Mathlib.Tactic.Ring
import Mathlib.Tactic.NormNum
/-!
# Little-endian byte strings as numbers: `Bytes.toNatLE` / `Bytes.ofNatLE`

Splitting at the last byte of a 32-byte string, round trips, the masks `&&& 63`, `&&& 0xc0`,
`||| (t &&& 0xc0)` on byte 31 and `&&& 1` on byte 0 in terms of `%`/`/`.
-/
namespace O4.BytesLE
open O4 O4.Bytes

theorem toNatLE_nil : toNatLE [] = 0 := rfl
theorem toNatLE_cons (x : UInt8) (b : Bytes) : toNatLE (x :: b) = toNatLE b * 256 + x.toNat := rfl

theorem toNatLE_append (a b : Bytes) :
    toNatLE (a ++ b) = toNatLE a + 256 ^ a.length * toNatLE b := by
  induction a with
  | nil => simp [toNatLE_nil]
  | cons x a ih =>
    rw [List.cons_append, toNatLE_cons, toNatLE_cons, ih, List.length_cons, pow_succ]; ring

theorem toNatLE_lt (a : Bytes) : toNatLE a < 256 ^ a.length := by
  induction a with
  | nil => simp [toNatLE_nil]
  | cons x a ih =>
    rw [toNatLE_cons, List.length_cons, pow_succ]
    have := UInt8.toNat_lt x
    norm_num at this
    omega

theorem toNatLE_singleton (x : UInt8) : toNatLE [x] = x.toNat := by
  simp [toNatLE_cons, toNatLE_nil]

theorem ofNatLE_length (n x : Nat) : (ofNatLE n x).length = n := by
  induction n generalizing x with
  | zero => rfl
  | succ n ih => simp [ofNatLE, ih]

theorem toNatLE_ofNatLE (n x : Nat) : toNatLE (ofNatLE n x) = x % 256 ^ n := by
  induction n generalizing x with
  | zero => simp [ofNatLE, toNatLE_nil, Nat.mod_one]
  | succ n ih =>
    rw [ofNatLE, toNatLE_cons, ih, UInt8.toNat_ofNat']
    have h1 : x % 256 % 2 ^ 8 = x % 256 := by norm_num
    have h2 : x % 256 ^ (n + 1) = (x / 256 % 256 ^ n) * 256 + x % 256 := by
      rw [pow_succ, Nat.mul_comm (256 ^ n) 256, Nat.mod_mul, Nat.mul_comm, Nat.add_comm]
    rw [h1, h2]

/-- a string of length `n+1` splits into its first `n` bytes and its last byte -/
theorem split_last (b : Bytes) (n : Nat) (h : b.length = n + 1) :
    b = b.take n ++ [b.getD n 0] := by
  have hn : n < b.length := by omega
  conv_lhs => rw [← List.take_append_drop n b, List.drop_eq_getElem_cons hn]
  have hd : List.drop (n + 1) b = [] := List.drop_eq_nil_of_le (by omega)
  rw [hd, List.getD_eq_getElem?_getD, List.getElem?_eq_getElem hn]; rfl

theorem set_last (b : Bytes) (n : Nat) (h : b.length = n + 1) (x : UInt8) :
    b.set n x = b.take n ++ [x] := by
  have hn : n < b.length := by omega
  rw [List.set_eq_take_append_cons_drop, if_pos hn, List.drop_eq_nil_of_le (by omega)]

theorem toNatLE_split (b : Bytes) (n : Nat) (h : b.length = n + 1) :
    toNatLE b = toNatLE (b.take n) + 256 ^ n * (b.getD n 0).toNat := by
  conv_lhs => rw [split_last b n h]
  rw [toNatLE_append, toNatLE_singleton, List.length_take, Nat.min_eq_left (by omega)]

theorem toNatLE_set_last (b : Bytes) (n : Nat) (h : b.length = n + 1) (x : UInt8) :
    toNatLE (b.set n x) = toNatLE (b.take n) + 256 ^ n * x.toNat := by
  rw [set_last b n h, toNatLE_append, toNatLE_singleton, List.length_take, Nat.min_eq_left (by omega)]

theorem toNatLE_take_lt (b : Bytes) (n : Nat) (h : n ≤ b.length) : toNatLE (b.take n) < 256 ^ n := by
  have := toNatLE_lt (b.take n)
  rwa [List.length_take, Nat.min_eq_left h] at this

/-- last byte of the `n+1`-byte encoding -/
theorem ofNatLE_getD_last (n x : Nat) :
    ((ofNatLE (n + 1) x).getD n 0).toNat = x / 256 ^ n % 256 := by
  induction n generalizing x with
  | zero => simp [ofNatLE]
  | succ n ih =>
    rw [ofNatLE, List.getD_cons_succ, ih, pow_succ, Nat.div_div_eq_div_mul, Nat.mul_comm]

/-- first byte of the encoding -/
theorem ofNatLE_getD_zero (n x : Nat) : ((ofNatLE (n + 1) x).getD 0 0).toNat = x % 256 := by
  simp [ofNatLE]

/-! ### byte masks -/

theorem and63 (x : UInt8) : (x &&& 63).toNat = x.toNat % 64 := by
  rw [UInt8.toNat_and]
  exact Nat.and_two_pow_sub_one_eq_mod x.toNat 6

theorem and1 (x : UInt8) : (x &&& 1).toNat = x.toNat % 2 := by
  rw [UInt8.toNat_and]
  exact Nat.and_one_is_mod x.toNat

/-- setting the two top bits from `t` and masking them away again -/
theorem or_c0_and63 (x t : UInt8) : ((x &&& 63) ||| (t &&& 0xc0)) &&& 63 = x &&& 63 := by
  apply UInt8.toNat_inj.mp
  simp only [UInt8.toNat_and, UInt8.toNat_or]
  rw [Nat.and_or_distrib_right, Nat.and_assoc, Nat.and_assoc]
  have h1 : UInt8.toNat 63 &&& UInt8.toNat 63 = UInt8.toNat 63 := by decide
  have h2 : UInt8.toNat 0xc0 &&& UInt8.toNat 63 = 0 := by decide
  rw [h1, h2, Nat.and_zero, Nat.or_zero]

/-- a byte `< 64` with the two top bits of `t` or-ed in: the top bits are `t`'s, the low six unchanged -/
theorem or_c0_top (x t : UInt8) (hx : x.toNat < 64) :
    (x ||| (t &&& 0xc0)) &&& 0xc0 = t &&& 0xc0 ∧ (x ||| (t &&& 0xc0)) &&& 63 = x := by
  have hx63 : x = x &&& 63 := by
    apply UInt8.toNat_inj.mp; rw [and63, Nat.mod_eq_of_lt hx]
  constructor
  · apply UInt8.toNat_inj.mp
    rw [hx63]
    simp only [UInt8.toNat_and, UInt8.toNat_or]
    rw [Nat.and_or_distrib_right, Nat.and_assoc, Nat.and_assoc]
    have h1 : UInt8.toNat 63 &&& UInt8.toNat 0xc0 = 0 := by decide
    have h2 : UInt8.toNat 0xc0 &&& UInt8.toNat 0xc0 = UInt8.toNat 0xc0 := by decide
    rw [h1, h2, Nat.and_zero, Nat.zero_or]
  · conv_lhs => rw [hx63]
    rw [or_c0_and63]; exact hx63.symm

end O4.BytesLE
