import O4.Model.TermMon
/-! Helper lemmas about the `termMonitor.wait` model (core only). -/
namespace O4.TermMon

@[simp] theorem bump_count (r : Res) : r.bump.count = r.count := by cases r <;> rfl

theorem bump_consumed (r : Res) (total : Nat) :
    r.bump.consumed (total + 1) = r.consumed total + 1 := by cases r <;> rfl

/-- the history consists of handler events only -/
def Handlers (evs : List Ev) : Prop := ∀ e ∈ evs, ∃ δ, e = .h δ

theorem delta_append (a b : List Ev) : delta (a ++ b) = delta a + delta b := by
  induction a with
  | nil => simp [delta]
  | cons e a ih => cases e <;> simp [delta, ih] <;> omega

/-- the count after `wait` is the initial count plus the deltas of the events it received -/
theorem count_delta (fixed flag : Bool) (n : Int) (evs : List Ev) :
    (wait fixed flag n evs).count
      = n + delta (evs.take ((wait fixed flag n evs).consumed evs.length)) := by
  induction evs generalizing n with
  | nil => unfold wait; split <;> simp [Res.count, Res.consumed, delta]
  | cons e rest ih =>
    unfold wait
    split
    · simp [Res.count, Res.consumed, delta]
    · cases e with
      | sig s => simp [Res.count, Res.consumed, delta]
      | h δ =>
        simp only
        split
        · simp [Res.count, Res.consumed, delta]
        · rw [bump_count, List.length_cons, bump_consumed, List.take_succ_cons, ih]
          simp only [delta]; omega

theorem wait_noflag (fixed : Bool) (n : Int) (pre : List Ev) (s : Sig) (post : List Ev)
    (hp : Handlers pre) :
    wait fixed false n (pre ++ .sig s :: post) = .returned s (pre.length + 1) (n + delta pre) := by
  induction pre generalizing n with
  | nil => simp [wait, delta]
  | cons e pre ih =>
    obtain ⟨δ, rfl⟩ := hp e (by simp)
    have hp' : Handlers pre := fun e he => hp e (by simp [he])
    simp only [List.cons_append, wait, Bool.and_false, Bool.false_and, Bool.false_eq_true, ↓reduceIte]
    rw [ih _ hp']
    simp only [Res.bump, delta, List.length_cons]
    congr 1; omega

theorem wait_noflag_blocked (fixed : Bool) (n : Int) (pre : List Ev) (hp : Handlers pre) :
    wait fixed false n pre = .blocked (n + delta pre) := by
  induction pre generalizing n with
  | nil => simp [wait, delta]
  | cons e pre ih =>
    obtain ⟨δ, rfl⟩ := hp e (by simp)
    have hp' : Handlers pre := fun e he => hp e (by simp [he])
    simp only [wait, Bool.and_false, Bool.false_and, Bool.false_eq_true, ↓reduceIte]
    rw [ih _ hp']
    simp only [Res.bump, delta]
    congr 1; omega

/-- the repaired loop returns exactly when the running count first reaches zero -/
theorem wait_fixed_zero (n : Int) (pre post : List Ev) (hp : Handlers pre)
    (hz : n + delta pre = 0) (hnz : ∀ k, k < pre.length → n + delta (pre.take k) ≠ 0) :
    wait true true n (pre ++ post) = .returned .term pre.length 0 := by
  induction pre generalizing n with
  | nil =>
    have : n = 0 := by simpa [delta] using hz
    subst this
    cases post <;> simp [wait]
  | cons e pre ih =>
    obtain ⟨δ, rfl⟩ := hp e (by simp)
    have hp' : Handlers pre := fun e he => hp e (by simp [he])
    have hn : n ≠ 0 := by simpa [delta] using hnz 0 (by simp)
    have hrec := ih (n + δ) hp' (by simp only [delta] at hz; omega) (by
      intro k hk
      have := hnz (k + 1) (by simp; omega)
      simp only [List.take_succ_cons, delta] at this
      omega)
    simp only [List.cons_append, wait, Bool.and_self, Bool.true_and, beq_iff_eq, hn, ↓reduceIte,
      Bool.not_true, Bool.false_and, Bool.false_eq_true, hrec, Res.bump, List.length_cons]

theorem wait_fixed_never_idle (n : Int) (evs : List Ev) (m : Int)
    (h : wait true true n evs = .blocked m) : m ≠ 0 := by
  induction evs generalizing n with
  | nil =>
    unfold wait at h
    split at h
    · cases h
    · next hc => cases h; simpa using hc
  | cons e rest ih =>
    unfold wait at h
    split at h
    · cases h
    · cases e with
      | sig s => cases h
      | h δ =>
        simp only [Bool.not_true, Bool.false_and, Bool.false_eq_true, ↓reduceIte] at h
        cases hr : wait true true (n + δ) rest with
        | returned s k c => rw [hr] at h; cases h
        | blocked c =>
          rw [hr] at h; simp only [Res.bump] at h
          cases h
          exact ih _ hr

/-- the repair changes nothing except the behaviour at an idle start -/
theorem wait_fix_conservative (flag : Bool) (n : Int) (evs : List Ev)
    (h : ¬(flag = true ∧ n = 0)) : wait false flag n evs = wait true flag n evs := by
  induction evs generalizing n with
  | nil =>
    unfold wait
    cases flag <;> simp_all
  | cons e rest ih =>
    unfold wait
    cases flag with
    | false =>
      cases e with
      | sig s => simp
      | h δ => simp; rw [ih (n + δ) (by simp)]
    | true =>
      have hn : n ≠ 0 := by simpa using h
      cases e with
      | sig s => simp [hn]
      | h δ =>
        by_cases hz : n + δ = 0
        · simp only [hn, hz, Bool.not_false, Bool.and_self, Bool.true_and, beq_iff_eq, ↓reduceIte,
            Bool.not_true, Bool.false_and, Bool.false_eq_true, BEq.rfl]
          cases rest <;> simp [wait, Res.bump]
        · simp only [hn, hz, Bool.not_false, Bool.and_self, Bool.true_and, beq_iff_eq, ↓reduceIte,
            Bool.not_true, Bool.false_and, Bool.false_eq_true]
          rw [ih (n + δ) (by simp [hz])]

end O4.TermMon
