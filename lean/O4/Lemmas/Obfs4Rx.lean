import O4.Lemmas.Framing
import O4.Model.Obfs4Session
/-!
# obfs4 data phase, receive side: step-level invariants of `processBuffer`, `readPackets`,
`read`, `session` (core only).  Plain inductions on fuel / lists.
-/
set_option autoImplicit false
namespace O4.Obfs4
open O4.Consts.Obfs4 O4.Framing

/-- The receive-side invariant relative to the packet list `sent` the honest peer sealed
    (nonce `i+1` for `sent[i]`): the decoder has accepted `k ≤ |sent|` frames, and what was
    handed to the application so far (`delivered`) followed by what waits in
    `receiveDecodedBuffer` is exactly the payload of the first `k` sent packets. -/
def RxInv (srv : Bool) (sent : List Bytes) (delivered : Bytes) (rx : Rx) : Prop :=
  rx.dec.k ≤ sent.length ∧
    delivered ++ rx.decoded = (sent.take rx.dec.k).flatMap (payloadOf srv)

/-! ## `Rx.apply` -/

theorem apply_dec (rx : Rx) (o : RxOut) : (rx.apply o).dec = rx.dec := by
  unfold Rx.apply; split <;> rfl

theorem apply_rxBuf (rx : Rx) (o : RxOut) : (rx.apply o).rxBuf = rx.rxBuf := by
  unfold Rx.apply; split <;> rfl

theorem apply_err (rx : Rx) (e : RxErr) : rx.apply (.err e) = rx := rfl

theorem apply_frame_decoded (srv : Bool) (rx : Rx) (pkt : Bytes) :
    (rx.apply (liftOut srv (.frame pkt))).decoded = rx.decoded ++ payloadOf srv pkt := by
  cases h : parsePacket srv pkt <;> simp [Rx.apply, liftOut, payloadOf, h]

theorem apply_frame_err_decoded (rx : Rx) (e : Framing.Err) (srv : Bool) :
    (rx.apply (liftOut srv (.err e))).decoded = rx.decoded := rfl

theorem foldl_apply_nil (rx : Rx) : ([] : List RxOut).foldl Rx.apply rx = rx := rfl

/-! ## `sentFn` -/

theorem sentFn_succ (sent : List Bytes) (k : Nat) : sentFn sent (k + 1) = sent[k]? := by
  simp [sentFn]

theorem sentFn_take (sent : List Bytes) (k : Nat) (pkt : Bytes)
    (h : sentFn sent (k + 1) = some pkt) :
    k + 1 ≤ sent.length ∧ sent.take (k + 1) = sent.take k ++ [pkt] := by
  rw [sentFn_succ] at h
  obtain ⟨hlt, hget⟩ := List.getElem?_eq_some_iff.mp h
  refine ⟨hlt, ?_⟩
  rw [List.take_add_one, h]
  rfl

/-! ## the invariant is preserved -/

theorem RxInv.of_eq {srv : Bool} {sent : List Bytes} {d : Bytes} {rx rx' : Rx}
    (hi : RxInv srv sent d rx) (hk : rx'.dec.k = rx.dec.k) (hd : rx'.decoded = rx.decoded) :
    RxInv srv sent d rx' := by
  unfold RxInv at *
  rw [hk, hd]; exact hi

/-- delivered bytes are a prefix of the sent payload -/
theorem RxInv.isPrefix {srv : Bool} {sent : List Bytes} {d : Bytes} {rx : Rx}
    (hi : RxInv srv sent d rx) : d <+: sent.flatMap (payloadOf srv) := by
  obtain ⟨_, h⟩ := hi
  refine ⟨rx.decoded ++ (sent.drop rx.dec.k).flatMap (payloadOf srv), ?_⟩
  rw [← List.append_assoc, h, ← List.flatMap_append, List.take_append_drop]

theorem RxInv.init (srv : Bool) (sent : List Bytes) : RxInv srv sent [] Rx.init := by
  simp [RxInv, Rx.init, Dec.init]

/-- one decoder phase plus packet handling preserves the invariant -/
theorem rxStep_inv (c : Crypto) (sent : List Bytes) (ha : BoxAuth c (sentFn sent)) (srv : Bool)
    (dl : Bytes) (rx : Rx) (d : Dec) (outs : List RxOut) (n : Nat)
    (h : rxStep c srv rx.dec rx.rxBuf = some (d, outs, n)) (hi : RxInv srv sent dl rx) :
    RxInv srv sent dl (outs.foldl Rx.apply { rx with dec := d, rxBuf := rx.rxBuf.drop n }) := by
  unfold rxStep at h
  cases hs : Framing.step c rx.dec rx.rxBuf with
  | none => rw [hs] at h; cases h
  | some r =>
    obtain ⟨s', o, m⟩ := r
    rw [hs] at h
    simp only [Option.some.injEq, Prod.mk.injEq] at h
    obtain ⟨rfl, rfl, rfl⟩ := h
    rcases step_emits_honest c (sentFn sent) ha rx.dec rx.rxBuf s' o m hs with
      ⟨rfl, hk⟩ | ⟨e, rfl, rfl⟩ | ⟨pkt, rfl, hsent, hk, _⟩
    · exact hi.of_eq hk rfl
    · exact hi.of_eq rfl rfl
    · obtain ⟨hle, htake⟩ := sentFn_take sent rx.dec.k pkt hsent
      obtain ⟨_, hd⟩ := hi
      simp only [List.map_cons, List.map_nil, List.foldl_cons, List.foldl_nil]
      unfold RxInv
      rw [apply_dec, apply_frame_decoded]
      simp only
      rw [hk, htake, List.flatMap_append, ← hd]
      refine ⟨hle, ?_⟩
      simp

theorem processBuffer_inv (c : Crypto) (sent : List Bytes) (ha : BoxAuth c (sentFn sent))
    (srv : Bool) (dl : Bytes) (fuel : Nat) (rx : Rx) (hi : RxInv srv sent dl rx) :
    RxInv srv sent dl (processBuffer c srv fuel rx).1 := by
  induction fuel generalizing rx with
  | zero => exact hi
  | succ fuel ih =>
    unfold processBuffer
    cases hs : rxStep c srv rx.dec rx.rxBuf with
    | none => exact hi
    | some r =>
      obtain ⟨d, outs, n⟩ := r
      have h1 := rxStep_inv c sent ha srv dl rx d outs n hs hi
      simp only
      cases outs.findSome? isErr with
      | some e => exact h1
      | none => exact ih _ h1

theorem readPackets_inv (c : Crypto) (sent : List Bytes) (ha : BoxAuth c (sentFn sent))
    (srv : Bool) (dl : Bytes) (rx : Rx) (ev : NetEv) (hi : RxInv srv sent dl rx) :
    RxInv srv sent dl (readPackets c srv rx ev).1 := by
  cases ev with
  | data chunk =>
    exact processBuffer_inv c sent ha srv dl _ _ (hi.of_eq rfl rfl)
  | fail chunk cls =>
    have := processBuffer_inv c sent ha srv dl (procFuel { rx with rxBuf := rx.rxBuf ++ chunk })
      { rx with rxBuf := rx.rxBuf ++ chunk } (hi.of_eq rfl rfl)
    exact this

private theorem drain_inv {srv : Bool} {sent : List Bytes} {dl : Bytes} {rx : Rx} (n : Nat)
    (hi : RxInv srv sent dl rx) :
    RxInv srv sent (dl ++ rx.decoded.take n) { rx with decoded := rx.decoded.drop n } := by
  obtain ⟨hk, hd⟩ := hi
  refine ⟨hk, ?_⟩
  simp only [List.append_assoc, List.take_append_drop]
  exact hd

/-- what a `Read` result says about the invariant: the returned bytes move from the decoded
    buffer to the delivered stream -/
def ReadInv (srv : Bool) (sent : List Bytes) (dl : Bytes) : ReadResult → Prop
  | .ret rx' bytes _ _ => RxInv srv sent (dl ++ bytes) rx'
  | .blocked rx' => RxInv srv sent dl rx'

theorem read_inv (c : Crypto) (sent : List Bytes) (ha : BoxAuth c (sentFn sent))
    (srv : Bool) (n : Nat) (dl : Bytes) (rx : Rx) (evs : List NetEv) (hi : RxInv srv sent dl rx) :
    ReadInv srv sent dl (read c srv n rx evs) := by
  induction evs generalizing rx with
  | nil =>
    unfold read
    by_cases hd : rx.decoded.length > 0
    · rw [if_pos hd]; exact drain_inv n hi
    · rw [if_neg hd]; exact hi
  | cons ev rest ih =>
    unfold read
    by_cases hd : rx.decoded.length > 0
    · rw [if_pos hd]; exact drain_inv n hi
    · rw [if_neg hd]
      have h1 := readPackets_inv c sent ha srv dl rx ev hi
      dsimp only
      cases hr : readPackets c srv rx ev with
      | mk rx1 err =>
        rw [hr] at h1
        dsimp only at h1 ⊢
        cases err with
        | some e => exact drain_inv n h1
        | none => exact ih rx1 h1

theorem session_inv (c : Crypto) (sent : List Bytes) (ha : BoxAuth c (sentFn sent))
    (srv : Bool) (ns : List Nat) (dl : Bytes) (rx : Rx) (evs : List NetEv)
    (hi : RxInv srv sent dl rx) :
    RxInv srv sent (dl ++ (session c srv ns rx evs).1) (session c srv ns rx evs).2.2.1 := by
  induction ns generalizing dl rx evs with
  | nil => simpa [session] using hi
  | cons n ns ih =>
    unfold session
    have h1 := read_inv c sent ha srv n dl rx evs hi
    cases hr : read c srv n rx evs with
    | blocked rx' =>
      rw [hr] at h1
      simpa [ReadInv] using h1
    | ret rx' bytes err rest =>
      rw [hr] at h1
      have h2 := ih (dl ++ bytes) rx' rest h1
      simpa [List.append_assoc] using h2

theorem sessionUntilErr_inv (c : Crypto) (sent : List Bytes) (ha : BoxAuth c (sentFn sent))
    (srv : Bool) (ns : List Nat) (dl : Bytes) (rx : Rx) (evs : List NetEv)
    (hi : RxInv srv sent dl rx) :
    RxInv srv sent (dl ++ (sessionUntilErr c srv ns rx evs).1)
      (sessionUntilErr c srv ns rx evs).2.2.1 := by
  induction ns generalizing dl rx evs with
  | nil => simpa [sessionUntilErr] using hi
  | cons n ns ih =>
    unfold sessionUntilErr
    have h1 := read_inv c sent ha srv n dl rx evs hi
    cases hr : read c srv n rx evs with
    | blocked rx' =>
      rw [hr] at h1
      simpa [ReadInv] using h1
    | ret rx' bytes err rest =>
      rw [hr] at h1
      cases err with
      | some e => simpa [ReadInv] using h1
      | none =>
        have h2 := ih (dl ++ bytes) rx' rest h1
        simpa [List.append_assoc] using h2

/-- the state in which the client's first `Read` finds the receive side satisfies the invariant,
    whatever bytes followed the server's handshake response, before and after the F1 repair -/
theorem clientStart_inv (c : Crypto) (sent : List Bytes) (ha : BoxAuth c (sentFn sent))
    (fixed : Bool) (surplus : Bytes) :
    RxInv false sent [] (clientStart c fixed surplus).1 := by
  unfold clientStart
  have h0 : RxInv false sent [] { Rx.init with rxBuf := surplus } :=
    (RxInv.init false sent).of_eq rfl rfl
  cases fixed with
  | false => exact h0
  | true => exact processBuffer_inv c sent ha false [] _ _ h0

/-! ## the first bad frame stops the buffer loop with an error -/

/-- connection level of `Framing.bad_box_errors`: once the buffered bytes for the pending frame
    are not the honest box of that nonce (or its length field was out of range), the buffer loop
    reports `tagMismatch` at once: nothing of that frame or any later one is decoded in that
    call, the decoder state (frame counter, pending length) does not move. -/
theorem bad_frame_stops (c : Crypto) (sent : List Bytes) (ha : BoxAuth c (sentFn sent))
    (srv : Bool) (rx : Rx) (len : Nat) (inv : Bool)
    (hp : rx.dec.pending = some (len, inv)) (hl : len ≤ rx.rxBuf.length)
    (hbad : inv = true ∨ ∀ pkt, sentFn sent (rx.dec.k + 1) = some pkt →
      rx.rxBuf.take len ≠ c.sealB (rx.dec.k + 1) pkt)
    (fuel : Nat) (hf : 0 < fuel) :
    processBuffer c srv fuel rx
      = ({ rx with rxBuf := rx.rxBuf.drop len }, some (.frame .tagMismatch)) := by
  obtain ⟨fuel, rfl⟩ : ∃ f, fuel = f + 1 := ⟨fuel - 1, by omega⟩
  have hs := bad_box_errors c (sentFn sent) ha rx.dec len inv rx.rxBuf hp hl hbad
  unfold processBuffer rxStep
  rw [hs]
  rfl

/-- after the error the decoder state is what it was: the next box is again checked against
    the same nonce `k+1` (and a pending invalid length stays pending) -/
theorem error_sticky (c : Crypto) (sent : List Bytes) (ha : BoxAuth c (sentFn sent))
    (srv : Bool) (rx : Rx) (len : Nat) (inv : Bool)
    (hp : rx.dec.pending = some (len, inv)) (hl : len ≤ rx.rxBuf.length)
    (hbad : inv = true ∨ ∀ pkt, sentFn sent (rx.dec.k + 1) = some pkt →
      rx.rxBuf.take len ≠ c.sealB (rx.dec.k + 1) pkt)
    (fuel : Nat) (hf : 0 < fuel) :
    (processBuffer c srv fuel rx).1.dec = rx.dec ∧
    (processBuffer c srv fuel rx).1.decoded = rx.decoded ∧
    (processBuffer c srv fuel rx).1.seeds = rx.seeds := by
  rw [bad_frame_stops c sent ha srv rx len inv hp hl hbad fuel hf]
  exact ⟨rfl, rfl, rfl⟩

/-- a frame whose deobfuscated length is out of range poisons the decoder for good: whatever
    arrives afterwards, no buffer loop ever decodes anything again (no `BoxAuth` needed) -/
theorem invalid_length_never_delivers (c : Crypto) (srv : Bool) (rx : Rx) (len : Nat)
    (hp : rx.dec.pending = some (len, true)) (fuel : Nat) :
    (processBuffer c srv fuel rx).1.dec = rx.dec ∧
    (processBuffer c srv fuel rx).1.decoded = rx.decoded ∧
    ((processBuffer c srv fuel rx).2 = none ∨
      (processBuffer c srv fuel rx).2 = some (.frame .tagMismatch)) := by
  cases fuel with
  | zero => exact ⟨rfl, rfl, Or.inl rfl⟩
  | succ fuel =>
    unfold processBuffer rxStep Framing.step
    simp only [hp]
    by_cases hl : rx.rxBuf.length < len
    · simp [hl]
    · simp only [hl, ↓reduceIte]
      cases c.openB (rx.dec.k + 1) (rx.rxBuf.take len) <;> exact ⟨rfl, rfl, Or.inr rfl⟩

/-- an out-of-range length field: the length phase arms `nextLengthInvalid` with a random
    length, and as soon as that many bytes are buffered the box phase reports `tagMismatch`
    whatever the bytes are (no `BoxAuth` needed). -/
theorem bad_length_stops (c : Crypto) (srv : Bool) (rx : Rx)
    (hp : rx.dec.pending = none) (h2 : Consts.Framing.lengthLength ≤ rx.rxBuf.length)
    (hk : (rx.dec.k + 1) % ctrLimit ≠ 0)
    (hlen : Consts.Framing.maxFrameLength < (be16 rx.rxBuf ^^^ (c.mask rx.dec.k % 65536)) ∨
      (be16 rx.rxBuf ^^^ (c.mask rx.dec.k % 65536)) < Consts.Framing.minFrameLength)
    (hr : c.rnd rx.dec.k + Consts.Framing.lengthLength ≤ rx.rxBuf.length)
    (fuel : Nat) (hf : 2 ≤ fuel) :
    processBuffer c srv fuel rx
      = ({ rx with dec := { rx.dec with pending := some (c.rnd rx.dec.k, true) },
                   rxBuf := (rx.rxBuf.drop Consts.Framing.lengthLength).drop (c.rnd rx.dec.k) },
         some (.frame .tagMismatch)) := by
  obtain ⟨fuel, rfl⟩ : ∃ f, fuel = f + 1 + 1 := ⟨fuel - 2, by omega⟩
  have hs1 : Framing.step c rx.dec rx.rxBuf
      = some ({ rx.dec with pending := some (c.rnd rx.dec.k, true) }, [], Consts.Framing.lengthLength) := by
    unfold Framing.step
    simp only [hp]
    rw [if_neg (by omega), if_neg hk]
    exact if_pos hlen
  have hs2 : Framing.step c { rx.dec with pending := some (c.rnd rx.dec.k, true) }
      (rx.rxBuf.drop Consts.Framing.lengthLength)
      = some ({ rx.dec with pending := some (c.rnd rx.dec.k, true) }, [Out.err .tagMismatch],
          c.rnd rx.dec.k) := by
    unfold Framing.step
    simp only
    rw [if_neg (by simp only [List.length_drop]; omega)]
    cases c.openB (rx.dec.k + 1) ((rx.rxBuf.drop Consts.Framing.lengthLength).take (c.rnd rx.dec.k)) <;> rfl
  rw [processBuffer]
  unfold rxStep
  rw [hs1]
  simp only [List.map_nil, List.foldl_nil, List.findSome?_nil]
  rw [processBuffer]
  unfold rxStep
  simp only
  rw [hs2]
  rfl

/-! ## `parsePacket` never slices out of range -/

theorem parsePacket_short (srv : Bool) (pkt : Bytes) (h : pkt.length < packetOverhead) :
    parsePacket srv pkt = .bad (.invalidPacketLength pkt.length) := by
  unfold parsePacket
  rw [if_pos h]

theorem parsePacket_overlong (srv : Bool) (pkt : Bytes) (h : packetOverhead ≤ pkt.length)
    (hl : be16 (pkt.drop 1) > pkt.length - packetOverhead) :
    parsePacket srv pkt = .bad (.invalidPayloadLength (be16 (pkt.drop 1))) := by
  unfold parsePacket
  rw [if_neg (by omega)]
  simp only
  rw [if_pos hl]

/-- whatever the frame plaintext, the payload `parsePacket` yields is a sub-range of the packet
    (both range checks precede the slicing) -/
theorem parsePacket_total (srv : Bool) (pkt b : Bytes)
    (h : parsePacket srv pkt = .payload b ∨ parsePacket srv pkt = .seed b) :
    ∃ n, n ≤ pkt.length - packetOverhead ∧ b = (pkt.drop 3).take n ∧ b.length = n := by
  unfold parsePacket at h
  by_cases h1 : pkt.length < packetOverhead
  · rw [if_pos h1] at h
    rcases h with h | h <;> cases h
  · rw [if_neg h1] at h
    simp only at h
    by_cases h2 : be16 (pkt.drop 1) > pkt.length - packetOverhead
    · rw [if_pos h2] at h
      rcases h with h | h <;> cases h
    · rw [if_neg h2] at h
      have hlen : ((pkt.drop 3).take (be16 (pkt.drop 1))).length = be16 (pkt.drop 1) := by
        simp only [List.length_take, List.length_drop]
        simp only [packetOverhead] at h2
        omega
      have hb : b = (pkt.drop 3).take (be16 (pkt.drop 1)) := by
        rcases h with h | h
        · repeat' split at h
          all_goals first | cases h; rfl | cases h
        · repeat' split at h
          all_goals first | cases h; rfl | cases h
      exact ⟨be16 (pkt.drop 1), by omega, hb, by rw [hb]; exact hlen⟩

/-! ## non-vacuity: the ideal crypto satisfies `BoxAuth` -/

theorem idealCrypto_boxAuth (sent : List Bytes) : BoxAuth (idealCrypto sent) (sentFn sent) := by
  constructor
  intro n box pkt h
  simp only [idealCrypto] at h ⊢
  cases hs : sentFn sent n with
  | none => rw [hs] at h; cases h
  | some p =>
    rw [hs] at h
    simp only at h
    by_cases hb : box = toySeal n p
    · rw [if_pos hb] at h
      cases h
      exact ⟨rfl, hb⟩
    · rw [if_neg hb] at h; cases h

end O4.Obfs4
