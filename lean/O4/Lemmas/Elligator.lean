import O4.Lemmas.Field25519
import O4.Model.Crypto.Elligator
import O4.Lemmas.BytesLE
/-!
# Elligator 2: algebra over an arbitrary field, and the model's maps in `ZMod p`

1. Over any field in which 2 is not a square: the textbook direct map `specF`, the round trip
   `decode (encode u) = u` for both branches of the inverse map, in the form the code uses them.
2. The Monocypher-style computation of `elligator2.MontgomeryFlavor` (model `Ell2.montgomeryFlavor`)
   equals the textbook map (model `Ell2.specMap`) for every input — under `[Fact p.Prime]`.
3. The inverse map `Ell2.uToRepresentative`: when it succeeds / fails, and that decoding its output
   gives back `u` when `u` is the abscissa of a curve point.
-/
namespace O4.Crypto.Ell2
open F25519

/-! ## 1. abstract algebra -/

section abstract
variable {F : Type*} [Field F]

/-- the Montgomery curve polynomial `u³ + A u² + u` -/
def fF (A u : F) : F := u ^ 3 + A * u ^ 2 + u

open Classical in
/-- textbook Elligator 2 direct map with the non-square 2: `w = −A/(1+2r²)`, result `w` if
`w³+Aw²+w` is a square, `−w−A` otherwise -/
noncomputable def specF (A r : F) : F :=
  if IsSquare (fF A (-A / (1 + 2 * r ^ 2))) then -A / (1 + 2 * r ^ 2) else -(-A / (1 + 2 * r ^ 2)) - A

/-- branch "tweak bit 0 = 0": `r² = −u / (2(u+A))` gives the candidate `w = −(u+A)` -/
theorem ell2_case1 (A u r : F) (hA : A ≠ 0) (hr : r ^ 2 * (2 * (u + A)) = -u) :
    -A / (1 + 2 * r ^ 2) = -(u + A) := by
  have h1 : (1 + 2 * r ^ 2) * (u + A) = A := by linear_combination hr
  have h2 : 1 + 2 * r ^ 2 ≠ 0 := by
    intro h; rw [h, zero_mul] at h1; exact hA h1.symm
  rw [div_eq_iff h2]; linear_combination h1

/-- … whose curve polynomial is `f(u) / (2r²)` -/
theorem ell2_case1_f (A u r : F) (hr : r ^ 2 * (2 * (u + A)) = -u) :
    fF A (-(u + A)) * (2 * r ^ 2) = fF A u := by
  unfold fF; linear_combination (-(u ^ 2 + A * u + 1)) * hr

/-- branch "tweak bit 0 = 1": `r² = −(u+A) / (2u)` gives the candidate `w = u` -/
theorem ell2_case2 (A u r : F) (hA : A ≠ 0) (hr : r ^ 2 * (2 * u) = -(u + A)) :
    -A / (1 + 2 * r ^ 2) = u := by
  have h1 : (1 + 2 * r ^ 2) * u = -A := by linear_combination hr
  have h2 : 1 + 2 * r ^ 2 ≠ 0 := by
    intro h; rw [h, zero_mul] at h1; exact hA (by simpa using h1.symm)
  rw [div_eq_iff h2]; linear_combination (-1 : F) * h1

/-- **Round trip, algebraic core.** In a field where 2 is a non-square, if `u` is the abscissa of a
curve point with `f(u) ≠ 0` and `r` satisfies either of the two equations the inverse map solves,
the direct map sends `r` back to `u`. -/
theorem roundtrip_core (A u r : F) (h2 : ¬ IsSquare (2 : F)) (hA : A ≠ 0)
    (hf : IsSquare (fF A u)) (hf0 : fF A u ≠ 0)
    (hr : r ^ 2 * (2 * (u + A)) = -u ∨ r ^ 2 * (2 * u) = -(u + A)) :
    specF A r = u := by
  unfold specF
  rcases hr with hr | hr
  · rw [ell2_case1 A u r hA hr]
    have hns : ¬ IsSquare (fF A (-(u + A))) := by
      rintro ⟨s, hs⟩
      obtain ⟨t, ht⟩ := hf
      have hfw := ell2_case1_f A u r hr
      rw [hs, ht] at hfw
      have ht0 : t ≠ 0 := by rintro rfl; exact hf0 (by rw [ht]; ring)
      have hrs : r * s ≠ 0 := by
        intro h0
        have : t * t = 0 := by rw [← hfw]; linear_combination (2 * r * s) * h0
        exact ht0 (mul_self_eq_zero.mp this)
      apply h2
      refine ⟨t / (r * s), ?_⟩
      rw [div_mul_div_comm, eq_div_iff (mul_ne_zero hrs hrs)]
      linear_combination hfw
    rw [if_neg hns]; ring
  · rw [ell2_case2 A u r hA hr, if_pos hf]

/-- the Monocypher-style result on the square branch -/
theorem mono_square (A ρ σ : F) (hu0 : 1 + 2 * ρ ^ 2 ≠ 0)
    (hσ : σ ^ 2 * ((1 + 2 * ρ ^ 2) ^ 2 * (1 + 2 * ρ ^ 2) * ((A ^ 2 * (2 * ρ ^ 2) - (1 + 2 * ρ ^ 2) ^ 2) * A)) = 1) :
    1 * -A * ((A ^ 2 * (2 * ρ ^ 2) - (1 + 2 * ρ ^ 2) ^ 2) * A) * (1 + 2 * ρ ^ 2) ^ 2 * σ ^ 2
      = -A / (1 + 2 * ρ ^ 2) := by
  rw [eq_div_iff hu0]; linear_combination (-A) * hσ

/-- the Monocypher-style result on the non-square branch (`i² = −1`, `U_FACTOR = −2i`) -/
theorem mono_nonsquare (A ρ σ i : F) (hi : i ^ 2 = -1) (hu0 : 1 + 2 * ρ ^ 2 ≠ 0)
    (hσ : σ ^ 2 * ((1 + 2 * ρ ^ 2) ^ 2 * (1 + 2 * ρ ^ 2) * ((A ^ 2 * (2 * ρ ^ 2) - (1 + 2 * ρ ^ 2) ^ 2) * A)) = i) :
    ρ ^ 2 * (-2 * i) * -A * ((A ^ 2 * (2 * ρ ^ 2) - (1 + 2 * ρ ^ 2) ^ 2) * A) * (1 + 2 * ρ ^ 2) ^ 2 * σ ^ 2
      = -(-A / (1 + 2 * ρ ^ 2)) - A := by
  rw [neg_div, neg_neg, eq_sub_iff_add_eq, eq_div_iff hu0]
  linear_combination (2 * i * A * ρ ^ 2) * hσ + (2 * A * ρ ^ 2) * hi

/-- `f(−A/(1+2ρ²)) · (1+2ρ²)³ = (A²·2ρ² − (1+2ρ²)²)·A`: the sign of the code's `t3` decides the branch -/
theorem f_of_w (A ρ : F) (hu0 : 1 + 2 * ρ ^ 2 ≠ 0) :
    fF A (-A / (1 + 2 * ρ ^ 2)) * (1 + 2 * ρ ^ 2) ^ 3 = (A ^ 2 * (2 * ρ ^ 2) - (1 + 2 * ρ ^ 2) ^ 2) * A := by
  unfold fF; field_simp; ring

/-- a non-zero square factor does not change squareness -/
theorem isSquare_sq_mul {a b : F} (ha : a ≠ 0) : IsSquare (a ^ 2 * b) ↔ IsSquare b := by
  constructor
  · rintro ⟨s, hs⟩
    refine ⟨s / a, ?_⟩
    rw [div_mul_div_comm, eq_div_iff (mul_ne_zero ha ha)]
    linear_combination hs
  · rintro ⟨s, hs⟩
    exact ⟨a * s, by rw [hs]; ring⟩

end abstract

/-! ## bytes and signs (no primality needed) -/

section bytes

theorem specMap_lt (r : Nat) : specMap r < p := by
  unfold specMap; simp only []; split
  · exact sub_lt _ _
  · exact mul_lt _ _

theorem toBytes_length (a : Nat) : (toBytes a).length = 32 := BytesLE.ofNatLE_length _ _

theorem p_lt : p < 2 ^ 255 := by decide +kernel

theorem ofBytes_toBytes (a : Nat) : ofBytes (toBytes a) = a % p := by
  unfold ofBytes toBytes
  rw [BytesLE.toNatLE_ofNatLE]
  have h1 : a % p < p := Nat.mod_lt _ p_pos
  have h2 : a % p < 256 ^ 32 := lt_trans h1 (by decide +kernel)
  rw [Nat.mod_eq_of_lt h2, Nat.mod_eq_of_lt (lt_trans h1 p_lt), Nat.mod_mod]

/-- `clamped[31] &= 63` then `SetBytes`: the number formed by the low 254 bits, reduced mod p -/
theorem ofBytes_mask (b : Bytes) (h : b.length = 32) :
    ofBytes (maskRepresentative b) = (Bytes.toNatLE b % 2 ^ 254) % p := by
  unfold ofBytes maskRepresentative
  rw [List.take_of_length_le (by omega)]
  rw [BytesLE.toNatLE_set_last b 31 h, BytesLE.and63]
  have hs := BytesLE.toNatLE_split b 31 h
  have hlo := BytesLE.toNatLE_take_lt b 31 (by omega)
  have hc := UInt8.toNat_lt (b.getD 31 0)
  generalize Bytes.toNatLE (List.take 31 b) = lo at *
  generalize (b.getD 31 0).toNat = c at *
  rw [hs]
  have e1 : (256 : Nat) ^ 31 = 2 ^ 248 := by norm_num
  rw [e1] at *
  have : (lo + 2 ^ 248 * c) % 2 ^ 254 = lo + 2 ^ 248 * (c % 64) := by omega
  rw [this]
  have : (lo + 2 ^ 248 * (c % 64)) % 2 ^ 255 = lo + 2 ^ 248 * (c % 64) := by omega
  rw [this]

/-- canonical sign: of `y` and `−y` the code keeps the one whose double is even mod p, i.e. the one
`≤ (p−1)/2` -/
theorem sign_norm (y : Nat) (hy : y < p) :
    select (neg y) y ((mul y 2) % 2) ≤ (p - 1) / 2 ∧
    (φ (select (neg y) y ((mul y 2) % 2)) = φ y ∨ φ (select (neg y) y ((mul y 2) % 2)) = - φ y) := by
  have hp2 : p % 2 = 1 := by decide +kernel
  have hpos := p_pos
  unfold select mul
  by_cases h : y * 2 < p
  · rw [Nat.mod_eq_of_lt h]
    have : y * 2 % 2 = 0 := by omega
    rw [this, if_neg (by decide)]
    exact ⟨by omega, Or.inl rfl⟩
  · have h1 : y * 2 % p = y * 2 - p := by
      rw [Nat.mod_eq_sub_mod (by omega), Nat.mod_eq_of_lt (by omega)]
    rw [h1]
    have : (y * 2 - p) % 2 = 1 := by omega
    rw [this, if_pos rfl]
    refine ⟨?_, Or.inr (φ_neg y)⟩
    unfold neg
    rw [Nat.mod_eq_of_lt hy, Nat.mod_eq_of_lt (by omega)]
    omega

/-- the field element `uToRepresentative` tests for squareness: `u·(u+A)·(−2)` -/
def xOf (u : Nat) : Nat := mul (mul (red u) (add (red u) feA)) feNegTwo
/-- the root before sign normalisation: `(u or u+A) · sqrt(1/x)` -/
def yOf (u : Nat) (tweak : UInt8) : Nat :=
  mul (select (add (red u) feA) (red u) (tweak &&& 1).toNat) (sqrtRatio 1 (xOf u)).1
/-- the canonical-sign root -/
def tOf (u : Nat) (tweak : UInt8) : Nat :=
  select (neg (yOf u tweak)) (yOf u tweak) ((toBytes (mul (yOf u tweak) 2)).getD 0 0 &&& 1).toNat
/-- the 32-byte encoding with the tweak's two top bits -/
def encOf (t : Nat) (tweak : UInt8) : Bytes :=
  (toBytes t).set 31 ((toBytes t).getD 31 0 ||| (tweak &&& 0xc0))

/-- `uToRepresentative` in one line -/
theorem uToRepresentative_def (u : Nat) (tweak : UInt8) :
    uToRepresentative u tweak =
      if (sqrtRatio 1 (xOf u)).2 = 1 then some (encOf (tOf u tweak) tweak) else none := rfl

theorem tOf_sign (u : Nat) (tweak : UInt8) :
    tOf u tweak ≤ (p - 1) / 2 ∧
    (φ (tOf u tweak) = φ (yOf u tweak) ∨ φ (tOf u tweak) = - φ (yOf u tweak)) := by
  have hbit : ((toBytes (mul (yOf u tweak) 2)).getD 0 0 &&& 1).toNat = (mul (yOf u tweak) 2) % 2 := by
    rw [BytesLE.and1]; unfold toBytes
    rw [BytesLE.ofNatLE_getD_zero, Nat.mod_eq_of_lt (mul_lt _ _)]
    omega
  have hylt : yOf u tweak < p := mul_lt _ _
  have := sign_norm (yOf u tweak) hylt
  rw [← hbit] at this
  exact this

/-- byte 31 of the encoding of a value `≤ (p−1)/2` has its two top bits clear -/
theorem toBytes_top_lt (t : Nat) (ht : t ≤ (p - 1) / 2) : ((toBytes t).getD 31 0).toNat < 64 := by
  unfold toBytes
  rw [BytesLE.ofNatLE_getD_last]
  have h1 : (p - 1) / 2 < 2 ^ 254 := by decide +kernel
  have h2 : t < p := lt_of_le_of_lt ht (by decide +kernel)
  rw [Nat.mod_eq_of_lt h2]
  have e1 : (256 : Nat) ^ 31 = 2 ^ 248 := by norm_num
  rw [e1]
  omega

/-- the encoder's output: 32 bytes, top two bits = the tweak's, low 254 bits = `t` -/
theorem encOf_spec (t : Nat) (tweak : UInt8) (ht : t ≤ (p - 1) / 2) :
    (encOf t tweak).length = 32 ∧
    (encOf t tweak).getD 31 0 &&& 0xc0 = tweak &&& 0xc0 ∧
    Bytes.toNatLE (encOf t tweak) % 2 ^ 254 = t := by
  have hlen : (toBytes t).length = 32 := toBytes_length t
  have hb := toBytes_top_lt t ht
  obtain ⟨htop, hlow⟩ := BytesLE.or_c0_top ((toBytes t).getD 31 0) tweak hb
  have hget : (encOf t tweak).getD 31 0 = (toBytes t).getD 31 0 ||| (tweak &&& 0xc0) := by
    unfold encOf
    rw [List.getD_eq_getElem?_getD, List.getElem?_set, if_pos rfl, if_pos (by omega)]; rfl
  refine ⟨by unfold encOf; rw [List.length_set, hlen], by rw [hget, htop], ?_⟩
  unfold encOf
  rw [BytesLE.toNatLE_set_last _ 31 hlen]
  have ht' : t = Bytes.toNatLE (toBytes t) := by
    unfold toBytes; rw [BytesLE.toNatLE_ofNatLE]
    have h2 : t < p := lt_of_le_of_lt ht (by decide +kernel)
    rw [Nat.mod_eq_of_lt h2, Nat.mod_eq_of_lt (lt_trans h2 (by decide +kernel))]
  have hs := BytesLE.toNatLE_split (toBytes t) 31 hlen
  have hlo := BytesLE.toNatLE_take_lt (toBytes t) 31 (by omega)
  have hm : ((toBytes t).getD 31 0 ||| (tweak &&& 0xc0)).toNat % 64 = ((toBytes t).getD 31 0).toNat := by
    rw [← BytesLE.and63, hlow]
  have hc := UInt8.toNat_lt ((toBytes t).getD 31 0 ||| (tweak &&& 0xc0))
  rw [← ht'] at hs
  generalize Bytes.toNatLE (List.take 31 (toBytes t)) = lo at *
  generalize ((toBytes t).getD 31 0 ||| (tweak &&& 0xc0)).toNat = c at *
  generalize ((toBytes t).getD 31 0).toNat = b at *
  have e1 : (256 : Nat) ^ 31 = 2 ^ 248 := by norm_num
  rw [e1] at *
  omega

/-- the inverse map's output has the stated shape (no primality needed) -/
theorem uToRepresentative_shape (u : Nat) (tweak : UInt8) (repr : Bytes)
    (h : uToRepresentative u tweak = some repr) :
    repr = encOf (tOf u tweak) tweak ∧ (sqrtRatio 1 (xOf u)).2 = 1 := by
  rw [uToRepresentative_def] at h
  by_cases hs : (sqrtRatio 1 (xOf u)).2 = 1
  · rw [if_pos hs] at h; exact ⟨(Option.some.inj h).symm, hs⟩
  · rw [if_neg hs] at h; exact absurd h (by simp)

/-- `ScalarBaseMult` succeeds exactly when the dirty u-coordinate has a representative -/
theorem scalarBaseMult_some (priv : Bytes) (tweak : UInt8) (pub repr : Bytes) :
    scalarBaseMultDirty priv tweak = some (pub, repr) ↔
      ∃ u, scalarBaseMultDirtyU priv = some u ∧ uToRepresentative u tweak = some repr ∧ pub = toBytes u := by
  unfold scalarBaseMultDirty Ell2.scalarBaseMult
  rw [Option.bind_eq_some_iff]
  constructor
  · rintro ⟨u, hu, h⟩
    rw [Option.map_eq_some_iff] at h
    obtain ⟨rep, hr, h'⟩ := h
    have h1 : toBytes u = pub := congrArg Prod.fst h'
    have h2 : rep = repr := congrArg Prod.snd h'
    exact ⟨u, hu, by rw [hr, h2], h1.symm⟩
  · rintro ⟨u, hu, hr, hp⟩
    exact ⟨u, hu, by rw [Option.map_eq_some_iff]; exact ⟨repr, hr, by rw [hp]⟩⟩

theorem sq_mod (a : Nat) : F25519.sq (a % p) = F25519.sq a := by
  unfold F25519.sq; rw [Nat.mul_mod, Nat.mod_mod, ← Nat.mul_mod]

theorem specMap_mod (a : Nat) : specMap (a % p) = specMap a := by
  unfold specMap; rw [sq_mod]

end bytes

/-! ## 2. the model's direct map is the textbook map -/

section model

/-- `A = 486662` in the field -/
abbrev AK : K := φ 486662

theorem chi_lt (a : Nat) : chi a < p := pow_lt _ _

theorem AK_ne_zero : AK ≠ 0 := by
  intro h
  have h' : φ 486662 = φ 0 := by simpa using h
  rw [φ_inj (by decide +kernel) p_pos] at h'
  exact absurd h' (by decide)

variable [hp : Fact (Nat.Prime p)]

/-- `A² − 4` is not a square mod p (so `w² + A w + 1` has no root) -/
theorem disc_nonsquare : ¬ IsSquare (AK ^ 2 - 4) := by
  have hpow : pow (sub (sq 486662) 4) (p / 2) = neg 1 := by decide +kernel
  have h := congrArg φ hpow
  simp only [φ_pow, φ_sub, φ_sq, φ_neg] at h
  have h4 : φ 4 = (4 : K) := by simp
  have h1 : φ 1 = (1 : K) := by simp
  rw [h4, h1] at h
  have hx : AK ^ 2 - 4 ≠ 0 := by
    intro h0
    rw [h0, zero_pow (by decide +kernel)] at h
    exact one_ne_zero (by linear_combination h)
  exact (K_euler_neg hx).mpr h

theorem quad_ne_zero (W : K) : W ^ 2 + AK * W + 1 ≠ 0 := by
  intro h
  apply disc_nonsquare
  exact ⟨2 * W + AK, by linear_combination (-4 : K) * h⟩

theorem fF_ne_zero {W : K} (hW : W ≠ 0) : fF AK W ≠ 0 := by
  have : fF AK W = W * (W ^ 2 + AK * W + 1) := by unfold fF; ring
  rw [this]; exact mul_ne_zero hW (quad_ne_zero W)

/-- `1 + 2ρ² ≠ 0`: otherwise `2 = (i/ρ)²` -/
theorem one_add_two_sq_ne_zero (ρ : K) : 1 + 2 * ρ ^ 2 ≠ 0 := by
  intro h
  have hρ : ρ ≠ 0 := by
    rintro rfl
    exact one_ne_zero (α := K) (by linear_combination h)
  apply two_nonsquare
  refine ⟨φ sqrtM1 / ρ, ?_⟩
  rw [div_mul_div_comm, eq_div_iff (mul_ne_zero hρ hρ)]
  linear_combination h - sqrtM1_sq

theorem φ_curveRhs (u : Nat) : φ (curveRhs u) = fF AK (φ u) := by
  unfold curveRhs fF; simp only [φ_add, φ_mul, φ_sq]; ring

/-- the model's Legendre symbol is `p − 1` exactly on non-zero non-squares -/
theorem chi_eq_p_sub_one (a : Nat) : chi a = p - 1 ↔ (φ a ≠ 0 ∧ ¬ IsSquare (φ a)) := by
  have hhalf : (p - 1) / 2 = p / 2 := by decide +kernel
  have hneg : φ (p - 1) = -1 := by
    have : neg 1 = p - 1 := by decide +kernel
    rw [← this]; simp
  rw [← φ_inj (chi_lt a) (by decide +kernel : p - 1 < p), hneg, chi, φ_pow, hhalf]
  by_cases ha : φ a = 0
  · rw [ha, zero_pow (by decide +kernel)]
    constructor
    · intro h; exact absurd (by linear_combination h) (one_ne_zero (α := K))
    · intro h; exact absurd rfl h.1
  · rw [← K_euler_neg ha]; simp [ha]

/-- **The code's map is the textbook map**: the u-coordinate computed by the Monocypher-style
`elligator2.MontgomeryFlavor` equals `specMap` on every input. -/
theorem montgomeryFlavor_fst (r : Nat) : (montgomeryFlavor r).1 = specMap r := by
  obtain ⟨u0, hu0d⟩ : ∃ x, x = add (mul (sq r) mTWO) mONE := ⟨_, rfl⟩
  obtain ⟨t3, ht3d⟩ : ∃ x, x = mul (sub (mul mA_SQUARED (mul (sq r) mTWO)) (sq u0)) mA := ⟨_, rfl⟩
  obtain ⟨den, hdend⟩ : ∃ x, x = mul (mul (sq u0) u0) t3 := ⟨_, rfl⟩
  have hdef : (montgomeryFlavor r).1 =
      mul (mul (mul (mul (select mONE (mul (sq r) mU_FACTOR) (sqrtRatio mONE den).2) mNEG_A) t3) (sq u0))
        (sq (sqrtRatio mONE den).1) := by
    rw [hdend, ht3d, hu0d]; rfl
  have cTWO : φ mTWO = 2 := by simp [mTWO]
  have cONE : φ mONE = 1 := by simp [mONE]
  have cA : φ mA = AK := rfl
  have cA2 : φ mA_SQUARED = AK ^ 2 := by
    have : mA_SQUARED = mul 486662 486662 := by decide +kernel
    rw [this, φ_mul]; ring
  have cNA : φ mNEG_A = -AK := by
    have : mNEG_A = neg 486662 := by decide +kernel
    rw [this]; simp
  have cUF : φ mU_FACTOR = -2 * φ sqrtM1 := by
    have : mU_FACTOR = mul (neg 2) sqrtM1 := by decide +kernel
    rw [this]; simp
  obtain ⟨ρ, hρ⟩ : ∃ x : K, x = φ r := ⟨_, rfl⟩
  have hu0 : φ u0 = 1 + 2 * ρ ^ 2 := by
    rw [hu0d]; simp only [φ_add, φ_mul, φ_sq, cTWO, cONE, ← hρ]; ring
  have ht3 : φ t3 = (AK ^ 2 * (2 * ρ ^ 2) - (1 + 2 * ρ ^ 2) ^ 2) * AK := by
    rw [ht3d]; simp only [φ_mul, φ_sub, φ_sq, cTWO, cA, cA2, hu0, ← hρ]; ring
  have hden : φ den = (1 + 2 * ρ ^ 2) ^ 2 * (1 + 2 * ρ ^ 2) * ((AK ^ 2 * (2 * ρ ^ 2) - (1 + 2 * ρ ^ 2) ^ 2) * AK) := by
    rw [hdend]; simp only [φ_mul, φ_sq, hu0, ht3]
  have hu0ne := one_add_two_sq_ne_zero ρ
  -- W = −A/(1+2ρ²) and f(W)
  obtain ⟨W, hW⟩ : ∃ x : K, x = -AK / (1 + 2 * ρ ^ 2) := ⟨_, rfl⟩
  have hWne : W ≠ 0 := by
    rw [hW]; exact div_ne_zero (neg_ne_zero.mpr AK_ne_zero) hu0ne
  have hfne := fF_ne_zero hWne
  have hfw := f_of_w AK ρ hu0ne
  rw [← hW] at hfw
  have hden' : φ den = ((1 + 2 * ρ ^ 2) ^ 3) ^ 2 * fF AK W := by
    rw [hden]; linear_combination (-(1 + 2 * ρ ^ 2) ^ 3) * hfw
  have hdenne : φ den ≠ 0 := by
    rw [hden']; exact mul_ne_zero (pow_ne_zero _ (pow_ne_zero _ hu0ne)) hfne
  have hsqiff : IsSquare (φ den) ↔ IsSquare (fF AK W) := by
    rw [hden']; exact isSquare_sq_mul (pow_ne_zero _ hu0ne)
  -- the spec side
  obtain ⟨w, hwd⟩ : ∃ x, x = mul (neg 486662) (inv (add 1 (mul 2 (sq r)))) := ⟨_, rfl⟩
  have hw : φ w = W := by
    rw [hwd, hW, φ_mul, φ_neg, φ_inv, φ_add, φ_mul, φ_sq, ← hρ, div_eq_mul_inv]
    have h1 : φ 1 = (1 : K) := by simp
    have h2 : φ 2 = (2 : K) := by simp
    rw [h1, h2]
  have hspec : specMap r = if chi (curveRhs w) = p - 1 then sub (neg w) 486662 else w := by
    rw [hwd]; rfl
  have hchi : chi (curveRhs w) = p - 1 ↔ ¬ IsSquare (fF AK W) := by
    rw [chi_eq_p_sub_one, φ_curveRhs, hw]
    exact ⟨fun h => h.2, fun h => ⟨hfne, h⟩⟩
  obtain ⟨hflag, hlt, hiff, hsq1, hsq0, -⟩ := sqrtRatio_one_spec den
  rw [show (1 : Nat) = mONE from rfl] at hflag hlt hiff hsq1 hsq0
  rw [hdef, hspec]
  by_cases hs : IsSquare (fF AK W)
  · -- square branch
    have hflag1 : (sqrtRatio mONE den).2 = 1 := hiff.mpr ⟨hdenne, hsqiff.mpr hs⟩
    have hσ := hsq1 hflag1
    rw [hden] at hσ
    rw [if_neg (fun h => (hchi.mp h) hs), hflag1]
    rw [← φ_inj (mul_lt _ _) (by rw [hwd]; exact mul_lt _ _), hw, hW]
    simp only [φ_mul, φ_sq, select, if_true, cONE, cNA, ht3, hu0]
    exact mono_square AK ρ _ hu0ne hσ
  · -- non-square branch
    have hflag0 : (sqrtRatio mONE den).2 = 0 := by
      rcases hflag with h | h
      · exact h
      · exact absurd (hsqiff.mp (hiff.mp h).2) hs
    have hσ := hsq0 hflag0 hdenne
    rw [hden] at hσ
    rw [if_pos (hchi.mpr hs), hflag0]
    rw [← φ_inj (mul_lt _ _) (sub_lt _ _)]
    simp only [select]
    rw [if_neg (by decide)]
    simp only [φ_mul, φ_sq, φ_sub, φ_neg, cNA, cUF, ht3, hu0, hw, ← hρ]
    rw [hW]
    exact mono_nonsquare AK ρ _ _ sqrtM1_sq hu0ne hσ

/-- the textbook map of the model is the abstract `specF` in `ZMod p` -/
theorem φ_specMap (r : Nat) : φ (specMap r) = specF AK (φ r) := by
  obtain ⟨w, hwd⟩ : ∃ x, x = mul (neg 486662) (inv (add 1 (mul 2 (sq r)))) := ⟨_, rfl⟩
  have hspec : specMap r = if chi (curveRhs w) = p - 1 then sub (neg w) 486662 else w := by
    rw [hwd]; rfl
  have hw : φ w = -AK / (1 + 2 * φ r ^ 2) := by
    rw [hwd, φ_mul, φ_neg, φ_inv, φ_add, φ_mul, φ_sq, div_eq_mul_inv]
    have h1 : φ 1 = (1 : K) := by simp
    have h2 : φ 2 = (2 : K) := by simp
    rw [h1, h2]
  have hWne : φ w ≠ 0 := by
    rw [hw]; exact div_ne_zero (neg_ne_zero.mpr AK_ne_zero) (one_add_two_sq_ne_zero _)
  have hchi : chi (curveRhs w) = p - 1 ↔ ¬ IsSquare (fF AK (φ w)) := by
    rw [chi_eq_p_sub_one, φ_curveRhs]
    exact ⟨fun h => h.2, fun h => ⟨fF_ne_zero hWne, h⟩⟩
  rw [hspec]; unfold specF; rw [← hw]
  by_cases hs : IsSquare (fF AK (φ w))
  · rw [if_neg (fun h => (hchi.mp h) hs), if_pos hs]
  · rw [if_pos (hchi.mpr hs), if_neg hs, φ_sub, φ_neg]

/-! ## 3. bytes: decoding ignores the top bits; the inverse map -/

/-- The inverse map `uToRepresentative`: it fails exactly when `−2u(u+A)` is not a non-zero square;
when it succeeds the representative encodes the canonical-sign root `t` of the branch's equation. -/
theorem uToRepresentative_spec (u : Nat) (tweak : UInt8) :
    (uToRepresentative u tweak = none ↔
      ¬ (-2 * φ u * (φ u + AK) ≠ 0 ∧ IsSquare (-2 * φ u * (φ u + AK)))) ∧
    (∀ repr, uToRepresentative u tweak = some repr →
        ((tweak &&& 1).toNat ≠ 1 → φ (tOf u tweak) ^ 2 * (2 * (φ u + AK)) = - φ u) ∧
        ((tweak &&& 1).toNat = 1 → φ (tOf u tweak) ^ 2 * (2 * φ u) = -(φ u + AK))) := by
  have cN2 : φ feNegTwo = -2 := by
    have : feNegTwo = neg 2 := by decide +kernel
    rw [this]; simp
  have hx : φ (xOf u) = -2 * φ u * (φ u + AK) := by
    unfold xOf; simp only [φ_mul, φ_add, φ_red, cN2]; rw [show φ feA = AK from rfl]; ring
  obtain ⟨-, -, hiff, hsq1, -, -⟩ := sqrtRatio_one_spec (xOf u)
  rw [← hx]
  constructor
  · rw [uToRepresentative_def, ← hiff]
    by_cases h : (sqrtRatio 1 (xOf u)).2 = 1 <;> simp [h]
  · intro repr hrepr
    obtain ⟨-, h⟩ := uToRepresentative_shape u tweak repr hrepr
    have hτ := hsq1 h
    obtain ⟨-, hsign⟩ := tOf_sign u tweak
    have hsq : φ (tOf u tweak) ^ 2 = φ (yOf u tweak) ^ 2 := by
      rcases hsign with h' | h' <;> rw [h']; ring
    rw [hx] at hτ
    constructor
    · intro hb
      rw [hsq]; unfold yOf; simp only [select]; rw [if_neg hb]
      simp only [φ_mul, φ_red]
      linear_combination (-φ u) * hτ
    · intro hb
      rw [hsq]; unfold yOf; simp only [select]; rw [if_pos hb]
      simp only [φ_mul, φ_add, φ_red]
      rw [show φ feA = AK from rfl]
      linear_combination (-(φ u + AK)) * hτ

end model

end O4.Crypto.Ell2
