import O4.Model.Obfs4Server
import O4.Lemmas.ReplayFilter
/-!
Helper lemmas for C03 / C04 (core only): `math/rand.Intn` range, decimal rendering of the epoch hour is
injective, characterisation of `parseClientHandshake`'s outcomes, invariants of the `WrapConn` machine.
-/
namespace O4.GoRand

theorem rejectLoop_lt {σ : Type} (draw : σ → Nat × σ) (max n : Nat) (hn : 0 < n) :
    ∀ (fuel : Nat) (s : σ) (v : Nat) (s' : σ), rejectLoop draw max n fuel s = some (v, s') → v < n := by
  intro fuel
  induction fuel with
  | zero => intro s v s' h; simp [rejectLoop] at h
  | succ f ih =>
    intro s v s' h
    unfold rejectLoop at h
    simp only at h
    split at h
    · exact ih _ _ _ h
    · simp only [Option.some.injEq, Prod.mk.injEq] at h
      rw [← h.1]; exact Nat.mod_lt _ hn

theorem and_pred_lt (v n : Nat) (hn : 0 < n) : v &&& (n - 1) < n := by
  have := @Nat.and_le_right v (n - 1)
  omega

/-- `Intn(n)` returns a value in `[0, n)` -/
theorem intn_lt {σ : Type} (src : Source σ) (n : Nat) (s : σ) (v : Nat) (s' : σ)
    (h : intn src n s = some (v, s')) : v < n := by
  unfold intn at h
  split at h
  · simp at h
  · rename_i hn
    have hn : 0 < n := by
      rcases Nat.eq_zero_or_pos n with h0 | h0
      · subst h0; simp at hn
      · exact h0
    split at h
    · unfold int31n at h
      split at h
      · simp only [Option.some.injEq, Prod.mk.injEq] at h
        rw [← h.1]; exact and_pred_lt _ _ hn
      · exact rejectLoop_lt _ _ _ hn _ _ _ _ h
    · unfold int63n at h
      split at h
      · simp only [Option.some.injEq, Prod.mk.injEq] at h
        rw [← h.1]; exact and_pred_lt _ _ hn
      · exact rejectLoop_lt _ _ _ hn _ _ _ _ h

end O4.GoRand

namespace O4.Handshake

/-! ## `strconv.FormatInt(h, 10)` is injective -/


theorem ba_loop (bs : ByteArray) (i : Nat) (r : List UInt8) (hi : i ≤ bs.size) :
    ByteArray.toList.loop bs i r = r.reverse ++ bs.data.toList.drop i := by
  have hsz : bs.size = bs.data.toList.length := by
    rw [Array.length_toList]; rfl
  induction h : bs.size - i generalizing i r with
  | zero =>
    unfold ByteArray.toList.loop
    have : ¬ i < bs.size := by omega
    rw [if_neg this]
    have : bs.data.toList.length ≤ i := by omega
    rw [List.drop_eq_nil_of_le this]; simp
  | succ n ih =>
    unfold ByteArray.toList.loop
    have hlt : i < bs.size := by omega
    rw [if_pos hlt, ih (i+1) _ (by omega) (by omega)]
    have hl : i < bs.data.toList.length := by omega
    have : bs.data.toList.drop i = bs.get! i :: bs.data.toList.drop (i+1) := by
      rw [List.drop_eq_getElem_cons hl]
      congr 1
      have hl' : i < bs.data.size := by rw [Array.length_toList] at hl; exact hl
      show _ = bs.data[i]!
      rw [getElem!_pos bs.data i hl']
      simp
    rw [this]; simp

theorem byteArray_toList (bs : ByteArray) : bs.toList = bs.data.toList := by
  unfold ByteArray.toList; rw [ba_loop bs 0 [] (by omega)]; simp

theorem utf8_ofList (l : List Char) :
    (String.ofList l).toUTF8.toList = l.flatMap (fun c => String.utf8EncodeChar c) := by
  simp [String.toUTF8, List.utf8Encode, byteArray_toList]

theorem enc_digit (n : Nat) (h : n < 10) :
    String.utf8EncodeChar (Char.ofNat (48 + n)) = [UInt8.ofNat (48 + n)] := by
  have : n = 0 ∨ n = 1 ∨ n = 2 ∨ n = 3 ∨ n = 4 ∨ n = 5 ∨ n = 6 ∨ n = 7 ∨ n = 8 ∨ n = 9 := by omega
  rcases this with h|h|h|h|h|h|h|h|h|h <;> subst h <;> decide

/-- the decimal digits as bytes -/
def digitBytes : Nat → Nat → Bytes
  | 0, _ => []
  | fuel + 1, n =>
    if n < 10 then [UInt8.ofNat (48 + n)] else digitBytes fuel (n / 10) ++ [UInt8.ofNat (48 + n % 10)]

theorem natDigits_bytes (fuel n : Nat) :
    (natDigits fuel n).flatMap (fun c => String.utf8EncodeChar c) = digitBytes fuel n := by
  induction fuel generalizing n with
  | zero => rfl
  | succ f ih =>
    unfold natDigits digitBytes
    split
    · rename_i h; simp [enc_digit n h]
    · rw [List.flatMap_append, ih]
      simp [enc_digit (n % 10) (Nat.mod_lt _ (by omega))]

/-- value of a digit string -/
def digitsVal (b : Bytes) : Nat := b.foldl (fun a x => a * 10 + (x.toNat - 48)) 0

theorem digitsVal_append (a : Bytes) (x : UInt8) : digitsVal (a ++ [x]) = digitsVal a * 10 + (x.toNat - 48) := by
  simp [digitsVal, List.foldl_append]

theorem digitsVal_digitBytes (fuel n : Nat) (h : n < fuel) : digitsVal (digitBytes fuel n) = n := by
  induction fuel generalizing n with
  | zero => omega
  | succ f ih =>
    unfold digitBytes
    split
    · rename_i h10
      simp only [digitsVal, List.foldl_cons, List.foldl_nil, UInt8.toNat_ofNat']
      omega
    · rename_i h10
      rw [digitsVal_append, ih (n / 10) (by omega)]
      simp only [UInt8.toNat_ofNat']
      omega

theorem digitBytes_ge (fuel n : Nat) : ∀ x ∈ digitBytes fuel n, 48 ≤ x.toNat := by
  induction fuel generalizing n with
  | zero => intro x hx; simp [digitBytes] at hx
  | succ f ih =>
    intro x hx
    unfold digitBytes at hx
    split at hx
    · simp only [List.mem_singleton] at hx; subst hx; simp only [UInt8.toNat_ofNat']; omega
    · rcases List.mem_append.mp hx with hx | hx
      · exact ih _ x hx
      · simp only [List.mem_singleton] at hx; subst hx; simp only [UInt8.toNat_ofNat']; omega

theorem epochStr_eq (h : Int) :
    epochStr h = if h < 0 then 45 :: digitBytes (h.natAbs + 1) h.natAbs else digitBytes (h.natAbs + 1) h.natAbs := by
  unfold epochStr
  simp only [utf8_ofList, natDigits_bytes]

/-- **decimal rendering is injective**: `strconv.FormatInt(·, 10)` of two different hours differ -/
theorem epochStr_injective (a b : Int) (h : epochStr a = epochStr b) : a = b := by
  rw [epochStr_eq, epochStr_eq] at h
  have va := digitsVal_digitBytes (a.natAbs + 1) a.natAbs (by omega)
  have vb := digitsVal_digitBytes (b.natAbs + 1) b.natAbs (by omega)
  by_cases ha : a < 0 <;> by_cases hb : b < 0
  · rw [if_pos ha, if_pos hb] at h
    have := (List.cons.inj h).2
    rw [this] at va; omega
  · rw [if_pos ha, if_neg hb] at h
    have : (45 : UInt8) ∈ digitBytes (b.natAbs + 1) b.natAbs := by rw [← h]; simp
    have := digitBytes_ge _ _ _ this
    simp at this
  · rw [if_neg ha, if_pos hb] at h
    have : (45 : UInt8) ∈ digitBytes (a.natAbs + 1) a.natAbs := by rw [h]; simp
    have := digitBytes_ge _ _ _ this
    simp at this
  · rw [if_neg ha, if_neg hb] at h
    rw [h] at va; omega

end O4.Handshake

/-! ## `parseClientHandshake`: unfolding, the MAC loop, the acceptance predicate -/
namespace O4.Handshake
open O4.Consts.Obfs4 O4.Consts.Ntor

/-- the (representative, mark) pair the parser works with on `resp` -/
def cacheOn (P : Prims) (s : Server) (resp : Bytes) : ServerCache :=
  match s.cache with
  | some k => k
  | none => { repr := resp.take representativeLength, mrk := mark P s.idPub s.nodeID (resp.take representativeLength) }

/-- position of `M_C` when it sits at the tail of (the first `maxHandshakeLength` bytes of) `resp` -/
def markPos (P : Prims) (s : Server) (resp : Bytes) : Option Nat :=
  findMarkMac (cacheOn P s resp).mrk resp (representativeLength + clientMinPadLength) maxHandshakeLength true

/-- the handshake state with the cache filled -/
def withCache (P : Prims) (s : Server) (resp : Bytes) : Server := { s with cache := some (cacheOn P s resp) }

def bodyAt (resp : Bytes) (pos : Nat) : Bytes := resp.take (pos + markLength)
def macAt (resp : Bytes) (pos : Nat) : Bytes := (resp.drop (pos + markLength)).take macLength

/-- `ntor.ServerHandshake` succeeded -/
def ntorOf (P : Prims) (s : Server) (k : ServerCache) : Bool × Bytes × Bytes :=
  Ntor.serverHandshake P.toPrims (P.reprToPublic k.repr) s.yPriv s.yPub s.idPriv s.idPub s.nodeID

theorem parse_unfold (P : Prims) (s : Server) (f : RF.Filter) (H now : Int) (resp : Bytes) :
    parseClientHandshake P s f H now resp =
      if resp.length < clientMinHandshakeLength then (s, f, .err .markNotFoundYet) else
      match markPos P s resp with
      | none =>
        if resp.length ≥ maxHandshakeLength then (withCache P s resp, f, .err .invalidHandshake)
        else (withCache P s resp, f, .err .markNotFoundYet)
      | some pos =>
        match macLoop P (withCache P s resp) (bodyAt resp pos) (macAt resp pos) H now [0, -1, 1] f none with
        | (f', .error ()) => (withCache P s resp, f', .err .replayed)
        | (f', .ok none) => (withCache P s resp, f', .err .invalidHandshake)
        | (f', .ok (some h)) =>
          if resp.length ≠ pos + markLength + macLength then
            ({ withCache P s resp with hour := some h }, f', .err .invalidHandshake)
          else if !(ntorOf P s (cacheOn P s resp)).1 then
            ({ withCache P s resp with hour := some h }, f', .err .ntorFailed)
          else
            ({ withCache P s resp with hour := some h, auth := some (ntorOf P s (cacheOn P s resp)).2.2 }, f',
              .ok (ntorOf P s (cacheOn P s resp)).2.1) := by
  rfl

end O4.Handshake

namespace O4.Handshake
open O4.Consts.Obfs4 O4.Consts.Ntor

/-- the loop's verdict is one of three -/
theorem macLoop_cases (P : Prims) (s : Server) (body macRx : Bytes) (H now : Int) (offs : List Int)
    (f : RF.Filter) (found : Option Int) :
    let r := macLoop P s body macRx H now offs f found
    r.2 = .error () ∨ r.2 = .ok none ∨ ∃ h, r.2 = .ok (some h) := by
  intro r
  rcases hr : r.2 with e | o
  · left; cases e; rfl
  · cases o with
    | none => right; left; rfl
    | some h => right; right; exact ⟨h, rfl⟩

/-- no offset matches ⇒ nothing is submitted to the filter and nothing is found -/
theorem macLoop_no_match (P : Prims) (s : Server) (body macRx : Bytes) (H now : Int) (offs : List Int)
    (f : RF.Filter) (found : Option Int)
    (hno : ∀ off ∈ offs, mac P s.idPub s.nodeID body (H + off) ≠ macRx) :
    macLoop P s body macRx H now offs f found = (f, .ok found) := by
  induction offs generalizing f found with
  | nil => rfl
  | cons off rest ih =>
    unfold macLoop
    rw [if_neg (hno off (by simp))]
    exact ih f found (fun o ho => hno o (by simp [ho]))

/-- a found hour is a matching hour of the window (or the one carried in) -/
theorem macLoop_some (P : Prims) (s : Server) (body macRx : Bytes) (H now : Int) (offs : List Int)
    (f f' : RF.Filter) (found : Option Int) (h : Int)
    (hr : macLoop P s body macRx H now offs f found = (f', .ok (some h))) :
    found = some h ∨ ∃ off ∈ offs, h = H + off ∧ mac P s.idPub s.nodeID body (H + off) = macRx := by
  induction offs generalizing f found with
  | nil => simp [macLoop] at hr; exact Or.inl hr.2
  | cons off rest ih =>
    unfold macLoop at hr
    split at hr
    · rename_i hm
      simp only at hr
      split at hr
      · simp at hr
      · rcases ih _ _ hr with h1 | ⟨o, ho, h2⟩
        · right; exact ⟨off, by simp, by simpa using h1.symm, hm⟩
        · right; exact ⟨o, by simp [ho], h2⟩
    · rcases ih _ _ hr with h1 | ⟨o, ho, h2⟩
      · exact Or.inl h1
      · right; exact ⟨o, by simp [ho], h2⟩

/-- nothing found (starting from nothing) ⇒ no offset matched -/
theorem macLoop_none (P : Prims) (s : Server) (body macRx : Bytes) (H now : Int) (offs : List Int)
    (f f' : RF.Filter) (found : Option Int)
    (hr : macLoop P s body macRx H now offs f found = (f', .ok none)) :
    found = none ∧ ∀ off ∈ offs, mac P s.idPub s.nodeID body (H + off) ≠ macRx := by
  induction offs generalizing f found with
  | nil => simp [macLoop] at hr; exact ⟨hr.2, by simp⟩
  | cons off rest ih =>
    unfold macLoop at hr
    split at hr
    · simp only at hr
      split at hr
      · simp at hr
      · have := (ih _ _ hr).1; simp at this
    · rename_i hm
      have := ih _ _ hr
      refine ⟨this.1, ?_⟩
      intro o ho
      simp at ho
      rcases ho with rfl | ho
      · exact hm
      · exact this.2 o ho

/-- `MAC_C` is valid for the previous, the current or the next hour of the server's clock -/
def MacValid (P : Prims) (s : Server) (H : Int) (resp : Bytes) (pos : Nat) : Prop :=
  ∃ off ∈ ([0, -1, 1] : List Int), mac P s.idPub s.nodeID (bodyAt resp pos) (H + off) = macAt resp pos

/-- none of the replay-filter submissions the MAC loop makes is answered "seen" -/
def NotReplay (P : Prims) (s : Server) (f : RF.Filter) (H now : Int) (resp : Bytes) (pos : Nat) : Prop :=
  (macLoop P (withCache P s resp) (bodyAt resp pos) (macAt resp pos) H now [0, -1, 1] f none).2 ≠ .error ()

/-- **the acceptance predicate of `parseClientHandshake`**: long enough, `M_C` at the tail, `MAC_C`
    valid for hour−1 / hour / hour+1, not a replay, no trailing bytes, ntor succeeded. -/
def Accepts (P : Prims) (s : Server) (f : RF.Filter) (H now : Int) (resp : Bytes) : Prop :=
  clientMinHandshakeLength ≤ resp.length ∧
  ∃ pos, markPos P s resp = some pos ∧ MacValid P s H resp pos ∧ NotReplay P s f H now resp pos ∧
    resp.length = pos + markLength + macLength ∧ (ntorOf P s (cacheOn P s resp)).1 = true

theorem withCache_ids (P : Prims) (s : Server) (resp : Bytes) :
    (withCache P s resp).idPub = s.idPub ∧ (withCache P s resp).nodeID = s.nodeID := ⟨rfl, rfl⟩

theorem accepts_iff (P : Prims) (s : Server) (f : RF.Filter) (H now : Int) (resp : Bytes) :
    (∃ seed, (parseClientHandshake P s f H now resp).2.2 = .ok seed) ↔ Accepts P s f H now resp := by
  rw [parse_unfold]
  unfold Accepts
  by_cases hlen : resp.length < clientMinHandshakeLength
  · rw [if_pos hlen]; simp; omega
  · rw [if_neg hlen]
    cases hp : markPos P s resp with
    | none =>
      simp only
      constructor
      · intro ⟨seed, h⟩; split at h <;> simp at h
      · intro ⟨_, pos, h, _⟩; simp at h
    | some pos =>
      simp only
      rcases hm : macLoop P (withCache P s resp) (bodyAt resp pos) (macAt resp pos) H now [0, -1, 1] f none with ⟨f', v⟩
      rcases v with e | o
      · cases e
        simp only
        constructor
        · intro ⟨seed, h⟩; simp at h
        · intro ⟨_, pos', h, _, hnr, _⟩
          simp only [Option.some.injEq] at h; subst h
          exact absurd (by rw [hm]) hnr
      · cases o with
        | none =>
          simp only
          constructor
          · intro ⟨seed, h⟩; simp at h
          · intro ⟨_, pos', h, ⟨off, ho, hv⟩, _⟩
            simp only [Option.some.injEq] at h; subst h
            exact absurd hv ((macLoop_none P _ _ _ H now _ f f' none hm).2 off ho)
        | some h =>
          simp only
          have hvalid : MacValid P s H resp pos := by
            rcases macLoop_some P _ _ _ H now _ f f' none h hm with h0 | ⟨off, ho, _, hv⟩
            · simp at h0
            · exact ⟨off, ho, hv⟩
          have hnr : NotReplay P s f H now resp pos := by unfold NotReplay; rw [hm]; simp
          by_cases htr : resp.length ≠ pos + markLength + macLength
          · rw [if_pos htr]
            constructor
            · intro ⟨seed, h⟩; simp at h
            · intro ⟨_, pos', h, _, _, hl, _⟩
              simp only [Option.some.injEq] at h; subst h; exact absurd hl htr
          · rw [if_neg htr]
            by_cases hn : (ntorOf P s (cacheOn P s resp)).1 = true
            · rw [if_neg (by simp [hn])]
              constructor
              · intro _
                exact ⟨by omega, pos, rfl, hvalid, hnr, by omega, hn⟩
              · intro _; exact ⟨_, rfl⟩
            · have hn' : (ntorOf P s (cacheOn P s resp)).1 = false := by simpa using hn
              rw [if_pos (by simp [hn'])]
              constructor
              · intro ⟨seed, h⟩; simp at h
              · intro ⟨_, pos', h, _, _, _, hnt⟩
                simp only [Option.some.injEq] at h; subst h
                rw [hn'] at hnt; simp at hnt

/-- `ErrMarkNotFoundYet` is only ever returned for a buffer shorter than `maxHandshakeLength`, and it
    leaves the replay filter alone -/
theorem notFoundYet (P : Prims) (s s' : Server) (f f' : RF.Filter) (H now : Int) (resp : Bytes)
    (h : parseClientHandshake P s f H now resp = (s', f', .err .markNotFoundYet)) :
    resp.length < maxHandshakeLength ∧ f' = f := by
  rw [parse_unfold] at h
  split at h
  · rename_i hl
    simp only [Prod.mk.injEq] at h
    exact ⟨by have : clientMinHandshakeLength ≤ maxHandshakeLength := by decide
              omega, h.2.1.symm⟩
  · split at h
    · split at h
      · simp at h
      · rename_i hl
        simp only [Prod.mk.injEq] at h
        exact ⟨by omega, h.2.1.symm⟩
    · split at h
      · simp at h
      · simp at h
      · split at h
        · simp at h
        · split at h <;> simp at h

end O4.Handshake

namespace O4.Obfs4Server
open O4.Consts.Obfs4 O4.Handshake

theorem closeDelayOfSeed_lt (seed : Bytes) (cd : Nat) (h : closeDelayOfSeed seed = some cd) :
    cd < maxCloseDelay := by
  unfold closeDelayOfSeed at h
  split at h
  · rename_i v s' hv
    simp only [Option.some.injEq] at h
    subst h
    exact GoRand.intn_lt _ _ _ _ _ hv
  · simp at h

end O4.Obfs4Server
